"""C17 — a commandable value equals its highest-priority command or the default.

Implementation drivers (direct WriteProperty on the object, and WritePropertyRequest /
ReadPropertyRequest between two applications on a virtual LAN), generators, the correspondence
cases against coq/theories/Prio.v and the direct, implementation-only predicate."""
import itertools
from core import Case
from pyerr import exc_code

PROP = 'C17'
COQ_TARGETS = ['theories/PrioFacts.vo', 'theories/PrioHold.vo']
COQ_IMPORTS = 'From Bac Require Import Base Prio.'
RULE = ('cases: a history = constructor arguments + a list of ops (write v / relinquish at priority p or without priority, '
        'p also from {0,-1,17,255,300}; clock advance dt) run on a fresh object of one of the 20 ...CmdObject classes, '
        'through direct WriteProperty or through WritePropertyRequest/ReadPropertyRequest over a vlan; after every op the '
        'result code, presentValue, the pending MinOnOffTask deadline and all 16 slots (packed base 64 into one number) are compared with the model. '
        'Exhaustive: every sequence of length <= 2 over priorities {1,8,16,none} x 3 values x {write,relinquish} per class; '
        'random length-100 sequences over all 16 priorities per class and path; full-range histories (every value of a per-datatype '
        'table spanning its range - doubles that are not binary32-exact, extreme/negative integers, 2^32-1, non-ASCII and long strings, '
        'every enumeration value, wildcard dates/times - commanded on each class, both paths; over the wire the decoded slot must be '
        'bit-exactly the commanded value in the PriorityValue alternative of the class datatype); binary classes with minimum on/off times '
        '0..10 s and clock advances 0..12 s; commands while a hold is running: every sequence of length <= 2 (3 for BinaryValue) over '
        '{write active/inactive, relinquish} x priorities {3, 8} + clock steps {1, 2} for minimum on/off times in {0,2,3}^2 minus (0,0), and '
        'longer scenarios (state flipped at priority 1/3/5 during the hold, the holding command relinquished, the override relinquished before/at/after the deadline).  '
        'non-trivial = at least one accepted command; distinct by (class, path, '
        'constructor arguments, ops).  direct: the same domains, exhaustive up to length 3 (quick; 4 for BinaryValue) / 4 (thorough; 5 for AnalogValue, BinaryValue) per class; the hold alphabet exhaustively to length 4 (BinaryValue; 3 BinaryOutput) / 5 (4) for all 8 time configurations and both initial states.')
TRUSTED = ['model coq/theories/Prio.v written by hand after local/object.py:_Commando.__init__/_highest_priority_value/'
           'WriteProperty, MinOnOffTask, and the store-then-monitors tail of object.py:Property.WriteProperty; tie = correspondence',
           'values are compared through a per-datatype table of 4-15 sample values spanning the range of the datatype (codes; floats keyed by float.hex, no NaN / -0.0); the expected PriorityValue alternative per datatype is a table of the harness, not read from the implementation',
           'virtual clock: bacpypes.task._time replaced by the harness; tasks run by the harness loop (get_next_task/process_task)']
ASSUMPTIONS = ['values written are valid for the datatype and given in the form the API documents (enumerations by name)',
               'the ...CmdObject classes are registered with register_object_type(cls, vendor_id=999) as the samples do',
               'binary objects with minimum on/off times are constructed with an explicit presentValue',
               'clock advances are whole seconds; all due tasks are run after each advance']

NOW = [0]
_ENV = {}

CLASS_NAMES = ['AccessDoorCmdObject', 'AnalogOutputCmdObject', 'AnalogValueCmdObject', 'BinaryOutputCmdObject',
               'BinaryValueCmdObject', 'BitStringValueCmdObject', 'CharacterStringValueCmdObject', 'DateValueCmdObject',
               'DatePatternValueCmdObject', 'DateTimeValueCmdObject', 'DateTimePatternValueCmdObject',
               'IntegerValueCmdObject', 'LargeAnalogValueCmdObject', 'LightingOutputCmdObject',
               'MultiStateOutputCmdObject', 'MultiStateValueCmdObject', 'OctetStringValueCmdObject',
               'PositiveIntegerValueCmdObject', 'TimeValueCmdObject', 'TimePatternValueCmdObject']
BINARY = ('BinaryOutputCmdObject', 'BinaryValueCmdObject')


def env():
    """one virtual clock, one task manager, the 20 classes registered, two applications on a vlan"""
    if _ENV:
        return _ENV
    import bacpypes.task as task
    import bacpypes.core as bcore
    task._time = lambda: NOW[0]
    tm = task.TaskManager()
    from bacpypes.local import object as lo
    from bacpypes.object import register_object_type
    from bacpypes import primitivedata as pd
    from bacpypes import basetypes as bt
    from bacpypes.comm import bind
    from bacpypes.pdu import Address, LocalBroadcast
    from bacpypes.vlan import Network, Node
    from bacpypes.app import Application
    from bacpypes.appservice import StateMachineAccessPoint, ApplicationServiceAccessPoint
    from bacpypes.netservice import NetworkServiceAccessPoint, NetworkServiceElement
    from bacpypes.local.device import LocalDeviceObject
    from bacpypes.service.object import ReadWritePropertyServices

    # every class in local/object.py that carries the commandable mix-in must be in our list
    found = sorted(n for n in dir(lo) if isinstance(getattr(lo, n), type) and hasattr(getattr(lo, n), '_highest_priority_value')
                   and n != '_Commando')
    assert found == sorted(CLASS_NAMES), ('commandable classes changed', found)

    DT = bt.DateTime
    import struct

    def f32(x):
        return struct.unpack('>f', struct.pack('>f', x))[0]
    # Per datatype: code 0 = the datatype's default; codes 1..3 (used by the exhaustive sweeps) are the awkward ones;
    # the rest spans the range of the datatype.  Real values are binary32-exact (what the datatype can hold), Double
    # values deliberately are not; no NaN and no -0.0 (Python's == is not bit equality there).
    reals = [0.0, f32(0.1), f32(-1.0 / 3), 3.4028234663852886e38, 1.5, 2.5, -3.25, 1.401298464324817e-45, f32(12345678.9),
             -3.4028234663852886e38, float('inf'), 1.0]
    doubles = [0.0, 0.1, 1e-50, 12345678.9, 1.5, -1.0 / 3, 1.7976931348623157e308, 5e-324, 3.5e38, -2.5e-10, float('-inf'),
               -20.25, 0.10000000149011612]
    dates = [(255, 255, 255, 255), (120, 1, 1, 3), (255, 12, 31, 255), (99, 255, 15, 255), (121, 12, 31, 5), (0, 1, 1, 1),
             (254, 13, 32, 7), (124, 14, 33, 255), (124, 2, 34, 255), (255, 255, 255, 1),
             (120, 1, 1, 4), (120, 1, 2, 4), (120, 2, 2, 4), (121, 2, 2, 4)]
    times = [(255, 255, 255, 255), (1, 2, 3, 4), (255, 0, 0, 0), (12, 255, 255, 255), (12, 0, 0, 0), (23, 59, 59, 99),
             (0, 0, 0, 0), (255, 255, 255, 0), (1, 2, 3, 5), (1, 2, 4, 5), (1, 3, 4, 5), (2, 3, 4, 5)]
    pools = {
        'Real': reals, 'Double': doubles,
        'DoorValue': ['lock', 'unlock', 'pulseUnlock', 'extendedPulseUnlock'],
        'BinaryPV': ['inactive', 'active'],
        'BitString': [[], [1], [0, 1], [1, 1, 0], [0] * 8, [1] * 9, [1, 0] * 20, [0] * 7 + [1]],
        'CharacterString': ['', 'a', 'b', 'h\u00e9llo \u20ac', 'hello', 'x' * 40, ' ', 'A' * 5],
        'Date': dates, 'Time': times,
        # constructed values: neighbours in the table (and the codes 1..3 of the exhaustive sweeps) agree in one component
        # and differ in the other - 1/2 same date, other time; 2/3 same time, other date
        'DateTime': [DT()] + [DT(date=d, time=t) for d, t in
                              [(dates[1], times[1]), (dates[1], times[2]), (dates[3], times[2]), (dates[0], times[0]),
                               (dates[4], times[5]), (dates[6], times[6]), (dates[9], times[7]), (dates[2], times[2]),
                               (dates[3], times[3]), (dates[3], times[1])]],
        'Integer': [0, -1, 2 ** 31 - 1, -2 ** 31, 1, -5, 70000, 127, -128, 128, 32767, -32768, -32769, 8388607, -8388609],
        'Unsigned': [0, 1, 2 ** 32 - 1, 256, 2, 255, 65535, 65536, 70000, 16777215, 16777216, 2 ** 31],
        'OctetString': [b'', b'\x01', b'ab', b'\x00\xff', bytes(range(40)), b'\x00', b'\xff' * 5],
    }
    # which alternative of PriorityValue a slot of this datatype must use (clause 21, BACnetPriorityValue) - not read
    # from the implementation
    choice_of = {'Real': 'real', 'Double': 'double', 'DoorValue': 'enumerated', 'BinaryPV': 'enumerated',
                 'BitString': 'bitString', 'CharacterString': 'characterString', 'Date': 'date', 'Time': 'time',
                 'DateTime': 'datetime', 'Integer': 'integer', 'Unsigned': 'unsigned', 'OctetString': 'octetString'}
    infos = {}
    for n in CLASS_NAMES:
        cls = getattr(lo, n)
        register_object_type(cls, vendor_id=999)
        dt = cls._properties['presentValue'].datatype
        infos[n] = {'name': n, 'cls': cls, 'otype': cls.objectType, 'datatype': dt, 'dtname': dt.__name__,
                    'pool': pools[dt.__name__], 'choice': choice_of[dt.__name__], 'mon': n in BINARY,
                    'enum': issubclass(dt, pd.Enumerated), 'atomic': issubclass(dt, pd.Atomic)}

    class NSE(NetworkServiceElement):
        _startup_disabled = True

    class App(Application, ReadWritePropertyServices):
        def __init__(self, dev, vlan):
            self.address = Address(dev.objectIdentifier[1])
            Application.__init__(self, dev)
            self.asap = ApplicationServiceAccessPoint()
            self.smap = StateMachineAccessPoint(dev)
            self.smap.deviceInfoCache = self.deviceInfoCache
            self.nsap = NetworkServiceAccessPoint()
            self.nse = NSE()
            bind(self.nse, self.nsap)
            bind(self, self.asap, self.smap, self.nsap)
            self.node = Node(self.address, vlan)
            self.nsap.bind(self.node)
            self.got = []

        def confirmation(self, apdu):
            self.got.append(apdu)

    vlan = Network(broadcast_address=LocalBroadcast())

    def dev(name, k):
        return LocalDeviceObject(objectName=name, objectIdentifier=('device', k), maxApduLengthAccepted=1024,
                                 segmentationSupported='noSegmentation', vendorIdentifier=999)
    td, iut = App(dev('td', 10), vlan), App(dev('iut', 20), vlan)
    _ENV.update(tm=tm, bcore=bcore, infos=infos, td=td, iut=iut, pd=pd, bt=bt)
    return _ENV


def pump():
    """run deferred functions and due tasks until nothing is left to do at the current virtual time"""
    e = env()
    tm, bcore = e['tm'], e['bcore']
    for _ in range(10000):
        progressed = False
        while bcore.deferredFns:
            fl = bcore.deferredFns
            bcore.deferredFns = []
            for fn, a, k in fl:
                fn(*a, **k)
            progressed = True
        t, _d = tm.get_next_task()
        if t:
            tm.process_task(t)
            progressed = True
        if not progressed:
            return
    raise RuntimeError('scheduler does not quiesce')


def vkey(info, v):
    """hashable, representation-independent key of a value of the class's datatype"""
    if v is None:
        return None
    if info['enum']:
        if isinstance(v, int) and not isinstance(v, bool):
            v = info['datatype']._xlate_table.get(v, v)
        return ('e', v)
    n = info['dtname']
    if n in ('Real', 'Double'):
        return ('f', float(v).hex()) if isinstance(v, (int, float)) else ('?', repr(v))
    if n == 'DateTime':
        return ('dt', None if getattr(v, 'date', None) is None else tuple(v.date),
                None if getattr(v, 'time', None) is None else tuple(v.time))
    if isinstance(v, (list, tuple)):
        return ('l', tuple(v))
    if isinstance(v, (bytes, bytearray)):
        return ('b', bytes(v))
    return ('v', type(v).__name__, v)


def code_of(info, v):
    k = vkey(info, v)
    for i, p in enumerate(info['pool']):
        if vkey(info, p) == k:
            return i
    return 900          # a value that was never commanded


ERRCODES = {'writeAccessDenied': 40, 'invalidArrayIndex': 42}


class Driver:
    """one fresh object; path 'direct' = method calls on the object, 'wire' = BACnet requests from td to iut"""
    serial = [0]

    def __init__(self, clsname, path, init_pv=None, init_dflt=None, on=None, off=None):
        e = env()
        self.e, self.info, self.path = e, e['infos'][clsname], path
        info = self.info
        NOW[0] = 0
        del e['tm'].tasks[:]
        e['bcore'].deferredFns = []
        Driver.serial[0] += 1
        self.oid = (info['otype'], Driver.serial[0] % 4000000 + 1)
        kw = dict(objectIdentifier=self.oid, objectName='o%d' % Driver.serial[0])
        if init_pv is not None:
            kw['presentValue'] = info['pool'][init_pv]
        if init_dflt is not None:
            kw['relinquishDefault'] = info['pool'][init_dflt]
        if on is not None:
            kw['minimumOnTime'] = on
        if off is not None:
            kw['minimumOffTime'] = off
        self.obj = info['cls'](**kw)
        self.added = False
        if path == 'wire':
            e['iut'].add_object(self.obj)
            self.added = True

    def close(self):
        if self.added:
            self.e['iut'].delete_object(self.obj)
            self.added = False
        del self.e['tm'].tasks[:]
        self.e['bcore'].deferredFns = []

    # -- commands
    def cmd(self, prio, code):
        """write pool[code] (or relinquish when code is None) at prio (None = no priority); returns a result code"""
        if self.path == 'direct':
            from bacpypes.errors import ExecutionError
            value = () if code is None else self.info['pool'][code]
            try:
                if prio is None:
                    self.obj.WriteProperty('presentValue', value)
                else:
                    self.obj.WriteProperty('presentValue', value, priority=prio)
                return 0
            except ExecutionError as x:
                return ERRCODES.get(x.errorCode, 49)
            except Exception as x:
                return 100 + exc_code(x)
        from bacpypes.apdu import WritePropertyRequest, SimpleAckPDU, Error, RejectPDU, AbortPDU
        from bacpypes.constructeddata import Any
        info, pd = self.info, self.e['pd']
        req = WritePropertyRequest(objectIdentifier=self.oid, propertyIdentifier='presentValue',
                                   destination=self.e['iut'].address)
        if code is None:
            elem = pd.Null()
        elif info['atomic']:
            elem = info['datatype'](info['pool'][code])
        else:
            elem = info['pool'][code]
        req.propertyValue = Any()
        req.propertyValue.cast_in(elem)
        if prio is not None:
            req.priority = prio
        r = self._io(req)
        if isinstance(r, SimpleAckPDU):
            return 0
        if isinstance(r, Error):
            return ERRCODES.get(r.errorCode, 49)
        if isinstance(r, RejectPDU):
            return 300 + int(r.apduAbortRejectReason)
        if isinstance(r, AbortPDU):
            return 400 + int(r.apduAbortRejectReason)
        return 999

    def _io(self, req):
        td = self.e['td']
        td.got = []
        td.request(req)
        pump()
        if len(td.got) != 1:
            return None
        return td.got[0]

    def tick(self, dt):
        NOW[0] += dt
        try:
            pump()
            return 0
        except Exception as x:
            return 100 + exc_code(x)

    # -- observations
    def timer(self):
        """deadline of the scheduled MinOnOffTask, -1 when none; -2/-3: the task manager's heap is inconsistent with the
        task (no entry / a stale second entry or an entry under another time)"""
        t = getattr(self.obj, '_min_on_off_task', None)
        if t is None:
            return -1
        whens = [when for when, _n, task in self.e['tm'].tasks if task is t]
        if not t.isScheduled:
            return -1 if not whens else -3
        if not whens:
            return -2
        if len(whens) != 1 or whens[0] != t.taskTime:
            return -3
        return whens[0]

    def _slot_code(self, pvobj):
        info = self.info
        setattrs = [el.name for el in self.e['bt'].PriorityValue.choiceElements if getattr(pvobj, el.name, None) is not None]
        if setattrs == ['null']:
            return -1
        if setattrs == [info['choice']]:
            return code_of(info, getattr(pvobj, info['choice']))
        return 901          # not exactly one alternative of the choice set

    def observe(self):
        """[presentValue, timer deadline or -1, slot 1..16]"""
        info = self.info
        if self.path == 'direct':
            pv = self.obj.ReadProperty('presentValue')
            pa = self.obj.ReadProperty('priorityArray')
            slots = [self._slot_code(pa[i]) for i in range(1, 17)]
            if pa[0] != 16 or len(pa.value) != 17:
                slots.append(902)
            return [code_of(info, pv), self.timer()] + slots
        from bacpypes.apdu import ReadPropertyRequest, ReadPropertyACK
        r = self._io(ReadPropertyRequest(objectIdentifier=self.oid, propertyIdentifier='presentValue',
                                         destination=self.e['iut'].address))
        if not isinstance(r, ReadPropertyACK):
            return [903, self.timer()]
        pv = r.propertyValue.cast_out(info['datatype'])
        r = self._io(ReadPropertyRequest(objectIdentifier=self.oid, propertyIdentifier='priorityArray',
                                         destination=self.e['iut'].address))
        if not isinstance(r, ReadPropertyACK):
            return [code_of(info, pv), self.timer(), 904]
        pa = r.propertyValue.cast_out(self.e['bt'].PriorityArray)
        slots = [self._slot_code(x) for x in pa.value[1:]]
        return [code_of(info, pv), self.timer()] + slots


# ---- histories ----------------------------------------------------------------------------------
# a history: dict(cls, path, pv, dflt, on, off, ops) with ops = [('c', prio|None, code|None) | ('t', dt)]

def pack(obs):
    """[presentValue, timer, the 16 slot codes as base-64 digits of one number] (Prio.observe_packed)"""
    if len(obs) != 18:
        return list(obs[:2]) + [-1]
    return [obs[0], obs[1], sum((0 if c == -1 else c + 1 if 0 <= c < 62 else 63) * 64 ** i for i, c in enumerate(obs[2:]))]


def run_history(h, upto=None):
    """implementation trace in the model's canonical form (Prio.trace_from)"""
    try:
        d = Driver(h['cls'], h['path'], h.get('pv'), h.get('dflt'), h.get('on'), h.get('off'))
    except Exception as x:
        del env()['tm'].tasks[:]
        return [1, exc_code(x)]
    try:
        out = [0] + pack(d.observe())
        for op in h['ops'][:upto]:
            r = d.cmd(op[1], op[2]) if op[0] == 'c' else d.tick(op[1])
            out += [r] + pack(d.observe())
        return out
    finally:
        d.close()


def _z(x):
    return '(%d)' % x if x < 0 else '%d' % x


def _oz(x):
    return 'None' if x is None else '(Some %s)' % _z(x)


def coq_history(h):
    info = env()['infos'][h['cls']]
    ops = ';'.join('Cmd %s %s' % (_oz(o[1]), _oz(o[2])) if o[0] == 'c' else 'Tick %s' % _z(o[1]) for o in h['ops'])
    return 'trace_from (new_obj %s 0 %s %s %s %s) [%s]' % (
        'true' if info['mon'] else 'false', _oz(h.get('pv')), _oz(h.get('dflt')), _z(h.get('on') or 0), _z(h.get('off') or 0), ops)


def mk_case(kind, h):
    exp = run_history(h)
    accepted = sum(1 for k in range(len(h['ops'])) if h['ops'][k][0] == 'c' and len(exp) > 4 + 4 * k and exp[4 + 4 * k] == 0)
    return Case(kind, coq_history(h), exp, key=repr(sorted(h.items())), nontrivial=accepted >= 1, desc=h)


def mk_bundle(kind, hs):
    """several short histories evaluated as one case (their traces concatenated): fewer, larger Coq files"""
    exp, n_ok = [], 0
    for h in hs:
        e = run_history(h)
        n_ok += sum(1 for k in range(len(h['ops'])) if h['ops'][k][0] == 'c' and len(e) > 4 + 4 * k and e[4 + 4 * k] == 0)
        exp += e
    return Case(kind, '(' + ' ++ '.join(coq_history(h) for h in hs) + ')', exp, key=repr([sorted(h.items()) for h in hs]),
                nontrivial=n_ok >= 1, desc={'bundle': hs})


def all_codes(clsname):
    """every value code of the class's pool (the DateTime default cannot be encoded and is left out)"""
    n = len(env()['infos'][clsname]['pool'])
    return list(range(1 if 'DateTime' in clsname else 0, n))


def fullrange_history(clsname, path, rng=None):
    """every value of the pool commanded once, priorities rotating through 1..16 and 'none', then everything relinquished"""
    h = base_history(clsname, path)
    if clsname in BINARY:
        h['pv'] = 0
    prios = list(range(1, 17)) + [None]
    if rng is not None:
        rng.shuffle(prios)
    codes = all_codes(clsname)
    ops = [('c', prios[k % 17], c) for k, c in enumerate(codes + codes[::-1])]
    ops += [('c', p, None) for p in prios]
    h['ops'] = ops
    return h


def nvals(clsname):
    return 1 if clsname in BINARY else 3       # usable non-default value codes 1..n


def small_commands(clsname, prios=(1, 8, 16, None)):
    out = []
    for p in prios:
        for v in range(0 if clsname in BINARY else 1, nvals(clsname) + 1):
            out.append(('c', p, v))
        out.append(('c', p, None))
    return out


BAD_PRIOS = [0, -1, 17, 255, 300, -16, 18]


def random_ops(rng, clsname, n, badrate=0.08, ticks=False, maxdt=12, hot=None):
    ops = []
    vals = all_codes(clsname)
    for _ in range(n):
        r = rng.random()
        if ticks and r < 0.35:
            ops.append(('t', rng.choice([0, 1, 1, 2, 3, 5, rng.randrange(0, maxdt + 1)])))
            continue
        if rng.random() < badrate:
            p = rng.choice(BAD_PRIOS)
        elif hot and rng.random() < 0.7:
            p = rng.choice(hot)
        else:
            p = rng.choice(list(range(1, 17)) + [None, None])
        v = None if rng.random() < 0.4 else rng.choice(vals)
        ops.append(('c', p, v))
    return ops


def wire_ok(op):
    # priority is an Unsigned on the wire
    return op[0] != 'c' or op[1] is None or op[1] >= 0


def base_history(clsname, path, rng=None):
    """constructor arguments: DateTime classes always get explicit values (their datatype default cannot be encoded)"""
    info = env()['infos'][clsname]
    h = {'cls': clsname, 'path': path, 'pv': None, 'dflt': None, 'on': None, 'off': None, 'ops': []}
    if info['dtname'] == 'DateTime':
        h['pv'] = h['dflt'] = 1
    elif rng is not None and clsname not in BINARY and rng.random() < 0.5:
        h['dflt'] = rng.randrange(0, len(info['pool']))
        h['pv'] = h['dflt'] if rng.random() < 0.8 else rng.randrange(0, len(info['pool']))
    return h


# minimum on/off times of 0 and > 0 in each direction; the clock steps 1 and 2 reach every deadline exactly, early and late
TIMED_CONFIGS = [(on, off) for on in (0, 2, 3) for off in (0, 2, 3) if on or off]
# commands above (3) and below (8) the hold priority 6, both states and relinquish, and two clock steps
TIMED_ALPHABET = [('c', 3, 0), ('c', 3, 1), ('c', 3, None), ('c', 8, 0), ('c', 8, 1), ('c', 8, None), ('t', 1), ('t', 2)]


def timed_history(cn, path, on, off, pv, ops):
    return {'cls': cn, 'path': path, 'pv': pv, 'dflt': pv, 'on': on, 'off': off, 'ops': list(ops)}


def hold_scenarios(cn, on, off):
    """commands arriving while a hold is running: the state flipped at a higher priority before the minimum time is
    over, the command that started the hold relinquished during the hold, the override relinquished before / at / after
    the deadline of the hold, then everything relinquished and the clock run out"""
    out = []
    for v in (0, 1):
        t = (on if v == 1 else off) or 1
        for flip_at in sorted({0, 1, t - 1}):
            if flip_at >= t and (on if v == 1 else off):
                continue
            for back_at in sorted({flip_at, t - 1, t, t + 1}):
                if back_at < flip_at:
                    continue
                for hi in (1, 3, 5):
                    ops = [('c', 8, v), ('t', flip_at), ('c', hi, 1 - v), ('c', 8, None), ('t', back_at - flip_at), ('c', hi, None)]
                    ops += [('t', 1)] * (on + off + 2) + [('c', 10, v), ('t', 1), ('c', 10, None)] + [('t', 1)] * (on + off + 2)
                    out.append(timed_history(cn, 'direct', on, off, 1 - v, ops))
    return out


def cases(rng, tier):
    env()
    out = []
    big = tier == 'thorough'
    # (a) exhaustive short sequences, every class, direct path; wire path for one class per datatype
    wire_classes = WIRE_CLASSES
    for cn in CLASS_NAMES:
        cmds = small_commands(cn)
        short = []
        for L in range(0, 2):
            for seq in itertools.product(cmds, repeat=L):
                h = base_history(cn, 'direct')
                h['ops'] = list(seq)
                short.append(h)
        out.append(mk_bundle('exh2-direct(bundle of %d)' % len(short), short))
        for c1 in cmds:
            hs = []
            for c2 in cmds:
                h = base_history(cn, 'direct')
                h['ops'] = [c1, c2]
                hs.append(h)
            out.append(mk_bundle('exh2-direct(bundle of %d)' % len(hs), hs))
        if big or cn in wire_classes:
            hs = []
            for L in range(1, 3 if big else 2):
                for seq in itertools.product(cmds, repeat=L):
                    h = base_history(cn, 'wire')
                    h['ops'] = list(seq)
                    hs.append(h)
            for k in range(0, len(hs), 16):
                out.append(mk_bundle('exh-wire(bundle of %d)' % len(hs[k:k + 16]), hs[k:k + 16]))
    # (b) long random sequences over all 16 priorities (+ refused ones), every class, both paths
    for cn in CLASS_NAMES:
        for path in ('direct', 'wire'):
            for _ in range((6 if big else 2) if path == 'direct' else (2 if big else 1)):
                h = base_history(cn, path, rng)
                h['ops'] = [o for o in random_ops(rng, cn, 100 if path == 'direct' else 40) if path == 'direct' or wire_ok(o)]
                out.append(mk_case('rand100-' + path, h))
    # (b2) the whole range of each datatype, every class, both paths (the wire path decodes presentValue and
    # priorityArray from ReadProperty answers: value bit-exact, PriorityValue alternative = the class's datatype)
    for cn in CLASS_NAMES:
        for path in ('direct', 'wire'):
            for rep in range(3 if big else 1):
                out.append(mk_case('fullrange-' + path, fullrange_history(cn, path, rng if rep else None)))
    # (c) binary classes with minimum on/off times and a moving clock
    for cn in BINARY:
        for on, off in itertools.product([0, 3, 7], repeat=2):
            for pv in (0, 1):
                h = {'cls': cn, 'path': 'direct', 'pv': pv, 'dflt': None, 'on': on, 'off': off,
                     'ops': random_ops(rng, cn, 30, ticks=True, hot=[3, 6, 8, None])}
                out.append(mk_case('minonoff-grid', h))
        for _ in range(400 if big else 70):
            on, off = rng.choice([None] + list(range(0, 11))), rng.choice([None] + list(range(0, 11)))
            path = 'wire' if rng.random() < 0.2 else 'direct'
            h = {'cls': cn, 'path': path, 'pv': rng.choice([0, 1]), 'dflt': rng.choice([None, 0, 1]), 'on': on, 'off': off}
            h['ops'] = [o for o in random_ops(rng, cn, 40 if path == 'direct' else 25, ticks=True, hot=[3, 5, 6, 7, 8, None])
                        if path == 'direct' or wire_ok(o)]
            out.append(mk_case('minonoff-' + path, h))
        # (d) commands while a hold is running: every sequence of length <= 2 (3 for BinaryValue and three configurations)
        # over TIMED_ALPHABET for minimum times 0 / > 0 in each direction, plus the longer hold scenarios
        for on, off in TIMED_CONFIGS:
            for pv in (0, 1):
                hs = [timed_history(cn, 'direct', on, off, pv, seq) for L in range(1, 3)
                      for seq in itertools.product(TIMED_ALPHABET, repeat=L)]
                out.append(mk_bundle('hold-exh2(bundle of %d)' % len(hs), hs))
            if cn == 'BinaryValueCmdObject' and (big or (on, off) in ((2, 0), (0, 2), (2, 3))):
                for pv in ((0, 1) if big else (rng.choice([0, 1]),)):
                    for c1 in TIMED_ALPHABET:
                        hs = [timed_history(cn, 'direct', on, off, pv, (c1,) + seq) for seq in itertools.product(TIMED_ALPHABET, repeat=2)]
                        out.append(mk_bundle('hold-exh3(bundle of %d)' % len(hs), hs))
            hs = hold_scenarios(cn, on, off)
            for k in range(0, len(hs), 12):
                out.append(mk_bundle('hold-scenarios(bundle of %d)' % len(hs[k:k + 12]), hs[k:k + 12]))
            hs = [timed_history(cn, 'wire', on, off, pv, seq) for pv in (0, 1) for seq in itertools.product(TIMED_ALPHABET, repeat=1)]
            out.append(mk_bundle('hold-wire(bundle of %d)' % len(hs), hs))
        # the constructor with and without an explicit present value
        for on, off in itertools.product([None, 0, 4], repeat=2):
            for pv in (None, 0, 1):
                out.append(mk_case('minonoff-ctor', {'cls': cn, 'path': 'direct', 'pv': pv, 'dflt': None, 'on': on, 'off': off,
                                                     'ops': [('c', 8, 1), ('t', 4), ('c', 8, None), ('t', 4)]}))
    return out


# ---- the direct, implementation-only predicate ---------------------------------------------------

def check_history(h):
    """Evaluate C17's own statement on one history; returns a failure dict or None.
    Weakest reading: refused = the call does not succeed (any exception / any non-ack answer) and every observable
    (present value, all slots, pending hold) is as before; for objects with a minimum on/off time > 0, slot 6 belongs
    to the hold mechanism (not checked against user commands), and the hold clause is only evaluated on histories that
    do not command priority 6 themselves.  The hold is tracked from the observations alone: a change of the present value
    to a state with minimum time T > 0 at instant t starts a hold (state, t + T), replacing one still running; slot 6 must
    be that state at every observation before t + T and null at the first observation at/after it; with no hold running
    slot 6 must be null.  A change to a state with minimum time 0 starts nothing and leaves a running hold running
    (Prio.hold_step is the same function; C17_hold_exact proves the model meets it)."""
    def fail(kind, step, **kw):
        f = {'kind': kind, 'step': step, 'history': h}
        f.update(kw)
        return f
    try:
        d = Driver(h['cls'], h['path'], h.get('pv'), h.get('dflt'), h.get('on'), h.get('off'))
    except Exception as x:
        del env()['tm'].tasks[:]
        return fail('constructor-raises', -1, exc=repr(x)[:200])
    try:
        info = d.info
        on, off = h.get('on') or 0, h.get('off') or 0
        timed = info['mon'] and (on > 0 or off > 0)
        user6 = any(o[0] == 'c' and o[1] == 6 for o in h['ops'])
        dflt = h['dflt'] if h.get('dflt') is not None else 0
        want = [-1] * 16
        obs = d.observe()
        if obs[2:] != want:
            return fail('initial-slots-not-null', -1, observed=obs)
        hold = None            # (value, until) | None = unconstrained
        for k, op in enumerate(h['ops']):
            before = obs
            if op[0] == 'c':
                p = 16 if op[1] is None else op[1]
                r = d.cmd(op[1], op[2])
                obs = d.observe()
                if not (1 <= p <= 16):
                    if r == 0:
                        return fail('bad-priority-accepted', k, observed=obs)
                    if obs != before:
                        return fail('refused-write-changed-state', k, before=before, observed=obs)
                    continue
                if r != 0:
                    return fail('valid-command-refused', k, result=r, observed=obs)
                want[p - 1] = -1 if op[2] is None else op[2]
            else:
                r = d.tick(op[1])
                obs = d.observe()
                if r != 0:
                    return fail('scheduler-raises', k, result=r)
            if len(obs) != 18:
                return fail('unreadable', k, observed=obs)
            pv, slots = obs[0], obs[2:]
            for i in range(16):
                if timed and i == 5:
                    continue
                if slots[i] != want[i]:
                    return fail('slot-not-last-commanded', k, priority=i + 1, want=want[i], observed=obs)
            win = next((s for s in slots if s != -1), dflt)
            if pv != win:
                return fail('present-value-not-winner', k, want=win, observed=obs)
            if not timed:
                if slots[5] != want[5]:
                    return fail('slot-not-last-commanded', k, priority=6, want=want[5], observed=obs)
                continue
            if user6:
                continue
            if pv != before[0]:                       # a new state was entered at NOW
                t = on if pv == 1 else off
                if t > 0:
                    hold = (pv, NOW[0] + t)           # replaces a hold that is still running
                # t == 0: nothing to hold for the new state; a hold that is still running (the state was flipped
                # at a higher priority before its minimum time was over) runs on to its own deadline
            if hold is None:
                if slots[5] != -1:
                    return fail('slot6-occupied-without-hold', k, observed=obs)
            elif NOW[0] < hold[1]:
                if slots[5] != hold[0]:
                    return fail('min-time-not-held', k, want=hold[0], until=hold[1], now=NOW[0], observed=obs)
            else:
                if slots[5] != -1:
                    return fail('hold-not-released', k, until=hold[1], now=NOW[0], observed=obs)
                hold = None
        return None
    finally:
        d.close()


WIRE_CLASSES = ['AnalogValueCmdObject', 'BinaryValueCmdObject', 'AccessDoorCmdObject', 'DateTimeValueCmdObject',
                'OctetStringValueCmdObject', 'MultiStateOutputCmdObject']


def _exh_worker(unit):
    """all command sequences of length L that start with `prefix`, one class, one path"""
    cn, path, L, prefix = unit
    env()
    cmds = small_commands(cn)
    cnt, fs = 0, []
    for seq in itertools.product(cmds, repeat=L - len(prefix)):
        h = base_history(cn, path)
        if cn in BINARY:
            h['pv'] = 0
        h['ops'] = list(prefix) + list(seq)
        cnt += 1
        f = check_history(h)
        if f is not None and len(fs) < 20:
            fs.append(f)
    return cnt, cnt, fs


def _timed_worker(unit):
    """all sequences of length L over TIMED_ALPHABET that start with `prefix`, one binary class with minimum times"""
    cn, path, on, off, pv, L, prefix = unit
    env()
    cnt, fs = 0, []
    for seq in itertools.product(TIMED_ALPHABET, repeat=L - len(prefix)):
        cnt += 1
        f = check_history(timed_history(cn, path, on, off, pv, tuple(prefix) + seq))
        if f is not None and len(fs) < 5:
            fs.append(f)
    return cnt, cnt, fs


def _parallel(fn, units, workers=12):
    import multiprocessing
    from concurrent.futures import ProcessPoolExecutor
    try:
        with ProcessPoolExecutor(max_workers=workers, mp_context=multiprocessing.get_context('fork')) as ex:
            return list(ex.map(fn, units, chunksize=1))
    except Exception:
        import traceback
        traceback.print_exc()
        return [fn(u) for u in units]


def direct(rng, tier, focus=()):
    env()
    big = tier == 'thorough'
    failures, n, nontriv, samples = [], 0, 0, []
    import os, time
    t0 = time.time()

    def lap(what):
        if os.environ.get('C17_TIMING'):
            print('  direct: %-12s %6.1fs  n=%d' % (what, time.time() - t0, n))

    def go(h):
        nonlocal n, nontriv
        n += 1
        if any(o[0] == 'c' and (o[1] is None or 1 <= o[1] <= 16) for o in h['ops']):
            nontriv += 1
        f = check_history(h)
        if f is not None and len(failures) < 200:
            failures.append(f)

    # disagreeing correspondence cases first
    for d in [x for f in focus if isinstance(f, dict) for x in (f['bundle'] if 'bundle' in f else [f])]:
        if isinstance(d, dict) and 'ops' in d:
            hh = dict(d)
            # the predicate speaks about objects that start consistent (present value = relinquish default)
            if hh['cls'] in BINARY and hh.get('pv') is None:
                hh['pv'] = 0
            if hh['cls'] in BINARY or hh.get('pv') is not None:
                hh['dflt'] = hh['pv']
            else:
                hh['pv'] = hh.get('dflt')
            go(hh)
    # exhaustive sequences over 4 priorities x 3 values x {write, relinquish}; work units run in parallel processes
    LMAX = 4 if big else 3
    long_classes = ['AnalogValueCmdObject', 'BinaryValueCmdObject'] if big else ['BinaryValueCmdObject']
    wire2 = CLASS_NAMES if big else WIRE_CLASSES
    units = []
    for cn in CLASS_NAMES:
        cmds = small_commands(cn)
        lmax = LMAX + 1 if cn in long_classes else LMAX
        for L in range(1, lmax + 1):
            if L <= 2:
                units.append((cn, 'direct', L, ()))
            elif L <= 4:
                units.extend((cn, 'direct', L, (c,)) for c in cmds)
            else:
                units.extend((cn, 'direct', L, (c, c2)) for c in cmds for c2 in cmds)
        for L in range(1, 3 if cn in wire2 else 2):
            units.append((cn, 'wire', L, ()))
    for cnt, nt, fs in _parallel(_exh_worker, units):
        n += cnt
        nontriv += nt
        failures.extend(fs[:20])
    lap('exhaustive')
    samples.append({'direct': 'exhaustive', 'commands': repr(small_commands('AnalogValueCmdObject'))})
    # commands while a hold is running: every sequence over TIMED_ALPHABET, minimum times 0 / > 0 in each direction
    LT = 5 if big else 4                 # BinaryValue; one less for BinaryOutput; after every op of a sequence the
    units = []                           # predicate is evaluated, so the sequences of full length cover the shorter ones
    for cn in BINARY:
        L = LT if cn == 'BinaryValueCmdObject' else LT - 1
        for on, off in TIMED_CONFIGS:
            for pv in (0, 1):
                if L <= 3:
                    units.append((cn, 'direct', on, off, pv, L, ()))
                elif L == 4:
                    units.extend((cn, 'direct', on, off, pv, L, (c,)) for c in TIMED_ALPHABET)
                else:
                    units.extend((cn, 'direct', on, off, pv, L, (c, c2)) for c in TIMED_ALPHABET for c2 in TIMED_ALPHABET)
                if big or cn == 'BinaryValueCmdObject':
                    units.append((cn, 'wire', on, off, pv, 3 if big else 2, ()))
    for cnt, nt, fs in _parallel(_timed_worker, units):
        n += cnt
        nontriv += nt
        failures.extend(fs[:5])
    for cn in BINARY:
        for on, off in TIMED_CONFIGS:
            for h in hold_scenarios(cn, on, off):
                go(h)
    lap('hold-exh')
    samples.append({'direct': 'hold exhaustive', 'alphabet': repr(TIMED_ALPHABET), 'configs': repr(TIMED_CONFIGS), 'length': LT})
    # every refused priority on every class, on an object that already holds commands
    for cn in CLASS_NAMES:
        for bp in BAD_PRIOS + [-(2 ** 31), 2 ** 31, 16 + 256]:
            for path in ('direct', 'wire'):
                h = base_history(cn, path)
                if cn in BINARY:
                    h['pv'] = 0
                h['ops'] = [('c', 8, 1), ('c', bp, 0 if cn in BINARY else 2), ('c', bp, None), ('c', 3, 1), ('c', bp, 1), ('c', 3, None)]
                h['ops'] = [o for o in h['ops'] if path == 'direct' or wire_ok(o)]
                go(h)
    # the whole range of each datatype; Null without priority relinquishes slot 16 (both paths, every class)
    for cn in CLASS_NAMES:
        for path in ('direct', 'wire'):
            for rep in range(4 if big else 2):
                go(fullrange_history(cn, path, rng if rep else None))
            h = base_history(cn, path)
            if cn in BINARY:
                h['pv'] = 0
            h['ops'] = [('c', None, 1), ('c', None, None), ('c', 16, 1), ('c', None, None), ('c', None, 1), ('c', 16, None)]
            go(h)
    lap('refused')
    # random length 100 over all 16 priorities
    for cn in CLASS_NAMES:
        for path in ('direct', 'wire'):
            for _ in range((20 if big else 4) if path == 'direct' else (4 if big else 1)):
                h = base_history(cn, path)
                if cn in BINARY:
                    h['pv'] = 0
                if cn not in BINARY and env()['infos'][cn]['dtname'] != 'DateTime' and rng.random() < 0.5:
                    h['pv'] = h['dflt'] = rng.randrange(0, len(env()['infos'][cn]['pool']))
                h['ops'] = [o for o in random_ops(rng, cn, 100) if path == 'direct' or wire_ok(o)]
                go(h)
    lap('random')
    # minimum on/off times 0..10 with the clock advanced between commands
    for cn in BINARY:
        for on in range(0, 11):
            for off in range(0, 11):
                for rep in range(6 if big else 2):
                    path = 'wire' if (on + off + rep) % 7 == 0 else 'direct'
                    pv = rng.choice([0, 1])
                    h = {'cls': cn, 'path': path, 'pv': pv, 'dflt': pv, 'on': on, 'off': off}
                    hot = [3, 8, None] if rep % 2 == 0 else [3, 6, 8, None]
                    h['ops'] = [o for o in random_ops(rng, cn, 40 if path == 'direct' else 20, ticks=True, hot=hot, badrate=0.04)
                                if (path == 'direct' or wire_ok(o)) and not (rep % 2 == 0 and o[0] == 'c' and o[1] == 6)]
                    go(h)
                # the plain scenario of the statement: one command, then watch the clock second by second
                for v in (0, 1):
                    h = {'cls': cn, 'path': 'direct', 'pv': 1 - v, 'dflt': 1 - v, 'on': on, 'off': off,
                         'ops': [('c', 8, v)] + [('t', 1)] * 12 + [('c', 8, None)] + [('t', 1)] * 12}
                    go(h)
                # a pending release re-installed for another time (state changes again before the deadline):
                # exactly one release, at the new deadline
                for v in (0, 1):
                    h = {'cls': cn, 'path': 'direct', 'pv': 1 - v, 'dflt': 1 - v, 'on': on, 'off': off,
                         'ops': [('c', 8, v), ('t', 1), ('c', 3, 1 - v)] + [('t', 1)] * 12 + [('c', 3, None)] + [('t', 1)] * 12}
                    go(h)
    lap('minonoff')
    samples.append({'direct': 'min on/off', 'grid': 'on,off in 0..10, both binary classes'})
    failures.sort(key=lambda f: len(f['history']['ops']))          # stable: the shortest history of each kind becomes the replay
    return failures, {'evaluations': n, 'distinct_nontrivial': nontriv, 'exhaustive': True,
                      'exhaustive_domain': 'all command sequences of length <= %d (<= %d for %s) over priorities {1,8,16,none} x 3 values x '
                                           '{write, relinquish}, each of the 20 classes, direct; length <= 2 over the wire (6 classes in quick, all in thorough); '
                                           'binary classes with minimum on/off times in {0,2,3}^2 minus (0,0), both initial states: all sequences of length <= %d '
                                           '(BinaryValue; %d BinaryOutput) over priorities {3,8} x {active, inactive, relinquish} + clock steps {1,2}'
                                           % (LMAX, LMAX + 1, ', '.join(long_classes), LT, LT - 1),
                      'samples': samples}


def classify(failure):
    # both defects of the pinned tree are repaired by `fix:` commits (known_findings/C17.json, status "fixed");
    # nothing is suppressed
    return None


def replay(payload):
    import core
    f = payload.get('failure')
    if not f:
        for b in payload.get('broken', []):
            if isinstance(b, dict) and 'minimal_case' in b:
                f = {'history': b['minimal_case'].get('desc')}
    print('replay', {k: v for k, v in (f or {}).items() if k != 'history'})
    h = (f or {}).get('history')
    if isinstance(h, dict) and 'bundle' in h:
        for hh in h['bundle']:
            replay({'failure': {'history': hh}})
        return
    if not isinstance(h, dict):
        print('no history in payload')
        return
    env()
    print('history:', h)
    print('implementation trace:', run_history(h))
    got, err = core.coq_eval(COQ_IMPORTS, coq_history(h))
    print('model trace:         ', got if got is not None else err)
    print('direct predicate:    ', {k: v for k, v in (check_history(h) or {'kind': 'holds'}).items() if k != 'history'})
