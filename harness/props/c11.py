"""C11 — concurrent transactions never cross: replies reach only the request they answer."""
import types
import ssm_common as S
import iocb_common as I
import ssm_c11c12 as X
from core import Case
from pyerr import canon_call

PROP = 'C11'
COQ_TARGETS = ['theories/SsmFacts.vo', 'theories/SsmC11.vo', 'theories/SsmC11s.vo', 'theories/SsmC11a.vo', 'theories/SsmC11p.vo', 'theories/IocbFacts.vo']
COQ_IMPORTS = 'From Bac Require Import Base Iocb Ssm SsmWorld.'
RULE = ('cases: 1..40 concurrent requests from one or two clients over 1..4 servers, application-chosen invoke ids colliding across '
        'peers (and within one peer: refused), answers delayed up to 4 s so that retransmissions meet a transaction still being '
        'processed, up to three faults, forged replies of all six kinds from unasked peers / with ids never allocated / long after '
        'completion; > 256 requests in sequence with long-lived ones in between (counter wrap-around); get_next_invoke_id on '
        'random live sets incl. 254..256 live ids; nodes that are client AND server towards each other with equal ids in both directions and '
        'late Aborts of both polarities; server applications that park answers and give them from inside a later indication to clients with equal ids; stations that differ only in network number or MAC length (1:5, 2:5, 05, 00:05) '
        'as clients of one server and as servers of one client; IOCB histories with three or more IOCBs queued to one peer and client aborts of waiting ones; > 512 requests to one peer with a run of live ids across 255 -> 0 when the cursor '
        'comes round; client applications whose confirmation callback submits the next request at once with the same application-chosen id; nodes that are client and server towards each other with '
        'equal ids while a protocol-violating PDU of the real peer (chosen by the state of the live client transaction it is aimed at, so that it cannot pass for the answer) makes that client give up with an '
        'Abort on the wire, or - no client transaction live - a stray srv=1 Abort / SegmentAck / reply meets a server transaction with the same peer and id.  Compared: the whole canonical trace.  non-trivial = at least one frame, or an '
        'allocation with >= 1 live transaction; distinct by scenario.')
TRUSTED = S.TRUSTED
ASSUMPTIONS = S.ASSUMPTIONS


def alloc_cases(rng, n):
    from bacpypes.appservice import StateMachineAccessPoint
    from bacpypes.pdu import Address
    out = []
    for i in range(n):
        nxt = rng.choice([0, 1, 2, 100, 254, 255, rng.randrange(256)])
        u = rng.random()
        if u < 0.1:
            ids = list(range(256))
        elif u < 0.2:
            ids = [x for x in range(256) if x != rng.randrange(256)]
        elif u < 0.5:
            ids = [(nxt + k) % 256 for k in range(rng.randrange(0, 40))]
        else:
            ids = [rng.randrange(256) for _ in range(rng.randrange(0, 30))]
        live = [(rng.choice([5, 5, 5, 6]), x) for x in ids]
        smap = StateMachineAccessPoint(S.Dev(S.node_cfg(1)), None)
        smap.nextInvokeID = nxt
        smap.clientTransactions = [types.SimpleNamespace(invokeID=x, pdu_address=Address(p)) for (p, x) in live]
        res = canon_call(lambda: smap.get_next_invoke_id(Address(5)), lambda r: [r])
        exp = res + [smap.nextInvokeID]
        trs = '[' + ';'.join('set_invoke_f %d (new_ssm (mkNode 1 50 3 64 3 3000 1500 2 3000 false []) %d true)' % (x, p) for (p, x) in live) + ']'
        coq = ('(let r := get_next_invoke_id %d 5 %s in match fst r with Ok v => [0; v; snd r] | Err e => [1; err_code e; snd r] end)'
               % (nxt, trs))
        out.append(Case('get_next_invoke_id', coq, exp, key=('alloc', nxt, tuple(live)), nontrivial=len(live) >= 1,
                        desc={'op': 'get_next_invoke_id', 'next': nxt, 'live': live}))
    return out


def cases(rng, tier):
    out = []
    for _ in range(900 if tier == 'thorough' else 70):
        out.append(S.scenario_case(S.gen_concurrent(rng), 'concurrent'))
    for _ in range(3 if tier == 'thorough' else 1):
        out.append(S.scenario_case(S.gen_wrap(rng), 'id-wrap-around'))
    for _ in range(4 if tier == 'thorough' else 1):
        out.append(S.scenario_case(S.gen_wrap_run(rng), 'live-run-across-wrap'))
    for _ in range(400 if tier == 'thorough' else 40):
        out.append(S.scenario_case(S.gen_chained(rng), 'chained-requests'))
    for _ in range(600 if tier == 'thorough' else 60):
        out.append(S.scenario_case(S.gen_bidirectional(rng), 'bidirectional'))
    for _ in range(300 if tier == 'thorough' else 40):
        out.append(S.scenario_case(S.gen_park_flush(rng), 'parked-answers'))
    for _ in range(600 if tier == 'thorough' else 60):
        out.append(S.scenario_case(X.gen_client_abort(rng), 'client-gives-up-on-the-wire'))
    out += alloc_cases(rng, 3000 if tier == 'thorough' else 300)
    for _ in range(600 if tier == 'thorough' else 40):
        out.append(S.scenario_case(S.gen_same_mac(rng), 'same-mac-stations'))
    for _ in range(1000 if tier == 'thorough' else 150):
        ops, n = I.gen_queue_abort(rng) if rng.random() < 0.5 else I.gen_history(rng)
        exp, det = I.run_history(ops, n)
        txt = I.coq_ops(ops)
        for nm in ('OSubmit', 'OConfirm', 'OAbort', 'ORun'):
            txt = txt.replace(nm, 'Iocb.' + nm)
        out.append(Case('iocb-history', 'Iocb.run_ops %d %s' % (n, txt), exp, key=('iocb', repr(ops)),
                        nontrivial=any(o[0] == 'submit' for o in ops), desc={'ops': ops, 'n': n}))
    return out


def direct(rng, tier, focus=()):
    big = tier == 'thorough'
    fams = [('concurrent', lambda r: S.gen_concurrent(r), 12000 if big else 900),
            ('wrap', lambda r: S.gen_wrap(r), 8 if big else 2),
            ('live-run-across-wrap', lambda r: S.gen_wrap_run(r), 30 if big else 10),
            ('chained-requests', lambda r: S.gen_chained(r), 6000 if big else 600),
            ('bidirectional', lambda r: S.gen_bidirectional(r), 8000 if big else 800),
            ('parked-answers', lambda r: S.gen_park_flush(r), 4000 if big else 400),
            ('transaction', lambda r: S.gen_transaction(r), 8000 if big else 800)]
    fams.append(('same-mac-stations', lambda r: S.gen_same_mac(r), 6000 if big else 600))
    fams.append(('client-gives-up-on-the-wire', lambda r: X.gen_client_abort(r), 8000 if big else 800))
    failures, stats = S.direct_families(rng, fams, X.check_c11x, focus)
    failures.extend(S.known_replays('C11', X.check_c11x))
    # replies are paired with the IOCB whose request they answer (per-peer queue of ApplicationIOController)
    nh = 0
    for _ in range(15000 if big else 1500):
        ops, n = I.gen_queue_abort(rng) if rng.random() < 0.5 else I.gen_history(rng)
        fs, det = I.check_drained(ops, n)
        nh += 1
        failures.extend(x for x in fs if x['kind'] in ('iocb-answer-for-other-request', 'iocb-callback-twice'))
    import core as _core
    for e in _core.load_findings('C11'):
        ops = ((e.get('replay') or {}).get('failure') or {}).get('ops')
        if e.get('status') == 'known' and ops:
            fs, det = I.check_drained(ops, 2)
            failures.extend(x for x in fs if x['kind'] == 'iocb-answer-for-other-request')
    stats['evaluations'] += nh
    stats['iocb_histories'] = nh
    return failures, stats


def classify(f):
    k = f.get('kind')
    if k == 'iocb-answer-for-other-request' and f.get('active_request_aborted_to_this_peer'):
        return 'C11-K1'
    return None


def replay(payload):
    if (payload.get('failure') or {}).get('ops'):
        import props.c04 as c04
        return c04.replay(payload)
    S.replay_generic(payload, X.check_c11x, 'C11')
