"""C07 — APDU fixed headers.  Correspondence (model Apci.v vs apdu.APCI.encode/decode through APDU, and the
AST-translated code tables gen/ApduFns.v vs the four table functions) and the direct, implementation-only
predicate (independent clause-20.1 packer, field-by-field restore, table rounding, decode totality)."""
import itertools
from core import Case, nlist
from pyerr import canon_call, exc_code

PROP = 'C07'
COQ_TARGETS = ['theories/ApciFacts.vo', 'theories/ApciHdr.vo', 'theories/ApciDec.vo', 'theories/ApciTypes.vo', 'theories/ApciSessionFacts.vo',
               'theories/ApciGenFacts.vo']
COQ_IMPORTS = 'From Bac Require Import Base PyRt Apci ApciSession.\nFrom BacGen Require Import ApduFns.'
TABLE_OBLIGATIONS = ['maxsegs_table_std', 'maxapdu_table_std', 'enc_ms_eq', 'enc_ml_eq', 'dec_ms_range', 'dec_ml_range',
                     'dec_ms_values', 'dec_ml_values', 'maxsegs_encode_total', 'maxsegs_unspecified', 'tables_never_up',
                     # ApciGenFacts.v: the AST translation of the header methods (gen/ApciFns.v) equals the hand model, for all inputs
                     'pdu_type_constants_std', 'py_APCI_update_eq', 'py_APCI_encode_eq', 'py_APCI_decode_eq', 'py_APDU_encode_eq',
                     'py_APDU_decode_eq', 'py__APDU_encode_eq', 'py__APDU_decode_eq']
RULE = ('cases: APDU.encode on headers of all eight types — flag bits x all 8x16 code points (confirmed request) x octet fields from '
        '{0,1,127,128,255} (full cross product for the small types, one random boundary assignment per flag/code combination for '
        'confirmed requests, a sample of the complex-ack product in the quick tier), each followed by APDU.decode of the octets produced '
        'and of every proper prefix of a sample; headers with missing (None), negative or >255 fields and invalid types (refusals); '
        'APDU.decode of the empty string, every 1-octet string, every first octet x a boundary grid of second octets (in the '
        'thorough tier: all second octets under a confirmed-request first octet, every fifth otherwise), random longer strings; the four table functions on a grid of capabilities (all of -5..2000 in the thorough '
        'tier) and all code points -20..20; object histories (one case per session): for every PDU type x first payload empty / non-empty x '
        'three ways of mutating the decoded object\'s pduData in place (put_data, single octet, target of another encode): decode, mutate, '
        'decode other octets into fresh objects and into the SAME object, hand one to its typed class and mutate that, decode again, '
        're-encode everything (objects that failed to decode are not used again); re-use sessions: a typed PDU object decoded into a second '
        'and third time (typedinto), frames loaded into a PDU object that is decoded from, relayed into (encode back into the consumed PDU) and '
        're-filled with the next frame (new / load / decfrom / enc / peek); large payloads: every PDU type (segmented and not) x payload sizes '
        '1470..1480, 1497, 2000, 5000 octets, encode and decode, through APDU and through the typed classes, and octet strings of 1476..5000 '
        'octets with arbitrary first octets (the payload is a pattern; the canonical result says whether the octets after the header are '
        'exactly that pattern).  non-trivial = an encode that yields octets or is refused, a decode of >= 1 octet, a table '
        'call; distinct by (operation, input); in the direct check: cross-product headers (distinct by construction), distinct random '
        '(header, payload) pairs, table arguments, distinct octet strings that decode to a header.  The direct check sweeps the full cross product of the property text on the implementation alone.')
TRUSTED = ['model coq/theories/Apci.v written by hand after apdu.py:175-322 (APCI.encode/decode) and apdu.py:370-381 (APDU.encode/decode); '
           'tie = (1) TRANSLATION: translator/gen_apci.py re-translates APCI.update/encode/decode, APDU.encode/decode, _APDU.encode/decode and the eight '
           'pduType constants from the source (Python ast, statement by statement, fail-closed) into coq/gen/ApciFns.v on every run, and '
           'coq/theories/ApciGenFacts.v re-proves for all inputs that the translated text equals the hand model; (2) in-kernel correspondence',
           'translator/gen_apci.py itself (about 450 lines: typing of expressions as Z / N / bool / option, evaluation order, continuation-passing of '
           'if/elif/else, value semantics of `self.pduData = pdu.pduData` (aliasing is not modelled); skip allow-list: `if _debug:` lines, docstrings, '
           'PCI.update(a, b)) and coq/theories/ApciRt.v (setters, None-aware comparisons, a_put / a_get_data = comm.PDUData.put / get_data, hand-modelled)',
           'coq/gen/ApduFns.v is AST-translated from apdu.py:58-108 on every run; the rounding theorems are about that text',
           'object-history model coq/theories/ApciSession.v (store of objects, overlay of attributes on re-used objects, payload replaced on '
           'decode, appended on put_data / encode-into, moved by the typed classes): hand-written, tied by the session cases',
           'spec20_1 (Apci.v) and harness spec20_1 (c07.py) are two independent hand transcriptions of clause 20.1 of ASHRAE 135']
ASSUMPTIONS = ['header flag attributes are None/True/False and numeric attributes None or int (other Python objects are outside the model)',
               'bytes/bytearray hold octets < 256 (CPython)',
               'PCI addressing fields (pduSource, pduDestination, ...) are not part of the fixed header and are not compared']

FIELDS = ('apduType', 'apduSeg', 'apduMor', 'apduSA', 'apduSrv', 'apduNak', 'apduSeq', 'apduWin',
          'apduMaxSegs', 'apduMaxResp', 'apduService', 'apduInvokeID', 'apduAbortRejectReason')
FLAGS = ('apduSeg', 'apduMor', 'apduSA', 'apduSrv', 'apduNak')
OCT = [0, 1, 127, 128, 255]

# which attributes carry information per PDU type (apduSeq/apduWin only when apduSeg)
TYPE_FIELDS = {
    0: ('apduSeg', 'apduMor', 'apduSA', 'apduMaxSegs', 'apduMaxResp', 'apduInvokeID', 'apduSeq', 'apduWin', 'apduService'),
    1: ('apduService',),
    2: ('apduInvokeID', 'apduService'),
    3: ('apduSeg', 'apduMor', 'apduInvokeID', 'apduSeq', 'apduWin', 'apduService'),
    4: ('apduNak', 'apduSrv', 'apduInvokeID', 'apduSeq', 'apduWin'),
    5: ('apduInvokeID', 'apduService'),
    6: ('apduInvokeID', 'apduAbortRejectReason'),
    7: ('apduSrv', 'apduInvokeID', 'apduAbortRejectReason'),
}
TYPE_NAMES = {0: 'confirmed_request', 1: 'unconfirmed_request', 2: 'simple_ack', 3: 'complex_ack',
              4: 'segment_ack', 5: 'error', 6: 'reject', 7: 'abort'}


def hdr(ty, **kw):
    h = dict.fromkeys(FIELDS)
    h['apduType'] = ty
    for k, v in kw.items():
        h[k] = v
    return h


def relevant(h):
    """the attributes the wire format of this type carries"""
    fs = list(TYPE_FIELDS[h['apduType']])
    if 'apduSeg' in fs and not h['apduSeg']:
        fs = [f for f in fs if f not in ('apduSeq', 'apduWin')]
    return fs


# ---- independent transcription of clause 20.1 (bit layout by arithmetic, not by the code's branches)
def spec20_1(h):
    t = h['apduType']
    b = lambda x: 1 if x else 0
    if t == 0:
        o = [(0 << 4) | (b(h['apduSeg']) << 3) | (b(h['apduMor']) << 2) | (b(h['apduSA']) << 1),
             (h['apduMaxSegs'] << 4) | h['apduMaxResp'], h['apduInvokeID']]
        if h['apduSeg']:
            o += [h['apduSeq'], h['apduWin']]
        return o + [h['apduService']]
    if t == 1:
        return [0x10, h['apduService']]
    if t == 2:
        return [0x20, h['apduInvokeID'], h['apduService']]
    if t == 3:
        o = [0x30 | (b(h['apduSeg']) << 3) | (b(h['apduMor']) << 2), h['apduInvokeID']]
        if h['apduSeg']:
            o += [h['apduSeq'], h['apduWin']]
        return o + [h['apduService']]
    if t == 4:
        return [0x40 | (b(h['apduNak']) << 1) | b(h['apduSrv']), h['apduInvokeID'], h['apduSeq'], h['apduWin']]
    if t == 5:
        return [0x50, h['apduInvokeID'], h['apduService']]
    if t == 6:
        return [0x60, h['apduInvokeID'], h['apduAbortRejectReason']]
    if t == 7:
        return [0x70 | b(h['apduSrv']), h['apduInvokeID'], h['apduAbortRejectReason']]
    raise AssertionError(t)


# ---- implementation drivers
def _mk_apdu(h, payload):
    from bacpypes.apdu import APDU
    a = APDU()
    for k in FIELDS:
        setattr(a, k, h[k])
    a.pduData = bytearray(payload)
    return a


def impl_encode_raw(h, payload):
    from bacpypes.pdu import PDU
    pdu = PDU()
    _mk_apdu(h, payload).encode(pdu)
    return bytes(pdu.pduData)


def impl_decode_raw(octets):
    from bacpypes.apdu import APDU
    from bacpypes.pdu import PDU
    a = APDU()
    a.decode(PDU(bytes(octets)))
    return {k: getattr(a, k) for k in FIELDS}, bytes(a.pduData)


def canon_field(v):
    if v is None:
        return -1
    if v is True:
        return 1
    if v is False:
        return 0
    return int(v)


def canon_hdr(r):
    h, rest = r
    return [canon_field(h[k]) for k in FIELDS] + [len(rest)] + list(rest)


def impl_encode(h, payload):
    return canon_call(lambda: impl_encode_raw(h, payload), list)


def impl_decode(octets):
    return canon_call(lambda: impl_decode_raw(octets), canon_hdr)


def impl_table(name, arg):
    import bacpypes.apdu as A

    def ok(r):
        if name.startswith('decode'):
            return [0] if r is None else [1, int(r)]
        return [int(r)]
    return canon_call(lambda: getattr(A, name)(arg), ok)


# ---- large payloads: a pattern both sides can regenerate (ApciSession.pat)
BIG_SIZES = list(range(1470, 1481)) + [1497, 2000, 5000]


def pat(n, k):
    return bytes((i * 7 + k) % 256 for i in range(n))


def canon_enc_big(n, k):
    def f(octets):
        hl = max(len(octets) - n, 0)
        return list(octets[:hl]) + [len(octets), 1 if bytes(octets[hl:]) == pat(n, k) else 0]
    return f


def canon_dec_big(n, k):
    def f(r):
        h, rest = r
        return [canon_field(h[x]) for x in FIELDS] + [len(rest), 1 if bytes(rest) == pat(n, k) else 0]
    return f


def big_headers(rng):
    """one random header per PDU type, both segmentation settings for the two types that have the flag"""
    out = []
    for ty in range(8):
        if ty in (0, 3):
            for seg in (False, True):
                h = random_header(rng, ty)
                h['apduSeg'] = seg
                out.append(h)
        else:
            out.append(random_header(rng, ty))
    return out


# ---- Coq expressions
def coq_oz(v):
    if v is None:
        return 'None'
    return '(Some (%d))' % v if v < 0 else '(Some %d)' % v


def coq_ob(v):
    if v is None:
        return 'None'
    return '(Some true)' if v else '(Some false)'


def coq_hdr(h):
    parts = []
    for k in FIELDS:
        parts.append(coq_ob(h[k]) if k in FLAGS else coq_oz(h[k]))
    return '(mkApci %s)' % ' '.join(parts)


def zarg(n):
    return '(%d)' % n if n < 0 else '%d' % n


def case_enc(h, payload, kind='enc'):
    exp = impl_encode(h, payload)
    return Case(kind, 'canon_enc (enc_apdu %s %s)' % (coq_hdr(h), nlist(payload)), exp,
                key=('enc', repr(sorted(h.items(), key=str)), bytes(payload)), nontrivial=True,
                desc={'op': 'encode', 'header': {k: h[k] for k in FIELDS if h[k] is not None}, 'payload': bytes(payload).hex()})


def case_dec(octets, kind='dec'):
    exp = impl_decode(octets)
    return Case(kind, 'canon_dec (dec_apci %s)' % nlist(octets), exp, key=('dec', bytes(octets)),
                nontrivial=len(octets) >= 1, desc={'op': 'decode', 'octets': bytes(octets).hex()})


def case_enc_big(h, n, k, typed=False):
    impl = (lambda: impl_encode_typed_raw(h, pat(n, k))) if typed else (lambda: impl_encode_raw(h, pat(n, k)))
    exp = canon_call(impl, canon_enc_big(n, k))
    return Case('enc-typed-big' if typed else 'enc-big',
                'canon_enc_big %d%%nat %d%%N (enc_apdu %s (pat %d%%nat %d%%N))' % (n, k, coq_hdr(h), n, k), exp,
                key=('enc-big', typed, repr(sorted(h.items(), key=str)), n, k), nontrivial=True,
                desc={'op': 'encode', 'via': 'typed' if typed else 'APDU', 'header': {x: h[x] for x in FIELDS if h[x] is not None},
                      'payload_pattern': [n, k]})


def case_dec_big(prefix, n, k, typed=False):
    octets = bytes(prefix) + pat(n, k)
    impl = (lambda: impl_decode_typed_raw(octets)) if typed else (lambda: impl_decode_raw(octets))
    exp = canon_call(impl, canon_dec_big(n, k))
    return Case('dec-typed-big' if typed else 'dec-big',
                'canon_dec_big %d%%nat %d%%N (dec_apci (%s ++ pat %d%%nat %d%%N))' % (n, k, nlist(prefix), n, k), exp,
                key=('dec-big', typed, bytes(prefix), n, k), nontrivial=True,
                desc={'op': 'decode', 'via': 'typed' if typed else 'APDU', 'prefix': bytes(prefix).hex(), 'payload_pattern': [n, k]})


def _typed_obj(h, payload):
    from bacpypes import apdu as A
    x = A.apdu_types[h['apduType']]()
    for k in FIELDS:
        if k != 'apduType':
            setattr(x, k, h[k])
    x.pduData = bytearray(payload)
    return x


def impl_encode_typed_raw(h, payload):
    from bacpypes import apdu as A
    from bacpypes.pdu import PDU
    a = A.APDU()
    _typed_obj(h, payload).encode(a)        # _APDU.encode: APCI.update(a, self) + payload
    pdu = PDU()
    a.encode(pdu)
    return bytes(pdu.pduData)


def impl_decode_typed_raw(octets):
    from bacpypes import apdu as A
    from bacpypes.pdu import PDU
    a = A.APDU()
    a.decode(PDU(bytes(octets)))
    y = A.apdu_types[a.apduType]()
    y.decode(a)                             # _APDU.decode: APCI.update(self, a) + payload
    return {k: getattr(y, k) for k in FIELDS}, bytes(y.pduData)


def impl_encode_typed(h, payload):
    return canon_call(lambda: impl_encode_typed_raw(h, payload), list)


def impl_decode_typed(octets):
    return canon_call(lambda: impl_decode_typed_raw(octets), canon_hdr)


def case_enc_typed(h, payload):
    exp = impl_encode_typed(h, payload)
    return Case('enc-typed', 'canon_enc (enc_apdu %s %s)' % (coq_hdr(h), nlist(payload)), exp,
                key=('enc-typed', repr(sorted(h.items(), key=str)), bytes(payload)), nontrivial=True,
                desc={'op': 'encode', 'via': 'typed', 'header': {k: h[k] for k in FIELDS if h[k] is not None}, 'payload': bytes(payload).hex()})


def case_dec_typed(octets):
    exp = impl_decode_typed(octets)
    return Case('dec-typed', 'canon_dec (dec_apci %s)' % nlist(octets), exp, key=('dec-typed', bytes(octets)),
                nontrivial=True, desc={'op': 'decode', 'via': 'typed', 'octets': bytes(octets).hex()})


def case_table(name, arg):
    exp = impl_table(name, arg)
    canon = 'canon_tbl_dec' if name.startswith('decode') else 'canon_tbl_enc'
    return Case('table-' + name, '%s (%s %s)' % (canon, name, zarg(arg)), exp, key=(name, arg), nontrivial=True,
                desc={'op': name, 'arg': arg})


# ---- object histories: a store of APDU objects and what an application does with them
#   rich ops (JSON-friendly lists):  ['dec', o, header, payload-hex]   objs[o].decode(PDU(spec20_1(header) + payload)), o fresh or used
#                                    ['decraw', o, hex]                the same with arbitrary octets (truncations)
#                                    ['put', o, hex]                   objs[o].put_data(...): in-place append to the object's pduData
#                                    ['enct', o, header, payload-hex]  a fresh APDU (header, payload) does .encode(objs[o])
#                                    ['typed', dst, src]               objs[dst] = apdu_types[t](); objs[dst].decode(objs[src])
#                                    ['reenc', o]                      objs[o] encoded into a fresh PDU
#   round 3 (re-used typed objects, sources and targets):
#                                    ['typedinto', dst, src]           objs[dst].decode(objs[src]), objs[dst] an EXISTING typed object
#                                    ['new', o]                        objs[o] = PDU()
#                                    ['load', o, header, payload-hex]  objs[o].put_data(spec20_1(header) + payload): a frame arrives in that PDU
#                                    ['decfrom', o, src]               objs[o].decode(objs[src]): the source is an object the application keeps
#                                    ['enc', o, dst]                   objs[o].encode(objs[dst]) (APDU.encode; relay when dst is the consumed source)
#                                    ['peek', o]                       bytes(objs[o].pduData) observed
def _framed(l):
    return [len(l)] + list(l)


def op_octets(op):
    if op[0] in ('dec', 'load'):
        return bytes(spec20_1(_h(op[2]))) + bytes.fromhex(op[3])
    return bytes.fromhex(op[2])


def _h(d):
    h = hdr(None)
    h.update(d)
    return h


def impl_session(ops):
    """run the operations on the implementation; observations framed exactly as ApciSession.step does"""
    from bacpypes import apdu as A
    from bacpypes.pdu import PDU
    objs, out = {}, []

    def get(o):
        if o not in objs:
            objs[o] = A.APDU()
        return objs[o]
    for op in ops:
        k = op[0]
        if k in ('dec', 'decraw'):
            obj = get(op[1])

            def f():
                obj.decode(PDU(op_octets(op)))
                return {x: getattr(obj, x) for x in FIELDS}, bytes(obj.pduData)
            out += _framed(canon_call(f, canon_hdr))
        elif k == 'put':
            get(op[1]).put_data(bytes.fromhex(op[2]))
        elif k == 'enct':
            out += _framed(canon_call(lambda: _mk_apdu(_h(op[2]), bytes.fromhex(op[3])).encode(get(op[1])), lambda r: []))
        elif k == 'typed':
            src = get(op[2])
            dst = A.apdu_types[src.apduType]()
            dst.decode(src)
            objs[op[1]] = dst
        elif k == 'reenc':
            obj = get(op[1])

            def g():
                pdu = PDU()
                if isinstance(obj, A._APDU):
                    a = A.APDU()
                    obj.encode(a)
                    a.encode(pdu)
                else:
                    obj.encode(pdu)
                return bytes(pdu.pduData)
            out += _framed(canon_call(g, list))
        elif k == 'typedinto':
            objs[op[1]].decode(get(op[2]))
        elif k == 'new':
            objs[op[1]] = PDU()
        elif k == 'load':
            get(op[1]).put_data(op_octets(op))
        elif k == 'decfrom':
            obj, src = get(op[1]), get(op[2])

            def f2():
                obj.decode(src)
                return {x: getattr(obj, x) for x in FIELDS}, bytes(obj.pduData)
            out += _framed(canon_call(f2, canon_hdr))
        elif k == 'enc':
            out += _framed(canon_call(lambda: get(op[1]).encode(get(op[2])), lambda r: []))
        elif k == 'peek':
            out += _framed(list(bytes(get(op[1]).pduData)))
        else:
            raise AssertionError(op)
    return out


def coq_op(op):
    k = op[0]
    if k in ('dec', 'decraw'):
        return '(OpDecode %d%%nat %s)' % (op[1], nlist(op_octets(op)))
    if k == 'put':
        return '(OpPut %d%%nat %s)' % (op[1], nlist(bytes.fromhex(op[2])))
    if k == 'enct':
        return '(OpEncodeInto %d%%nat %s %s)' % (op[1], coq_hdr(_h(op[2])), nlist(bytes.fromhex(op[3])))
    if k == 'typed':
        return '(OpTyped %d%%nat %d%%nat)' % (op[1], op[2])
    if k == 'reenc':
        return '(OpReencode %d%%nat)' % op[1]
    if k == 'typedinto':
        return '(OpTyped %d%%nat %d%%nat)' % (op[1], op[2])
    if k == 'new':
        return '(OpNew %d%%nat)' % op[1]
    if k == 'load':
        return '(OpPut %d%%nat %s)' % (op[1], nlist(op_octets(op)))
    if k == 'decfrom':
        return '(OpDecodeFrom %d%%nat %d%%nat)' % (op[1], op[2])
    if k == 'enc':
        return '(OpEncodeTo %d%%nat %d%%nat)' % (op[1], op[2])
    if k == 'peek':
        return '(OpPeek %d%%nat)' % op[1]
    raise AssertionError(op)


def case_session(ops, kind='history'):
    exp = impl_session(ops)
    return Case(kind, 'canon_session [%s]' % '; '.join(coq_op(o) for o in ops), exp, key=('session', repr(ops)),
                nontrivial=True, desc={'op': 'session', 'session': ops})


def _hd(h):
    return {k: h[k] for k in FIELDS if h[k] is not None}


def history_sessions(rng, variants):
    """for every PDU type x first payload empty / non-empty x way of mutating the decoded object in place:
    decode -> mutate that object's pduData -> decode other octets (header-only and with payload) into fresh objects
    and into the SAME object -> hand one to its typed class, mutate that too, decode again -> re-encode everything"""
    out = []
    pay = lambda: bytes(rng.randrange(256) for _ in range(rng.choice([1, 2, 5])))
    for t1 in range(8):
        for first_empty in (True, False):
            for mut in ('put', 'enct', 'put-one'):
                for v in range(variants):
                    ops = []
                    ops.append(['dec', 0, _hd(random_header(rng, t1)), '' if first_empty else pay().hex()])
                    if mut == 'put':
                        ops.append(['put', 0, pay().hex()])
                    elif mut == 'put-one':
                        ops.append(['put', 0, bytes([rng.randrange(256)]).hex()])
                    else:
                        ops.append(['enct', 0, _hd(random_header(rng)), pay().hex() if rng.random() < 0.5 else ''])
                    # other octets into fresh objects: one header-only, one with payload
                    t2 = (t1 + 1 + 3 * v) % 8
                    ops.append(['dec', 1, _hd(random_header(rng, t2)), ''])
                    ops.append(['dec', 2, _hd(random_header(rng)), pay().hex()])
                    # ... and into the SAME object (payload must be replaced by what is fed now)
                    ops.append(['dec', 0, _hd(random_header(rng, (t1 + v) % 8)), '' if rng.random() < 0.6 else pay().hex()])
                    # the stack's next step: typed class takes the decoded APDU; the application scribbles on that too
                    ops.append(['typed', 10, 1])
                    ops.append(['put', 10, pay().hex()])
                    ops.append(['dec', 3, _hd(random_header(rng, rng.choice([2, 4, 6, 7]))), ''])
                    if rng.random() < 0.3:
                        bs = op_octets(ops[-1])
                        ops.append(['decraw', 4, bs[:rng.randrange(len(bs))].hex()])     # short buffer mid-history
                    ops.append(['dec', 5, _hd(random_header(rng, t1)), ''])
                    for o in (0, 2, 3, 5, 10):
                        ops.append(['reenc', o])
                    out.append(ops)
    return out


def reuse_sessions(rng, variants):
    """for every PDU type: (1) ONE typed object that is the decode target for a second and a third frame of its type
    (payload non-empty, then different, then empty), re-encoded after each; (2) relay: a frame is loaded into a PDU object,
    an APDU decodes from it and encodes back into that same PDU; (3) receive-buffer reuse: the next frame is loaded into the
    PDU an APDU was decoded from, the earlier APDU is re-encoded, the next frame is decoded from the same PDU into a fresh
    and into the earlier APDU"""
    out = []
    pay = lambda: bytes(rng.randrange(256) for _ in range(rng.choice([1, 3, 7, 14])))
    for t in range(8):
        for v in range(variants):
            ops = []
            # (1) typed object 10 used three times
            ops.append(['dec', 0, _hd(random_header(rng, t)), pay().hex()])
            ops.append(['typed', 10, 0])
            if v % 2:
                ops.append(['put', 10, pay().hex()])                  # the application scribbled on it in between
            ops.append(['reenc', 10])
            ops.append(['dec', 1, _hd(random_header(rng, t)), pay().hex()])
            ops.append(['typedinto', 10, 1])
            ops.append(['reenc', 10])
            ops.append(['dec', 2, _hd(random_header(rng, t)), '' if v % 3 else pay().hex()])
            ops.append(['typedinto', 10, 2])
            ops.append(['reenc', 10])
            # (2) relay through the PDU the frame came in
            ops.append(['new', 20])
            ops.append(['load', 20, _hd(random_header(rng, t)), pay().hex() if v % 2 == 0 else ''])
            ops.append(['decfrom', 3, 20])
            ops.append(['peek', 20])
            ops.append(['enc', 3, 20])
            ops.append(['peek', 20])
            # (3) the next frames arrive in the PDU a frame was decoded from
            ops.append(['new', 21])
            ops.append(['load', 21, _hd(random_header(rng, t)), pay().hex()])
            ops.append(['decfrom', 4, 21])
            ops.append(['load', 21, _hd(random_header(rng, (t + 1 + v) % 8)), pay().hex() if v % 2 else ''])
            ops.append(['reenc', 4])
            ops.append(['decfrom', 5, 21])
            ops.append(['load', 21, _hd(random_header(rng)), pay().hex()])
            ops.append(['decfrom', 4, 21])                            # into the APDU used before
            ops.append(['peek', 21])
            for o in (3, 4, 5):
                ops.append(['reenc', o])
            out.append(ops)
    return out


DEMO_SESSION = [['dec', 0, {'apduType': 6, 'apduInvokeID': 7, 'apduAbortRejectReason': 4}, ''], ['put', 0, 'dead'],
                ['enct', 0, {'apduType': 0, 'apduSeg': False, 'apduMor': False, 'apduSA': False, 'apduMaxSegs': 0, 'apduMaxResp': 5,
                             'apduInvokeID': 3, 'apduService': 12}, '0c008000011955']] + \
               [['dec', 1 + t, _hd_, ''] for t, _hd_ in enumerate([
                   {'apduType': 0, 'apduSeg': False, 'apduMor': False, 'apduSA': True, 'apduMaxSegs': 4, 'apduMaxResp': 5, 'apduInvokeID': 128, 'apduService': 12},
                   {'apduType': 1, 'apduService': 8}, {'apduType': 2, 'apduInvokeID': 255, 'apduService': 15},
                   {'apduType': 3, 'apduSeg': True, 'apduMor': True, 'apduInvokeID': 1, 'apduSeq': 127, 'apduWin': 16, 'apduService': 14},
                   {'apduType': 4, 'apduNak': True, 'apduSrv': True, 'apduInvokeID': 0, 'apduSeq': 255, 'apduWin': 1},
                   {'apduType': 5, 'apduInvokeID': 127, 'apduService': 12}, {'apduType': 6, 'apduInvokeID': 7, 'apduAbortRejectReason': 4},
                   {'apduType': 7, 'apduSrv': True, 'apduInvokeID': 128, 'apduAbortRejectReason': 11}])] + \
               [['reenc', o] for o in range(0, 9)]


def check_session(ops):
    """implementation only: 'payload untouched' and 'fields restored' judged against the octets that were fed, at the
    moment of decoding and again when everything is re-encoded at the end; in-place appends are expected to show in
    the object they were made on and nowhere else"""
    from bacpypes import apdu as A
    from bacpypes.pdu import PDU
    from bacpypes.errors import DecodingError
    objs, exp = {}, {}
    pending = {}        # PDU-like object -> list of [header, payload] frames loaded into it and not decoded yet (None = unknown)

    def get(o):
        if o not in objs:
            objs[o] = A.APDU()
        return objs[o]

    def restored(obj, h, payload, i):
        if bytes(obj.pduData) != payload:
            return fail('history-payload-changed', i, fed=payload.hex(), got=bytes(obj.pduData).hex())
        if obj.apduType != h['apduType']:
            return fail('history-field-not-restored', i, field='apduType', got=obj.apduType)
        for f in relevant(h):
            v = getattr(obj, f)
            if v is None or canon_field(v) != canon_field(h[f]):
                return fail('history-field-not-restored', i, field=f, got=v)
        return None

    def fail(kind, i, **kw):
        d = {'kind': kind, 'session': ops, 'step': i, 'op': ops[i]}
        d.update(kw)
        return d
    for i, op in enumerate(ops):
        k = op[0]
        try:
            if k == 'dec':
                h, payload = _h(op[2]), bytes.fromhex(op[3])
                obj = get(op[1])
                obj.decode(PDU(op_octets(op)))
                if bytes(obj.pduData) != payload:
                    return fail('history-payload-changed', i, fed=payload.hex(), got=bytes(obj.pduData).hex())
                if obj.apduType != h['apduType']:
                    return fail('history-field-not-restored', i, field='apduType', got=obj.apduType)
                for f in relevant(h):
                    v = getattr(obj, f)
                    if v is None or canon_field(v) != canon_field(h[f]):
                        return fail('history-field-not-restored', i, field=f, got=v)
                exp[op[1]] = [h, payload]
            elif k == 'decraw':
                exp.pop(op[1], None)
                try:
                    get(op[1]).decode(PDU(op_octets(op)))
                except DecodingError:
                    pass
            elif k == 'put':
                get(op[1]).put_data(bytes.fromhex(op[2]))
                if op[1] in pending:
                    pending[op[1]] = None
                if op[1] in exp:
                    exp[op[1]][1] = exp[op[1]][1] + bytes.fromhex(op[2])
            elif k == 'enct':
                h2, p2 = _h(op[2]), bytes.fromhex(op[3])
                _mk_apdu(h2, p2).encode(get(op[1]))
                if op[1] in exp:
                    exp[op[1]][1] = exp[op[1]][1] + bytes(spec20_1(h2)) + p2
            elif k == 'typed':
                src = get(op[2])
                dst = A.apdu_types[src.apduType]()
                dst.decode(src)
                objs[op[1]] = dst
                if op[2] in exp:
                    exp[op[1]] = list(exp.pop(op[2]))        # the payload moves to the typed object
                    if bytes(dst.pduData) != exp[op[1]][1]:
                        return fail('history-payload-changed', i, fed=exp[op[1]][1].hex(), got=bytes(dst.pduData).hex())
            elif k == 'typedinto':
                # an EXISTING typed object is the decode target again: payload and fields are the new frame's
                dst, src = objs[op[1]], get(op[2])
                dst.decode(src)
                exp.pop(op[1], None)
                if op[2] in exp:
                    exp[op[1]] = list(exp.pop(op[2]))
                    r = restored(dst, exp[op[1]][0], exp[op[1]][1], i)
                    if r:
                        return r
            elif k == 'new':
                objs[op[1]] = PDU()
                exp.pop(op[1], None)
                pending[op[1]] = []
            elif k == 'load':
                obj = get(op[1])
                drained = len(obj.pduData) == 0
                obj.put_data(op_octets(op))
                # what the PDU holds is known only if it was empty (or is tracked) when the frame arrived
                if pending.get(op[1]) == [] and drained:
                    pending[op[1]] = [[_h(op[2]), bytes.fromhex(op[3])]]
                else:
                    pending[op[1]] = None
                # "payload untouched": an APDU decoded earlier from this PDU must not change (checked at its re-encode)
            elif k == 'decfrom':
                obj, src = get(op[1]), get(op[2])
                fr = pending.get(op[2])
                exp.pop(op[1], None)
                if fr and len(fr) == 1:
                    h, payload = fr[0]
                    obj.decode(src)
                    r = restored(obj, h, payload, i)
                    if r:
                        return r
                    exp[op[1]] = [h, payload]
                    pending[op[2]] = [] if len(src.pduData) == 0 else None
                else:
                    try:
                        obj.decode(src)
                    except DecodingError:
                        pass
                    pending[op[2]] = None
            elif k == 'enc':
                # encode a decoded APDU into an object of the store (relay: the PDU it was decoded from): must not fail,
                # and the target must end with the clause 20.1 octets + payload
                obj, dst = get(op[1]), get(op[2])
                if op[1] not in exp:
                    continue
                h, payload = exp[op[1]]
                obj.encode(dst)
                want = bytes(spec20_1(h)) + payload
                if not bytes(dst.pduData).endswith(want):
                    return fail('history-relay', i, got=bytes(dst.pduData).hex(), want_suffix=want.hex())
                if bytes(obj.pduData) != payload:
                    return fail('history-payload-changed', i, fed=payload.hex(), got=bytes(obj.pduData).hex())
                pending[op[2]] = [[h, payload]] if bytes(dst.pduData) == want else None
            elif k == 'peek':
                pass
            elif k == 'reenc':
                if op[1] not in exp:
                    continue
                obj = get(op[1])
                pdu = PDU()
                if isinstance(obj, A._APDU):
                    a = A.APDU()
                    obj.encode(a)
                    a.encode(pdu)
                else:
                    obj.encode(pdu)
                h, payload = exp[op[1]]
                want = bytes(spec20_1(h)) + payload
                if bytes(pdu.pduData) != want:
                    return fail('history-reencode', i, got=bytes(pdu.pduData).hex(), want=want.hex())
        except Exception as e:
            return fail('history-exception', i, exc=repr(e)[:200])
    return None


# ---- generators
def product_headers(ty, octs=OCT):
    """full cross product of flag bits x code points x boundary octets for one type"""
    if ty == 0:
        for seg, mor, sa in itertools.product((False, True), repeat=3):
            for ms in range(8):
                for mr in range(16):
                    for inv, sq, wn, svc in itertools.product(octs, repeat=4):
                        yield hdr(0, apduSeg=seg, apduMor=mor, apduSA=sa, apduMaxSegs=ms, apduMaxResp=mr,
                                  apduInvokeID=inv, apduSeq=sq, apduWin=wn, apduService=svc)
    elif ty == 1:
        for svc in octs:
            yield hdr(1, apduService=svc)
    elif ty in (2, 5):
        for inv, svc in itertools.product(octs, repeat=2):
            yield hdr(ty, apduInvokeID=inv, apduService=svc)
    elif ty == 3:
        for seg, mor in itertools.product((False, True), repeat=2):
            for inv, sq, wn, svc in itertools.product(octs, repeat=4):
                yield hdr(3, apduSeg=seg, apduMor=mor, apduInvokeID=inv, apduSeq=sq, apduWin=wn, apduService=svc)
    elif ty == 4:
        for nak, srv in itertools.product((False, True), repeat=2):
            for inv, sq, wn in itertools.product(octs, repeat=3):
                yield hdr(4, apduNak=nak, apduSrv=srv, apduInvokeID=inv, apduSeq=sq, apduWin=wn)
    elif ty == 6:
        for inv, rsn in itertools.product(octs, repeat=2):
            yield hdr(6, apduInvokeID=inv, apduAbortRejectReason=rsn)
    elif ty == 7:
        for srv in (False, True):
            for inv, rsn in itertools.product(octs, repeat=2):
                yield hdr(7, apduSrv=srv, apduInvokeID=inv, apduAbortRejectReason=rsn)


def confirmed_grid(rng, per_combo=1):
    """all 8 flag combinations x 8 x 16 code points, octet fields drawn from the boundary set"""
    for seg, mor, sa in itertools.product((False, True), repeat=3):
        for ms in range(8):
            for mr in range(16):
                for _ in range(per_combo):
                    yield hdr(0, apduSeg=seg, apduMor=mor, apduSA=sa, apduMaxSegs=ms, apduMaxResp=mr,
                              apduInvokeID=rng.choice(OCT), apduSeq=rng.choice(OCT), apduWin=rng.choice(OCT),
                              apduService=rng.choice(OCT))


def rand_payload(rng):
    return bytes(rng.randrange(256) for _ in range(rng.choice([0, 0, 1, 2, 3, 6])))


def random_header(rng, ty=None):
    """a valid header of a random type with uniformly random octets"""
    ty = rng.randrange(8) if ty is None else ty
    o = lambda: rng.randrange(256)
    f = lambda: rng.random() < 0.5
    h = hdr(ty)
    for k in TYPE_FIELDS[ty]:
        if k in FLAGS:
            h[k] = f()
        elif k == 'apduMaxSegs':
            h[k] = rng.randrange(8)
        elif k == 'apduMaxResp':
            h[k] = rng.randrange(16)
        else:
            h[k] = o()
    return h


def malformed_headers(rng):
    """headers the encoder must refuse (or whose stray attributes it must ignore)"""
    out = []
    for ty in range(8):
        base = random_header(rng, ty)
        if ty in (0, 3):
            base['apduSeg'] = True
        for k in TYPE_FIELDS[ty]:
            for bad in ((None, True) if k in FLAGS else (None, -1, 256, 300, -200)):
                h = dict(base)
                h[k] = bad
                out.append(h)
        # stray attributes of other types are ignored
        h = dict(base)
        for k in FIELDS:
            if h[k] is None:
                h[k] = (rng.random() < 0.5) if k in FLAGS else rng.randrange(256)
        out.append(h)
        # unsegmented: sequence number / window size not needed (None) or garbage
        if ty in (0, 3):
            for sq, wn in ((None, None), (300, -1), (5, None)):
                h = dict(base)
                h['apduSeg'], h['apduSeq'], h['apduWin'] = False, sq, wn
                out.append(h)
                h = dict(h)
                h['apduSeg'] = None
                out.append(h)
    # max-segments / max-response combinations whose sum fits or does not fit an octet
    for ms, mr in ((8, 0), (15, 15), (16, 0), (15, 16), (-1, 20), (-1, 15), (7, 16), (7, 143), (7, 144), (0, 255), (0, 256), (1, -16), (1, -17)):
        h = random_header(rng, 0)
        h['apduMaxSegs'], h['apduMaxResp'] = ms, mr
        out.append(h)
    for ty in (None, 8, 9, 15, 16, -1, 255):
        h = random_header(rng, 0)
        h['apduType'] = ty
        out.append(h)
    return out


SECONDS = [0, 0x7F, 0x80, 255]


def table_args(rng, tier):
    if tier == 'thorough':
        return list(range(-5, 2001))
    s = set(range(-5, 141))
    for b in (50, 128, 206, 480, 1024, 1476, 2000, 64, 65):
        s.update(range(b - 2, b + 3))
    s.update(rng.randrange(0, 2001) for _ in range(60))
    return sorted(s)


def cases(rng, tier):
    out = []
    big = tier == 'thorough'
    encoded = []

    def both(h, kind):
        payload = rand_payload(rng)
        c = case_enc(h, payload, kind)
        out.append(c)
        if c.expected[0] == 0:
            bs = bytes(c.expected[1:])
            encoded.append(bs)
            out.append(case_dec(bs, 'dec-valid'))

    for h in confirmed_grid(rng, 3 if big else 1):
        both(h, 'enc-confirmed_request')
    for ty in (1, 2, 4, 5, 6, 7):
        hs = list(product_headers(ty))
        if ty == 4 and not big:
            hs = rng.sample(hs, 250)
        for h in hs:
            both(h, 'enc-' + TYPE_NAMES[ty])
    ca = list(product_headers(3))
    if not big:
        ca = rng.sample(ca, 250)
    for h in ca:
        both(h, 'enc-complex_ack')
    for _ in range(3000 if big else 200):
        both(random_header(rng), 'enc-random')
    # the same through the typed PDU classes and APCI.update (model: update copies every attribute)
    for _ in range(2000 if big else 200):
        h = random_header(rng)
        payload = rand_payload(rng)
        c = case_enc_typed(h, payload)
        out.append(c)
        if c.expected[0] == 0:
            out.append(case_dec_typed(bytes(c.expected[1:])))
    for h in malformed_headers(rng):
        out.append(case_enc(h, rand_payload(rng), 'enc-malformed'))
    # truncations of valid encodings (short buffers -> DecodingError via PDUData.get)
    for bs in rng.sample(encoded, min(len(encoded), 800 if big else 100)):
        for k in range(len(bs)):
            out.append(case_dec(bs[:k], 'dec-truncated'))
    # exhaustive short strings
    out.append(case_dec(b'', 'dec-exh'))
    for a in range(256):
        out.append(case_dec(bytes([a]), 'dec-exh'))
    for a in range(256):
        if big:
            # every second octet for the types that look at it bit-wise (confirmed request: code octet),
            # a stride for the others (the second octet is copied as invoke ID / service choice);
            # the direct check decodes all 65 536 two-octet strings on the implementation
            seconds = range(256) if a >> 4 == 0 else sorted(set(list(range(0, 256, 5)) + SECONDS))
        else:
            seconds = SECONDS + [rng.randrange(256)]
        for b in seconds:
            out.append(case_dec(bytes([a, b]), 'dec-exh'))
    for _ in range(6000 if big else 600):
        n = rng.choice([3, 3, 4, 5, 6, 7, 10])
        bs = bytearray(rng.randrange(256) for _ in range(n))
        if rng.random() < 0.7:
            bs[0] = (rng.randrange(8) << 4) | rng.randrange(16)
        out.append(case_dec(bytes(bs), 'dec-random'))
    # large payloads: sizes at and around the largest APDU (1476) and far beyond, every PDU type, both directions,
    # through APDU and through the typed classes
    for h in big_headers(rng):
        sizes = BIG_SIZES if big else BIG_SIZES[:11:2] + [1471, 1473, 1477] + BIG_SIZES[11:]
        for n in sorted(set(sizes)):
            k = rng.randrange(256)
            out.append(case_enc_big(h, n, k))
            out.append(case_dec_big(spec20_1(h), n, k))
            if big or n in (1470, 1471, 1474, 1476, 1477, 2000):
                out.append(case_enc_big(h, n, k, typed=True))
                out.append(case_dec_big(spec20_1(h), n, k, typed=True))
    # long octet strings with arbitrary first octets (valid and reserved types, truncated-looking headers)
    for n in ([1470, 1471, 1472, 1473, 1474, 1475, 1476, 1477, 1478, 1480, 1497, 2000, 5000] if big else [1471, 1475, 1476, 1477, 1478, 2000, 5000]):
        for _ in range(12 if big else 4):
            prefix = bytes(rng.randrange(256) for _ in range(rng.choice([1, 2, 6])))
            out.append(case_dec_big(prefix, n, rng.randrange(256)))
    # object histories (one case per session)
    out.append(case_session(DEMO_SESSION))
    for ops in history_sessions(rng, 6 if big else 2):
        out.append(case_session(ops))
    for ops in reuse_sessions(rng, 12 if big else 4):
        out.append(case_session(ops, 'history-reuse'))
    # code tables
    for n in table_args(rng, tier):
        out.append(case_table('encode_max_segments_accepted', n))
        out.append(case_table('encode_max_apdu_length_accepted', n))
    for c in range(-20, 21):
        out.append(case_table('decode_max_segments_accepted', c))
        out.append(case_table('decode_max_apdu_length_accepted', c))
    # de-duplicate by key, keep order
    seen, uniq = set(), []
    for c in out:
        if c.key not in seen:
            seen.add(c.key)
            uniq.append(c)
    return uniq


# ---- direct, implementation-only predicate
STD_MAX_SEGS = {1: 2, 2: 4, 3: 8, 4: 16, 5: 32, 6: 64}            # clause 20.1.2.4; 0 = unspecified, 7 = more than 64
STD_MAX_APDU = {0: 50, 1: 128, 2: 206, 3: 480, 4: 1024, 5: 1476}   # clause 20.1.2.5; 6..15 reserved


def check_header(h, payload):
    """encode -> clause 20.1 layout -> decode -> same fields, payload untouched"""
    try:
        octets = impl_encode_raw(h, payload)
    except Exception as e:
        return {'kind': 'encode-exception', 'header': _show(h), 'payload': bytes(payload).hex(), 'payload_octets': len(payload), 'exc': repr(e)[:200]}
    want = bytes(spec20_1(h)) + bytes(payload)
    if octets != want:
        return {'kind': 'layout', 'header': _show(h), 'payload': bytes(payload).hex(), 'got': octets.hex(), 'want': want.hex()}
    try:
        d, rest = impl_decode_raw(octets)
    except Exception as e:
        return {'kind': 'decode-exception', 'header': _show(h), 'octets': octets.hex(), 'octets_len': len(octets), 'exc': repr(e)[:200]}
    if rest != bytes(payload):
        return {'kind': 'payload-changed', 'header': _show(h), 'octets': octets.hex(), 'payload': bytes(payload).hex(), 'got': rest.hex()}
    if d['apduType'] != h['apduType']:
        return {'kind': 'field-not-restored', 'field': 'apduType', 'header': _show(h), 'octets': octets.hex(), 'decoded': _show(d)}
    for k in relevant(h):
        if d[k] is None or canon_field(d[k]) != canon_field(h[k]):
            return {'kind': 'field-not-restored', 'field': k, 'header': _show(h), 'octets': octets.hex(), 'decoded': _show(d)}
    return None


def _typed(h, payload):
    """the same header through the typed PDU classes (the way the stack builds them): X(...).encode(APDU); APDU.encode(PDU)"""
    from bacpypes import apdu as A
    from bacpypes.pdu import PDU
    t = h['apduType']
    cls = A.apdu_types[t]
    x = cls()
    for k in relevant(h):
        setattr(x, k, h[k])
    x.pduData = bytearray(payload)
    a = A.APDU()
    x.encode(a)
    pdu = PDU()
    a.encode(pdu)
    octets = bytes(pdu.pduData)
    b = A.APDU()
    b.decode(PDU(octets))
    y = A.apdu_types[b.apduType]()
    y.decode(b)
    return octets, {k: getattr(y, k) for k in FIELDS}, bytes(y.pduData), type(y).__name__, cls.__name__


def check_typed(h, payload):
    try:
        octets, d, rest, got_cls, want_cls = _typed(h, payload)
    except Exception as e:
        return {'kind': 'typed-exception', 'header': _show(h), 'payload': bytes(payload).hex(), 'payload_octets': len(payload), 'exc': repr(e)[:200]}
    want = bytes(spec20_1(h)) + bytes(payload)
    if octets != want:
        return {'kind': 'typed-layout', 'header': _show(h), 'payload': bytes(payload).hex(), 'got': octets.hex(), 'want': want.hex()}
    if got_cls != want_cls or rest != bytes(payload) or d['apduType'] != h['apduType']:
        return {'kind': 'typed-not-restored', 'field': 'class/payload/type', 'header': _show(h), 'payload': bytes(payload).hex(),
                'octets': octets.hex(), 'decoded': _show(d)}
    for k in relevant(h):
        if d[k] is None or canon_field(d[k]) != canon_field(h[k]):
            return {'kind': 'typed-not-restored', 'field': k, 'header': _show(h), 'payload': bytes(payload).hex(),
                    'octets': octets.hex(), 'decoded': _show(d)}
    return None


def _show(h):
    return {k: (h[k] if not isinstance(h[k], bool) else bool(h[k])) for k in FIELDS if h.get(k) is not None}


def check_arbitrary(bs):
    """an arbitrary octet string yields a header (type 0..7, payload a suffix of the input) or DecodingError"""
    from bacpypes.errors import DecodingError
    try:
        d, rest = impl_decode_raw(bs)
    except DecodingError:
        return None, False
    except Exception as e:
        return {'kind': 'decode-other-error', 'octets': bs.hex(), 'octets_len': len(bs), 'exc': repr(e)[:200]}, False
    t = d['apduType']
    if not (isinstance(t, int) and 0 <= t <= 7 and t == bs[0] >> 4):
        return {'kind': 'decode-bad-type', 'octets': bs.hex(), 'decoded': _show(d)}, False
    if not bs.endswith(rest) or len(rest) >= len(bs):
        return {'kind': 'decode-payload-not-suffix', 'octets': bs.hex(), 'rest': rest.hex()}, False
    for k in relevant(d):
        v = d[k]
        width = {'apduMaxSegs': 8, 'apduMaxResp': 16}.get(k, 256)      # clause 20.1: 3-bit / 4-bit / octet fields
        if v is None or (k in FLAGS and not isinstance(v, bool)) or (k not in FLAGS and not (0 <= v < width)):
            return {'kind': 'decode-field-missing-or-wide', 'octets': bs.hex(), 'field': k, 'decoded': _show(d)}, False
    return None, True


def _call(fn, a):
    try:
        return ('ok', fn(a))
    except Exception as e:
        return ('exc', type(e).__name__)


def check_tables():
    """rounding down, never up; standard's table both ways"""
    import bacpypes.apdu as A
    fails, n = [], 0
    for cap in range(0, 2001):
        n += 2
        r = _call(A.encode_max_segments_accepted, cap)
        ok = False
        if cap == 0:
            ok = r == ('ok', 0) or r[0] == 'exc'                 # unspecified
        elif cap == 1:
            ok = r[0] == 'exc' or r == ('ok', 0)                 # cannot be rounded down to 2: refuse (or say unspecified)
        elif r[0] == 'ok' and isinstance(r[1], int) and not isinstance(r[1], bool):
            c = r[1]
            if cap > 64:
                ok = c in (6, 7)                                 # 7 = "more than 64"; 6 would still be a rounding down
            else:
                ok = c in STD_MAX_SEGS and STD_MAX_SEGS[c] <= cap and (c == 6 or STD_MAX_SEGS[c + 1] > cap)
        if not ok:
            fails.append({'kind': 'table-maxsegs-encode', 'arg': cap, 'result': list(r)})
        r = _call(A.encode_max_apdu_length_accepted, cap)
        if cap < 50:
            ok = r[0] == 'exc'                                   # any code would promise at least 50 octets
        else:
            ok = (r[0] == 'ok' and isinstance(r[1], int) and not isinstance(r[1], bool) and r[1] in STD_MAX_APDU
                  and STD_MAX_APDU[r[1]] <= cap and (r[1] == 5 or STD_MAX_APDU[r[1] + 1] > cap))
        if not ok:
            fails.append({'kind': 'table-maxapdu-encode', 'arg': cap, 'result': list(r)})
    for c in range(8):
        n += 1
        r = _call(A.decode_max_segments_accepted, c)
        if c in STD_MAX_SEGS:
            ok = r == ('ok', STD_MAX_SEGS[c]) and _call(A.encode_max_segments_accepted, r[1]) == ('ok', c)
        elif c == 0:
            ok = r[0] == 'ok' and not r[1]                       # unspecified: no number
        else:
            ok = r[0] == 'ok' and (not r[1] or r[1] > 64)        # more than 64: no bound, or a number above 64
        if not ok:
            fails.append({'kind': 'table-maxsegs-decode', 'arg': c, 'result': list(r)})
    for c in range(16):
        n += 1
        r = _call(A.decode_max_apdu_length_accepted, c)
        if c in STD_MAX_APDU:
            ok = r == ('ok', STD_MAX_APDU[c]) and _call(A.encode_max_apdu_length_accepted, r[1]) == ('ok', c)
        else:
            ok = r[0] == 'exc' or not r[1]                       # reserved: refused or no number
        if not ok:
            fails.append({'kind': 'table-maxapdu-decode', 'arg': c, 'result': list(r)})
    return fails, n


def direct(rng, tier, focus=()):
    failures, n, nontriv = [], 0, 0
    samples = []
    big = tier == 'thorough'
    cap = 40        # failures kept per kind

    perkind = {}

    def add(f):
        if f:
            k = f['kind']
            perkind[k] = perkind.get(k, 0) + 1
            if perkind[k] <= cap:
                failures.append(f)

    # (a) full cross product per type: layout + restore, payload untouched
    for ty in range(8):
        cnt = 0
        for h in product_headers(ty):
            if ty == 0 and not h['apduSeg'] and not big:
                # unsegmented: sequence number and window size are not on the wire; three settings suffice
                if (h['apduSeq'], h['apduWin']) not in ((0, 0), (255, 1), (127, 128)):
                    continue
            payload = b'' if cnt % 3 == 0 else bytes([cnt & 255, (cnt >> 8) & 255, 0x55][:1 + cnt % 3])
            add(check_header(h, payload))
            cnt += 1
            if cnt % (97 if ty == 0 else 3) == 0:
                add(check_typed(h, payload))
                n += 1
        n += cnt
        nontriv += cnt
        samples.append({'direct': 'layout+restore ' + TYPE_NAMES[ty], 'headers': cnt})
    # random octets everywhere, longer payloads
    seen_random = set()
    for _ in range(100000 if big else 15000):
        h = random_header(rng)
        payload = bytes(rng.randrange(256) for _ in range(rng.choice([0, 1, 2, 5, 20, 60])))
        add(check_header(h, payload))
        add(check_typed(h, payload))
        n += 2
        seen_random.add((tuple(canon_field(h[k]) for k in FIELDS), payload))
    nontriv += len(seen_random)          # cross-product headers above are distinct by construction
    # (a'') large payloads: every type x sizes around the largest APDU and beyond, APDU and typed classes; long arbitrary strings
    bign = 0
    for rep in range(4 if big else 1):
        for h in big_headers(rng):
            for sz in BIG_SIZES:
                payload = pat(sz, rng.randrange(256))
                add(check_header(h, payload))
                add(check_typed(h, payload))
                bign += 2
    n += bign
    nontriv += bign
    samples.append({'direct': 'large payloads', 'sizes': BIG_SIZES, 'evaluations': bign})
    # (a') object histories: decode -> mutate the decoded object in place -> decode again (fresh and same object) -> re-encode all
    sess = [DEMO_SESSION] + history_sessions(rng, 40 if big else 8) + reuse_sessions(rng, 40 if big else 8)
    for ops in sess:
        add(check_session(ops))
        n += len(ops)
    nontriv += len(sess)
    samples.append({'direct': 'object histories', 'sessions': len(sess), 'first': sess[1]})
    for d in focus:
        if isinstance(d, dict) and d.get('op') == 'session':
            add(check_session(d['session']))
            n += 1
    # (b) tables
    tf, tn = check_tables()
    for f in tf:
        add(f)
    n += tn
    nontriv += tn
    # (c) arbitrary octet strings
    dec_ok = set()

    def arb(bs):
        nonlocal n
        n += 1
        f, ok = check_arbitrary(bs)
        add(f)
        if ok:
            dec_ok.add(bs)

    arb(b'')
    for a in range(256):
        arb(bytes([a]))
        for b in range(256):
            arb(bytes([a, b]))
    for _ in range(300000 if big else 40000):
        arb(bytes(rng.randrange(256) for _ in range(rng.choice([3, 3, 4, 5, 6, 8, 12]))))
    # long strings: at and beyond the largest APDU, every first octet
    for first in range(256):
        for sz in (1476, 1477, rng.choice([1478, 1480, 1497, 2000, 5000])):
            arb(bytes([first]) + bytes(rng.randrange(256) for _ in range(5)) + pat(sz - 6, first))
    for d in focus:
        if isinstance(d, dict) and d.get('op') == 'decode' and 'payload_pattern' in d:
            arb(bytes.fromhex(d['prefix']) + pat(*d['payload_pattern']))
        elif isinstance(d, dict) and d.get('op') == 'decode':
            arb(bytes.fromhex(d['octets']))
        elif isinstance(d, dict) and d.get('op') == 'encode':
            h = hdr(None)
            h.update(d['header'])
            if h['apduType'] in TYPE_FIELDS and all(h[k] is not None for k in relevant(h)):
                try:
                    spec20_1(h)
                except Exception:
                    continue
                if all(k in FLAGS or 0 <= h[k] <= 255 for k in relevant(h)) and (h['apduType'] != 0 or (h['apduMaxSegs'] < 8 and h['apduMaxResp'] < 16)):
                    add(check_header(h, pat(*d['payload_pattern']) if 'payload_pattern' in d else bytes.fromhex(d['payload'])))
                    n += 1
    nontriv += len(dec_ok)
    samples.append({'direct': 'arbitrary octet strings', 'decoded_to_header': len(dec_ok)})
    return failures, {'evaluations': n, 'distinct_nontrivial': nontriv, 'exhaustive': True,
                      'exhaustive_domain': 'flag bits x code points x {0,1,127,128,255} per octet field for all eight types (layout, restore); '
                                           'capabilities 0..2000 and all 8 / 16 code points of the two tables; all octet strings of length <= 2 (decode totality)',
                      'failures_by_kind': perkind, 'samples': samples}


def classify(failure):
    # no defect of the pinned tree is recorded for C07 (see docs/C07.md): nothing is excused
    return None


def _model(expr):
    import core
    got, err = core.coq_eval(COQ_IMPORTS, expr)
    return got if got is not None else 'not evaluated: ' + err[-300:]


def replay(payload):
    f = payload.get('failure')
    if not f:
        f = {}
        for b in payload.get('broken', []):
            if isinstance(b, dict) and b.get('minimal_case'):
                mc = b['minimal_case']
                f = dict(mc.get('desc') or {})
                print('correspondence: implementation', mc.get('implementation'), 'model', mc.get('model'))
            elif isinstance(b, dict):
                print('broken:', b.get('what'))
    print('replay', {k: (v if len(str(v)) < 400 else str(v)[:400] + '...') for k, v in f.items()})
    if 'payload_pattern' in f:
        n, k = f['payload_pattern']
        if f.get('op') == 'decode':
            f = dict(f, octets=(bytes.fromhex(f['prefix']) + pat(n, k)).hex())
        else:
            f = dict(f, payload=pat(n, k).hex())
    if 'session' in f:
        ops = f['session']
        print('implementation session:', impl_session(ops))
        print('model session         :', _model('canon_session [%s]' % '; '.join(coq_op(o) for o in ops)))
        print('direct predicate:', {k: v for k, v in (check_session(ops) or {}).items() if k != 'session'} or None)
    elif 'octets' in f and f.get('kind', '').startswith('decode') or f.get('op') == 'decode':
        print('implementation decode:', impl_decode(bytes.fromhex(f['octets'])))
        print('model decode         :', _model('canon_dec (dec_apci %s)' % nlist(bytes.fromhex(f['octets']))))
        print('direct predicate:', check_arbitrary(bytes.fromhex(f['octets']))[0])
    elif 'header' in f:
        h = hdr(None)
        h.update(f['header'])
        p = bytes.fromhex(f.get('payload', ''))
        print('implementation encode:', impl_encode(h, p))
        print('model encode         :', _model('canon_enc (enc_apdu %s %s)' % (coq_hdr(h), nlist(p))))
        try:
            print('clause 20.1 layout    :', [0] + spec20_1(h) + list(p))
        except Exception as e:
            print('clause 20.1 layout    : not applicable (%r)' % (e,))
        if f.get('kind', '').startswith('typed'):
            print('direct predicate (typed):', check_typed(h, p))
        elif f.get('kind'):
            print('direct predicate:', check_header(h, p))
    elif 'arg' in f:
        for name in ('encode_max_segments_accepted', 'decode_max_segments_accepted',
                     'encode_max_apdu_length_accepted', 'decode_max_apdu_length_accepted'):
            canon = 'canon_tbl_dec' if name.startswith('decode') else 'canon_tbl_enc'
            print(name, f['arg'], 'implementation', impl_table(name, f['arg']),
                  'model', _model('%s (%s %s)' % (canon, name, zarg(f['arg']))))
        print('direct predicate:', [x for x in check_tables()[0] if x['arg'] == f['arg']])
