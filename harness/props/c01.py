"""C01 — primitive values survive encoding unchanged and are never silently altered.
Correspondence (model Prim.v vs the Atomic classes of primitivedata.py and Tag.app_to_context /
context_to_app) and the direct, implementation-only predicate with an independent clause-20.2 encoder."""
import math, struct
from fractions import Fraction
from core import Case, nlist
from pyerr import canon_call

PROP = 'C01'
COQ_TARGETS = ['theories/PrimFacts.vo', 'theories/PrimFloat.vo', 'theories/PrimObjFacts.vo', 'theories/PrimDispatchFacts.vo']
COQ_IMPORTS = 'From Coq Require Import String.\nFrom Bac Require Import Base Tag Prim PrimTables PrimObj PrimDispatch.'
TABLE_OBLIGATIONS = ['enums_bijective', 'enums_in_range', 'bitstrings_wf', 'unsigned_limits_std']
RULE = ('cases (in-kernel correspondence; quick ~10 k, thorough ~46 k): for each of the 13 primitive classes and every Enumerated/BitString/Unsigned '
        'subclass found by the translator: integers +-{0,1,2} around 2^(8k), k=0..5, around +-2^31 and 2^32 plus random ones (100 / 300); bit strings of '
        'every length 0..64 (zero/one/alternating/random); one whole-table case per enumeration class, plus (quick) 8 sampled values per class / '
        '(thorough) every name and number of every table and unnamed numbers at 8-bit boundaries through encode, constructor and decode; object '
        'identifiers at all type/instance boundaries plus random words (60 / 500); random octet/character strings (all charsets, valid and invalid '
        'UTF-16/32); floats from float.hex literals (zeros, subnormals, max, RNE halfway cases, inf, NaN) and random patterns (30 / 140 seeds x 6 '
        'neighbours); dates/times sampled from {0,1,127,128,254,255}^4 (80 / 400; the full grid is in the direct predicate) and out-of-octet fields; '
        'x {tag, application octets, context octets}: context numbers {0,1,14,15,16,254} (quick); thorough sweeps every context number 0..254 (+255, 256 '
        'refused) for a boundary subset of 24 values covering every class and content lengths 0..4/5/254, other values draw 1-2 random numbers from '
        '0..256; decode of the produced octets (1500 / 5000 sampled) and of malformed tags (wrong class/number/length).  Object life cycles: for every '
        'class, histories on ONE object (construct, encode app/ctx, decode another tag into it, assign, copy-construct, '
        'ObjectIdentifier.set_tuple/set_long/get_long, BitString.__setitem__, encode again), observation and state compared after every call '
        '(~600 / ~2200 histories).  non-trivial = the encoding has >= 1 content octet or the value must be refused, or a decode that yields a value / is '
        'refused after looking at the data, or a history with >= 1 state change followed by an encode; distinct by (operation, class, input).  '
        'Round 4 additions (both tiers): 20 special code points (U+FEFF, U+FFFE, NUL, U+D7FF/U+E000, U+10FFFF, U+FFFF, combining mark, blanks, CR LF, '
        'U+2028, U+200B ...) alone / doubled / first / middle / last in text, as charset 0/3/4 octets and as text-through-charset-0 cases; every '
        'BitString subclass of the library and a user subclass (bitLen 5) with lengths {0, 1, bitLen-1, bitLen, bitLen+1, bitLen+9, random}; two '
        'ObjectIdentifier classes with different objectTypeClass (stock, vendor types 128/129/640/1023) decoded interleaved in both orders; 400 / '
        '2000 earlier decode/wire/table cases evaluated a second time at the end of the run (no dependence on process history).  '
        'direct predicate (implementation only; quick ~28 k, thorough ~720 k evaluations): every name and number of every enumeration table, every '
        'bit-string length 0..64, the full 6^4 date/time grid, every context number 0..254 for 34 boundary values covering every class, integer grid + '
        '400 / 20 000 random integers, 2 000 / 100 000 object identifiers, float pools, random strings, and 1 840 / 40 000 public-API life-cycle '
        'histories; each value in application mode and 1-5 context numbers; the special-code-point corpus through the constructor and through decode '
        'in charsets 0/3/4/5; every BitString subclass + a user subclass x every length 0..bitLen+9 x {zeros, ones, random}; sibling-class scenarios '
        '(stock / vendor ObjectIdentifier in both orders, PropertyIdentifier / vendor subclass, neighbouring enumeration classes sharing numbers); '
        'a second pass over ~2500 / 20 000 of the earlier values at the end of the run.  '
        'Round 7 (Tag.app_to_object, model PrimDispatch): correspondence on ~400 / 2000 produced application octets of every class and subclass '
        '(plus a random tail) through Tag(pdu).app_to_object(), every tag number 0..20 and 254 x content lengths 0..9 x random data, every tag class '
        '0..3, extended tag numbers on the wire; direct: for the same tag family the object built is exactly the base class the tag number names '
        '(independent list), holds what that class decodes from the tag itself, 13..15 give None, everything else is refused.')
TRUSTED = ['model coq/theories/Prim.v written by hand after primitivedata.py Atomic classes and Tag.app_to_context/context_to_app, PrimDispatch.v after Tag.app_to_object / Tag._app_tag_class; tie = correspondence',
           'gen/Enums.v: enumeration / bit-string / limit tables read from the imported classes by translator/enums.py',
           'round32/widen32 model C float<->double conversion as done by struct.pack/unpack(">f") on this platform (NaN quietening included); tied by correspondence on bit patterns',
           'str <-> UTF-8/UTF-16/UTF-32/latin-1 codecs are CPython; the model only decides whether the strict decoders accept the octets']
ASSUMPTIONS = ['Python floats are IEEE binary64; struct.pack(">d") is the identity on bit patterns',
               'bytes/bytearray hold octets < 256', 'BitString.value holds only 0/1',
               'CharacterString state is (strEncoding, strValue); the str value is derived by the CPython codec',
               'Real: the accepted domain is the binary32-representable doubles (others are rounded to nearest-even, which the direct check verifies against an independent rounding)']

CTX_QUICK = [0, 1, 14, 15, 16, 254]
KINDS = ['null', 'bool', 'unsigned', 'integer', 'real', 'double', 'octets', 'chars', 'bits', 'enum', 'date', 'time', 'objid']
KNUM = {k: i for i, k in enumerate(KINDS)}


# ------------------------------------------------------------------ helpers
def P():
    import bacpypes.primitivedata as p
    return p


def b2d(bits):
    return struct.unpack('>d', struct.pack('>Q', bits))[0]


def d2b(x):
    return struct.unpack('>Q', struct.pack('>d', x))[0]


def b2f(bits32):
    return struct.unpack('>f', struct.pack('>L', bits32))[0]


_classes = None


def classes():
    """{'enum': {coq_ident: class}, 'bits': {...}, 'unsigned': {qualified name: class}}"""
    global _classes
    if _classes is None:
        import bacpypes.basetypes, bacpypes.apdu, bacpypes.object, bacpypes.constructeddata  # noqa
        import bacpypes.npdu, bacpypes.bvll, bacpypes.pdu, bacpypes.errors  # noqa
        import bacpypes.local.object, bacpypes.local.device, bacpypes.local.schedule, bacpypes.local.file  # noqa
        p = P()

        def subs(c):
            out = []
            for s in c.__subclasses__():
                out.append(s)
                out += subs(s)
            return out

        def ident(c, pre):
            return '%s_%s_%s' % (pre, c.__module__.split('.', 1)[1].replace('.', '_'), c.__name__)
        key = lambda c: (c.__module__, c.__name__)
        lib = lambda c: c.__module__.startswith('bacpypes.')        # the harness's own synthetic subclasses are not tables of the library
        _classes = {
            'enum': {ident(c, 'E'): c for c in sorted(set(filter(lib, subs(p.Enumerated))), key=key)},
            'bits': {ident(c, 'B'): c for c in sorted(set(filter(lib, subs(p.BitString))), key=key)},
            'unsigned': {'%s.%s' % key(c): c for c in sorted(set(filter(lib, subs(p.Unsigned))), key=key)},
        }
    return _classes


# user-style subclasses through the documented extension hooks (bitLen/bitNames, vendor object types, vendor properties)
VendorBits = VendorObjectType = VendorObjectIdentifier = VendorProperty = None
VENDOR_TYPES = [('vendorMeter', 128), ('vendorPump', 129), ('vendorGateway', 640), ('vendorLast', 1023)]


def synthetic():
    global VendorBits, VendorObjectType, VendorObjectIdentifier, VendorProperty
    if VendorBits is None:
        classes()                               # library tables are enumerated before the synthetic subclasses exist
        p = P()
        import bacpypes.basetypes as bt
        VendorBits = type('VendorBits', (p.BitString,), {'bitLen': 5, 'bitNames': {'alpha': 0, 'beta': 1, 'gamma': 4}, '__module__': __name__})
        VendorObjectType = type('VendorObjectType', (p.ObjectType,), {'enumerations': dict(VENDOR_TYPES), '__module__': __name__})
        p.expand_enumerations(VendorObjectType)
        VendorObjectIdentifier = type('VendorObjectIdentifier', (p.ObjectIdentifier,), {'objectTypeClass': VendorObjectType, '__module__': __name__})
        VendorProperty = type('VendorProperty', (bt.PropertyIdentifier,), {'enumerations': {'vendorSetpoint': 512, 'vendorMode': 4194303}, '__module__': __name__})
    return VendorBits, VendorObjectType, VendorObjectIdentifier, VendorProperty


def vendor_table_coq():
    """the vendor object-type table as expand_enumerations builds it: the subclass's entries, then the inherited ones"""
    return '([%s] ++ E_primitivedata_ObjectType)%%list' % '; '.join('("%s"%%string, %d%%N)' % (n, v) for n, v in VENDOR_TYPES)


def klass_of(spec):
    p = P()
    k = spec[0]
    if k == 'unsigned':
        return p.Unsigned if spec[1] is None else classes()['unsigned'][spec[1]]
    if k == 'enum':
        return p.Enumerated if spec[1] is None else classes()['enum'][spec[1]]
    if k == 'bits':
        if len(spec) > 2 and spec[2] == 'B_verif_VendorBits':
            return synthetic()[0]
        return p.BitString if (len(spec) < 3 or spec[2] is None) else classes()['bits'][spec[2]]
    if k == 'objid' and len(spec) > 3 and spec[3] == 'vendor':
        return synthetic()[2]
    return {'null': p.Null, 'bool': p.Boolean, 'integer': p.Integer, 'real': p.Real, 'double': p.Double,
            'octets': p.OctetString, 'chars': p.CharacterString, 'date': p.Date, 'time': p.Time,
            'objid': p.ObjectIdentifier}[k]


def table_of(spec):
    if spec[0] == 'enum':
        return spec[1] if spec[1] is not None else '[]'
    if spec[0] == 'objid':
        return vendor_table_coq() if (len(spec) > 3 and spec[3] == 'vendor') else 'objid_type_table'
    return '[]'


# value specs:
#  ('null',) ('bool', b) ('unsigned', clsname|None, z) ('integer', z) ('real', bits64) ('double', bits64)
#  ('octets', bytes) ('chars', enc, bytes) ('bits', [0/1..], clsident|None) ('enum', clsident|None, int|str)
#  ('date', (y,m,d,w)) ('time', (h,m,s,c)) ('objid', int|str, inst)
def build_raw(spec):
    """an object of the class holding exactly this state (bypassing the constructor checks)"""
    o = klass_of(spec)()
    k = spec[0]
    if k == 'null':
        pass
    elif k == 'bool':
        o.value = spec[1]
    elif k == 'unsigned':
        o.value = spec[2]
    elif k == 'integer':
        o.value = spec[1]
    elif k in ('real', 'double'):
        o.value = b2d(spec[1])
    elif k == 'octets':
        o.value = bytes(spec[1])
    elif k == 'chars':
        o.strEncoding = spec[1]
        o.strValue = bytes(spec[2])
        o.value = None
    elif k == 'bits':
        o.value = list(spec[1])
    elif k == 'enum':
        o.value = spec[2]
    elif k in ('date', 'time'):
        o.value = tuple(spec[1])
    elif k == 'objid':
        o.value = (spec[1], spec[2])
    return o


def zlit(z):
    return '(%d)' % z


def coq_eval(v):
    if isinstance(v, str):
        assert v.isascii() and '"' not in v
        return '(EName "%s"%%string)' % v
    return '(ENum %s)' % zlit(v)


def coq_prim(spec):
    k = spec[0]
    if k == 'null':
        return 'PNull'
    if k == 'bool':
        return '(PBool %s)' % ('true' if spec[1] else 'false')
    if k == 'unsigned':
        return '(PUnsigned %s)' % zlit(spec[2])
    if k == 'integer':
        return '(PInteger %s)' % zlit(spec[1])
    if k == 'real':
        return '(PReal %d%%N)' % spec[1]
    if k == 'double':
        return '(PDouble %d%%N)' % spec[1]
    if k == 'octets':
        return '(POctets %s)' % nlist(spec[1])
    if k == 'chars':
        return '(PChars %d%%N %s)' % (spec[1], nlist(spec[2]))
    if k == 'bits':
        return '(PBits [%s])' % ';'.join('true' if b else 'false' for b in spec[1])
    if k == 'enum':
        return '(PEnum %s)' % coq_eval(spec[2])
    if k == 'date':
        return '(PDate %s)' % ' '.join(zlit(x) for x in spec[1])
    if k == 'time':
        return '(PTime %s)' % ' '.join(zlit(x) for x in spec[1])
    if k == 'objid':
        return '(PObjId %s %s)' % (coq_eval(spec[1]), zlit(spec[2]))
    raise ValueError(k)


def canon_str(s):
    b = s.encode('ascii')
    return [len(b)] + list(b)


def canon_eval(v):
    if isinstance(v, str):
        return [1] + canon_str(v)
    return [0, int(v)]


def canon_value(k, o):
    """observable state of a primitive object as a list of ints (mirrors Prim.canon_prim)"""
    out = [KNUM[k]]
    v = o.value
    if k == 'null':
        assert v == ()
    elif k == 'bool':
        out.append(1 if v else 0)
    elif k in ('unsigned', 'integer'):
        out.append(int(v))
    elif k in ('real', 'double'):
        out.append(d2b(v))
    elif k == 'octets':
        out += [len(v)] + list(v)
    elif k == 'chars':
        out += [o.strEncoding, len(o.strValue)] + list(o.strValue)
    elif k == 'bits':
        out += [len(v)] + [1 if b else 0 for b in v]
    elif k == 'enum':
        out += canon_eval(v)
    elif k in ('date', 'time'):
        assert len(v) == 4
        out += [int(x) for x in v]
    elif k == 'objid':
        out += canon_eval(v[0]) + [int(v[1])]
    return out


def canon_tag(t):
    return [t.tagClass, t.tagNumber, t.tagLVT, len(t.tagData)] + list(t.tagData)


def mk_tag(cls, num, lvt, data):
    t = P().Tag()
    t.tagClass, t.tagNumber, t.tagLVT, t.tagData = cls, num, lvt, bytes(data)
    return t


def coq_tag(t):
    return '(mkTag %d %d %d %s)' % (t[0], t[1], t[2], nlist(t[3]))


def spec_desc(spec):
    return [x.hex() if isinstance(x, (bytes, bytearray)) else x for x in spec]


# ------------------------------------------------------------------ implementation drivers
def impl_enc(spec):
    def f():
        t = P().Tag()
        build_raw(spec).encode(t)
        return t
    return canon_call(f, canon_tag)


def impl_octets(spec, ctx=None):
    from bacpypes.pdu import PDUData

    def f():
        t = P().Tag()
        build_raw(spec).encode(t)
        if ctx is not None:
            t = t.app_to_context(ctx)
        pdu = PDUData()
        t.encode(pdu)
        return pdu.pduData
    return canon_call(f, list)


def impl_dec(kspec, tag):
    k = kspec[0]
    return canon_call(lambda: klass_of(kspec)(mk_tag(*tag)), lambda o: canon_value(k, o))


def impl_wire(kspec, octets, ctx):
    from bacpypes.pdu import PDUData
    k = kspec[0]

    def f():
        pdu = PDUData(bytes(octets))
        t = P().Tag(pdu)
        if ctx:
            t = t.context_to_app(KNUM[k])
        o = klass_of(kspec)(t)
        return o, bytes(pdu.pduData)
    return canon_call(f, lambda r: canon_value(k, r[0]) + [len(r[1])] + list(r[1]))


def impl_a2c(c, tag):
    return canon_call(lambda: mk_tag(*tag).app_to_context(c), canon_tag)


def impl_c2a(k, tag):
    return canon_call(lambda: mk_tag(*tag).context_to_app(k), canon_tag)


def impl_ctor(kind, cls, args):
    if kind == 'unsigned':
        return canon_call(lambda: classes()['unsigned'][cls](args) if cls else P().Unsigned(args), lambda o: canon_value('unsigned', o))
    if kind == 'enum':
        return canon_call(lambda: classes()['enum'][cls](args), lambda o: canon_value('enum', o))
    if kind == 'objid':
        return canon_call(lambda: P().ObjectIdentifier(args), lambda o: canon_value('objid', o))


# ------------------------------------------------------------------ cases
def case_enc(spec):
    exp = impl_enc(spec)
    nontriv = exp[0] == 1 or exp[4] >= 1
    return Case('enc-' + spec[0], 'canon_res canon_tag (enc_app %s %s)' % (table_of(spec), coq_prim(spec)), exp,
                key=('enc', repr(spec)), nontrivial=nontriv, desc={'op': 'enc', 'spec': spec_desc(spec)})


def case_oct(spec, ctx):
    exp = impl_octets(spec, ctx)
    if ctx is None:
        coq = 'canon_res zs (enc_octets_app %s %s)' % (table_of(spec), coq_prim(spec))
    else:
        coq = 'canon_res zs (enc_octets_ctx %s %d%%N %s)' % (table_of(spec), ctx, coq_prim(spec))
    return Case('oct-%s-%s' % ('app' if ctx is None else 'ctx', spec[0]), coq, exp, key=('oct', ctx, repr(spec)),
                nontrivial=exp[0] == 1 or len(exp) > 2, desc={'op': 'octets', 'ctx': ctx, 'spec': spec_desc(spec)})


def kspec_of(spec):
    """class selector with the value stripped"""
    k = spec[0]
    if k in ('unsigned', 'enum'):
        return (k, spec[1])
    if k == 'bits':
        return (k, None, spec[2] if len(spec) > 2 else None)
    if k == 'objid' and len(spec) > 3:
        return (k, None, None, spec[3])
    return (k,)


def case_dec(kspec, tag, kind='dec'):
    exp = impl_dec(kspec, tag)
    again = lambda: case_dec(kspec, tag, kind)
    return _with_again(again, Case('%s-%s' % (kind, kspec[0]), 'canon_res canon_prim (dec_app %s %d%%N %s)' % (table_of(kspec + (None, None)), KNUM[kspec[0]], coq_tag(tag)),
                exp, key=('dec', repr(kspec), repr(tag)), nontrivial=True,
                desc={'op': 'dec', 'class': list(kspec), 'tag': [tag[0], tag[1], tag[2], bytes(tag[3]).hex()]}))


def _with_again(again, case):
    case.desc['_again'] = again
    return case


def case_wire(kspec, octets, ctx, kind='wire'):
    exp = impl_wire(kspec, octets, ctx)
    fn = 'dec_octets_ctx' if ctx else 'dec_octets_app'
    again = lambda: case_wire(kspec, octets, ctx, kind)
    return _with_again(again, Case('%s-%s-%s' % (kind, 'ctx' if ctx else 'app', kspec[0]),
                'canon_res canon_prim_rest (%s %s %d%%N %s)' % (fn, table_of(kspec + (None, None)), KNUM[kspec[0]], nlist(octets)),
                exp, key=('wire', ctx, repr(kspec), bytes(octets)), nontrivial=len(octets) >= 1,
                desc={'op': 'wire', 'ctx': bool(ctx), 'class': list(kspec), 'octets': bytes(octets).hex()}))


def case_a2c(c, tag):
    return Case('app_to_context', 'canon_res canon_tag (app_to_ctx %d%%N %s)' % (c, coq_tag(tag)), impl_a2c(c, tag),
                key=('a2c', c, repr(tag)), desc={'op': 'a2c', 'ctx': c, 'tag': [tag[0], tag[1], tag[2], bytes(tag[3]).hex()]})


def case_c2a(k, tag):
    return Case('context_to_app', 'canon_res canon_tag (ctx_to_app %d%%N %s)' % (k, coq_tag(tag)), impl_c2a(k, tag),
                key=('c2a', k, repr(tag)), desc={'op': 'c2a', 'k': k, 'tag': [tag[0], tag[1], tag[2], bytes(tag[3]).hex()]})


def case_table(ident, cls):
    """the class's whole translate table, in the order expand_enumerations builds it: for every entry the number its
    name maps to now, and the name that number maps back to"""
    def f():
        cls()                                   # makes sure _xlate_table is expanded
        x = cls._xlate_table
        out = []
        for c in cls.__mro__:
            for name in getattr(c, 'enumerations', {}):
                out += [x[name]] + canon_str(x[x[name]])
        return out
    return Case('table', 'canon_res (fun x => x) (Ok (table_dump %s))' % ident, canon_call(f, list), key=('table', ident),
                desc={'op': 'table', 'class': ident})


def case_ctor(kind, cls, args):
    exp = impl_ctor(kind, cls, args)
    if kind == 'unsigned':
        coq = 'canon_res canon_prim (unsigned_ctor_of "%s"%%string %s)' % (cls or '', zlit(args))
    elif kind == 'enum':
        coq = 'canon_res canon_prim (enum_ctor %s %s)' % (cls, coq_eval(args))
    else:
        coq = 'canon_res canon_prim (objid_ctor objid_type_table objid_max_instance %s %s)' % (coq_eval(args[0]), zlit(args[1]))
    return Case('ctor-' + kind, coq, exp, key=('ctor', kind, cls, repr(args)), desc={'op': 'ctor', 'kind': kind, 'class': cls, 'args': repr(args)})


# ------------------------------------------------------------------ Tag.app_to_object (model PrimDispatch.v)
BASE_NAMES = ['Null', 'Boolean', 'Unsigned', 'Integer', 'Real', 'Double', 'OctetString', 'CharacterString', 'BitString', 'Enumerated',
              'Date', 'Time', 'ObjectIdentifier']        # clause 20.2.1.4: application tag numbers 0..12


def canon_generic(o):
    """mirrors PrimDispatch.canon_obj: no object -> [0]; an object of the base class numbered k -> 1 :: canon_prim;
    an object of any other class -> [2, ...] (the model never answers that)"""
    if o is None:
        return [0]
    p = P()
    for k, name in zip(KINDS, BASE_NAMES):
        if type(o) is getattr(p, name):
            return [1] + canon_value(k, o)
    return [2] + canon_str(type(o).__name__)


def impl_a2o(tag):
    return canon_call(lambda: mk_tag(*tag).app_to_object(), canon_generic)


def impl_w2o(octets):
    from bacpypes.pdu import PDUData

    def f():
        pdu = PDUData(bytes(octets))
        o = P().Tag(pdu).app_to_object()
        return o, bytes(pdu.pduData)
    return canon_call(f, lambda r: canon_generic(r[0]) + [len(r[1])] + list(r[1]))


def case_a2o(tag, kind='a2o'):
    return Case(kind, 'canon_res canon_obj (app_to_object objid_type_table %s)' % coq_tag(tag), impl_a2o(tag),
                key=('a2o', repr(tag)), desc={'op': 'a2o', 'tag': [tag[0], tag[1], tag[2], bytes(tag[3]).hex()]})


def case_w2o(octets, kind='w2o'):
    return Case(kind, 'canon_res canon_obj_rest (wire_to_object objid_type_table %s)' % nlist(octets), impl_w2o(octets),
                key=('w2o', bytes(octets)), nontrivial=len(octets) >= 1, desc={'op': 'w2o', 'octets': bytes(octets).hex()})


def dispatch_tags(rng, quick):
    """the tag family of Tag.app_to_object: every class, every number around the 13-entry / 16-slot class list, every
    content length the fixed-length classes care about"""
    tags = []
    for num in list(range(0, 21)) + [254]:
        for ln in range(0, 10):
            for _ in range(1 if quick else 4):
                tags.append((0, num, ln, rand_bytes(rng, ln)))
        tags.append((0, num, rng.randrange(0, 300), b''))            # LVT that is not the length (booleans keep their value there)
        for cls in (1, 2, 3):
            ln = rng.choice([0, 1, 4])
            tags.append((cls, num, ln, rand_bytes(rng, ln)))
    for lvt in (0, 1, 2, 7):
        tags.append((0, 1, lvt, b''))
    # content that each class accepts: shortest / longest forms, every charset, unused-bit counts
    for data in [b'\x00', b'\x00\x00', b'\xff\xff\xff\xff', b'\x01\x00\x00\x00\x00']:
        for num in (2, 3, 9):
            tags.append((0, num, len(data), data))
    for data in [b'\x00abc', b'\x03\x00\x00\x00\x41', b'\x03\x00\x11\x00\x00', b'\x04\x00\x41', b'\x04\xd8\x00', b'\x05\xe9', b'\x09xy', b'\x00\xff\xfe']:
        tags.append((0, 7, len(data), data))
    for data in [b'\x00', b'\x00\xff', b'\x07\x80', b'\x08\x80', b'\x09\xff\xff', b'\x00\x12\x34\x56\x78\x9a\xbc\xde\xf0']:
        tags.append((0, 8, len(data), data))
    for w in [0, 0x003FFFFF, 0x00400000, 0x02000005, 0x20000002, 0xFFC00000, 0xFFFFFFFF] + [rng.getrandbits(32) for _ in range(8 if quick else 60)]:
        tags.append((0, 12, 4, w.to_bytes(4, 'big')))
    return tags


def dispatch_cases(rng, tier, produced):
    quick = tier != 'thorough'
    out = []
    apps = [o for (_, o, ctx) in produced if not ctx]
    ctxs = [o for (_, o, ctx) in produced if ctx]
    for octets in rng.sample(apps, min(len(apps), 400 if quick else 2000)):
        tail = rand_bytes(rng, rng.choice([0, 0, 1, 3]))
        out.append(case_w2o(octets + tail))
    for octets in rng.sample(ctxs, min(len(ctxs), 40 if quick else 200)):      # context tagged: refused, whatever the content
        out.append(case_w2o(octets))
    for tag in dispatch_tags(rng, quick):
        out.append(case_a2o(tag))
    # extended tag numbers / lengths on the wire
    for num in (13, 14, 15, 16, 17, 100, 254):
        for ln in (0, 1, 4):
            head = bytes([(num << 4) | ln]) if num < 15 else bytes([0xF0 | ln, num])
            out.append(case_w2o(head + rand_bytes(rng, ln + rng.choice([0, 2]))))
    for first in (0x25, 0x35, 0x65, 0x75, 0x85, 0x95):                          # extended length 5..: unsigned / integer / strings / enumerated
        for ln in (5, 6):
            out.append(case_w2o(bytes([first, ln]) + rand_bytes(rng, ln)))
    return out



# ------------------------------------------------------------------ object life cycles (model PrimObj.v)
# history ops: ('enc', ctx|None) ('dec', tag) ('assign', spec) ('copy',) ('set_tuple', t, i) ('set_long', w) ('get_long',) ('setbit', i, b)
OPC = {'enc': 1, 'dec': 3, 'assign': 4, 'copy': 5, 'set_tuple': 6, 'set_long': 7, 'get_long': 8, 'setbit': 9}


def assign_raw(o, spec):
    k = spec[0]
    if k == 'bool':
        o.value = spec[1]
    elif k == 'unsigned':
        o.value = spec[2]
    elif k == 'integer':
        o.value = spec[1]
    elif k in ('real', 'double'):
        o.value = b2d(spec[1])
    elif k == 'octets':
        o.value = bytes(spec[1])
    elif k == 'chars':
        o.strEncoding = spec[1]
        o.strValue = bytes(spec[2])
    elif k == 'bits':
        o.value = list(spec[1])
    elif k == 'enum':
        o.value = spec[2]
    elif k in ('date', 'time'):
        o.value = tuple(spec[1])
    elif k == 'objid':
        o.value = (spec[1], spec[2])


def impl_history(spec, ops):
    """run the history on ONE implementation object; after every call: op code, outcome, object state"""
    from bacpypes.pdu import PDUData
    p = P()
    k = spec[0]
    box = [build_raw(spec)]
    out = []
    for op in ops:
        o = box[0]
        if op[0] == 'enc':
            def f():
                t = p.Tag()
                o.encode(t)
                if op[1] is not None:
                    t = t.app_to_context(op[1])
                pdu = PDUData()
                t.encode(pdu)
                return list(pdu.pduData)
            res = canon_call(f, list)
            code = 1 if op[1] is None else 2
        elif op[0] == 'dec':
            res = canon_call(lambda: o.decode(mk_tag(*op[1])), lambda r: [])
            code = 3
        elif op[0] == 'assign':
            assign_raw(o, op[1])
            res, code = [0], 4
        elif op[0] == 'copy':
            def f():
                box[0] = type(o)(o)
            res = canon_call(f, lambda r: [])
            code = 5
        elif op[0] == 'set_tuple':
            res = canon_call(lambda: o.set_tuple(op[1], op[2]), lambda r: [])
            code = 6
        elif op[0] == 'set_long':
            res = canon_call(lambda: o.set_long(op[1]), lambda r: [])
            code = 7
        elif op[0] == 'get_long':
            res = canon_call(lambda: o.get_long(), lambda r: [r])
            code = 8
        elif op[0] == 'setbit':
            def f():
                o[op[1]] = op[2]
            res = canon_call(f, lambda r: [])
            code = 9
        out += [code] + res + canon_value(k, box[0])
    return out


def coq_op(op):
    if op[0] == 'enc':
        return 'OEncApp' if op[1] is None else '(OEncCtx %d%%N)' % op[1]
    if op[0] == 'dec':
        return '(ODecode %s)' % coq_tag(op[1])
    if op[0] == 'assign':
        return '(OAssign %s)' % coq_prim(op[1])
    if op[0] == 'copy':
        return 'OCopy'
    if op[0] == 'set_tuple':
        return '(OSetTuple %s %s)' % (coq_eval(op[1]), zlit(op[2]))
    if op[0] == 'set_long':
        return '(OSetLong %s)' % zlit(op[1])
    if op[0] == 'get_long':
        return 'OGetLong'
    if op[0] == 'setbit':
        return '(OSetBit %s %s)' % (zlit(op[1]), 'true' if op[2] else 'false')
    raise ValueError(op)


def op_desc(op):
    return [spec_desc(x) if isinstance(x, tuple) else (x.hex() if isinstance(x, (bytes, bytearray)) else x) for x in op]


def case_history(spec, ops):
    exp = impl_history(spec, ops)
    coq = 'run %s objid_type_table objid_max_instance %d%%N %s [%s]' % (
        table_of(spec), KNUM[spec[0]], coq_prim(spec), '; '.join(coq_op(o) for o in ops))
    changed = any(o[0] in ('dec', 'assign', 'set_tuple', 'set_long', 'setbit') for o in ops[:-1])
    return Case('history-' + spec[0], coq, exp, key=('hist', repr(spec), repr(ops)), nontrivial=changed and ops[-1][0] == 'enc',
                desc={'op': 'history', 'spec': spec_desc(spec), 'ops': [op_desc(o) for o in ops]})


def value_specs(rng, k):
    """a few raw value specs of kind k (in and out of domain) for histories"""
    if k == 'null':
        return [('null',)]
    if k == 'bool':
        return [('bool', True), ('bool', False)]
    if k == 'unsigned':
        return [('unsigned', None, z) for z in (0, 1, 255, 256, 65535, 65536, 2 ** 32 - 1, 2 ** 32, rng.getrandbits(31))]
    if k == 'integer':
        return [('integer', z) for z in (0, -1, 127, 128, -128, -129, 32767, -32769, 2 ** 31 - 1, -2 ** 31, 2 ** 31, rng.getrandbits(30) - 2 ** 29)]
    if k == 'real':
        return [('real', d2b(b2f(rng.getrandbits(32) & 0xFF7FFFFF))) for _ in range(4)] + [('real', d2b(0.1)), ('real', d2b(1e39)), ('real', d2b(1.5))]
    if k == 'double':
        return [('double', rng.getrandbits(64)) for _ in range(4)] + [('double', d2b(0.1))]
    if k == 'octets':
        return [('octets', rand_bytes(rng, n)) for n in (0, 1, 4, 5, 9)]
    if k == 'chars':
        return [('chars', e, b) for e, b in CHAR_STATES]
    if k == 'bits':
        return [('bits', [rng.randrange(2) for _ in range(n)], None) for n in (0, 1, 7, 8, 9, 16, 17)]
    if k in ('date', 'time'):
        return [(k, tuple(rng.choice(OCT6) for _ in range(4))) for _ in range(4)] + [(k, (1, 2, 3, 256))]
    if k == 'objid':
        return [('objid', t, i) for t, i in [(0, 0), ('device', 5), (1023, 4194303), (8, 70000), (200, 1), ('analogValue', 4194303),
                                               (rng.randrange(1024), rng.randrange(2 ** 22)), (1024, 0), ('noSuchType', 1)]]
    raise ValueError(k)


CHAR_STATES = [(0, b''), (0, b'AHU-1 supply'), (0, 'Grüße'.encode('utf-8')), (0, b'\xff\xfe'),
               (3, 'Grüße'.encode('utf_32be')), (3, '20 °C'.encode('utf_32be')), (3, b''), (3, b'\x00\x00\xd8\x00'),
               (4, 'été à Noël'.encode('utf_16be')), (4, '\U0001f600'.encode('utf_16be')), (4, b'\xd8\x00'),
               (5, 'Grüße'.encode('latin_1')), (5, b'plain'), (1, b'ab'), (2, b'\x81\x40'), (6, b'xy'), (255, b'')]


def tag_for(spec):
    """the application tag a fresh object holding this state encodes to (None when it refuses)"""
    r = impl_enc(spec)
    if r[0] != 0:
        return None
    return (r[1], r[2], r[3], bytes(r[5:]))


def history_cases(rng, tier):
    quick = tier != 'thorough'
    out = []
    for k in KINDS:
        reps = (2 if k in ('objid', 'chars', 'bits') else 1) if quick else 3
        for _ in range(reps):
            specs = value_specs(rng, k) if k != 'enum' else []
            if k == 'enum':
                ident = rng.choice(['E_primitivedata_ObjectType', 'E_basetypes_SecurityLevel', 'E_basetypes_Segmentation'])
                vals, tbl = enum_values(classes()['enum'][ident], rng)
                specs = [('enum', ident, v) for v in rng.sample(list(tbl), 3) + [0, 3, 77, 2 ** 32, 'noSuchName']]
            tags = [t for t in (tag_for(sp) for sp in specs) if t is not None]
            # malformed / foreign tags to decode into a live object
            bad = [(0, KNUM[k], 0, b''), (1, KNUM[k], 1, b'\x00'), (0, (KNUM[k] + 1) % 13, 1, b'\x01'), (0, KNUM[k], 3, b'\x01\x02\x03')]
            for spec in specs:
                for _ in range(5 if quick else 8):
                    ops = [('enc', None)]
                    for _ in range(rng.randrange(2, 6)):
                        r = rng.random()
                        if r < 0.35 and tags:
                            ops.append(('dec', rng.choice(tags)))
                        elif r < 0.42:
                            ops.append(('dec', rng.choice(bad)))
                        elif r < 0.55:
                            ops.append(('assign', rng.choice(specs)))
                        elif r < 0.65:
                            ops.append(('copy',))
                        elif r < 0.9 and k == 'objid':
                            t, i = rng.choice(objid_pool(rng, 4))
                            ops.append(rng.choice([('set_tuple', t, i), ('set_long', rng.choice([rng.getrandbits(32), -1, 2 ** 32 + 5, (1023 << 22) | 7])), ('get_long',)]))
                        elif r < 0.9 and k == 'bits':
                            ops.append(('setbit', rng.randrange(-1, 19), rng.random() < 0.5))
                        ops.append(('enc', rng.choice([None, None] + CTX_QUICK)))
                    out.append(case_history(spec, ops))
    return out


# ------------------------------------------------------------------ generators
def int_grid():
    g = {0}
    for k in range(0, 6):
        for d in (-2, -1, 0, 1, 2):
            g.add(2 ** (8 * k) + d)
            g.add(-(2 ** (8 * k)) + d)
            g.add(2 ** (8 * k - 1) + d if k else 0)
            g.add(-(2 ** (8 * k - 1)) + d if k else 0)
    for d in (-2, -1, 0, 1, 2):
        for b in (2 ** 31, -2 ** 31, 2 ** 32, -2 ** 32, 2 ** 33, 2 ** 64):
            g.add(b + d)
    g.add(2 ** 32 + 5)
    return sorted(g)


FLOAT_HEX = ['0x0.0p+0', '-0x0.0p+0', '0x1.0p+0', '-0x1.0p+0', '0x1.99999ap-4', '0x1.999999999999ap-4', '0x1.fffffep+127', '-0x1.fffffep+127',
             '0x1.fffffefffffffp+127', '0x1.ffffffp+127', '0x1.ffffff0000001p+127', '0x1.0p+128', '0x1.0p+1023', '0x1.fffffffffffffp+1023',
             '0x1.0p-126', '0x1.fffffcp-127', '0x1.0p-149', '0x1.0p-150', '0x1.0000000000001p-150', '0x1.8p-150', '0x1.8p-149', '0x1.0p-151',
             '0x1.fffffffffffffp-127', '0x1.0p-1022', '0x0.0000000000001p-1022', '0x1.000001p+0', '0x1.0000010000001p+0', '0x1.000001p+0',
             '0x1.000003p+0', '0x1.0000030000001p+0', '0x1.000002fffffffp+0', '0x1.fffffffffffffp+0', '0x1.ffffffp+0', '0x1.fffffefffffffp-1',
             '0x1.921fb54442d18p+1', '0x1.5bf0a8b145769p+1', '-0x1.ffffffp-127', '0x1.fffffdp-127', '0x1.fffffbp-127', '0x1.0p-127', '0x1.8p-127',
             '0x1.0p+127', '0x1.2p+3', '0x1.4p+3']
NAN_BITS = [0x7ff8000000000000, 0x7ff0000000000001, 0x7ff4000000000000, 0xfff8000000000001, 0x7ff0000020000000, 0x7ff0000010000000,
            0x7ff7ffffffffffff, 0xfff00000e0000000, 0x7ff0000000000000, 0xfff0000000000000]


def float_pool(rng, n):
    """binary64 patterns: literals, NaN/inf, widened random binary32 patterns and their halfway neighbours, random doubles"""
    out = [d2b(float.fromhex(h)) for h in FLOAT_HEX] + list(NAN_BITS)
    for _ in range(n):
        p = rng.getrandbits(32)
        if rng.random() < 0.3:
            p &= 0x807FFFFF          # subnormal binary32
        x = b2f(p)
        d = d2b(x)
        out.append(d)
        if not (math.isnan(x) or math.isinf(x)):
            # halfway to the next binary32 (bit 28 of the double mantissa) and its neighbours, for normal ones
            out += [d | (1 << 28), (d | (1 << 28)) + 1, (d | (1 << 28)) - 1, d + rng.getrandbits(29)]
        # random doubles with exponent in / around the binary32 range
        e = rng.choice([rng.randrange(1, 2047), rng.randrange(1023 - 160, 1023 + 130), 1023 - 127, 1023 - 126, 1023 - 149, 1023 - 150, 1023 + 127, 1023 + 128])
        out.append((rng.getrandbits(1) << 63) | (e << 52) | rng.getrandbits(52))
    return out


def rand_bytes(rng, n):
    return bytes(rng.randrange(256) for _ in range(n))


def char_pool(rng):
    out = []
    samples = ['', 'a', 'hello', 'héllo', '€ uro', '\U0001f600x', 'Z' * 300]
    for s in samples:
        out.append((0, s.encode('utf-8')))
        out.append((3, s.encode('utf_32be')))
        out.append((4, s.encode('utf_16be')))
        out.append((5, s.encode('latin-1', 'replace')))
    # invalid / boundary code units
    out += [(4, b'\xd8\x00'), (4, b'\xdc\x00'), (4, b'\xd8\x00\xdc\x00'), (4, b'\xdb\xff\xdf\xff'), (4, b'\xd8\x00\x00\x41'), (4, b'\x00'),
            (4, b'\xd7\xff'), (4, b'\xe0\x00'), (4, b'\xdc\x00\xd8\x00'), (4, b'\xd8\x00\xd8\x00\xdc\x00'), (4, b'\x00\x41\x00'),
            (3, b'\x00\x00\xd8\x00'), (3, b'\x00\x00\xd7\xff'), (3, b'\x00\x00\xdf\xff'), (3, b'\x00\x00\xe0\x00'), (3, b'\x00\x10\xff\xff'),
            (3, b'\x00\x11\x00\x00'), (3, b'\x00\x00\x00'), (3, b'\x00\x00\x00\x41\x00'), (3, b'\xff\xff\xff\xff'), (3, b'\x01\x00\x00\x00'),
            (0, b'\xff\xfe'), (0, b'\xc3'), (1, b'ab'), (2, b'ab'), (6, b'ab'), (255, b'x'), (5, b'\xff\x00')]
    for _ in range(20):
        out.append((rng.choice([0, 3, 4, 5, rng.randrange(256)]), rand_bytes(rng, rng.choice([0, 1, 2, 3, 4, 6, 8]))))
    return out


# code points that codecs, terminals and "helpful" normalisation treat specially
SPECIAL_CP = ['\ufeff', '\ufffe', '\x00', '\ud7ff', '\ue000', '\U0010ffff', '\u0301', ' ', '\t', '\r\n', '\n', '\ufffd', '\x85', '\u2028',
              '\u200b', '\xa0', '\x7f', '\U00010000', '\uffff', '\xff']


def special_texts():
    """each special code point alone, doubled, and at the first / middle / last position of ordinary text"""
    out = []
    for cp in SPECIAL_CP:
        out += [cp, cp + cp, cp + 'ab', 'a' + cp + 'b', 'ab' + cp, cp + 'ab' + cp, ' ' + cp]
    out += ['\ufeff\ufffe', 'e\u0301\u0301', ' lead', 'trail ', '\r\nline\r\n', 'a\x00b\x00']
    return out


def case_text(t):
    """charset 0: the text a fresh object reports for these octets, written back as UTF-8, is the octets (nothing stripped)"""
    data = b'\x00' + t.encode('utf-8')
    tag = (0, 7, len(data), data)
    exp = canon_call(lambda: P().CharacterString(mk_tag(*tag)).value.encode('utf-8'), list)
    return Case('text-utf8', 'canon_res zs (do v <- dec_app [] 7%%N %s; text_utf8_of v)' % coq_tag(tag), exp, key=('text', t),
                desc={'op': 'text', 'utf8': t.encode('utf-8').hex()})


def case_ctor_bits(ident, cls, arg):
    """BitString subclass constructor from a list of 0/1 or of bit names (model bits_ctor_ints / bits_ctor_names)"""
    exp = canon_call(lambda: cls(list(arg)), lambda o: canon_value('bits', o))
    tblx = ident if ident != 'B_verif_VendorBits' else '(5%%N, [%s])' % '; '.join('("%s"%%string, %d%%N)' % kv for kv in cls.bitNames.items())
    if all(isinstance(x, int) for x in arg):
        coq = 'canon_res canon_prim (bits_ctor_ints %s [%s])' % (tblx, ';'.join('true' if b else 'false' for b in arg))
    else:
        coq = 'canon_res canon_prim (bits_ctor_names %s [%s])' % (tblx, ';'.join('"%s"%%string' % n for n in arg))
    return Case('ctor-bits', coq, exp, key=('ctor-bits', ident, repr(arg)), desc={'op': 'ctor-bits', 'class': ident, 'arg': repr(arg)[:200]})


def wave4_cases(rng, tier):
    """(1) special code points through every charset; (2) BitString subclasses (library + a user subclass) with values shorter and
    longer than bitLen; (3) two ObjectIdentifier classes with different objectTypeClass interleaved in both orders; (4) a slice of
    the decode cases evaluated a second time, after everything else has run in this process"""
    out = []
    for t in special_texts():
        out.append(case_text(t))
    for t in special_texts():
        if len(t) > 3 and not t.startswith(('\ufeff', '\ufffe', '\x00', ' ', '\r')):
            continue
        for cs, codec in ((0, 'utf-8'), (3, 'utf_32be'), (4, 'utf_16be')):
            spec = ('chars', cs, t.encode(codec))
            c = case_oct(spec, rng.choice([None, 1, 15]))
            out.append(c)
            if c.expected[0] == 0:
                out.append(case_wire(('chars',), bytes(c.expected[1:]), c.kind.startswith('oct-ctx')))
    bits = dict(classes()['bits'])
    synthetic()
    bits['B_verif_VendorBits'] = VendorBits
    for ident, cls in bits.items():
        names = list(cls.bitNames)
        for arg in ([], [0], [1] * cls.bitLen, [0] * (cls.bitLen + 1), names[:1], names[-1:], names, rng.sample(names, min(2, len(names)))):
            out.append(case_ctor_bits(ident, cls, arg))
        lens = sorted(set([0, 1, cls.bitLen - 1, cls.bitLen, cls.bitLen + 1, cls.bitLen + 9, rng.randrange(cls.bitLen + 1)]))
        for n in lens:
            spec = ('bits', [rng.randrange(2) for _ in range(n)], ident)
            ctx = rng.choice([None, 2, 16])
            c = case_oct(spec, ctx)
            out.append(c)
            out.append(case_wire(('bits', None, ident), bytes(c.expected[1:]), ctx is not None, 'wire-subclass'))
    # the stock class sees a vendor type number first, then the vendor class; and the other way round for another number
    def both(spec, tag):
        c = case_oct(spec, None)
        out.append(c)
        out.append(case_wire(kspec_of(spec), bytes(c.expected[1:]), False, tag))
    both(('objid', 128, 1), 'wire-sibling')
    both(('objid', 'vendorMeter', 2, 'vendor'), 'wire-sibling')
    both(('objid', 'vendorPump', 3, 'vendor'), 'wire-sibling')
    both(('objid', 129, 4), 'wire-sibling')
    for t, i in [(640, 5), ('vendorGateway', 6), (1023, 7), ('vendorLast', 8), ('device', 9), (8, 10), (127, 11), (130, 12)]:
        both(('objid', t, i, 'vendor'), 'wire-sibling')
        if not (isinstance(t, str) and t.startswith('vendor')):
            both(('objid', t, i), 'wire-sibling')
    return out


def second_pass(cases_so_far, rng, n):
    """the same decode / wire / history cases again, at the end of the run: the implementation's answer must not depend on what the
    process has done in between (class-level caches, shared tables)"""
    pool = [c for c in cases_so_far if c.kind.split('-')[0] in ('wire', 'dec', 'history', 'table')]
    out = []
    for c in rng.sample(pool, min(n, len(pool))):
        d = c.desc
        again = None
        if d.get('op') == 'table':
            again = case_table(d['class'], classes()['enum'][d['class']])
        elif d.get('op') in ('wire', 'dec') and '_again' in d:
            again = d['_again']()
        if again is not None:
            again.kind = 'again-' + again.kind
            again.key = ('again',) + tuple(again.key if isinstance(again.key, tuple) else (again.key,))
            out.append(again)
    return out


def bit_pool(rng, maxlen=64):
    out = []
    for n in range(0, maxlen + 1):
        out.append([0] * n)
        out.append([1] * n)
        out.append([(i % 2) for i in range(n)])
        out.append([rng.randrange(2) for _ in range(n)])
    return out


OCT6 = [0, 1, 127, 128, 254, 255]


def tuple4_pool(rng, quick):
    out = []
    if quick in (True, 'sample'):
        for _ in range(80 if quick is True else 400):
            out.append(tuple(rng.choice(OCT6) for _ in range(4)))
    else:
        for a in OCT6:
            for b in OCT6:
                for c in OCT6:
                    for d in OCT6:
                        out.append((a, b, c, d))
    for bad in (256, -1, 257, 65536, -256):
        for pos in range(4):
            t = [rng.choice(OCT6) for _ in range(4)]
            t[pos] = bad
            out.append(tuple(t))
    return out


def objid_pool(rng, n):
    out = []
    types = [0, 1, 8, 62, 63, 64, 127, 128, 1022, 1023, 1024, 1025, 2047, -1, 'analogInput', 'device', 'trendLogMultiple', 'noSuchType']
    insts = [0, 1, 255, 256, 65535, 65536, 4194302, 4194303, 4194304, 4194305, -1, 2 ** 32]
    for t in types:
        for i in insts:
            out.append((t, i))
    for _ in range(n):
        w = rng.getrandbits(32)
        out.append(((w >> 22) & 0x3FF, w & 0x3FFFFF))
    return out


def enum_values(cls, rng):
    """every name, every number, unnamed numbers at the 8-bit boundaries"""
    tbl = {}
    for c in cls.__mro__:
        for n, v in getattr(c, 'enumerations', {}).items():
            tbl[n] = v
    vals = list(tbl) + sorted(set(tbl.values()))
    vals += [0, 1, 254, 255, 256, 257, 65535, 65536, 2 ** 24 - 1, 2 ** 24, 2 ** 32 - 1, 2 ** 32, 2 ** 32 + 1, -1, 'noSuchName']
    return vals, tbl


def cases(rng, tier):
    quick = tier != 'thorough'
    ctxs = CTX_QUICK if quick else list(range(0, 255)) + [255, 256]
    out = []
    produced = []          # (kspec, octets, ctx) of successful encodings, decoded again below

    def all_modes(spec, nctx=1):
        c = case_oct(spec, None)
        if c.expected[0] == 1 or not quick or rng.random() < 0.3:
            out.append(case_enc(spec))
        out.append(c)
        if c.expected[0] == 0:
            produced.append((kspec_of(spec), bytes(c.expected[1:]), False))
        for cx in (rng.sample(ctxs, min(nctx, len(ctxs))) if nctx < len(ctxs) else ctxs):
            c = case_oct(spec, cx)
            out.append(c)
            if c.expected[0] == 0:
                produced.append((kspec_of(spec), bytes(c.expected[1:]), True))

    # null, boolean: every context number; thorough: also a boundary subset of values of every class
    sweep = [('null',), ('bool', True), ('bool', False)]
    if not quick:
        sweep += [('unsigned', None, 0), ('unsigned', None, 256), ('unsigned', None, 2 ** 32 - 1), ('integer', -129), ('integer', 2 ** 31 - 1),
                  ('real', d2b(1.5)), ('double', d2b(0.1)), ('octets', b''), ('octets', bytes(5)), ('octets', bytes(254)), ('chars', 0, b'abcd'),
                  ('chars', 4, b'\x00\xe9'), ('bits', [], None), ('bits', [1] * 25, None), ('bits', [0, 1] * 16, None),
                  ('enum', 'E_primitivedata_ObjectType', 'device'), ('enum', 'E_basetypes_SecurityLevel', 65536),
                  ('date', (124, 2, 29, 4)), ('time', (23, 59, 59, 99)), ('objid', 'device', 4194303), ('objid', 1023, 0)]
    for spec in sweep:
        all_modes(spec, nctx=len(ctxs))
    # context numbers beyond an octet are refused by Tag.encode
    for cx in (255, 256, 300):
        out.append(case_oct(('bool', True), cx))
        out.append(case_oct(('unsigned', None, 5), cx))
    # integers
    grid = int_grid()
    for z in grid:
        all_modes(('unsigned', None, z), nctx=1 if quick else 2)
        all_modes(('integer', z), nctx=1 if quick else 2)
    for _ in range(100 if quick else 300):
        z = rng.getrandbits(rng.choice([7, 8, 15, 16, 23, 24, 31, 32, 33]))
        all_modes(('unsigned', None, z))
        all_modes(('integer', rng.choice([z, -z])))
    for name, cls in classes()['unsigned'].items():
        for z in [-1, 0, 1, 99, 100, 101, 254, 255, 256, 65534, 65535, 65536, 2 ** 32 - 1, 2 ** 32]:
            out.append(case_ctor('unsigned', name, z))
            out.append(case_enc(('unsigned', name, z)))
    for z in [-1, 0, 255, 2 ** 32 - 1, 2 ** 32, 2 ** 40]:
        out.append(case_ctor('unsigned', None, z))
    # floats
    for d in float_pool(rng, 30 if quick else 140):
        all_modes(('real', d), nctx=1)
    for d in float_pool(rng, 10 if quick else 40) + [rng.getrandbits(64) for _ in range(40 if quick else 300)]:
        all_modes(('double', d), nctx=1)
    # octet strings / character strings
    for n in [0, 1, 2, 4, 5, 6, 253, 254, 255, 300] + ([] if quick else [65535, 65536]):
        all_modes(('octets', rand_bytes(rng, n)))
    for e, b in char_pool(rng):
        all_modes(('chars', e, b))
    for e in (256, 300):
        out.append(case_enc(('chars', e, b'ab')))
    # bit strings
    for bits in bit_pool(rng, 64):
        if quick and len(bits) > 17 and rng.random() < 0.5:
            out.append(case_enc(('bits', bits, None)))
            c = case_oct(('bits', bits, None), None)
            out.append(c)
            produced.append((('bits', None, None), bytes(c.expected[1:]), False))
        else:
            all_modes(('bits', bits, None))
    for ident, cls in classes()['bits'].items():
        for _ in range(2):
            all_modes(('bits', [rng.randrange(2) for _ in range(cls.bitLen)], ident))
    # enumerations: the whole table of every class in one case each (both directions, through the model's own
    # lookups), then per class a sample of names / numbers / boundary numbers through encode, constructor, decode
    full = ('E_primitivedata_ObjectType', 'E_basetypes_SecurityLevel', 'E_basetypes_Segmentation')
    for ident, cls in classes()['enum'].items():
        out.append(case_table(ident, cls))
        vals, tbl = enum_values(cls, rng)
        names = [v for v in vals if isinstance(v, str) and v in tbl]
        nums = sorted(set(tbl.values()))
        special = vals[len(names) + len(nums):]
        if quick and ident not in full:
            vals = rng.sample(names, min(3, len(names))) + rng.sample(nums, min(2, len(nums))) + rng.sample(special, 3) + [2 ** 32]
        for v in vals:
            spec = ('enum', ident, v)
            out.append(case_enc(spec))
            out.append(case_ctor('enum', ident, v))
            if isinstance(v, str) or rng.random() < 0.3:
                c = case_oct(spec, rng.choice([None] + ctxs))
                out.append(c)
            # decode side: the number on the wire
            n = tbl.get(v, v) if isinstance(v, str) else v
            if isinstance(n, int) and 0 <= n < 2 ** 32:
                data = n.to_bytes(max(1, (n.bit_length() + 7) // 8), 'big')
                out.append(case_dec(('enum', ident), (0, 9, len(data), data)))
    for v in [0, 5, 255, 256, 2 ** 32 - 1, 2 ** 32, -1, 'x']:
        out.append(case_enc(('enum', None, v)))
    # dates, times
    for t in tuple4_pool(rng, True if quick else 'sample'):
        all_modes(('date', t))
        all_modes(('time', t))
    # object identifiers
    for t, i in objid_pool(rng, 60 if quick else 500):
        all_modes(('objid', t, i))
        out.append(case_ctor('objid', None, (t, i)))

    # ---- decode what was produced (both modes), then malformed tags
    cap = 1500 if quick else 5000
    if len(produced) > cap:
        produced = rng.sample(produced, cap)
    for kspec, octets, ctx in produced:
        out.append(case_wire(kspec, octets, ctx))
    for k in KINDS:
        kspec = {'unsigned': ('unsigned', None), 'enum': ('enum', 'E_primitivedata_ObjectType'), 'bits': ('bits', None, None)}.get(k, (k,))
        kn = KNUM[k]
        for ln in [0, 1, 2, 3, 4, 5, 7, 8, 9]:
            for _ in range(2 if quick else 10):
                data = rand_bytes(rng, ln)
                lvt = ln
                out.append(case_dec(kspec, (0, kn, lvt, data), 'dec-malformed'))
        # wrong class / number
        out.append(case_dec(kspec, (1, kn, 1, b'\x01'), 'dec-malformed'))
        out.append(case_dec(kspec, (0, (kn + 1) % 13, 1, b'\x01'), 'dec-malformed'))
        out.append(case_dec(kspec, (2, kn, 0, b''), 'dec-malformed'))
        for _ in range(6 if quick else 60):
            bs = rand_bytes(rng, rng.choice([1, 2, 3, 5, 6, 10]))
            bs = bytes([(kn << 4) | rng.choice([0, 1, 2, 3, 4, 5, 8, 9, 12])]) + bs
            out.append(case_wire(kspec, bs, bs[0] & 8, 'wire-malformed'))
    # booleans: the LVT carries the value
    for lvt in [0, 1, 2, 3, 5, 255, 256]:
        out.append(case_dec(('bool',), (0, 1, lvt, b''), 'dec-malformed'))
        out.append(case_a2c(rng.choice(CTX_QUICK), (0, 1, lvt, b'')))
    for data in [b'', b'\x00', b'\x01', b'\x02', b'\xff', b'\x00\x01', b'\x01\x00\x00']:
        out.append(case_c2a(1, (1, 3, len(data), data)))
        out.append(case_wire(('bool',), bytes([0x38 | min(len(data), 4)]) + data, True, 'wire-malformed'))
    # bit strings: unused counts beyond the data
    for unused in [0, 1, 7, 8, 9, 16, 17, 255]:
        for ln in [0, 1, 2]:
            data = bytes([unused]) + rand_bytes(rng, ln)
            out.append(case_dec(('bits', None, None), (0, 8, len(data), data), 'dec-malformed'))
    # character strings straight to the decoder
    for e, b in char_pool(rng):
        data = bytes([e & 255]) + b
        out.append(case_dec(('chars',), (0, 7, len(data), data), 'dec-chars'))
    # integers of every length straight to the decoder (sign extension)
    for first in [0, 1, 127, 128, 255]:
        for ln in [1, 2, 3, 4, 5, 8]:
            data = bytes([first]) + rand_bytes(rng, ln - 1)
            out.append(case_dec(('integer',), (0, 3, ln, data), 'dec-int'))
            out.append(case_dec(('unsigned', None), (0, 2, ln, data), 'dec-int'))
    # real/double patterns straight to the decoder (widening, NaN quietening)
    for p in [0, 0x80000000, 1, 0x007fffff, 0x00800000, 0x7f7fffff, 0x7f800000, 0xff800000, 0x7fc00000, 0x7f800001, 0x7fa00000,
              0xffc00001, 0x7fbfffff, 0x00400000, 0x00000002, 0x00000003, 0x80000001] + [rng.getrandbits(32) for _ in range(60 if quick else 1000)]:
        out.append(case_dec(('real',), (0, 4, 4, p.to_bytes(4, 'big')), 'dec-real'))
    for _ in range(20):
        out.append(case_dec(('double',), (0, 5, 8, rand_bytes(rng, 8)), 'dec-real'))
    # Tag.app_to_context / context_to_app on arbitrary tags
    for _ in range(60 if quick else 600):
        cls = rng.choice([0, 0, 0, 1, 1, 2, 3])
        num = rng.choice([0, 1, 1, 2, 9, 12, 14, 15, 200])
        ln = rng.choice([0, 1, 2, 5])
        tag = (cls, num, ln if rng.random() < 0.8 else rng.randrange(300), rand_bytes(rng, ln))
        out.append(case_a2c(rng.choice(ctxs), tag))
        out.append(case_c2a(rng.choice([0, 1, 1, 2, 7, 12]), tag))
    out += history_cases(rng, tier)
    out += wave4_cases(rng, tier)
    out += second_pass(out, rng, 400 if quick else 2000)
    import random as _random
    out += dispatch_cases(_random.Random(rng.getrandbits(48)), tier, produced)      # own stream: the cases above keep their draws
    for c in out:
        if isinstance(c.desc, dict):
            c.desc.pop('_again', None)          # closures do not belong in evidence / replays
    return out


# ------------------------------------------------------------------ independent encoder (clause 20.2)
def spec_header(cls, num, lvt):
    b0 = (num if num < 15 else 15) << 4
    if cls == 1:
        b0 |= 8
    b0 |= lvt if lvt < 5 else 5
    h = [b0] + ([num] if num >= 15 else [])
    if lvt >= 5:
        if lvt <= 253:
            h += [lvt]
        elif lvt <= 65535:
            h += [254, lvt >> 8, lvt & 255]
        else:
            h += [255, (lvt >> 24) & 255, (lvt >> 16) & 255, (lvt >> 8) & 255, lvt & 255]
    return bytes(h)


def ieee_bits(x, ebits, mbits):
    """IEEE 754 interchange pattern of the float x rounded to nearest-even in the (ebits, mbits) format,
    by exact rational arithmetic; None when a finite x rounds to infinity.  NaN is not handled here."""
    bias = (1 << (ebits - 1)) - 1
    sign = 1 if math.copysign(1.0, x) < 0 else 0
    top = sign << (ebits + mbits)
    if math.isinf(x):
        return top | (((1 << ebits) - 1) << mbits)
    if x == 0:
        return top
    q = abs(Fraction(x))
    e = q.numerator.bit_length() - q.denominator.bit_length()
    if Fraction(2) ** e > q:
        e -= 1
    assert Fraction(2) ** e <= q < Fraction(2) ** (e + 1)
    e = max(e, 1 - bias)                       # subnormals share the minimum exponent
    scaled = q / Fraction(2) ** (e - mbits)     # in units of the last place
    n = scaled.numerator // scaled.denominator
    rem = scaled - n
    if rem > Fraction(1, 2) or (rem == Fraction(1, 2) and n % 2 == 1):
        n += 1
    # n includes the hidden bit for normal numbers (exponent field e+bias-1 plus the carry); for subnormals
    # e = 1-bias, so the exponent part is 0 and the field is n itself
    field = ((e + bias - 1) << mbits) + n
    if field >= (((1 << ebits) - 1) << mbits):
        return None
    return top | field


def min_unsigned(n):
    return n.to_bytes(max(1, (n.bit_length() + 7) // 8), 'big')


def min_signed(z):
    ln = 1
    while not (-(1 << (8 * ln - 1)) <= z < (1 << (8 * ln - 1))):
        ln += 1
    return (z & ((1 << (8 * ln)) - 1)).to_bytes(ln, 'big')


def spec_content(kind, v, tbl=None):
    """content octets the standard prescribes for an in-domain value; None = not representable"""
    if kind == 'null':
        return b''
    if kind == 'unsigned':
        return min_unsigned(v) if 0 <= v < 2 ** 32 else None
    if kind == 'enum':
        n = tbl[v] if isinstance(v, str) else v
        return min_unsigned(n) if 0 <= n < 2 ** 32 else None
    if kind == 'integer':
        return min_signed(v) if -2 ** 31 <= v < 2 ** 31 else None
    if kind == 'real':
        b = ieee_bits(v, 8, 23)
        return None if b is None else b.to_bytes(4, 'big')
    if kind == 'double':
        return ieee_bits(v, 11, 52).to_bytes(8, 'big')
    if kind == 'octets':
        return bytes(v)
    if kind == 'chars':
        return b'\x00' + v.encode('utf-8')
    if kind == 'bits':
        unused = (8 - len(v) % 8) % 8
        padded = list(v) + [0] * unused
        return bytes([unused] + [int(''.join(str(b) for b in padded[i:i + 8]), 2) for i in range(0, len(padded), 8)])
    if kind in ('date', 'time'):
        return bytes(v) if all(0 <= x <= 255 for x in v) else None
    if kind == 'objid':
        t, i = v
        t = tbl[t] if isinstance(t, str) else t
        return ((t << 22) | i).to_bytes(4, 'big') if 0 <= t < 1024 and 0 <= i < 2 ** 22 else None
    raise ValueError(kind)


def spec_octets(kind, v, ctx, tbl=None):
    c = spec_content(kind, v, tbl)
    if c is None:
        return None
    if kind == 'bool':
        raise ValueError
    if ctx is None:
        return spec_header(0, KNUM[kind], len(c)) + c
    return spec_header(1, ctx, len(c)) + c


def spec_bool(v, ctx):
    if ctx is None:
        return spec_header(0, 1, 1 if v else 0)
    return spec_header(1, ctx, 1) + bytes([1 if v else 0])


def same_value(kind, a, b):
    if kind in ('real', 'double'):
        if math.isnan(a) or math.isnan(b):
            return math.isnan(a) and math.isnan(b)
        return a == b and math.copysign(1.0, a) == math.copysign(1.0, b)
    if kind == 'bits':
        return len(a) == len(b) and all((1 if x else 0) == (1 if y else 0) for x, y in zip(a, b))
    if kind in ('date', 'time', 'objid'):
        return tuple(a) == tuple(b)
    if kind == 'octets':
        return bytes(a) == bytes(b)
    return type(a) is type(b) and a == b


def expected_after(kind, v):
    """the value that must come back: v itself, except that a Real carries binary32 precision"""
    if kind == 'real' and not (math.isnan(v) or math.isinf(v)):
        b = ieee_bits(v, 8, 23)
        if b is None:
            return None
        # exact value of that binary32 pattern, by arithmetic
        s, e, m = b >> 31, (b >> 23) & 255, b & 0x7FFFFF
        mag = math.ldexp(m, -149) if e == 0 else math.ldexp((1 << 23) | m, e - 150)
        return -mag if s else mag
    return v


def intended(kind, cls, arg, tbl):
    """The value a constructor argument DENOTES, worked out here without the library: (True, value) — or (False, None) for argument
    forms whose meaning is a parsing convention of the library (date / time strings, numeric strings).  This, not obj.value read
    back, is the oracle's input: the constructor is part of "value given -> octets -> value"."""
    if kind == 'null':
        return True, ()
    if kind == 'bool':
        return (True, arg) if isinstance(arg, bool) else (False, None)
    if kind in ('unsigned', 'integer'):
        return (True, arg) if isinstance(arg, int) and not isinstance(arg, bool) else (False, None)
    if kind in ('real', 'double'):
        return (True, float(arg)) if isinstance(arg, (int, float)) and not isinstance(arg, bool) else (False, None)
    if kind == 'octets':
        return (True, bytes(arg)) if isinstance(arg, (bytes, bytearray)) else (False, None)
    if kind == 'chars':
        return (True, arg) if isinstance(arg, str) else (False, None)
    if kind == 'bits':
        if not isinstance(arg, list):
            return False, None
        if all(isinstance(b, int) and b in (0, 1) for b in arg):       # includes the empty list: a bit string of length 0
            return True, [int(b) for b in arg]
        if all(isinstance(b, str) and b in cls.bitNames for b in arg):
            out = [0] * cls.bitLen
            for b in arg:
                out[cls.bitNames[b]] = 1
            return True, out
        return False, None
    if kind == 'enum':
        inv = {v: k for k, v in (tbl or {}).items()}
        if isinstance(arg, str):
            return True, arg
        if isinstance(arg, int) and not isinstance(arg, bool):
            return True, inv.get(arg, arg)                              # a known number is shown by its name
        return False, None
    if kind in ('date', 'time'):
        return (True, tuple(arg)) if isinstance(arg, tuple) else (False, None)
    if kind == 'objid':
        inv = {v: k for k, v in (tbl or {}).items()}
        if isinstance(arg, tuple) and len(arg) == 2:
            t, i = arg
        elif isinstance(arg, int) and not isinstance(arg, bool):
            t, i = (arg >> 22) & 0x3FF, arg & 0x3FFFFF
        elif isinstance(arg, str) and arg.count(':') == 1:
            t, i = arg.split(':')
            t = int(t) if t.isdigit() else t
            i = int(i)
        else:
            return False, None
        return True, (inv.get(t, t) if isinstance(t, int) else t, i)
    return False, None


def check_value(cls, kind, arg, ctxs, tbl=None, require_accept=True):
    """The property's predicate for one constructor argument of one class.  Returns a failure dict or None,
    and a flag telling whether the value was encoded (non-trivially)."""
    from bacpypes.pdu import PDUData
    p = P()
    info = {'class': '%s.%s' % (cls.__module__, cls.__name__), 'prim': kind, 'arg': repr(arg)[:200]}
    try:
        obj = cls(arg) if kind != 'null' else cls()
    except Exception as e:
        return None, False                      # refused at construction: not a value of the type
    v = obj.value
    known, iv = intended(kind, cls, arg, tbl)
    if known:
        # the object must hold what was handed in, and everything below is judged against what was handed in
        if not same_value(kind, v, iv):
            return dict(info, kind='constructor-alters-value', given=repr(iv)[:120], holds=repr(v)[:120]), False
        v = iv
    want_val = expected_after(kind, v)
    for ctx in [None] + list(ctxs):
        mode = 'app' if ctx is None else 'ctx%d' % ctx
        isnan = kind in ('real', 'double') and math.isnan(v)
        if kind == 'bool':
            want = spec_bool(v, ctx)
        elif isnan:
            want = b''                          # any NaN pattern is acceptable: no canonical-form comparison
        else:
            want = spec_octets(kind, v, ctx, tbl)
        try:
            t = p.Tag()
            obj.encode(t)
            if ctx is not None:
                t = t.app_to_context(ctx)
            pdu = PDUData()
            t.encode(pdu)
            octets = bytes(pdu.pduData)
        except Exception as e:
            if want is None or not require_accept:
                continue                        # not representable and refused
            return dict(info, kind='refused-representable', mode=mode, exc=repr(e)[:120]), False
        if want is None:
            # the standard cannot carry it: whatever was emitted must still decode to the same value
            pass
        elif not isnan and octets != want:
            return dict(info, **{'kind': 'not-canonical', 'mode': mode, 'got': octets[:40].hex(), 'want': want[:40].hex()}), True
        try:
            pd = PDUData(octets)
            t2 = p.Tag(pd)
            rest = bytes(pd.pduData)
            if ctx is not None:
                if t2.tagClass != p.Tag.contextTagClass or t2.tagNumber != ctx:
                    return dict(info, **{'kind': 'context-tag-lost', 'mode': mode, 'octets': octets[:40].hex()}), True
                t2 = t2.context_to_app(cls._app_tag)
            back = cls(t2)
        except Exception as e:
            return dict(info, **{'kind': 'decode-fails', 'mode': mode, 'octets': octets[:40].hex(), 'exc': repr(e)[:120]}), True
        if rest:
            return dict(info, **{'kind': 'octets-left-over', 'mode': mode, 'octets': octets[:40].hex()}), True
        if want_val is None or not same_value(kind, back.value, want_val):
            return dict(info, **{'kind': 'value-altered', 'mode': mode, 'octets': octets[:40].hex(), 'value': repr(v)[:120], 'decoded': repr(back.value)[:120]}), True
        if ctx is None and kind != 'null':
            # the generic path: Tag.app_to_object picks the class from the tag number
            try:
                gen = p.Tag(PDUData(octets)).app_to_object()
                num_ok = True
                if kind == 'enum':
                    n = tbl[v] if isinstance(v, str) else v
                    num_ok = gen.value == n
                elif kind == 'objid':
                    num_ok = gen.get_tuple() == obj.get_tuple()
                else:
                    num_ok = same_value(kind, gen.value, want_val)
                if type(gen)._app_tag != cls._app_tag or not num_ok:
                    return dict(info, **{'kind': 'app_to_object-differs', 'octets': octets[:40].hex(), 'decoded': repr(gen.value)[:120]}), True
            except Exception as e:
                return dict(info, **{'kind': 'app_to_object-fails', 'octets': octets[:40].hex(), 'exc': repr(e)[:120]}), True
    return None, True


def direct(rng, tier, focus=()):
    """Implementation-only predicate of C01 (weakest reading): every value the public constructor accepts either
    encodes to the clause-20.2 octets and decodes back to itself in both tagging modes, or (when the standard
    cannot carry it) is refused / still decodes to itself."""
    p = P()
    quick = tier != 'thorough'
    failures, n, nontriv = [], 0, set()
    samples = []
    allctx = list(range(255))

    def ctxpick(k=2):
        return sorted(set(rng.sample(allctx, k if quick else 4) + [rng.choice(CTX_QUICK)]))

    calls = []                                  # everything that was checked, for the second pass at the end

    def run(cls, kind, arg, ctxs=None, tbl=None, record=True):
        nonlocal n
        n += 1
        f, enc = check_value(cls, kind, arg, ctxpick() if ctxs is None else ctxs, tbl)
        if record:
            calls.append((cls, kind, arg, tbl))
        if enc:
            nontriv.add((cls.__name__, kind, repr(arg)[:80]))
        if f:
            f['replay_arg'] = replay_arg(arg)
            failures.append(f)
        return f

    def scenario(name, steps):
        """values of several classes checked in a fixed order in this one process; a failure carries the steps up to it"""
        for k, (cls, kind, arg, tbl) in enumerate(steps):
            f = run(cls, kind, arg, [rng.choice(CTX_QUICK)], tbl, record=False)
            if f:
                f['scenario_name'] = name
                f['scenario'] = [{'class': '%s.%s' % (c.__module__, c.__name__), 'prim': kd, 'replay_arg': replay_arg(a)} for c, kd, a, _ in steps[:k + 1]]
                return f
        return None

    # every context number for the two special layouts and one ordinary one
    for arg, kind, cls in [(None, 'null', p.Null), (True, 'bool', p.Boolean), (False, 'bool', p.Boolean), (300, 'unsigned', p.Unsigned),
                           (-129, 'integer', p.Integer)]:
        run(cls, kind, arg, allctx)
    # ... and for a boundary subset of the values of every class (content lengths 0..4, 5, 253/254 meet tag numbers 14/15/254)
    ot_tbl = enum_values(p.ObjectType, rng)[1]
    for arg, kind, cls, tbl in [(0, 'unsigned', p.Unsigned, None), (255, 'unsigned', p.Unsigned, None), (65536, 'unsigned', p.Unsigned, None),
                                (2 ** 32 - 1, 'unsigned', p.Unsigned, None), (0, 'integer', p.Integer, None), (-2 ** 31, 'integer', p.Integer, None),
                                (2 ** 31 - 1, 'integer', p.Integer, None), (1.5, 'real', p.Real, None), (float('inf'), 'real', p.Real, None),
                                (0.1, 'double', p.Double, None), (b'', 'octets', p.OctetString, None), (bytes(4), 'octets', p.OctetString, None),
                                (bytes(5), 'octets', p.OctetString, None), (bytes(253), 'octets', p.OctetString, None),
                                (bytes(254), 'octets', p.OctetString, None), (bytes(65536), 'octets', p.OctetString, None),
                                ('', 'chars', p.CharacterString, None), ('abc', 'chars', p.CharacterString, None), ('Grüße', 'chars', p.CharacterString, None),
                                ('x' * 253, 'chars', p.CharacterString, None), ([], 'bits', p.BitString, None), ([1] * 24, 'bits', p.BitString, None),
                                ([1, 0] * 16, 'bits', p.BitString, None), ('device', 'enum', p.ObjectType, ot_tbl), (70000, 'enum', p.ObjectType, ot_tbl),
                                ((124, 2, 29, 4), 'date', p.Date, None), ((23, 59, 59, 99), 'time', p.Time, None),
                                (('device', 4194303), 'objid', p.ObjectIdentifier, ot_tbl), ((1023, 0), 'objid', p.ObjectIdentifier, ot_tbl)]:
        run(cls, kind, arg, allctx, tbl)
    grid = int_grid()
    more = [rng.getrandbits(rng.choice([7, 8, 9, 15, 16, 17, 23, 24, 25, 31, 32, 33])) for _ in range(400 if quick else 20000)]
    for z in grid + more:
        run(p.Unsigned, 'unsigned', z)
        run(p.Integer, 'integer', z)
        run(p.Integer, 'integer', -z)
    for name, cls in classes()['unsigned'].items():
        for z in range(-1, 258):
            run(cls, 'unsigned', z, [])
        for z in [65534, 65535, 65536, 2 ** 32 - 1, 2 ** 32]:
            run(cls, 'unsigned', z, [3])
    samples.append({'direct': 'integer grid', 'values': [str(z) for z in grid[:8]]})
    # floats
    for d in float_pool(rng, 200 if quick else 20000):
        x = b2d(d)
        run(p.Real, 'real', x)
        run(p.Double, 'double', x)
    for _ in range(300 if quick else 20000):
        run(p.Double, 'double', b2d(rng.getrandbits(64)))
        run(p.Real, 'real', b2f(rng.getrandbits(32)))
    # strings
    for ln in [0, 1, 2, 4, 5, 253, 254, 255, 256, 65535, 65536]:
        run(p.OctetString, 'octets', rand_bytes(rng, ln), [rng.choice(CTX_QUICK)])
    for _ in range(100 if quick else 3000):
        run(p.OctetString, 'octets', rand_bytes(rng, rng.randrange(40)))
    alphabet = ['a', 'Z', '0', ' ', 'é', 'ÿ', 'Ā', '߿', 'ࠀ', '€', '퟿', '', '￿', '\U00010000', '\U0001f600', '\U0010ffff', '\x00', '\x7f', '\x80']
    for s in ['', 'a', 'hello world', 'é', '€', '\U0001f600', 'x' * 253, 'x' * 254, 'y' * 70000, '\ud800', 'a\udfffb']:
        run(p.CharacterString, 'chars', s, [rng.choice(CTX_QUICK)])
    for _ in range(200 if quick else 5000):
        run(p.CharacterString, 'chars', ''.join(rng.choice(alphabet) for _ in range(rng.randrange(12))))
    # bit strings: every length 0..64, four patterns; subclasses by bit list and by names
    for bits in bit_pool(rng, 64):
        run(p.BitString, 'bits', bits)
    if not quick:
        for _ in range(5000):
            run(p.BitString, 'bits', [rng.randrange(2) for _ in range(rng.randrange(0, 200))])
    for ident, cls in classes()['bits'].items():
        run(cls, 'bits', [rng.randrange(2) for _ in range(cls.bitLen)])
        for name in cls.bitNames:
            run(cls, 'bits', [name], [3])
        run(cls, 'bits', list(cls.bitNames), [3])
    # every enumeration name and number of every table; unnamed numbers at the boundaries
    for ident, cls in classes()['enum'].items():
        vals, tbl = enum_values(cls, rng)
        for v in vals:
            run(cls, 'enum', v, [rng.choice(CTX_QUICK)], tbl)
    for v in [0, 1, 255, 256, 65535, 65536, 2 ** 32 - 1, 2 ** 32]:
        run(p.Enumerated, 'enum', v, None, {})
    # dates and times
    for t in tuple4_pool(rng, False):
        run(p.Date, 'date', t, [rng.choice(CTX_QUICK)])
        run(p.Time, 'time', t, [rng.choice(CTX_QUICK)])
    for s in ['2024-02-29', '1/1/2000', '*/*/*', '2000-odd-last', '12:34:56.78', '*:*', '1:02']:
        run(p.Date if ('-' in s or '/' in s) else p.Time, 'date' if ('-' in s or '/' in s) else 'time', s, [1])
    # object identifiers: boundaries and random words, tuple / string / int constructors
    ot = enum_values(p.ObjectType, rng)[1]
    for t, i in objid_pool(rng, 2000 if quick else 100000):
        run(p.ObjectIdentifier, 'objid', (t, i), [rng.choice(CTX_QUICK)], ot)
    for name, num in ot.items():
        run(p.ObjectIdentifier, 'objid', (name, rng.randrange(2 ** 22)), [2], ot)
        run(p.ObjectIdentifier, 'objid', '%s:%d' % (name, rng.randrange(2 ** 22)), [2], ot)
        run(p.ObjectIdentifier, 'objid', (num << 22) | rng.randrange(2 ** 22), [2], ot)
    samples.append({'direct': 'object identifiers', 'values': [repr(x) for x in objid_pool(rng, 2)[-4:]]})
    # ---- special code points (BOM, non-characters, NUL, surrogate neighbours, combining marks, line ends) at every position:
    # constructor path (charset 0), and decode of reference octets in charsets 0 / 3 / 4 (/ 5) into a live object
    for t in special_texts():
        run(p.CharacterString, 'chars', t, [rng.choice(CTX_QUICK)])
        for cs in (0, 3, 4, 5):
            if cs == 5 and any(ord(ch) > 255 for ch in t):
                continue
            f, done, k = history_direct(rng, p.CharacterString, 'chars', None, 0, script=[('new', 'x'), ('decode', t, rng.choice([None, 1, 15]), cs), ('copy',)])
            n += k
            if f:
                failures.append(f)
    # ---- every BitString subclass of the library and a user subclass: values shorter than, equal to and longer than bitLen
    synthetic()
    for cls in list(classes()['bits'].values()) + [VendorBits]:
        for ln in range(0, cls.bitLen + 10):
            for bits in ([0] * ln, [1] * ln, [rng.randrange(2) for _ in range(ln)]):
                run(cls, 'bits', bits, [rng.choice(CTX_QUICK)])
    # ---- sibling classes used interleaved in one process: each class's answer must not depend on what a sibling did before.
    # two ObjectIdentifier classes with different objectTypeClass, type numbers they name differently, both orders
    vt = enum_values(VendorObjectType, rng)[1]
    st = enum_values(p.ObjectType, rng)[1]
    VO, SO = VendorObjectIdentifier, p.ObjectIdentifier
    scenario('objid: stock class first, then vendor class, type 128', [(SO, 'objid', (128, 1), st), (VO, 'objid', ('vendorMeter', 2), vt), (SO, 'objid', (128, 3), st)])
    scenario('objid: vendor class first, then stock class, type 129', [(VO, 'objid', ('vendorPump', 4), vt), (SO, 'objid', (129, 5), st), (VO, 'objid', ('vendorPump', 6), vt)])
    scenario('objid: interleaved over the vendor range', [(c, 'objid', v, tb) for num, name in [(640, 'vendorGateway'), (1023, 'vendorLast')]
                                                         for c, v, tb in [(SO, (num, 7), st), (VO, (name, 8), vt), (VO, (num, 9), vt), (SO, (num, 10), st)]]
             + [(VO, 'objid', ('device', 11), vt), (SO, 'objid', ('device', 12), st), (VO, 'objid', (130, 13), vt), (SO, 'objid', (130, 14), st)])
    # a vendor extension of PropertyIdentifier next to its parent
    import bacpypes.basetypes as _bt
    vp = enum_values(VendorProperty, rng)[1]
    pp = enum_values(_bt.PropertyIdentifier, rng)[1]
    scenario('enum: parent then vendor subclass', [(_bt.PropertyIdentifier, 'enum', 512, pp), (VendorProperty, 'enum', 'vendorSetpoint', vp),
                                                   (_bt.PropertyIdentifier, 'enum', 512, pp), (VendorProperty, 'enum', 'presentValue', vp),
                                                   (_bt.PropertyIdentifier, 'enum', 'presentValue', pp), (VendorProperty, 'enum', 'vendorMode', vp),
                                                   (_bt.PropertyIdentifier, 'enum', 4194303, pp)])
    # neighbouring enumeration classes that give the same number different names
    en = list(classes()['enum'].values())
    for a, b in zip(en, en[1:] + en[:1]):
        ta, tb = enum_values(a, rng)[1], enum_values(b, rng)[1]
        common = sorted(set(ta.values()) & set(tb.values()))[:2]
        inv_a = {v: k for k, v in ta.items()}
        inv_b = {v: k for k, v in tb.items()}
        for num in common:
            scenario('enum: %s / %s number %d' % (a.__name__, b.__name__, num),
                     [(a, 'enum', inv_a[num], ta), (b, 'enum', inv_b[num], tb), (a, 'enum', num, ta), (b, 'enum', num, tb)])
    # ---- second pass: a slice of everything above once more, now that every class has been used in this process
    for cls, kind, arg, tbl in calls[::max(1, len(calls) // (2500 if quick else 20000))]:
        f = run(cls, kind, arg, [rng.choice(CTX_QUICK)], tbl, record=False)
        if f:
            f['second_pass'] = True
    # values named by correspondence disagreements
    for d in focus:
        try:
            spec = d.get('spec') if isinstance(d, dict) else None
            if spec:
                f = replay_spec(spec)
                n += 1
                if f:
                    failures.append(f)
        except Exception:
            pass
    # object life cycles: one object through construct / encode / decode-into / setters / copy, predicate after every step
    hf, hn, hnt = direct_histories(rng, tier)
    failures.extend(hf)
    # Tag.app_to_object on the whole tag family (own stream: the draws above stay as they were)
    import random as _random
    df, dn = direct_dispatch(_random.Random(rng.getrandbits(48)), tier)
    failures.extend(df)
    n += dn
    samples.append({'direct': 'Tag.app_to_object tag family', 'tags': dn})
    # the replay written per failure kind is the first one: put the self-contained ones first (a scenario / history carries the
    # calls that led to it; a single value that fails only because of what the process did before does not reproduce alone)
    failures.sort(key=lambda f: 0 if ('scenario' in f or 'history' in f) else 1)
    samples.append({'direct': 'object life cycles', 'histories_with_state_change': hnt, 'predicate_evaluations': hn})
    return failures, {'evaluations': n + hn, 'distinct_nontrivial': len(nontriv) + hnt, 'life_cycle_histories': hnt, 'exhaustive': False, 'samples': samples}


def check_dispatch(tag):
    """Implementation-only predicate for Tag.app_to_object on ONE tag (class, number, lvt, data): whatever it answers is
    an object of exactly the base class clause 20.2.1.4 assigns to the tag number (independent list BASE_NAMES), holding
    what that class's own decoder reads from this very tag; where that decoder refuses, app_to_object refuses; a tag that is
    not an application tag numbered 0..12 never yields an object.  Returns a failure dict or None."""
    p = P()
    info = {'class': 'bacpypes.primitivedata.Tag', 'prim': 'tag', 'tag': [tag[0], tag[1], tag[2], bytes(tag[3]).hex()]}
    try:
        gen, gexc = mk_tag(*tag).app_to_object(), None
    except Exception as e:
        gen, gexc = None, e
    named = tag[0] == 0 and 0 <= tag[1] <= 12
    if not named:
        if gen is not None:
            return dict(info, kind='app_to_object-object-for-foreign-tag', built=type(gen).__name__)
        return None
    kind, base = KINDS[tag[1]], getattr(p, BASE_NAMES[tag[1]])
    try:
        ref, rexc = base(mk_tag(*tag)), None
    except Exception as e:
        ref, rexc = None, e
    if gexc is not None or rexc is not None:
        if (gexc is None) != (rexc is None):
            return dict(info, kind='app_to_object-refusal-differs-from-class-decoder', generic=repr(gexc)[:80] if gexc else 'accepted', direct=repr(rexc)[:80] if rexc else 'accepted')
        return None
    if gen is None or type(gen) is not base:
        return dict(info, kind='app_to_object-wrong-class', built=type(gen).__name__, expected=base.__name__)
    if canon_value(kind, gen) != canon_value(kind, ref):
        return dict(info, kind='app_to_object-differs', decoded=repr(gen.value)[:120], direct=repr(ref.value)[:120])
    return None


def direct_dispatch(rng, tier):
    """check_dispatch over the tag family + the application tags of one boundary value per class (independent encoder)."""
    quick = tier != 'thorough'
    tags = dispatch_tags(rng, quick)
    for kind, v in [('null', ()), ('bool', True), ('bool', False), ('unsigned', 0), ('unsigned', 2 ** 32 - 1), ('integer', -2 ** 31),
                    ('integer', 127), ('real', 1.5), ('double', 0.1), ('octets', b''), ('octets', bytes(range(200))), ('bits', []),
                    ('bits', [1] * 8), ('bits', [1, 0, 1] * 5 + [1]), ('date', (124, 2, 29, 4)), ('time', (23, 59, 59, 99))]:
        if kind == 'bool':
            tags.append((0, 1, 1 if v else 0, b''))
            continue
        content = spec_content(kind, v)
        tags.append((0, KNUM[kind], len(content), content))
    fails, n = [], 0
    for tag in tags:
        n += 1
        f = check_dispatch(tag)
        if f:
            fails.append(f)
    return fails, n



# ------------------------------------------------------------------ direct predicate on object life cycles
CODECS = {0: 'utf-8', 3: 'utf_32be', 4: 'utf_16be', 5: 'latin_1'}


def obj_state(kind, o):
    """everything encode() may look at, in comparable form"""
    if kind == 'chars':
        return ('chars', o.value, o.strEncoding, bytes(o.strValue))
    if kind in ('real', 'double'):
        return (kind, d2b(o.value))
    if kind == 'bits':
        return (kind, tuple(1 if b else 0 for b in o.value))
    if kind == 'octets':
        return (kind, bytes(o.value))
    return (kind, o.value if not isinstance(o.value, list) else tuple(o.value))


def want_octets(kind, o, ctx, tbl):
    """reference octets for the value the object holds NOW (independent encoder); ('skip',) when the standard
    gives no canonical form for it (NaN, unknown charset, octets that are not text of their charset); None = cannot be carried"""
    v = o.value
    if kind == 'bool':
        return spec_bool(v, ctx)
    if kind in ('real', 'double') and math.isnan(v):
        return ('skip',)
    if kind == 'chars':
        cs = o.strEncoding
        if cs not in CODECS:
            return ('skip',)
        try:
            if bytes(o.strValue).decode(CODECS[cs]) != v:
                return ('skip',)                 # charset 0 octets that were read through the latin-1 fallback
        except UnicodeError:
            return ('skip',)
        c = bytes([cs]) + v.encode(CODECS[cs])
        return spec_header(0, 7, len(c)) + c if ctx is None else spec_header(1, ctx, len(c)) + c
    return spec_octets(kind, v, ctx, tbl)


def check_object(obj, cls, kind, ctxs, tbl, info):
    """the property's predicate on a LIVE object: the octets it emits now are the reference octets of the value it
    holds now, they decode (fresh object) to that value, in both tagging modes, and encode() leaves the object alone"""
    from bacpypes.pdu import PDUData
    p = P()
    before = obj_state(kind, obj)
    v = obj.value
    want_val = expected_after(kind, v)
    for ctx in [None] + list(ctxs):
        mode = 'app' if ctx is None else 'ctx%d' % ctx
        want = want_octets(kind, obj, ctx, tbl)
        try:
            t = p.Tag()
            obj.encode(t)
            if ctx is not None:
                t = t.app_to_context(ctx)
            pdu = PDUData()
            t.encode(pdu)
            octets = bytes(pdu.pduData)
        except Exception as e:
            if obj_state(kind, obj) != before:
                return dict(info, kind='encode-mutates-value', mode=mode, before=repr(before)[:160], after=repr(obj_state(kind, obj))[:160])
            if want is None:
                continue
            return dict(info, kind='refused-representable', mode=mode, exc=repr(e)[:120], value=repr(v)[:120])
        if obj_state(kind, obj) != before:
            return dict(info, kind='encode-mutates-value', mode=mode, before=repr(before)[:160], after=repr(obj_state(kind, obj))[:160])
        if want is not None and want != ('skip',) and octets != want:
            return dict(info, kind='not-canonical', mode=mode, value=repr(v)[:120], got=octets[:40].hex(), want=want[:40].hex())
        try:
            pd = PDUData(octets)
            t2 = p.Tag(pd)
            rest = bytes(pd.pduData)
            if ctx is not None:
                t2 = t2.context_to_app(cls._app_tag)
            back = cls(t2)
        except Exception as e:
            return dict(info, kind='decode-fails', mode=mode, octets=octets[:40].hex(), value=repr(v)[:120], exc=repr(e)[:120])
        if rest:
            return dict(info, kind='octets-left-over', mode=mode, octets=octets[:40].hex())
        ok = want_val is not None and same_value(kind, back.value, want_val)
        if kind == 'chars':
            ok = ok and back.strEncoding == obj.strEncoding
        if not ok:
            return dict(info, kind='value-altered', mode=mode, octets=octets[:40].hex(), value=repr(v)[:120], decoded=repr(back.value)[:120])
    return None


def emit(o, ctx):
    from bacpypes.pdu import PDUData
    t = P().Tag()
    o.encode(t)
    if ctx is not None:
        t = t.app_to_context(ctx)
    pdu = PDUData()
    t.encode(pdu)
    return bytes(pdu.pduData)


def compare_copy(original, copy, cls, kind, tbl, info):
    """K(obj): the copy must emit, in both tagging modes, exactly what the original emits, and that must be the
    independent encoder's octets for the original's state (for a character string: its charset octet + its own octets)"""
    for ctx in (None, 3, 200):
        mode = 'app' if ctx is None else 'ctx%d' % ctx
        try:
            a = emit(original, ctx)
        except Exception:
            a = None                            # the original holds something the encoder refuses
        try:
            b = emit(copy, ctx)
        except Exception as e:
            b = None
        if a != b:
            return dict(info, kind='copy-emits-different-octets', mode=mode, original=repr(obj_state(kind, original))[:160],
                        original_octets=None if a is None else a[:40].hex(), copy_octets=None if b is None else b[:40].hex())
        if a is None:
            continue
        if kind == 'chars':
            c = bytes([original.strEncoding]) + bytes(original.strValue)
            want = spec_header(0, 7, len(c)) + c if ctx is None else spec_header(1, ctx, len(c)) + c
        else:
            want = want_octets(kind, original, ctx, tbl)
        if want is not None and want != ('skip',) and b != want:
            return dict(info, kind='copy-not-canonical', mode=mode, original=repr(obj_state(kind, original))[:160],
                        got=b[:40].hex(), want=want[:40].hex())
    return None


def ref_tag(kind, cls, w, tbl, ctx=None, charset=0):
    """a Tag built from reference octets (independent encoder) for the in-domain value w; application class"""
    from bacpypes.pdu import PDUData
    p = P()
    if kind == 'bool':
        octets = spec_bool(w, ctx)
    elif kind == 'chars':
        c = bytes([charset]) + w.encode(CODECS[charset])
        octets = spec_header(0, 7, len(c)) + c if ctx is None else spec_header(1, ctx, len(c)) + c
    else:
        octets = spec_octets(kind, w, ctx, tbl)
    t = p.Tag(PDUData(octets))
    if ctx is not None:
        t = t.context_to_app(cls._app_tag)
    return t


LIFE_VALUES = {
    'null': [None],
    'bool': [True, False],
    'unsigned': [0, 1, 255, 256, 65535, 65536, 2 ** 24, 2 ** 32 - 1],
    'integer': [0, 1, -1, 127, 128, -128, -129, 32767, 32768, -32768, -32769, 2 ** 31 - 1, -2 ** 31],
    'real': [0.0, -0.0, 1.5, -2.25, 3.4028234663852886e+38, 1e-45, float('inf')],
    'double': [0.0, 0.1, -1e300, 5e-324, float('-inf')],
    'octets': [b'', b'\x00', b'abcde', bytes(range(40))],
    'chars': ['', 'AHU-1 supply', 'Grüße', '20 °C', 'été à Noël', '\U0001f600 ok'],
    'bits': [[], [1], [0, 1, 1], [1] * 8, [0, 1] * 6, [1, 0, 0, 1, 1, 0, 1, 0, 1]],
    'date': [(124, 2, 29, 4), (255, 255, 255, 255), (0, 1, 1, 1)],
    'time': [(0, 0, 0, 0), (23, 59, 59, 99), (255, 255, 255, 255)],
}


def life_values(rng, kind, cls, tbl):
    if kind == 'enum':
        names = list(tbl)
        return rng.sample(names, min(4, len(names))) + [n for n in (0, 1, 77, 255, 256, 70000) if n not in tbl.values()]
    if kind == 'objid':
        names = list(tbl)
        out = [(rng.choice(names), rng.randrange(2 ** 22)) for _ in range(3)]
        out += [(0, 0), (1023, 4194303), (8, 5), (rng.randrange(1024), rng.randrange(2 ** 22)), (700, 1)]
        return out
    return LIFE_VALUES[kind]


def history_direct(rng, cls, kind, tbl, nsteps, script=None):
    """One object, a random (or replayed) history through the public API; the predicate after every step.
    Returns (failure or None, script, number of predicate evaluations)."""
    p = P()
    vals = life_values(rng, kind, cls, tbl) if script is None else None
    steps = [] if script is None else list(script)
    done = []
    info = {'class': '%s.%s' % (cls.__module__, cls.__name__), 'prim': kind}
    obj = None
    orig = None                                 # (object a copy was made of, its state at that time): must stay as it was
    n = 0

    def pick():
        return rng.choice(vals)

    i = 0
    while True:
        if script is None:
            if i > nsteps:
                break
            if i == 0:
                st = ('new', pick())
            else:
                r = rng.random()
                cs = rng.choice([0, 3, 4, 5]) if kind == 'chars' else 0
                if kind == 'null':
                    st = rng.choice([('decode', None, None, 0), ('copy',), ('decode', None, rng.choice(CTX_QUICK), 0)])
                elif r < 0.4:
                    w = pick()
                    if kind == 'chars' and cs == 5 and any(ord(ch) > 255 for ch in w):
                        cs = 3
                    st = ('decode', w, rng.choice([None, None] + CTX_QUICK), cs)
                elif r < 0.6:
                    st = ('copy',)
                elif r < 0.68 and kind == 'objid':
                    st = ('touch', rng.choice(['get_long', 'lt', 'sort', 'hash', 'str']))
                elif kind == 'objid':
                    t, inst = pick()
                    st = rng.choice([('set_tuple', t, inst), ('set_long', rng.getrandbits(32))])
                elif kind == 'bits' and len(obj.value) > 0:
                    st = ('setitem', rng.randrange(len(obj.value)), rng.randrange(2))
                elif kind == 'enum' and r < 0.8:
                    st = ('new', pick())
                else:
                    w = pick()
                    if kind == 'chars' and cs == 5 and any(ord(ch) > 255 for ch in w):
                        cs = 4
                    st = ('decode', w, rng.choice([None] + CTX_QUICK), cs)
        else:
            if i >= len(steps):
                break
            st = steps[i]
        i += 1
        done.append(st)
        expected = None
        try:
            if st[0] == 'new':
                obj = cls(st[1]) if kind != 'null' else cls()
                expected = None
            elif st[0] == 'decode':
                tag = ref_tag(kind, cls, st[1], tbl, st[2], st[3])
                fresh = cls(ref_tag(kind, cls, st[1], tbl, st[2], st[3]))
                obj.decode(tag)
                expected = obj_state(kind, fresh)
            elif st[0] == 'copy':
                expected = obj_state(kind, obj)
                orig = (obj, expected)
                obj = cls(obj)
                cf = compare_copy(orig[0], obj, cls, kind, tbl, info)
                if cf:
                    cf['step'] = len(done) - 1
                    cf['history'] = [replay_step(x) for x in done]
                    return cf, done, n
            elif st[0] == 'set_tuple':
                obj.set_tuple(st[1], st[2])
                expected = obj_state(kind, cls((st[1], st[2])))
            elif st[0] == 'set_long':
                obj.set_long(st[1])
                expected = obj_state(kind, cls(st[1]))
            elif st[0] == 'setitem':
                lst = [1 if b else 0 for b in obj.value]
                lst[st[1]] = st[2]
                obj[st[1]] = st[2]
                expected = ('bits', tuple(lst))
            elif st[0] == 'touch':
                expected = obj_state(kind, obj)
                other = cls((3, 99))
                if st[1] == 'get_long':
                    obj.get_long()
                elif st[1] == 'lt':
                    obj < other
                elif st[1] == 'sort':
                    sorted([other, obj, cls((1, 1))])
                elif st[1] == 'hash':
                    hash(obj)
                else:
                    str(obj)
        except Exception as e:
            return dict(info, kind='history-step-raises', step=len(done) - 1, exc=repr(e)[:160], history=[replay_step(x) for x in done]), done, n
        given = None
        if st[0] == 'new':
            given = intended(kind, cls, st[1], tbl)
        elif st[0] == 'decode' and kind != 'null':
            given = intended(kind, cls, st[1], tbl)
            if given[0]:
                given = (True, expected_after(kind, given[1]))          # a Real carries binary32 precision
        elif st[0] == 'set_tuple':
            given = intended(kind, cls, (st[1], st[2]), tbl)
        elif st[0] == 'set_long':
            given = intended(kind, cls, st[1], tbl)
        if given is not None and given[0] and given[1] is not None and not same_value(kind, obj.value, given[1]):
            return dict(info, kind='object-holds-other-value-than-given', step=len(done) - 1, given=repr(given[1])[:160],
                        holds=repr(obj.value)[:160], history=[replay_step(x) for x in done]), done, n
        if expected is not None and obj_state(kind, obj) != expected:
            return dict(info, kind='object-differs-from-fresh', step=len(done) - 1, state=repr(obj_state(kind, obj))[:160],
                        fresh=repr(expected)[:160], history=[replay_step(x) for x in done]), done, n
        if orig is not None and obj_state(kind, orig[0]) != orig[1]:
            return dict(info, kind='copy-shares-state-with-original', step=len(done) - 1, original_now=repr(obj_state(kind, orig[0]))[:160],
                        original_was=repr(orig[1])[:160], history=[replay_step(x) for x in done]), done, n
        n += 1
        f = check_object(obj, cls, kind, [rng.choice(CTX_QUICK)] if script is None else CTX_QUICK, tbl, info)
        if f:
            f['step'] = len(done) - 1
            f['history'] = [replay_step(x) for x in done]
            return f, done, n
    return None, done, n


def replay_step(st):
    return [st[0]] + [replay_arg(x) for x in st[1:]]


def unreplay_step(st):
    return tuple([st[0]] + [unreplay_arg(x) for x in st[1:]])


def life_classes(rng):
    """(class, kind, table) for every base class, plus a few subclasses with tables"""
    p = P()
    out = [(p.Null, 'null', None), (p.Boolean, 'bool', None), (p.Unsigned, 'unsigned', None), (p.Integer, 'integer', None),
           (p.Real, 'real', None), (p.Double, 'double', None), (p.OctetString, 'octets', None), (p.CharacterString, 'chars', None),
           (p.BitString, 'bits', None), (p.Date, 'date', None), (p.Time, 'time', None),
           (p.ObjectIdentifier, 'objid', enum_values(p.ObjectType, rng)[1])]
    en = classes()['enum']
    for ident in ['E_primitivedata_ObjectType', 'E_basetypes_SecurityLevel', 'E_basetypes_Segmentation'] + rng.sample(sorted(en), 5):
        out.append((en[ident], 'enum', enum_values(en[ident], rng)[1]))
    return out


def direct_histories(rng, tier):
    quick = tier != 'thorough'
    failures, n, nontriv = [], 0, 0
    for cls, kind, tbl in life_classes(rng):
        # deterministic: every value of the class's pool, (every charset for strings,) both ways of obtaining the object
        # (constructor / decode of a reference tag), then copy and copy of the copy
        bad = None
        for w in life_values(rng, kind, cls, tbl):
            for cs in ((0, 3, 4, 5) if kind == 'chars' else (0,)):
                if kind == 'chars' and cs == 5 and any(ord(ch) > 255 for ch in w):
                    continue
                scripts = [[('new', w), ('decode', w, None, cs), ('copy',), ('copy',)],
                           [('new', w), ('decode', w, 15, cs), ('copy',), ('decode', w, None, cs), ('copy',)]]
                if cs == 0:
                    scripts.append([('new', w), ('copy',), ('copy',)])
                for sc in scripts:
                    f, done, k = history_direct(rng, cls, kind, tbl, 0, script=sc)
                    n += k
                    nontriv += 1
                    if f and bad is None:
                        bad = f
        if bad:
            failures.append(bad)
            continue
        for _ in range((200 if kind in ('objid', 'chars') else 80) if quick else 2000):
            f, done, k = history_direct(rng, cls, kind, tbl, rng.randrange(3, 9))
            n += k
            if len(done) > 2:
                nontriv += 1
            if f:
                failures.append(f)
                break                           # one history per class is enough for a replay
    return failures, n, nontriv


# ------------------------------------------------------------------ replay / classification
def replay_arg(arg):
    if isinstance(arg, (bytes, bytearray)):
        return {'t': 'bytes', 'v': bytes(arg).hex()}
    if isinstance(arg, float):
        return {'t': 'float', 'v': arg.hex()}
    if isinstance(arg, tuple):
        return {'t': 'tuple', 'v': list(arg)}
    if isinstance(arg, list):
        return {'t': 'list', 'v': arg}
    if isinstance(arg, str):
        return {'t': 'str', 'v': arg.encode('utf-8', 'surrogatepass').hex()}
    return {'t': 'lit', 'v': arg}


def unreplay_arg(a):
    t, v = a['t'], a['v']
    if t == 'bytes':
        return bytes.fromhex(v)
    if t == 'float':
        return float.fromhex(v) if 'nan' not in v else float('nan')
    if t == 'tuple':
        return tuple(v)
    if t == 'str':
        return bytes.fromhex(v).decode('utf-8', 'surrogatepass')
    return v


def replay_spec(spec):
    """re-run the predicate around a correspondence disagreement described by a value spec"""
    k = spec[0]
    p = P()
    if k == 'unsigned':
        return check_value(p.Unsigned, k, spec[2], CTX_QUICK)[0]
    if k == 'integer':
        return check_value(p.Integer, k, spec[1], CTX_QUICK)[0]
    if k in ('real', 'double'):
        return check_value(p.Real if k == 'real' else p.Double, k, b2d(spec[1]), CTX_QUICK)[0]
    if k == 'enum' and spec[1]:
        cls = classes()['enum'][spec[1]]
        return check_value(cls, k, spec[2], CTX_QUICK, enum_values(cls, None)[1])[0]
    if k in ('date', 'time'):
        return check_value(p.Date if k == 'date' else p.Time, k, tuple(spec[1]), CTX_QUICK)[0]
    if k == 'objid':
        return check_value(p.ObjectIdentifier, k, (spec[1], spec[2]), CTX_QUICK, enum_values(p.ObjectType, None)[1])[0]
    if k == 'bits':
        return check_value(p.BitString, k, list(spec[1]), CTX_QUICK)[0]
    return None


def classify(failure):
    """No finding of this property is open on the repaired tree (both defects carry fix: commits)."""
    return None


def replay(payload):
    import importlib
    f = payload.get('failure')
    if not f:
        print('replay: no failing input stored (unproved obligation):', payload.get('broken'))
        return
    print('replay', {k: v for k, v in f.items() if k not in ('replay_arg', 'history', 'scenario')})
    synthetic()

    def find(name):
        modname, clsname = name.rsplit('.', 1)
        return getattr(importlib.import_module(modname), clsname)

    def tbl_for(c, prim):
        if prim == 'enum':
            return enum_values(c, None)[1]
        if prim == 'objid':
            return enum_values(c.objectTypeClass, None)[1]
        return None
    if 'scenario' in f:
        res = None
        for st in f['scenario']:
            c = find(st['class'])
            arg = unreplay_arg(st['replay_arg'])
            res, _ = check_value(c, st['prim'], arg, CTX_QUICK, tbl_for(c, st['prim']))
            print('  step', st['class'], repr(arg)[:80], '->', 'ok' if res is None else res['kind'])
        print('implementation:', 'property holds for this scenario' if res is None else res)
        return
    if f.get('prim') == 'tag':
        t = f['tag']
        res = check_dispatch((t[0], t[1], t[2], bytes.fromhex(t[3])))
        print('implementation:', 'property holds for this tag' if res is None else res)
        return
    cls = find(f['class'])
    if 'history' in f:
        import random
        prim = f['prim']
        tbl = tbl_for(cls, prim)
        script = [unreplay_step(st) for st in f['history']]
        for st in script:
            print('  step', st)
        res, _, _ = history_direct(random.Random(0), cls, prim, tbl, 0, script=script)
        print('implementation:', 'property holds for this history' if res is None else {k: v for k, v in res.items() if k != 'history'})
        return
    arg = unreplay_arg(f['replay_arg'])
    prim = f['prim']
    tbl = tbl_for(cls, prim)
    res, _ = check_value(cls, prim, arg, list(range(255)), tbl)
    print('implementation:', 'property holds for this input' if res is None else res)
