"""IOCB layer of C04: scripted histories on a real ApplicationIOController (iocb.IOController.request_io,
iocb.IOQController/SieveQueue per destination, app.ApplicationIOController._app_request/_app_complete), with the
stack below replaced by a recorder.  A history is a list of operations

  ['submit', i, addr, fail, follow]   app.request_io(IOCB i for a confirmed request to station addr); fail = the stack
                              below raises when the request is handed down (e.g. "invoke ID in use"); follow = None or
                              [j, addr2, fail2]: the completion / error callback of IOCB i submits IOCB j, synchronously
  ['confirm', addr, kind]     the stack below confirms for station addr: kind 0 = ack (complete), 1 = error (abort); the
                              PDU answers the oldest request handed down for that station and not yet answered (each is
                              its own SSM transaction), which is remembered for the content check only
  ['abort', i]                the client aborts IOCB i (IOCB.abort, what IOCB.set_timeout does)
  ['run']                     one batch of bacpypes.core deferred functions (IOQController._trigger)

`run_history` returns the canonical observation (list of ints) that coq/theories/Iocb.v: run_ops reproduces."""
import random

OPS = {'submit': 0, 'confirm': 1, 'abort': 2, 'run': 3}


class Down(Exception):
    pass


def run_history(ops, niocb):
    """returns (canonical list, details dict)"""
    from bacpypes.app import ApplicationIOController, DeviceInfoCache
    from bacpypes.comm import bind, ServiceAccessPoint
    from bacpypes.iocb import IOCB
    from bacpypes.apdu import ReadPropertyRequest, SimpleAckPDU, AbortPDU
    from bacpypes.pdu import Address
    import bacpypes.core as bcore
    bcore.deferredFns[:] = []
    events = []          # canonical, flat
    log = []             # readable
    failing = set()
    outstanding = {}

    class Below(ServiceAccessPoint):
        def sap_indication(self, apdu):
            i = apdu._iocb_no
            events.extend([20, i])
            log.append(('sent', i))
            if i in failing:
                raise RuntimeError("refused below")
            outstanding.setdefault(apdu.pduDestination.addrAddr[0], []).append(i)

    app = ApplicationIOController(None, deviceInfoCache=DeviceInfoCache())
    below = Below()
    bind(app, below)
    iocbs = {}
    calls = {}
    answers = {}
    follow = {}
    aborted_active = set()

    def mk(i, addr):
        rq = ReadPropertyRequest(objectIdentifier=('analogValue', i), propertyIdentifier='presentValue')
        rq.pduDestination = Address(addr)
        rq._iocb_no = i
        io = IOCB(rq)

        def cb(iocb, _i=i):
            calls[_i] = calls.get(_i, 0) + 1
            events.extend([21, _i, iocb.ioState])
            log.append(('callback', _i, iocb.ioState))
            r = iocb.ioResponse if iocb.ioResponse is not None else iocb.ioError
            answers[_i] = getattr(r, '_tag', None)
            fo = follow.get(_i)
            if fo and calls[_i] == 1:
                j, a2, f2 = fo
                events.extend([23, j])
                log.append(('followup', j))
                if j not in iocbs:
                    if f2:
                        failing.add(j)
                    iocbs[j] = mk(j, a2)
                    iocbs[j]._addr = a2
                    app.request_io(iocbs[j])
        io.add_callback(cb)
        return io

    exn = []
    for op in ops:
        k = op[0]
        events.extend([10, OPS[k]])
        try:
            if k == 'submit':
                i, addr, fail = op[1], op[2], op[3]
                if i not in iocbs:
                    if fail:
                        failing.add(i)
                    if len(op) > 4 and op[4]:
                        follow[i] = op[4]
                    iocbs[i] = mk(i, addr)
                    iocbs[i]._addr = addr
                    app.request_io(iocbs[i])
            elif k == 'confirm':
                _, addr, kind = op[:3]
                tag = outstanding[addr].pop(0) if outstanding.get(addr) else -1
                if kind == 0:
                    pdu = SimpleAckPDU(12, 1)
                else:
                    pdu = AbortPDU(True, 1, 4)
                pdu.pduSource = Address(addr)
                pdu._tag = tag
                app.confirmation(pdu)
            elif k == 'abort':
                _, i = op
                if i in iocbs:
                    if iocbs[i].ioState == 2:
                        aborted_active.add(i)
                    iocbs[i].abort(Down("client abort"))
            elif k == 'run':
                fns = bcore.deferredFns[:]
                bcore.deferredFns[:] = []
                for fn, args, kwargs in fns:
                    fn(*args, **kwargs)
        except Exception as e:
            from pyerr import exc_code
            events.extend([22, exc_code(e)])
            exn.append(repr(e)[:80])
    # final observation
    final = [30]
    for i in range(niocb):
        io = iocbs.get(i)
        final += [io.ioState if io is not None else -1, calls.get(i, 0)]
    final.append(31)
    qs = sorted(((a.addrAddr[0], q) for a, q in app.queue_by_address.items()), key=lambda x: x[0])
    final.append(len(qs))
    for addr, q in qs:
        act = -1
        if q.active_iocb is not None:
            act = q.active_iocb.args[0]._iocb_no
        final += [addr, q.state, act, len(q.ioQueue.queue)] + [it[1].args[0]._iocb_no for it in q.ioQueue.queue]
    final += [32, len(bcore.deferredFns)]
    details = {'calls': calls, 'answers': answers, 'states': {i: io.ioState for i, io in iocbs.items()}, 'exn': exn,
               'queues': [(a, q.state, len(q.ioQueue.queue), q.active_iocb is not None) for a, q in qs],
               'deferred': len(bcore.deferredFns), 'log': log, 'aborted_active': sorted(aborted_active), 'ids': sorted(iocbs),
               'addr_of': {i: io._addr for i, io in iocbs.items()}, 'aborted_active_addrs': sorted(set(iocbs[i]._addr for i in aborted_active))}
    bcore.deferredFns[:] = []
    return events + final, details


def gen_history(rng, niocb=None, naddr=None, with_abort=None, with_follow=None):
    niocb = niocb or rng.randrange(1, 9)
    naddr = naddr or rng.randrange(1, 4)
    with_abort = rng.random() < 0.3 if with_abort is None else with_abort
    addrs = [10 + a for a in range(naddr)]
    with_follow = rng.random() < 0.4 if with_follow is None else with_follow
    nxt = [niocb]
    ops = []
    pending = list(range(niocb))
    submitted = []
    for _ in range(rng.randrange(niocb, 4 * niocb + 6)):
        u = rng.random()
        if pending and u < 0.4:
            i = pending.pop(0)
            a = rng.choice(addrs)
            fo = None
            if with_follow and rng.random() < 0.35:
                fo = [nxt[0], a if rng.random() < 0.6 else rng.choice(addrs), 1 if rng.random() < 0.1 else 0]
                nxt[0] += 1
            ops.append(['submit', i, a, 1 if rng.random() < 0.1 else 0, fo])
            submitted.append(i)
        elif u < 0.7:
            ops.append(['confirm', rng.choice(addrs), 0 if rng.random() < 0.7 else 1])
        elif u < 0.9 or not with_abort or not submitted:
            ops.append(['run'])
        else:
            ops.append(['abort', rng.choice(submitted)])
    for i in pending:
        ops.append(['submit', i, rng.choice(addrs), 0, None])
    # drain: confirmations and deferred batches until nothing can be left
    for _ in range(nxt[0] + 2):
        for a in addrs:
            ops.append(['confirm', a, 0])
        ops.append(['run'])
    return ops, nxt[0]


def gen_queue_abort(rng):
    """three or more IOCBs queued for one peer, one of those still waiting behind the active one is aborted by the client
    (IOCB.abort / time-out) while the active request is unanswered; then the answers arrive in order"""
    m = rng.randrange(3, 7)
    n = m
    a = 10
    ops = [['submit', i, a, 0, None] for i in range(m)]
    if rng.random() < 0.5:
        ops.insert(rng.randrange(1, m), ['submit', m, 11, 0, None])
        n += 1
    victims = rng.sample(range(1, m), rng.choice([1, 1, 2]))
    for v in victims:
        ops.append(['abort', v])
        if rng.random() < 0.5:
            ops.append(['run'])
    for _ in range(n + 2):
        ops.append(['confirm', a, 0 if rng.random() < 0.8 else 1])
        ops.append(['confirm', 11, 0])
        ops.append(['run'])
    return ops, n


def coq_ops(ops):
    out = []
    for op in ops:
        if op[0] == 'submit':
            fo = op[4] if len(op) > 4 else None
            out.append('OSubmit %d %d %s %s' % (op[1], op[2], 'true' if op[3] else 'false',
                                                 ('(Some (%d, %d, %s))' % (fo[0], fo[1], 'true' if fo[2] else 'false')) if fo else 'None'))
        elif op[0] == 'confirm':
            out.append('OConfirm %d %s' % (op[1], 'true' if op[2] == 0 else 'false'))
        elif op[0] == 'abort':
            out.append('OAbort %d' % op[1])
        else:
            out.append('ORun')
    return '[' + ';'.join(out) + ']'


def check_history(ops, niocb):
    """the IOCB half of C04 on the implementation alone"""
    res, det = run_history(ops, niocb)
    f = []
    submitted = det['ids']
    for i in submitted:
        c = det['calls'].get(i, 0)
        if c > 1:
            f.append({'kind': 'iocb-callback-twice', 'iocb': i, 'count': c})
        st = det['states'].get(i)
        if c == 1 and st not in (3, 4):
            f.append({'kind': 'iocb-callback-without-outcome', 'iocb': i, 'state': st})
        if c == 0 and st in (3, 4):
            f.append({'kind': 'iocb-outcome-without-callback', 'iocb': i, 'state': st})
        a = det['answers'].get(i)
        if c >= 1 and a is not None and a != i:
            f.append({'kind': 'iocb-answer-for-other-request', 'iocb': i, 'answers': a,
                      'client_aborts': [o[1] for o in ops if o[0] == 'abort'],
                      'active_request_aborted_to_this_peer': det['addr_of'].get(i) in det['aborted_active_addrs']})
    if det['exn']:
        f.append({'kind': 'iocb-exception', 'exc': det['exn'][0]})
    return f, det


def check_drained(ops, niocb):
    """after the draining tail of gen_history every IOCB is finished and nothing is queued, active or registered"""
    f, det = check_history(ops, niocb)
    for i in det['ids']:
        if det['states'].get(i) not in (3, 4):
            f.append({'kind': 'iocb-not-finished', 'iocb': i, 'state': det['states'].get(i)})
    for (a, st, qlen, act) in det['queues']:
        if qlen or act:
            f.append({'kind': 'iocb-queue-residue', 'addr': a, 'queued': qlen, 'active': act})
    for x in f:
        x['ops'] = ops
    return f, det
