"""IOCB layer of C04: scripted histories on a real ApplicationIOController (iocb.IOController.request_io,
iocb.IOQController/SieveQueue per destination, app.ApplicationIOController._app_request/_app_complete), with the
stack below replaced by a recorder.  A history is a list of operations

  ['submit', i, addr, fail]   app.request_io(IOCB i for a confirmed request to station addr); fail = the stack
                              below raises when the request is handed down (e.g. "invoke ID in use")
  ['confirm', addr, kind]     the stack below confirms for station addr: kind 0 = ack (complete), 1 = error (abort); the
                              PDU answers the oldest request handed down for that station and not yet answered (each is
                              its own SSM transaction), which is remembered for the content check only
  ['abort', i]                the client aborts IOCB i (IOCB.abort, what IOCB.set_timeout does)
  ['run']                     one batch of bacpypes.core deferred functions (IOQController._trigger)

`run_history` returns the canonical observation (list of ints) that coq/theories/Iocb.v: run_ops reproduces."""
import random

OPS = {'submit': 0, 'confirm': 1, 'abort': 2, 'run': 3}


class Down(Exception):
    pass


def run_history(ops, niocb):
    """returns (canonical list, details dict)"""
    from bacpypes.app import ApplicationIOController, DeviceInfoCache
    from bacpypes.comm import bind, ServiceAccessPoint
    from bacpypes.iocb import IOCB
    from bacpypes.apdu import ReadPropertyRequest, SimpleAckPDU, AbortPDU
    from bacpypes.pdu import Address
    import bacpypes.core as bcore
    bcore.deferredFns[:] = []
    events = []          # canonical, flat
    log = []             # readable
    failing = set()
    outstanding = {}

    class Below(ServiceAccessPoint):
        def sap_indication(self, apdu):
            i = apdu._iocb_no
            events.extend([20, i])
            log.append(('sent', i))
            if i in failing:
                raise RuntimeError("refused below")
            outstanding.setdefault(apdu.pduDestination.addrAddr[0], []).append(i)

    app = ApplicationIOController(None, deviceInfoCache=DeviceInfoCache())
    below = Below()
    bind(app, below)
    iocbs = {}
    calls = {}
    answers = {}

    def mk(i, addr):
        rq = ReadPropertyRequest(objectIdentifier=('analogValue', i), propertyIdentifier='presentValue')
        rq.pduDestination = Address(addr)
        rq._iocb_no = i
        io = IOCB(rq)

        def cb(iocb, _i=i):
            calls[_i] = calls.get(_i, 0) + 1
            events.extend([21, _i, iocb.ioState])
            log.append(('callback', _i, iocb.ioState))
            r = iocb.ioResponse if iocb.ioResponse is not None else iocb.ioError
            answers[_i] = getattr(r, '_tag', None)
        io.add_callback(cb)
        return io

    exn = []
    for op in ops:
        k = op[0]
        events.extend([10, OPS[k]])
        try:
            if k == 'submit':
                _, i, addr, fail = op
                if fail:
                    failing.add(i)
                iocbs[i] = mk(i, addr)
                iocbs[i]._addr = addr
                app.request_io(iocbs[i])
            elif k == 'confirm':
                _, addr, kind = op[:3]
                tag = outstanding[addr].pop(0) if outstanding.get(addr) else -1
                if kind == 0:
                    pdu = SimpleAckPDU(12, 1)
                else:
                    pdu = AbortPDU(True, 1, 4)
                pdu.pduSource = Address(addr)
                pdu._tag = tag
                app.confirmation(pdu)
            elif k == 'abort':
                _, i = op
                if i in iocbs:
                    iocbs[i].abort(Down("client abort"))
            elif k == 'run':
                fns = bcore.deferredFns[:]
                bcore.deferredFns[:] = []
                for fn, args, kwargs in fns:
                    fn(*args, **kwargs)
        except Exception as e:
            from pyerr import exc_code
            events.extend([22, exc_code(e)])
            exn.append(repr(e)[:80])
    # final observation
    final = [30]
    for i in range(niocb):
        io = iocbs.get(i)
        final += [io.ioState if io is not None else -1, calls.get(i, 0)]
    final.append(31)
    qs = sorted(((a.addrAddr[0], q) for a, q in app.queue_by_address.items()), key=lambda x: x[0])
    final.append(len(qs))
    for addr, q in qs:
        act = -1
        if q.active_iocb is not None:
            act = q.active_iocb.args[0]._iocb_no
        final += [addr, q.state, act, len(q.ioQueue.queue)] + [it[1].args[0]._iocb_no for it in q.ioQueue.queue]
    final += [32, len(bcore.deferredFns)]
    details = {'calls': calls, 'answers': answers, 'states': {i: io.ioState for i, io in iocbs.items()}, 'exn': exn,
               'queues': [(a, q.state, len(q.ioQueue.queue), q.active_iocb is not None) for a, q in qs],
               'deferred': len(bcore.deferredFns), 'log': log}
    bcore.deferredFns[:] = []
    return events + final, details


def gen_history(rng, niocb=None, naddr=None, with_abort=None):
    niocb = niocb or rng.randrange(1, 9)
    naddr = naddr or rng.randrange(1, 4)
    with_abort = rng.random() < 0.3 if with_abort is None else with_abort
    addrs = [10 + a for a in range(naddr)]
    ops = []
    pending = list(range(niocb))
    submitted = []
    for _ in range(rng.randrange(niocb, 4 * niocb + 6)):
        u = rng.random()
        if pending and u < 0.4:
            i = pending.pop(0)
            ops.append(['submit', i, rng.choice(addrs), 1 if rng.random() < 0.1 else 0])
            submitted.append(i)
        elif u < 0.7:
            ops.append(['confirm', rng.choice(addrs), 0 if rng.random() < 0.7 else 1])
        elif u < 0.9 or not with_abort or not submitted:
            ops.append(['run'])
        else:
            ops.append(['abort', rng.choice(submitted)])
    for i in pending:
        ops.append(['submit', i, rng.choice(addrs), 0])
    # drain: confirmations and deferred batches until nothing can be left
    for _ in range(niocb + 2):
        for a in addrs:
            ops.append(['confirm', a, 0])
        ops.append(['run'])
    return ops, niocb


def coq_ops(ops):
    out = []
    for op in ops:
        if op[0] == 'submit':
            out.append('OSubmit %d %d %s' % (op[1], op[2], 'true' if op[3] else 'false'))
        elif op[0] == 'confirm':
            out.append('OConfirm %d %s' % (op[1], 'true' if op[2] == 0 else 'false'))
        elif op[0] == 'abort':
            out.append('OAbort %d' % op[1])
        else:
            out.append('ORun')
    return '[' + ';'.join(out) + ']'


def check_history(ops, niocb):
    """the IOCB half of C04 on the implementation alone"""
    res, det = run_history(ops, niocb)
    f = []
    submitted = [o[1] for o in ops if o[0] == 'submit']
    for i in submitted:
        c = det['calls'].get(i, 0)
        if c > 1:
            f.append({'kind': 'iocb-callback-twice', 'iocb': i, 'count': c})
        st = det['states'].get(i)
        if c == 1 and st not in (3, 4):
            f.append({'kind': 'iocb-callback-without-outcome', 'iocb': i, 'state': st})
        if c == 0 and st in (3, 4):
            f.append({'kind': 'iocb-outcome-without-callback', 'iocb': i, 'state': st})
        a = det['answers'].get(i)
        if c >= 1 and a is not None and a != i:
            f.append({'kind': 'iocb-answer-for-other-request', 'iocb': i, 'answers': a,
                      'client_aborts': [o[1] for o in ops if o[0] == 'abort']})
    if det['exn']:
        f.append({'kind': 'iocb-exception', 'exc': det['exn'][0]})
    return f, det


def check_drained(ops, niocb):
    """after the draining tail of gen_history every IOCB is finished and nothing is queued, active or registered"""
    f, det = check_history(ops, niocb)
    for i in [o[1] for o in ops if o[0] == 'submit']:
        if det['states'].get(i) not in (3, 4):
            f.append({'kind': 'iocb-not-finished', 'iocb': i, 'state': det['states'].get(i)})
    for (a, st, qlen, act) in det['queues']:
        if qlen or act:
            f.append({'kind': 'iocb-queue-residue', 'addr': a, 'queued': qlen, 'active': act})
    for x in f:
        x['ops'] = ops
    return f, det
