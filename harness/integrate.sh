#!/bin/bash
# integrate.sh <WS> [fix-commit...] : merge a builder's clone into /verif, cherry-pick its fix commits into /repo
ws=$1; shift
cd /verif
git add -A; git commit -qm "wip before integrating $ws" 2>/dev/null
git pull --no-rebase --no-edit /tmp/w/$ws/verif HEAD >/tmp/integrate_$ws.log 2>&1
for f in $(git diff --name-only --diff-filter=U); do
  case "$f" in
    evidence/*|coq/.nia.cache|coq/.lia.cache|MANIFEST.json|known_findings.json|docs/STATUS.md|docs/SEEDED.md|docs/FINDINGS.md)
      # rewritten by every run / generated below
      git checkout --ours -- "$f" 2>/dev/null || git rm -q --cached "$f"; git add "$f" 2>/dev/null;;
    seeded/*/meta.json) git checkout --theirs -- "$f"; git add "$f";;
    *) echo "CONFLICT needs manual resolution: $f";;
  esac
done
if [ -z "$(git diff --name-only --diff-filter=U)" ]; then git commit -q --no-edit 2>/dev/null; fi
for c in "$@"; do git -C /repo cherry-pick $c 2>&1 | grep -E "^\[main|error|CONFLICT"; done
python3 harness/mkmanifest.py
python3 harness/mkreport.py >/dev/null 2>&1
git log --oneline | head -2
git -C /repo log --oneline | head -2
