"""Shared machinery of every check: import guard, translation + Coq build, compilation of the
property file (theorems + Print Assumptions), in-kernel correspondence runs, verdict, evidence."""
import fcntl, glob, hashlib, json, os, re, resource, subprocess, sys, time
from concurrent.futures import ThreadPoolExecutor

VERIF = os.path.dirname(os.path.dirname(os.path.abspath(__file__)))
COQ = os.path.join(VERIF, 'coq')
REPO = os.environ.get('VERIF_REPO', '/repo')
IMPL = os.path.join(REPO, 'py34')
WORK = os.path.join(VERIF, 'work')
QFLAGS = ['-Q', 'theories', 'Bac', '-Q', 'gen', 'BacGen', '-Q', 'props', 'BacProps']
FORBIDDEN = re.compile(r'\b(Admitted|admit|Axiom|Axioms|Parameter|Parameters|Conjecture|Hypothesis|Variable|'
                       r'Unset\s+Guard|bypass_check|Admit\s+Obligations|Unset\s+Positivity|type-in-type)\b')


def impl_import_guard():
    """Make `import bacpypes` resolve to /repo's working tree and check that it does."""
    if IMPL not in sys.path:
        sys.path.insert(0, IMPL)
    for k in [k for k in sys.modules if k == 'bacpypes' or k.startswith('bacpypes.')]:
        if not getattr(sys.modules[k], '__file__', IMPL).startswith(IMPL):
            del sys.modules[k]
    import bacpypes
    assert os.path.realpath(bacpypes.__file__).startswith(os.path.realpath(IMPL)), bacpypes.__file__
    return bacpypes


def _unlimit_stack():
    try:
        resource.setrlimit(resource.RLIMIT_STACK, (resource.RLIM_INFINITY, resource.RLIM_INFINITY))
    except Exception:
        pass


def run(cmd, cwd=None, timeout=None, env=None):
    try:
        p = subprocess.run(cmd, cwd=cwd, timeout=timeout, env=env, capture_output=True, text=True,
                           preexec_fn=_unlimit_stack)
        return p.returncode, p.stdout + p.stderr
    except subprocess.TimeoutExpired as e:
        out = (e.stdout or b'')
        out = out.decode() if isinstance(out, bytes) else out
        return 124, out + '\nTIMEOUT after %ss' % timeout


class BuildLock:
    def __enter__(self):
        os.makedirs(COQ, exist_ok=True)
        self.f = open(os.path.join(COQ, '.lock'), 'w')
        fcntl.flock(self.f, fcntl.LOCK_EX)
        return self

    def __exit__(self, *a):
        fcntl.flock(self.f, fcntl.LOCK_UN)
        self.f.close()


def forbidden_scan():
    """No Admitted/Axiom/... anywhere in the development (comments excluded)."""
    hits = []
    for f in sorted(glob.glob(COQ + '/theories/*.v') + glob.glob(COQ + '/props/*.v') + glob.glob(COQ + '/gen/*.v')):
        txt = open(f).read()
        txt = re.sub(r'\(\*.*?\*\)', lambda m: ' ' * len(m.group(0)), txt, flags=re.S)
        for m in FORBIDDEN.finditer(txt):
            # `Variable`/`Hypothesis` are allowed inside a Section only; none are used at all here
            hits.append('%s: %s' % (os.path.relpath(f, COQ), m.group(0)))
    return hits


def translate():
    rc, out = run([sys.executable, os.path.join(VERIF, 'translator', 'translate.py')], timeout=600,
                  env=dict(os.environ, VERIF_REPO=REPO))
    return rc, out


def build(targets, jobs=16, timeout=3000):
    """translate, then make the given .vo targets (and what they depend on).  Returns dict."""
    res = {'translate_ok': True, 'build_ok': True, 'log': '', 'cmd': ''}
    with BuildLock():
        rc, out = translate()
        res['log'] += out
        # a translation that aborted leaves a gen file that cannot compile; it concerns this property only
        # if one of its targets depends on that file, which the make below decides (fail-closed either way)
        aborted = re.findall(r'TRANSLATION-ABORT (\S+?):', out) if rc != 0 else []
        res['aborted'] = aborted
        if rc != 0 and not aborted:
            res['translate_ok'] = False
        files = sorted(glob.glob(COQ + '/theories/*.v') + glob.glob(COQ + '/gen/*.v'))
        rel = [os.path.relpath(f, COQ) for f in files]
        stamp = os.path.join(COQ, '.filelist')
        listing = '\n'.join(rel)
        if not os.path.exists(os.path.join(COQ, 'Makefile.coq')) or not os.path.exists(stamp) or open(stamp).read() != listing:
            rc, out = run(['coq_makefile', '-f', '_CoqProject'] + rel + ['-o', 'Makefile.coq'], cwd=COQ, timeout=300)
            res['log'] += out
            open(stamp, 'w').write(listing)
        cmd = ['make', '-k', '-f', 'Makefile.coq', '-j%d' % jobs] + list(targets)
        res['cmd'] = 'cd coq && ' + ' '.join(cmd)
        rc, out = run(cmd, cwd=COQ, timeout=timeout)
        res['log'] += out[-20000:]
        if rc != 0:
            res['build_ok'] = False
            m = re.search(r'File "\./([^"]+)", line (\d+)', out)
            res['failed_at'] = '%s:%s' % (m.group(1), m.group(2)) if m else 'unknown'
            failed_files = set(re.findall(r'File "\./([^"]+)", line \d+', out))
            if any(('gen/' + a) in failed_files for a in aborted):
                res['translate_ok'] = False
            # -k: everything that does not depend on the failing file is built, so that the correspondence can
            # still evaluate the model (a stale dependent .vo is refused by Coq's checksum test, never used)
            res['partial'] = True
    return res


def compile_props(prop):
    """Compile props/<prop>.v (the property theorems) and capture Print Assumptions."""
    os.makedirs(WORK, exist_ok=True)
    src = os.path.join(COQ, 'props', prop + '.v')
    text = open(src).read()
    nocomment = re.sub(r'\(\*.*?\*\)', '', text, flags=re.S)
    theorems = re.findall(r'^\s*Theorem\s+(\w+)', nocomment, flags=re.M)
    examples = re.findall(r'^\s*Example\s+(\w+)', nocomment, flags=re.M)
    outdir = os.path.join(WORK, 'props_%d' % os.getpid())
    os.makedirs(outdir, exist_ok=True)
    outvo = os.path.join(outdir, prop + '.vo')
    cmd = ['coqc'] + QFLAGS + ['-o', outvo, 'props/%s.v' % prop]
    rc, out = run(cmd, cwd=COQ, timeout=1200)
    import shutil
    shutil.rmtree(outdir, ignore_errors=True)
    blocks = re.findall(r'(Closed under the global context|Axioms:\n(?:.+\n?)*?)(?=\n*(?:Closed under|Axioms:|$))', out)
    closed = out.count('Closed under the global context')
    axioms = sorted(set(re.findall(r'^([A-Za-z_][\w.\']*)\s*:', out.split('Axioms:', 1)[1], flags=re.M))) if 'Axioms:' in out else []
    res = {'ok': rc == 0, 'theorems': theorems, 'examples': examples, 'closed': closed,
           'assumption_blocks': len(blocks), 'axioms': axioms, 'cmd': 'cd coq && ' + ' '.join(cmd),
           'log': out[-6000:]}
    if rc != 0:
        m = re.search(r'File "[^"]*", line (\d+)', out)
        res['failed_line'] = int(m.group(1)) if m else None
        # which theorem does the failing line belong to?
        if m:
            upto = '\n'.join(text.split('\n')[:int(m.group(1))])
            names = re.findall(r'^\s*(?:Theorem|Example|Lemma)\s+(\w+)', upto, flags=re.M)
            res['failed_theorem'] = names[-1] if names else None
        done = 0
        if m:
            upto = '\n'.join(text.split('\n')[:int(m.group(1))])
            done = max(0, len(re.findall(r'^\s*Theorem\s+(\w+)', re.sub(r'\(\*.*?\*\)', '', upto, flags=re.S), flags=re.M)) - 1)
        res['discharged'] = done
    else:
        res['discharged'] = len(theorems)
    return res


def coqchk(prop):
    """thorough tier: re-check props/<prop>.vo and everything it depends on with the independent checker"""
    with BuildLock():
        rc, out = run(['coqc'] + QFLAGS + ['props/%s.v' % prop], cwd=COQ, timeout=1200)
        if rc != 0:
            return {'ok': False, 'log': out[-2000:], 'cmd': ''}
        cmd = ['coqchk', '-silent', '-o'] + QFLAGS + ['BacProps.' + prop]
        rc, out = run(cmd, cwd=COQ, timeout=14400)   # C20's day-number sweep is re-evaluated without the VM by coqchk: slow but finite
    tail = out[out.find('CONTEXT SUMMARY'):] if 'CONTEXT SUMMARY' in out else out[-3000:]
    return {'ok': rc == 0, 'log': tail[-4000:], 'cmd': 'cd coq && ' + ' '.join(cmd)}


class Case:
    __slots__ = ('kind', 'coq', 'expected', 'key', 'nontrivial', 'desc')

    def __init__(self, kind, coq, expected, key=None, nontrivial=True, desc=None):
        self.kind, self.coq, self.expected = kind, coq, [int(x) for x in expected]
        self.key = key if key is not None else coq
        self.nontrivial = nontrivial
        self.desc = desc if desc is not None else coq


def zlist(xs):
    return '[' + ';'.join(('(%d)' % x) if x < 0 else str(x) for x in xs) + ']%Z'


def nlist(xs):
    return '[' + ';'.join(str(x) for x in xs) + ']%N'


def _run_shard(args):
    prop, idx, imports, cases = args
    name = 'cases_%s_%d_%d' % (prop, os.getpid(), idx)
    path = os.path.join(WORK, name + '.v')
    with open(path, 'w') as f:
        f.write(imports + '\nOpen Scope Z_scope.\n')
        f.write('Definition cases : list (list Z * list Z) := [\n')
        f.write(';\n'.join('(%s, %s)' % (c.coq, zlist(c.expected)) for c in cases))
        f.write('\n].\nEval vm_compute in mismatches cases.\n')
    rc, out = run(['coqc'] + QFLAGS + [path], cwd=COQ, timeout=1800)
    for ext in ('.v', '.vo', '.glob', '.vok', '.vos'):
        try:
            os.remove(os.path.join(WORK, name + ext))
        except OSError:
            pass
    aux = os.path.join(WORK, '.' + name + '.aux')
    if os.path.exists(aux):
        os.remove(aux)
    if rc != 0:
        return idx, None, out[-3000:]
    m = re.search(r'=\s*(\[.*?\])\s*:\s*list nat', out, flags=re.S)
    if not m:
        return idx, None, out[-3000:]
    return idx, [int(x) for x in re.findall(r'\d+', m.group(1))], ''


def run_coq_cases(prop, imports, cases, shard=400, jobs=16):
    """Evaluate every case inside Coq; returns (mismatching cases, errors)."""
    os.makedirs(WORK, exist_ok=True)
    shards = [(prop, i, imports, cases[i * shard:(i + 1) * shard]) for i in range((len(cases) + shard - 1) // shard)]
    mism, errors = [], []
    with ThreadPoolExecutor(max_workers=jobs) as ex:
        for idx, bad, err in ex.map(_run_shard, shards):
            if bad is None:
                errors.append('shard %d: %s' % (idx, err))
            else:
                mism.extend(shards[idx][3][j] for j in bad)
    return mism, errors


def coq_eval(imports, expr):
    """Evaluate one expression of type list Z in Coq and return it (for replays)."""
    os.makedirs(WORK, exist_ok=True)
    name = 'eval_%d_%d' % (os.getpid(), int(time.time() * 1e6) % 10 ** 9)
    path = os.path.join(WORK, name + '.v')
    open(path, 'w').write(imports + '\nOpen Scope Z_scope.\nEval vm_compute in (%s).\n' % expr)
    rc, out = run(['coqc'] + QFLAGS + [path], cwd=COQ, timeout=600)
    for ext in ('.v', '.vo', '.glob', '.vok', '.vos'):
        try:
            os.remove(os.path.join(WORK, name + ext))
        except OSError:
            pass
    aux = os.path.join(WORK, '.' + name + '.aux')
    if os.path.exists(aux):
        os.remove(aux)
    m = re.search(r'=\s*(\[.*?\])\s*:\s*list Z', out, flags=re.S)
    if rc != 0 or not m:
        return None, out[-2000:]
    return [int(x) for x in re.findall(r'-?\d+', m.group(1))], ''


def load_findings(prop):
    p = os.path.join(VERIF, 'known_findings', prop + '.json')
    if not os.path.exists(p):
        return []
    return json.load(open(p))


def write_replay(prop, payload):
    os.makedirs(os.path.join(VERIF, 'replays'), exist_ok=True)
    blob = json.dumps(payload, sort_keys=True, default=str)
    h = hashlib.sha1(blob.encode()).hexdigest()[:12]
    path = os.path.join(VERIF, 'replays', '%s-%s.json' % (prop, h))
    open(path, 'w').write(json.dumps(payload, indent=1, sort_keys=True, default=str))
    return path
