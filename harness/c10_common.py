"""C10 scenario machinery: a full device stack on a virtual LAN, raw frames injected by a bare node,
replies and residue observed.  Used by harness/props/c10.py."""
import vnet

DEV_ADDR, RAW_ADDR, CLI_ADDR, RAW2_ADDR = 1, 9, 2, 8


class Device:
    """fresh world: device stack (all services), a bare injecting node, and a client stack"""

    def __init__(self):
        from bacpypes.service.object import ReadWritePropertyServices, ReadWritePropertyMultipleServices
        from bacpypes.service.device import WhoIsIAmServices, WhoHasIHaveServices, DeviceCommunicationControlServices
        from bacpypes.service.cov import ChangeOfValueServices
        from bacpypes.service.file import FileServices, LocalStreamAccessFileObject, LocalRecordAccessFileObject
        from bacpypes.object import AnalogValueObject, BinaryValueObject, MultiStateValueObject
        self.clock = vnet.VClock()
        self.lan = self.clock.network('lan')
        self.dev = vnet.Stack(self.clock, self.lan, DEV_ADDR, services=[
            WhoIsIAmServices, WhoHasIHaveServices, DeviceCommunicationControlServices,
            ReadWritePropertyServices, ReadWritePropertyMultipleServices, ChangeOfValueServices, FileServices],
            max_apdu=1476)
        self.raw = vnet.RawNode(self.lan, RAW_ADDR, promiscuous=False)
        self.raw2 = vnet.RawNode(self.lan, RAW2_ADDR, promiscuous=False)
        self.dev.add_object(AnalogValueObject(objectIdentifier=('analogValue', 1), objectName='av1',
                                              presentValue=72.5, statusFlags=[0, 0, 0, 0], covIncrement=1.0))
        self.dev.add_object(BinaryValueObject(objectIdentifier=('binaryValue', 1), objectName='bv1',
                                              presentValue='inactive', statusFlags=[0, 0, 0, 0]))
        self.dev.add_object(MultiStateValueObject(objectIdentifier=('multiStateValue', 1), objectName='msv1',
                                                  presentValue=1, numberOfStates=3, statusFlags=[0, 0, 0, 0]))

        class _Stream(LocalStreamAccessFileObject):
            def __init__(s, **kw):
                LocalStreamAccessFileObject.__init__(s, **kw)
                s._data = bytearray(b'0123456789abcdef')

            def __len__(s):
                return len(s._data)

            def read_stream(s, start, count):
                return start + count >= len(s._data), bytes(s._data[start:start + count])

            def write_stream(s, start, data):
                if start < 0:
                    start = len(s._data)
                s._data[start:start + len(data)] = data
                return start

        class _Record(LocalRecordAccessFileObject):
            def __init__(s, **kw):
                LocalRecordAccessFileObject.__init__(s, **kw)
                s._recs = [b'r0', b'r1', b'r2']

            def __len__(s):
                return len(s._recs)

            def read_record(s, start, count):
                return start + count >= len(s._recs), s._recs[start:start + count]

            def write_record(s, start, count, data):
                if start < 0:
                    start = len(s._recs)
                s._recs[start:start + count] = data
                return start
        self.dev.add_object(_Stream(objectIdentifier=('file', 1), objectName='f1'))
        self.dev.add_object(_Record(objectIdentifier=('file', 2), objectName='f2'))

    # ---- observation
    def inject(self, frames):
        """send raw NPDU octet strings to the device in the same instant"""
        for f in frames:
            self.raw.send(DEV_ADDR, f)

    def settle(self, seconds=60.0):
        errs = self.clock.run(seconds)
        return errs

    def replies(self, both=False):
        """frames the device sent to the raw node(s), decoded minimally: (apdu_type, invoke_id, octets)"""
        out = []
        for src, dst, data in (self.raw.frames + self.raw2.frames if both else self.raw.frames):
            if src != str(DEV_ADDR):
                continue
            r = parse_npdu_apdu(data)
            if r is not None:
                out.append(r)
        return out

    def residue(self):
        return {'server_tr': len(self.dev.smap.serverTransactions), 'client_tr': len(self.dev.smap.clientTransactions),
                'tasks': len(self.clock.tm.tasks)}


def parse_npdu_apdu(data):
    """independent minimal decoder: returns (pdu_type, invoke_id or None, apdu octets) for application frames"""
    if len(data) < 2 or data[0] != 1:
        return None
    ctl = data[1]
    i = 2
    if ctl & 0x80:
        return ('netmsg', None, bytes(data))
    if ctl & 0x20:
        if len(data) < i + 3:
            return None
        dlen = data[i + 2]
        i += 3 + dlen
    if ctl & 0x08:
        if len(data) < i + 3:
            return None
        slen = data[i + 2]
        i += 3 + slen
    if ctl & 0x20:
        i += 1
    apdu = bytes(data[i:])
    if not apdu:
        return None
    t = apdu[0] >> 4
    inv = None
    if t in (0, 2, 3, 5, 6, 7) and len(apdu) >= 2:
        inv = apdu[2] if t == 0 and len(apdu) >= 3 else apdu[1]
    if t == 4 and len(apdu) >= 2:
        inv = apdu[1]
    return (t, inv, apdu)


def npdu(apdu, expecting_reply=True):
    return bytes([0x01, 0x04 if expecting_reply else 0x00]) + bytes(apdu)


def npdu_routed(apdu, snet, sadr, expecting_reply=True):
    """a frame as a router would deliver it: SNET/SADR of the remote originator present"""
    return bytes([0x01, 0x08 | (0x04 if expecting_reply else 0), snet >> 8, snet & 255, len(sadr)]) + bytes(sadr) + bytes(apdu)


def unconfirmed_requests():
    """valid unconfirmed requests: [(name, apdu octets)]"""
    return [
        ('WhoIs', bytes([0x10, 0x08])),
        ('WhoIs-range', bytes([0x10, 0x08, 0x09, 0x00, 0x19, 0x0A])),
        ('IAm', bytes([0x10, 0x00, 0xC4, 0x02, 0x00, 0x00, 0x63, 0x22, 0x04, 0x00, 0x91, 0x03, 0x21, 0x07])),
        ('UnconfirmedTextMessage', bytes([0x10, 0x05, 0x0C, 0x02, 0x00, 0x00, 0x63, 0x29, 0x00, 0x3D, 0x03, 0x00, 0x68, 0x69])),
        ('TimeSynchronization', bytes([0x10, 0x06, 0xA4, 0x7B, 0x01, 0x0F, 0x07, 0xB4, 0x0A, 0x0B, 0x0C, 0x00])),
        ('WhoHas', bytes([0x10, 0x07, 0x2C, 0x00, 0x80, 0x00, 0x01])),
        ('UnconfirmedPrivateTransfer', bytes([0x10, 0x04, 0x09, 0x07, 0x19, 0x01])),
    ]


def other_confirmed(invoke):
    """well-framed confirmed requests for services the device does not implement: [(name, apdu)]"""
    hdr = bytes([0x00, 0x05, invoke])
    return [
        ('AddListElement', hdr + bytes([0x08, 0x0C, 0x00, 0x80, 0x00, 0x01, 0x19, 0x55, 0x3E, 0x44, 0x00, 0x00, 0x00, 0x00, 0x3F])),
        ('ConfirmedTextMessage', hdr + bytes([0x13, 0x0C, 0x02, 0x00, 0x00, 0x63, 0x29, 0x00, 0x3D, 0x03, 0x00, 0x68, 0x69])),
        ('ReinitializeDevice', hdr + bytes([0x14, 0x09, 0x00])),
        ('ConfirmedPrivateTransfer', hdr + bytes([0x12, 0x09, 0x07, 0x19, 0x01])),
        ('DeleteObject', hdr + bytes([0x0B, 0xC4, 0x00, 0x80, 0x00, 0x01])),
    ]


def encode_request(req, invoke_id, max_resp_code=5, seg_accepted=False):
    """encode a confirmed request object to APDU octets with the given header"""
    from bacpypes.apdu import ConfirmedRequestPDU, APDU
    from bacpypes.pdu import PDU
    x = ConfirmedRequestPDU()
    req.apduInvokeID = invoke_id
    req.apduMaxResp = max_resp_code      # wire code points at this level
    req.apduSA = seg_accepted
    req.apduMaxSegs = 0
    req.encode(x)
    a = APDU()
    x.encode(a)
    p = PDU()
    a.encode(p)
    return bytes(p.pduData)


def valid_requests(rng):
    """one valid confirmed request object per supported service (and a few variants); returns [(name, apdu)]"""
    from bacpypes.apdu import (ReadPropertyRequest, WritePropertyRequest, ReadPropertyMultipleRequest, ReadAccessSpecification,
                               PropertyReference, SubscribeCOVRequest, DeviceCommunicationControlRequest,
                               AtomicReadFileRequest, AtomicReadFileRequestAccessMethodChoice,
                               AtomicReadFileRequestAccessMethodChoiceStreamAccess,
                               AtomicReadFileRequestAccessMethodChoiceRecordAccess,
                               AtomicWriteFileRequest, AtomicWriteFileRequestAccessMethodChoice,
                               AtomicWriteFileRequestAccessMethodChoiceStreamAccess, ReadRangeRequest)
    from bacpypes.constructeddata import Any
    from bacpypes.primitivedata import Real, CharacterString, Unsigned
    out = []
    out.append(('ReadProperty', ReadPropertyRequest(objectIdentifier=('analogValue', 1), propertyIdentifier='presentValue')))
    out.append(('ReadProperty-array', ReadPropertyRequest(objectIdentifier=('device', DEV_ADDR), propertyIdentifier='objectList', propertyArrayIndex=1)))
    out.append(('ReadProperty-unknown', ReadPropertyRequest(objectIdentifier=('analogValue', 77), propertyIdentifier='presentValue')))
    w = WritePropertyRequest(objectIdentifier=('analogValue', 1), propertyIdentifier='presentValue')
    w.propertyValue = Any(); w.propertyValue.cast_in(Real(5.5)); w.priority = 8
    out.append(('WriteProperty', w))
    rpm = ReadPropertyMultipleRequest(listOfReadAccessSpecs=[
        ReadAccessSpecification(objectIdentifier=('analogValue', 1), listOfPropertyReferences=[
            PropertyReference(propertyIdentifier='presentValue'), PropertyReference(propertyIdentifier='objectName')]),
        ReadAccessSpecification(objectIdentifier=('binaryValue', 1), listOfPropertyReferences=[
            PropertyReference(propertyIdentifier='required')])])
    out.append(('ReadPropertyMultiple', rpm))
    out.append(('SubscribeCOV', SubscribeCOVRequest(subscriberProcessIdentifier=7, monitoredObjectIdentifier=('analogValue', 1),
                                                    issueConfirmedNotifications=False, lifetime=30)))
    out.append(('SubscribeCOV-cancel', SubscribeCOVRequest(subscriberProcessIdentifier=7, monitoredObjectIdentifier=('analogValue', 1))))
    out.append(('DeviceCommunicationControl', DeviceCommunicationControlRequest(timeDuration=1, enableDisable='enable')))
    out.append(('AtomicReadFile-stream', AtomicReadFileRequest(fileIdentifier=('file', 1), accessMethod=AtomicReadFileRequestAccessMethodChoice(
        streamAccess=AtomicReadFileRequestAccessMethodChoiceStreamAccess(fileStartPosition=0, requestedOctetCount=4)))))
    out.append(('AtomicReadFile-record', AtomicReadFileRequest(fileIdentifier=('file', 2), accessMethod=AtomicReadFileRequestAccessMethodChoice(
        recordAccess=AtomicReadFileRequestAccessMethodChoiceRecordAccess(fileStartRecord=0, requestedRecordCount=1)))))
    out.append(('AtomicWriteFile-stream', AtomicWriteFileRequest(fileIdentifier=('file', 1), accessMethod=AtomicWriteFileRequestAccessMethodChoice(
        streamAccess=AtomicWriteFileRequestAccessMethodChoiceStreamAccess(fileStartPosition=0, fileData=b'zz')))))
    out.append(('ReadRange-unsupported', ReadRangeRequest(objectIdentifier=('analogValue', 1), propertyIdentifier='presentValue')))
    return out


def header_len(apdu):
    """length of the fixed confirmed-request header incl. service choice"""
    return 6 if apdu[0] & 0x08 else 4


def mutations(rng, apdu, n_random=12):
    """parameter-area mutations that leave the fixed header (incl. service choice) intact; returns [(how, octets)]"""
    h = header_len(apdu)
    body = apdu[h:]
    out = []
    for k in range(len(body) + 1):                       # every truncation
        out.append(('truncate@%d' % k, apdu[:h] + body[:k]))
    for k in range(len(body)):                           # a few substitutions per position
        for v in {0x00, 0xFF, body[k] ^ 0x08, body[k] ^ 0x01, (body[k] + 0x10) & 0xFF, rng.randrange(256)}:
            if v != body[k]:
                out.append(('subst@%d=%02x' % (k, v), apdu[:h] + body[:k] + bytes([v]) + body[k + 1:]))
    for k in range(len(body) + 1):                       # insertions
        for v in (0x00, 0x0E, 0x0F, 0x1E, 0x5F, 0x91, rng.randrange(256)):
            out.append(('insert@%d=%02x' % (k, v), apdu[:h] + body[:k] + bytes([v]) + body[k:]))
    return out
