"""Generate Python values for a bacpypes datatype class (property datatypes, sequence elements).

gen(datatype, rng, depth) returns a value that can be stored in an object property of that datatype
(python primitives for atomics, ArrayOf/ListOf instances for arrays/lists, instances for sequences/choices).
`tags_of(value, datatype)` gives the canonical tag list [(class, number, lvt, data-hex)] the value encodes to."""
import struct

REALS = [0.0, 1.0, -1.0, 0.5, 72.5, -273.25, 1e10, 3.0e-5, 100.0, 65504.0]


def f32(x):
    return struct.unpack('>f', struct.pack('>f', x))[0]


def gen_atomic(dt, rng):
    from bacpypes import primitivedata as P
    if issubclass(dt, P.Null):
        return ()
    if issubclass(dt, P.Boolean):
        return rng.random() < 0.5
    if issubclass(dt, P.Unsigned):
        hi = getattr(dt, '_high_limit', None)
        lo = getattr(dt, '_low_limit', 0) or 0
        if hi is None:
            return rng.choice([0, 1, 2, 127, 128, 255, 256, 65535, 65536, 2 ** 31, 2 ** 32 - 1])
        return rng.choice([lo, hi, min(hi, lo + 1), rng.randint(lo, hi)])
    if issubclass(dt, P.Integer):
        return rng.choice([0, 1, -1, 127, 128, -128, -129, 32767, -32768, 2 ** 31 - 1, -2 ** 31])
    if issubclass(dt, P.Real):
        return f32(rng.choice(REALS))
    if issubclass(dt, P.Double):
        return rng.choice(REALS + [1.0 / 3, 2.5e-300])
    if issubclass(dt, P.OctetString):
        return bytes(rng.randrange(256) for _ in range(rng.randrange(0, 5)))
    if issubclass(dt, P.CharacterString):
        return rng.choice(['', 'a', 'hello', 'Zone 1', 'x' * 20, 'café'])
    if issubclass(dt, P.BitString):
        n = getattr(dt, 'bitLen', 0) or rng.randrange(0, 12)
        return [rng.randrange(2) for _ in range(n)]
    if issubclass(dt, P.ObjectType):
        return rng.choice(list(dt.enumerations.keys()))
    if issubclass(dt, P.Enumerated):
        names = sorted(dt.enumerations.keys())
        return rng.choice(names) if names else rng.randrange(0, 4)
    if issubclass(dt, P.Date):
        return (rng.choice([90, 120, 255]), rng.choice([1, 6, 12, 255]), rng.choice([1, 15, 28, 255]), rng.choice([1, 7, 255]))
    if issubclass(dt, P.Time):
        return (rng.randrange(24), rng.randrange(60), rng.randrange(60), rng.randrange(100))
    if issubclass(dt, P.ObjectIdentifier):
        return (rng.choice(['analogValue', 'binaryValue', 'device', 'analogInput']), rng.choice([0, 1, 12, 4194302]))
    raise TypeError('atomic %r' % dt)


class Unsupported(Exception):
    pass


def gen(dt, rng, depth=0):
    from bacpypes import primitivedata as P, constructeddata as C
    if depth > 6:
        raise Unsupported('depth')
    if issubclass(dt, C.AnyAtomic):
        k = rng.choice([P.Real, P.Unsigned, P.Boolean, P.CharacterString, P.Integer])
        return k(gen_atomic(k, rng))
    if issubclass(dt, P.Atomic):
        return gen_atomic(dt, rng)
    if issubclass(dt, C.Array):
        n = dt.fixed_length if dt.fixed_length is not None else rng.randrange(0, 4)
        return dt([gen_elem(dt.subtype, rng, depth + 1) for _ in range(n)])
    if issubclass(dt, C.List) or dt in C._list_of_classes or dt in C._sequence_of_classes:
        return dt([gen_elem(dt.subtype, rng, depth + 1) for _ in range(rng.randrange(0, 3))])
    if issubclass(dt, C.Any):
        a = C.Any()
        a.cast_in(P.Real(f32(rng.choice(REALS))))
        return a
    if issubclass(dt, C.Choice):
        els = list(dt.choiceElements)
        rng.shuffle(els)
        for el in els:
            try:
                return dt(**{el.name: gen_elem(el.klass, rng, depth + 1)})
            except Unsupported:
                continue
        raise Unsupported('choice %r' % dt)
    if issubclass(dt, C.Sequence):
        kw = {}
        for el in dt.sequenceElements:
            if el.optional and rng.random() < 0.5:
                continue
            kw[el.name] = gen_elem(el.klass, rng, depth + 1)
        return dt(**kw)
    raise Unsupported('datatype %r' % dt)


def gen_elem(kl, rng, depth):
    """value for a sequence element / array element of class kl: atomics stay python primitives,
    SequenceOf/ListOf elements are plain python lists"""
    from bacpypes import constructeddata as C
    if kl in C._sequence_of_classes or kl in C._list_of_classes:
        return [gen_elem(kl.subtype, rng, depth + 1) for _ in range(rng.randrange(0, 3))]
    return gen(kl, rng, depth)


def canon_tags(taglist):
    return [(t.tagClass, t.tagNumber, t.tagLVT, bytes(t.tagData).hex()) for t in taglist]


def tags_of(value, dt):
    """tag list a value of datatype dt is sent as (what Any.cast_in of the wrapped value produces)"""
    from bacpypes import primitivedata as P, constructeddata as C
    a = C.Any()
    if issubclass(dt, C.AnyAtomic):
        a.cast_in(value)
    elif issubclass(dt, P.Atomic):
        a.cast_in(dt(value))
    elif isinstance(value, list) and (issubclass(dt, (C.Array, C.List))):
        a.cast_in(dt(value))
    else:
        a.cast_in(value)
    return canon_tags(a.tagList.tagList)
