"""Round-6 additions for C11 and C12, kept apart from ssm_common.py (shared with C04/C05).

C11: * `gen_client_abort` — two or three nodes that are client and server towards each other with EQUAL invoke ids in both
       directions, and protocol-violating PDUs of the REAL peer aimed at a LIVE client transaction (chosen by the state that
       transaction is in, so that none of them can pass for the answer): the client gives up and puts its own Abort on the
       wire.  Also stray srv=1 Aborts / SegmentAcks for a node that has no client transaction at all but is serving the same
       (peer, id).
     * `check_polarity` — the "server" bit of every Abort / SegmentAck a node sends says which of ITS roles sent it: the role
       of the transaction the step is about (the PDU received, the timer fired, the request submitted, the answer given).
C12: * `gen_app_cache` — the node is built the way BIPSimpleApplication builds itself: an `Application` is constructed with a
       caller-supplied DeviceInfoCache and the StateMachineAccessPoint is given `app.deviceInfoCache`; the records reach the
       cache through the CALLER's handle, before or after (cache still empty at construction) the application exists, and
       later I-Ams too.
     * `cache_cases` — DeviceInfoCache life cycle on the bare class (I-Am / acquire / release / Application construction
       histories) against coq/theories/SsmDevInfo.v.
"""
import ssm_common as S


# ---------------------------------------------------------------------------------------------
# worlds whose nodes get their DeviceInfoCache through an Application object

def _feed_know(cache, know):
    from bacpypes.apdu import IAmRequest
    for peer, k in (know or {}).items():
        iam = IAmRequest(iAmDeviceIdentifier=('device', int(peer)), maxAPDULengthAccepted=k.get('maxApdu'),
                         segmentationSupported=k.get('seg', 'noSegmentation'), vendorID=999)
        iam.pduSource = S.mk_address(peer)
        cache.iam_device_info(iam)
        di = cache.get_device_info(S.mk_address(peer))
        if di is not None:
            if k.get('maxSegs') is not None:
                di.maxSegmentsAccepted = k.get('maxSegs')
            if k.get('maxNpdu') is not None:
                di.maxNpduLength = k.get('maxNpdu')


def rewire_app_cache(world):
    """nodes with cfg['app_cache'] in ('prefilled', 'empty-then-fill') are rebuilt as app.BIPSimpleApplication wires itself:
    Application(localDevice, deviceInfoCache=<the caller's cache>), StateMachineAccessPoint(localDevice),
    smap.deviceInfoCache = app.deviceInfoCache.  The caller keeps its handle: every record (and every later I-Am) goes in
    through that handle, never through the application's attribute."""
    from bacpypes.comm import bind, Server
    from bacpypes.app import Application, ApplicationIOController, DeviceInfoCache
    from bacpypes.appservice import StateMachineAccessPoint, ApplicationServiceAccessPoint

    class Medium(Server):
        def __init__(self, addr):
            Server.__init__(self)
            self.addr = addr

        def indication(self, apdu):
            world.sent(self.addr, apdu)

    class Appl(Application):
        _startup_disabled = True

        def __init__(self, addr, dev, cache):
            Application.__init__(self, dev, deviceInfoCache=cache)
            self.addr = addr

        def indication(self, apdu):
            world.app_indication(self.addr, apdu)

        def confirmation(self, apdu):
            world.app_confirmation(self.addr, apdu)

    class IOAppl(ApplicationIOController):
        _startup_disabled = True

        def __init__(self, addr, dev, cache):
            ApplicationIOController.__init__(self, dev, deviceInfoCache=cache)
            self.addr = addr

        def indication(self, apdu):
            world.app_indication(self.addr, apdu)

    class RawASAP(ApplicationServiceAccessPoint):
        def indication(self, apdu):
            self.sap_request(apdu)

        def confirmation(self, apdu):
            self.sap_response(apdu)

    for addr, n in world.nodes.items():
        cfg = n['cfg']
        mode = cfg.get('app_cache')
        if not mode or cfg.get('raw'):
            continue
        dev = n['smap'].localDevice
        caller = DeviceInfoCache()                  # the caller's handle
        if mode == 'prefilled':
            _feed_know(caller, cfg.get('know'))
        app = (IOAppl if cfg.get('via_iocb') else Appl)(addr, dev, caller)
        smap = StateMachineAccessPoint(dev)
        smap.deviceInfoCache = app.deviceInfoCache  # app.py: BIPSimpleApplication.__init__
        smap.proposedWindowSize = cfg['window']
        smap.applicationTimeout = cfg['appTimeout']
        med = Medium(addr)
        if cfg.get('via_iocb'):
            bind(app, RawASAP(), smap, med)
        else:
            bind(app, smap, med)
        if mode != 'prefilled':
            _feed_know(caller, cfg.get('know'))     # the cache was empty when the application was constructed
        n.update(smap=smap, app=app, med=med, cache=caller)


def run_scenario2(spec, max_steps=20000):
    w = S.World(spec)
    rewire_app_cache(w)
    tr = w.run(max_steps)
    tr.world = w
    return tr


def scenario_case2(spec, kind):
    from core import Case
    tr = run_scenario2(spec, max_steps=S.CASE_MAX_STEPS)
    return Case(kind, S.coq_spec(spec), S.canon_trace(tr), key=repr(sorted(spec.items(), key=lambda kv: kv[0])),
                nontrivial=len(tr.frames) >= 1, desc={'spec': spec})


def direct_families2(rng, families, checker, stats=None):
    """as ssm_common.direct_families, on worlds built by run_scenario2; merges its counts into `stats`"""
    failures = []
    stats = stats if stats is not None else {'evaluations': 0, 'distinct_nontrivial': 0, 'families': {}, 'samples': []}
    nontriv = set()
    for name, gen, count in families:
        for _ in range(count):
            spec = gen(rng)
            tr = run_scenario2(spec)
            fs = checker(tr)
            for f in fs:
                f['spec'] = spec
                f['family'] = name
                f['max_nsegs'] = S.max_transfer_segments(tr)
            failures.extend(fs)
            stats['evaluations'] += 1
            stats['families'][name] = stats['families'].get(name, 0) + 1
            if tr.frames:
                nontriv.add(S.spec_key(spec))
    stats['distinct_nontrivial'] = stats.get('distinct_nontrivial', 0) + len(nontriv)
    return failures, stats


def replay2(payload, checker, name):
    """replay of a scenario that needs run_scenario2 (falls back to the generic one otherwise)"""
    f = payload.get('failure') or {}
    spec = f.get('spec')
    if spec is None:
        mc = (payload.get('broken') or [{}])[0]
        mc = mc.get('minimal_case', {}) if isinstance(mc, dict) else {}
        spec = (mc.get('desc') or {}).get('spec') if isinstance(mc, dict) else None
    if spec is None or not any(n.get('app_cache') for n in spec.get('nodes', [])):
        return S.replay_generic(payload, checker, name)
    spec = S.fix_spec(spec)
    tr = run_scenario2(spec)
    print('scenario (nodes built through app.Application):', S.spec_key(spec))
    for e in tr.events:
        if e[0] == 'tx':
            fr = tr.frames[e[2]]
            print('  tx', fr['idx'], 't=%d' % fr['t'], fr['src'], '->', fr['dst'], S.frame_role(fr),
                  {k: v for k, v in fr['hdr'].items() if v != -1}, 'len', len(fr['data']), 'apdu', fr['enc_len'])
        elif e[0] in ('ind', 'conf'):
            print(' ', e[0], e[1:6], 'len', len(e[6]), 'reason', e[7])
        elif e[0] != 'state':
            print(' ', e)
    print('%s predicate on the implementation trace:' % name)
    for x in checker(tr):
        print('  FAIL', {k: v for k, v in x.items() if k != 'spec'})
    import core
    got, err = core.coq_eval(S.COQ_IMPORTS, S.coq_spec(spec))
    exp = S.canon_trace(run_scenario2(spec, max_steps=S.CASE_MAX_STEPS))
    print('model trace equals implementation trace:', got == exp)


# ---------------------------------------------------------------------------------------------
# C12: the cache reaches the state machines through an Application

def gen_app_cache(rng):
    """capability scenario (client 1, server 2) in which the client — sometimes the server too — is constructed as an
    Application around a caller-supplied DeviceInfoCache; the peer's record is put into the caller's cache before
    ('prefilled') or after ('empty-then-fill') the construction; sometimes a further I-Am arrives later through the same
    handle.  The request is sized around the limits of the RECORD, which are smaller than the client's own"""
    smax = rng.choice([50, 128, 206, 480])
    cmax = rng.choice([m for m in S.MAX_APDUS if m > smax])
    sseg = rng.choice(['segmentedBoth', 'segmentedBoth', 'noSegmentation', 'segmentedTransmit', 'segmentedReceive'])
    sms = rng.choice([2, 4, 8, 64, None])
    nodes = S.two_nodes(cmax=cmax, smax=smax, cseg='segmentedBoth', sseg=sseg, cwin=rng.choice([1, 2, 8]), swin=rng.choice([1, 2, 8]),
                        retries=1, cmaxsegs=rng.choice([16, 64, 100]), smaxsegs=sms or 0, know=True, apduTimeout=1000, segTimeout=500,
                        appTimeout=1000)
    nodes[0]['know'][2]['maxSegs'] = sms
    if rng.random() < 0.15:
        nodes[0]['know'][2]['maxNpdu'] = rng.choice([50, 128])
    nodes[0]['app_cache'] = rng.choice(['empty-then-fill', 'empty-then-fill', 'prefilled'])
    if rng.random() < 0.5:
        nodes[0]['via_iocb'] = True
    if rng.random() < 0.3:
        nodes[1]['app_cache'] = rng.choice(['empty-then-fill', 'prefilled'])
    lim = sms or 5
    rlen = rng.choice([smax - 6, smax - 3, smax, smax + 1, 2 * smax + 1, lim * smax, lim * smax + 1, (smax + cmax) // 2, cmax - 8, cmax + 1])
    rlen = max(0, min(rlen, 1400))
    reqs = [{'t': 1000, 'src': 1, 'dst': 2, 'len': rlen, 'service': 12,
             'resp': rng.choice([['simple'], ['complex', rng.choice([5, cmax + 7])]]), 'resp_delay': 0}]
    spec = {'nodes': nodes, 'requests': reqs}
    if rng.random() < 0.35:
        # a later I-Am with other limits, again through the caller's handle, then a request sized between old and new
        m2 = rng.choice([m for m in S.MAX_APDUS if m != smax and m < cmax] or [50])
        spec['iam'] = [{'t': 2000, 'node': 1, 'peer': 2, 'maxApdu': m2, 'seg': rng.choice(S.SEG_NAMES)}]
        lo, hi = min(m2, smax), max(m2, smax)
        reqs.append({'t': 3000, 'src': 1, 'dst': 2, 'len': max(0, min(rng.choice([lo - 5, lo + 1, (lo + hi) // 2, hi - 5, hi + 1]), 1400)),
                     'service': 12, 'resp': ['simple'], 'resp_delay': 0})
    return spec


# the DeviceInfoCache class alone: histories of operations against coq/theories/SsmDevInfo.v

CACHE_SEGS = S.SEG_NAMES


def gen_cache_history(rng):
    """ops: ('iam', instance, address, maxApdu, seg) | ('acquire', key-kind, key) | ('release', key-kind, key) |
    ('app', with-cache?) — a few instances and addresses so that records move between keys (same instance at a new
    address, a new instance at a known address), repeated I-Ams with other limits, Application construction around the
    cache at any point (empty or not)"""
    ops = []
    insts, addrs = [3, 4, 5], [3, 4, 5, 9, 13, 14]
    for _ in range(rng.randrange(1, 9)):
        u = rng.random()
        if u < 0.45:
            i = rng.choice(insts)
            a = i if rng.random() < 0.6 else rng.choice(addrs)
            ops.append(['iam', i, a, rng.choice(S.MAX_APDUS), rng.randrange(4)])
        elif u < 0.7:
            ops.append(['acquire', rng.choice(['inst', 'addr']), rng.choice(addrs)])
        elif u < 0.8:
            ops.append(['release', rng.choice(['inst', 'addr']), rng.choice(addrs)])
        else:
            ops.append(['app', 1 if rng.random() < 0.8 else 0])
    if rng.random() < 0.5:
        ops.insert(0, ['app', 1])            # constructed around the still empty cache
    return ops


def run_cache_history(ops):
    """canonical result: per op a few ints; at the end the dump of the caller's cache sorted by key"""
    from bacpypes.app import DeviceInfoCache, Application
    from bacpypes.apdu import IAmRequest
    from bacpypes.pdu import Address
    cache = DeviceInfoCache()
    out = []

    def key_of(kind, k):
        return int(k) if kind == 'inst' else Address(int(k))

    def rec(di):
        if di is None:
            return [0, -1, -1, -1, -1, -1]
        return [1, int(di.deviceIdentifier), S.addr_no(di.address), int(di.maxApduLengthAccepted),
                CACHE_SEGS.index(di.segmentationSupported), int(di._ref_count)]
    for op in ops:
        try:
            if op[0] == 'iam':
                iam = IAmRequest(iAmDeviceIdentifier=('device', int(op[1])), maxAPDULengthAccepted=op[3],
                                 segmentationSupported=CACHE_SEGS[op[4]], vendorID=999)
                iam.pduSource = Address(int(op[2]))
                cache.iam_device_info(iam)
                out += [20]
            elif op[0] == 'acquire':
                out += [21] + rec(cache.acquire(key_of(op[1], op[2])))
            elif op[0] == 'release':
                di = cache.get_device_info(key_of(op[1], op[2]))
                if di is None:
                    out += [22, 0]
                else:
                    cache.release(di)
                    out += [22, 1]
            elif op[0] == 'app':
                class A(Application):
                    _startup_disabled = True
                app = A(None, deviceInfoCache=cache if op[1] else None)
                # does the application (and so its state machines) use the caller's cache?
                out += [23, 1 if app.deviceInfoCache is cache else 0]
        except Exception as e:
            from pyerr import exc_code
            out += [29, exc_code(e)]
    dump = []
    for k, di in cache.cache.items():
        kk = (0, int(k)) if isinstance(k, int) else (1, S.addr_no(k))
        dump.append(list(kk) + rec(di)[1:])
    for d in sorted(dump):
        out += [24] + d
    return out


def coq_cache_ops(ops):
    parts = []
    for op in ops:
        if op[0] == 'iam':
            parts.append('CIam %d %d %d %d' % (op[1], op[2], op[3], op[4]))
        elif op[0] == 'acquire':
            parts.append('CAcquire %s %d' % ('true' if op[1] == 'inst' else 'false', op[2]))
        elif op[0] == 'release':
            parts.append('CRelease %s %d' % ('true' if op[1] == 'inst' else 'false', op[2]))
        else:
            parts.append('CApp %s' % ('true' if op[1] else 'false'))
    return 'run_cache_ops [%s]' % ';'.join(parts)


def cache_cases(rng, n):
    from core import Case
    out = []
    for _ in range(n):
        ops = gen_cache_history(rng)
        out.append(Case('device-info-cache', coq_cache_ops(ops), run_cache_history(ops), key=('cache', repr(ops)),
                        nontrivial=any(o[0] == 'iam' for o in ops), desc={'cache_ops': ops}))
    return out


def address_shared(ops, upto=None):
    """were two different device instances announced from one address (before operation number `upto`)?"""
    seen = {}
    for pos, op in enumerate(ops):
        if upto is not None and pos > upto:
            break
        if op[0] == 'iam':
            if seen.setdefault(op[2], op[1]) != op[1]:
                return True
    return False


def check_cache_history(ops):
    """implementation-only reading of 'device information learned from I-Am': after any history, acquire(address) /
    acquire(instance) give the limits of the LATEST I-Am of that device at that address; an Application constructed with
    a cache uses that very cache, whatever it holds"""
    from bacpypes.app import DeviceInfoCache, Application
    from bacpypes.apdu import IAmRequest
    from bacpypes.pdu import Address
    cache = DeviceInfoCache()
    f = []
    latest_by_addr = {}
    for pos, op in enumerate(ops):
        try:
            if op[0] == 'iam':
                iam = IAmRequest(iAmDeviceIdentifier=('device', int(op[1])), maxAPDULengthAccepted=op[3],
                                 segmentationSupported=CACHE_SEGS[op[4]], vendorID=999)
                iam.pduSource = Address(int(op[2]))
                cache.iam_device_info(iam)
                latest_by_addr[op[2]] = (op[1], op[3], op[4])
                # a device that moved: its old address no longer answers for it
                for a, v in list(latest_by_addr.items()):
                    if a != op[2] and v[0] == op[1]:
                        del latest_by_addr[a]
                di = cache.get_device_info(Address(int(op[2])))
                got = None if di is None else (int(di.deviceIdentifier), int(di.maxApduLengthAccepted), CACHE_SEGS.index(di.segmentationSupported))
                if got != (op[1], op[3], op[4]):
                    f.append({'kind': 'record-is-not-the-latest-iam', 'ops': ops, 'at': pos, 'record': got, 'iam': [op[1], op[3], op[4]]})
            elif op[0] == 'acquire':
                di = cache.acquire(int(op[2]) if op[1] == 'inst' else Address(int(op[2])))
                if op[1] == 'addr':
                    want = latest_by_addr.get(op[2])
                    got = None if di is None else (int(di.deviceIdentifier), int(di.maxApduLengthAccepted), CACHE_SEGS.index(di.segmentationSupported))
                    if want is not None and got != want:
                        f.append({'kind': 'acquire-is-not-the-latest-iam', 'ops': ops, 'at': pos, 'record': got, 'iam': list(want)})
            elif op[0] == 'release':
                di = cache.get_device_info(int(op[2]) if op[1] == 'inst' else Address(int(op[2])))
                if di is not None and di._ref_count > 0:
                    cache.release(di)
            elif op[0] == 'app' and op[1]:
                class A(Application):
                    _startup_disabled = True
                app = A(None, deviceInfoCache=cache)
                if app.deviceInfoCache is not cache:
                    f.append({'kind': 'application-dropped-the-supplied-cache', 'ops': ops, 'at': pos, 'records': len(cache.cache)})
        except Exception as e:
            f.append({'kind': 'cache-exception', 'ops': ops, 'at': pos, 'class': type(e).__name__})
    return f


# ---------------------------------------------------------------------------------------------
# C11: client transactions that give up on the wire, equal ids in both directions

def _state_after(tr, idx, key):
    """state of transaction `key` = (node, role, peer, invoke) right after the step in which frame idx was delivered first"""
    seen = False
    for e in tr.events:
        if e[0] == 'rx' and e[2] == idx:
            seen = True
        elif e[0] == 'state' and seen:
            for (a, ro, p, i, st, arm) in e[2]:
                if (a, ro, p, i) == key:
                    return st
            return None
    return None


def _all_sent_after(tr, idx, node, peer, inv, length):
    """has `node` put every segment of its `length`-octet request (peer, inv) on the wire by the end of the step that
    delivers frame idx?"""
    mine = lambda f: f['src'] == node and f['dst'] == peer and f['hdr']['type'] == 0 and f['hdr']['invoke'] == inv and f['hdr']['seg'] == 1
    first = [f for f in tr.frames if mine(f) and f['hdr']['seq'] == 0]
    if not first or not first[0]['data']:
        return True
    total = S.nsegs(length, len(first[0]['data']))
    seen, sent = False, set()
    for e in tr.events:
        if e[0] == 'tx' and mine(tr.frames[e[2]]):
            sent.add(tr.frames[e[2]]['hdr']['seq'])
        elif e[0] == 'rx' and e[2] == idx:
            seen = True
        elif e[0] == 'state' and seen:
            break
    return len(sent) >= total


def gen_client_abort(rng):
    """nodes 1 and 2 (sometimes 3) are client and server towards each other; request A (1 -> 2) and request B (2 -> 1) carry
    the SAME invoke id (both stacks count from 1, or the applications choose it) and B's answer is slow, so that node 1 holds
    a client and a server transaction with (peer 2, id) and node 2 likewise.  A is shaped to dwell in SEGMENTED_REQUEST,
    AWAIT_CONFIRMATION or SEGMENTED_CONFIRMATION.  After a random frame of the fault-free run one PDU of the real peer is
    injected at the client of A (or of B), chosen by the state that client transaction is in at that instant so that it can
    never pass for the answer: it makes the client give up with an Abort on the wire (or must be ignored / only restarts a
    timer).  When that node has no client transaction with the id at that instant the PDU is a stray srv=1 Abort / SegmentAck /
    reply and must not reach the server transaction with the same (peer, id)."""
    cmax = rng.choice([50, 50, 128])
    mk = lambda a: S.node_cfg(a, maxApdu=cmax, window=rng.choice([1, 2, 2, 3]), retries=rng.choice([0, 1, 2]), apduTimeout=rng.choice([1000, 3000]),
                              segTimeout=rng.choice([500, 1500]), appTimeout=rng.choice([3000, 6000]))
    nn = rng.choice([2, 2, 2, 3])
    nodes = [mk(a) for a in range(1, nn + 1)]
    forced = rng.choice([None, None, 1, 7, 200])
    shape = rng.choice(['segreq', 'segreq', 'await', 'segconf', 'segconf', 'segconf'])
    if shape == 'segreq':
        a_req = {'len': cmax * rng.choice([7, 9, 12]) + 3, 'resp': rng.choice([['simple'], ['complex', 5]]), 'resp_delay': rng.choice([0, 250])}
    elif shape == 'await':
        a_req = {'len': rng.choice([3, 20]), 'resp': rng.choice([['complex', 2 * cmax + 5], ['simple'], ['complex', 6]]), 'resp_delay': rng.choice([500, 2000])}
    else:
        a_req = {'len': rng.choice([3, 20]), 'resp': ['complex', cmax * rng.choice([5, 8, 11]) + 7], 'resp_delay': rng.choice([0, 125])}
    reqs = []
    ta = rng.choice([0, 0, 125])
    reqs.append(dict(a_req, t=ta, src=1, dst=2, service=12))
    # B: the other direction, same id, slow answer
    reqs.append({'t': rng.choice([0, 0, 125]), 'src': 2, 'dst': 1, 'len': rng.choice([3, 9, cmax + 5]), 'service': 12,
                 'resp': rng.choice([['simple'], ['complex', 7], ['complex', cmax + 9], ['error', 4]]), 'resp_delay': rng.choice([1500, 2500, 4000])})
    if forced is not None:
        reqs[0]['invoke'] = forced
        reqs[1]['invoke'] = forced
    for k in range(rng.choice([0, 0, 1, 2])):
        src = rng.randrange(1, nn + 1)
        dst = rng.choice([a for a in range(1, nn + 1) if a != src])
        reqs.append({'t': rng.choice([250, 500, 1000, 3000]), 'src': src, 'dst': dst, 'len': rng.choice([2, cmax + 3]), 'service': 12,
                     'resp': rng.choice([['simple'], ['complex', 2 * cmax + 1]]), 'resp_delay': rng.choice([0, 500, 2000])})
    spec = {'nodes': nodes, 'requests': reqs}
    n0 = len(S.run_scenario(spec).frames)
    if n0 and rng.random() < 0.25:
        spec['faults'] = S.rand_faults(rng, n0, 1)
    base = S.run_scenario(spec)         # the timeline the injection is planned on (faults included)
    n = len(base.frames)
    if not n:
        return spec
    inv_a = next((e[5] for e in base.events if e[0] == 'submit' and e[4] == 0), 1)
    inv_b = next((e[5] for e in base.events if e[0] == 'submit' and e[4] == 1), 1)
    inj = []
    idx = rng.choice([i for i in range(n) if base.frames[i]['fate'] == [0]] or [0])
    # the client under attack: A's (node 1, peer 2) or B's (node 2, peer 1)
    node, peer, inv = (1, 2, inv_a) if rng.random() < 0.75 else (2, 1, inv_b)
    st = _state_after(base, idx, (node, 'c', peer, inv))
    seg200 = {'type': 3, 'seg': True, 'mor': True, 'seq': rng.choice([200, 250]), 'win': 2, 'invoke': inv, 'service': 12, 'data': 'aabbcc'}
    sack = {'type': 2, 'invoke': inv, 'service': 12}
    cack = {'type': 3, 'seg': False, 'mor': False, 'invoke': inv, 'service': 12, 'data': 'aabbcc'}
    err = {'type': 5, 'invoke': inv, 'service': 12, 'data': '9100'}
    rej = {'type': 6, 'invoke': inv, 'reason': 4}
    sabort = {'type': 7, 'srv': True, 'invoke': inv, 'reason': rng.choice([0, 4, 9])}
    sseg = {'type': 4, 'nak': False, 'srv': True, 'invoke': inv, 'seq': rng.choice([0, 1, 200]), 'win': rng.choice([1, 2])}
    if st == 1:
        # SEGMENTED_REQUEST: an ack before all segments were sent (only while segments remain: the first half of the transfer)
        pool = [sack, cack, seg200, sabort] if not _all_sent_after(base, idx, node, peer, inv, reqs[0 if node == 1 else 1]['len']) else [sabort]
    elif st == 2:
        pool = [seg200, seg200, sabort, sseg]
    elif st == 5:
        pool = [sack, cack, err, rej, sabort, sseg, seg200]
    else:
        # no client transaction with that id: whatever claims to come from the server side must be ignored
        pool = [sabort, sabort, sseg, sseg, sack, err, seg200]
    inj.append({'after': idx, 'src': peer, 'dst': node, 'frame': dict(rng.choice(pool))})
    spec['inject'] = inj
    return spec


def _step_actor_role(tr, e):
    """the transaction a step is about: (node, role, peer, invoke) or None"""
    if e[0] == 'rx':
        _, t, tag, src, dst = e
        h = S._rx_hdr(tr, tag)
        if h is None or h['type'] == 1:
            return None
        client_side = h['type'] in (2, 3, 5, 6) or (h['type'] in (4, 7) and h['srv'] == 1)
        return (dst, 'c' if client_side else 's', src, h['invoke'])
    if e[0] == 'fire':
        return (e[2], e[3], e[4], e[5])
    if e[0] == 'submit':
        return (e[2], 'c', e[3], e[5])
    if e[0] == 'respond':
        return (e[2], 's', e[3], e[4])
    return None


def check_polarity(tr):
    """C11, sender side: an Abort or SegmentAck carries the server bit of the role that sent it.  Every step of a history is
    about one transaction — the one the delivered PDU is looked up as, the one whose timer fired, the one submitted or
    answered (plus what the applications do inside the step: answers, chained submissions) — and whatever Abort / SegmentAck
    the node sends in that step must claim one of those (node, role, peer, id).  A wrong bit makes the peer apply the PDU to
    the transaction of its OTHER role with the same (peer, id).  Exception (unchanged code): ServerSSM sends a client's Abort
    straight back with the bit it arrived with (segmented_request / segmented_response)."""
    f = []
    actors = []
    rx_abort = None
    for pos, e in enumerate(tr.events):
        k = e[0]
        if k == 'state':
            actors, rx_abort = [], None
            continue
        if k in ('rx', 'fire', 'submit', 'respond'):
            a = _step_actor_role(tr, e)
            if a is not None:
                actors.append(a)
            if k == 'rx':
                h = S._rx_hdr(tr, e[2])
                rx_abort = (e[3], e[4], h['invoke']) if h and h['type'] == 7 else None
            continue
        if k != 'tx':
            continue
        fr = tr.frames[e[2]]
        c = S._cfg(tr, fr['src'])
        if c is None or c.get('raw'):
            continue
        h = S.raw_hdr(fr['encoded'])
        if h is None or h['type'] not in (4, 7):
            continue
        claimed = (fr['src'], 's' if h['srv'] == 1 else 'c', fr['dst'], h['invoke'])
        if claimed in actors:
            continue
        if h['type'] == 7 and rx_abort == (fr['dst'], fr['src'], h['invoke']):
            continue          # the echo of the peer's own Abort
        f.append({'kind': 'abort-or-ack-sent-with-wrong-server-bit', 'frame': fr['idx'], 'type': h['type'], 'srv': h['srv'],
                  'sender': fr['src'], 'peer': fr['dst'], 'invoke': h['invoke'], 'step_about': [list(a) for a in actors]})
    return f


def check_c11x(tr):
    return S.check_c11(tr) + check_polarity(tr)
