#!/usr/bin/env python3
"""C03 helper: a FRESH interpreter that only DECODES.  Reads one JSON job per line on stdin
({"type": class name, "octets": hex}), decodes the octets into a new object of that class (APCISequence classes
from the PDU payload, other classes from the tag list) and prints one JSON line per job with the decoded value
as the comparison tree of props/c03.py and as normalised dict_contents().  Nothing is ever constructed natively
here (no Enumerated / Sequence built from Python values): whatever lazily initialised state the library has is
first touched by a decode — the situation of a receive-only device.  Run with PYTHONPATH=$VERIF_REPO/py34."""
import json, os, sys
HERE = os.path.dirname(os.path.abspath(__file__))
sys.path.insert(0, HERE)
import core
core.impl_import_guard()
from props import c03


def main():
    from bacpypes.constructeddata import Sequence
    from bacpypes.primitivedata import TagList
    from bacpypes.comm import PDUData
    for line in sys.stdin:
        line = line.strip()
        if not line:
            continue
        job = json.loads(line)
        name, octets = job['type'], bytes.fromhex(job['octets'])
        try:
            if c03.is_pdu(name):
                obj = c03.impl_decode_pdu(name, octets)
                d = Sequence.dict_contents(obj)
            else:
                tl = TagList()
                tl.decode(PDUData(octets))
                obj = c03.S()['classes'][name]()
                c03.guarded(lambda: obj.decode(tl))
                if len(tl):
                    raise ValueError('leftover')
                d = obj.dict_contents()
            out = {'tree': repr(c03.extract_class(name, obj)), 'dict': repr(c03.normalise_dict(d))}
        except Exception as e:
            out = {'exc': type(e).__name__, 'msg': str(e)[:200]}
        sys.stdout.write(json.dumps(out) + '\n')
    sys.stdout.flush()


if __name__ == '__main__':
    main()
