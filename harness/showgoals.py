#!/usr/bin/env python3
"""dev helper: showgoals.py file.v LemmaName -> compile up to the Qed of that lemma, replacing it by Show."""
import sys,subprocess,re,os
f,name=sys.argv[1],sys.argv[2]
src=open(f).read()
m=re.search(r'\b(Lemma|Theorem)\s+'+re.escape(name)+r'\b',src)
i=m.start()
j=src.index('Qed.',i)
s=src[:j]+'\nShow. Abort.\n'
out='/tmp/_show_%d.v'%os.getpid()
open(out,'w').write(s)
r=subprocess.run(['coqc','-Q','theories','Bac','-Q','gen','BacGen','-Q','props','BacProps',out],capture_output=True,text=True,cwd=os.path.join(os.path.dirname(os.path.dirname(os.path.abspath(__file__))),'coq'))
print((r.stdout+r.stderr)[-int(sys.argv[3]) if len(sys.argv)>3 else -6000:])
for e in ('.v','.vo','.glob','.vok','.vos'):
    try: os.remove(out[:-2]+e)
    except OSError: pass
