#!/usr/bin/env python3
"""keepseed.py <Cxx> : run seedtest on /tmp/seed/<Cxx>/out/* and keep confirmed changes under /verif/seeded/<Cxx>-<k>/"""
import json, os, shutil, subprocess, sys
VERIF = os.path.dirname(os.path.dirname(os.path.abspath(__file__)))
prop = sys.argv[1]
src = sys.argv[2] if len(sys.argv) > 2 else '/tmp/seed/%s/out' % prop
tag = sys.argv[3] if len(sys.argv) > 3 else ''
dirs = sorted(os.path.join(src, d) for d in os.listdir(src) if os.path.exists(os.path.join(src, d, 'patch.diff')))
p = subprocess.run([sys.executable, os.path.join(VERIF, 'harness', 'seedtest.py'), prop] + dirs, capture_output=True, text=True)
print(p.stderr[-500:])
for line in p.stdout.splitlines():
    try:
        r = json.loads(line)
    except ValueError:
        continue
    k = os.path.basename(r['dir'])
    confirmed = r.get('demo_fails_with_change') and r.get('demo_passes_without') and 'passed' in r.get('tests_with_change', '') and 'failed' not in r.get('tests_with_change', '')
    print('%s-%s confirmed=%s detected=%s failing_input=%s | %s' % (prop, k, confirmed, r.get('detected'), r.get('with_failing_input'), r.get('summary', r.get('status'))))
    if not confirmed:
        continue
    dst = os.path.join(VERIF, 'seeded', '%s-%s%s' % (prop, tag, k))
    os.makedirs(dst, exist_ok=True)
    for f in ('patch.diff', 'demo.py'):
        shutil.copy(os.path.join(r['dir'], f), dst)
    meta = json.load(open(os.path.join(r['dir'], 'meta.json')))
    meta['confirmed_by_integrator'] = {
        'ran': ['git -C /repo apply patch.diff', 'pytest tests (PYTHONPATH=/repo/py34): ' + r.get('tests_with_change', ''),
                'demo.py with change: exit != 0', './check %s --tier quick' % prop, 'git -C /repo checkout -- .', 'demo.py without change: exit 0'],
        'check_detected': r.get('detected'), 'check_gave_failing_input': r.get('with_failing_input'),
        'violation_lines': r.get('violation_lines'), 'check_summary': r.get('summary'), 'check_wall_s': r.get('wall_s')}
    json.dump(meta, open(os.path.join(dst, 'meta.json'), 'w'), indent=1)
