#!/bin/bash
# run every thorough check (3 at a time) against $VERIF_REPO; prints one summary line per property
cd "$(dirname "$0")/.."
export VERIF_REPO="${VERIF_REPO:-/repo}"
./setup.sh > work_setup.log 2>&1 || { echo "setup failed"; tail -5 work_setup.log; exit 1; }
printf "%s\n" C01 C02 C03 C04 C05 C06 C07 C08 C09 C10 C11 C12 C13 C14 C15 C16 C17 C18 C19 C20 | \
  xargs -P 3 -I{} bash -c 's=$(date +%s); out=$(./check {} --tier thorough 2>&1 | grep -v "^KNOWN" | tail -2 | tr "\n" " "); echo "{} exit=$? wall=$(( $(date +%s) - s ))s :: $out"'
echo "thorough pass done $(date)"
