"""Independent transcription of the ASN.1 productions of ANSI/ASHRAE 135 clause 21 for the service PDUs
and the base types they use most: per production, the elements in order as
(context number or None, OPTIONAL?, kind) where kind is the application tag number of a primitive
(1 Boolean, 2 Unsigned, 3 Integer, 4 Real, 6 OctetString, 7 CharacterString, 8 BitString, 9 Enumerated,
10 Date, 11 Time, 12 ObjectIdentifier), 'any' (ABSTRACT-SYNTAX.&Type), 'seqof' (SEQUENCE OF), or 'cons'
(a constructed production).  Written from the standard's text, NOT derived from bacpypes; it is the
reference for the clause "matches the standard" of C03 for these productions.  Keyed by the bacpypes class
name that implements the production."""

O, R = True, False     # optional / required

SEQUENCES = {
    # ---- confirmed services
    'ReadPropertyRequest': [(0, R, 12), (1, R, 9), (2, O, 2)],
    'ReadPropertyACK': [(0, R, 12), (1, R, 9), (2, O, 2), (3, R, 'any')],
    'WritePropertyRequest': [(0, R, 12), (1, R, 9), (2, O, 2), (3, R, 'any'), (4, O, 'int')],
    'ReadPropertyMultipleRequest': [(None, R, 'seqof')],
    'ReadAccessSpecification': [(0, R, 12), (1, R, 'seqof')],
    'PropertyReference': [(0, R, 9), (1, O, 2)],
    'ReadPropertyMultipleACK': [(None, R, 'seqof')],
    'ReadAccessResult': [(0, R, 12), (1, O, 'seqof')],
    'ReadAccessResultElement': [(2, R, 9), (3, O, 2), (None, R, 'cons')],
    'WritePropertyMultipleRequest': [(None, R, 'seqof')],
    'WriteAccessSpecification': [(0, R, 12), (1, R, 'seqof')],
    'PropertyValue': [(0, R, 9), (1, O, 2), (2, R, 'any'), (3, O, 2)],
    'ReadRangeRequest': [(0, R, 12), (1, R, 9), (2, O, 2), (None, O, 'cons')],
    'ReadRangeACK': [(0, R, 12), (1, R, 9), (2, O, 2), (3, R, 8), (4, R, 2), (5, R, 'any'), (6, O, 2)],   # itemData: SEQUENCE OF ABSTRACT-SYNTAX.&Type
    'SubscribeCOVRequest': [(0, R, 2), (1, R, 12), (2, O, 1), (3, O, 2)],
    'SubscribeCOVPropertyRequest': [(0, R, 2), (1, R, 12), (2, O, 1), (3, O, 2), (4, R, 'cons'), (5, O, 4)],
    'ConfirmedCOVNotificationRequest': [(0, R, 2), (1, R, 12), (2, R, 12), (3, R, 2), (4, R, 'seqof')],
    'UnconfirmedCOVNotificationRequest': [(0, R, 2), (1, R, 12), (2, R, 12), (3, R, 2), (4, R, 'seqof')],
    'AtomicReadFileRequest': [(None, R, 12), (None, R, 'cons')],
    'AtomicReadFileACK': [(None, R, 1), (None, R, 'cons')],
    'AtomicWriteFileRequest': [(None, R, 12), (None, R, 'cons')],
    'AtomicReadFileRequestAccessMethodChoiceStreamAccess': [(None, R, 3), (None, R, 2)],
    'AtomicReadFileRequestAccessMethodChoiceRecordAccess': [(None, R, 3), (None, R, 2)],
    'AtomicReadFileACKAccessMethodStreamAccess': [(None, R, 3), (None, R, 6)],
    'AtomicReadFileACKAccessMethodRecordAccess': [(None, R, 3), (None, R, 2), (None, R, 'seqof')],
    'AtomicWriteFileRequestAccessMethodChoiceStreamAccess': [(None, R, 3), (None, R, 6)],
    'AtomicWriteFileRequestAccessMethodChoiceRecordAccess': [(None, R, 3), (None, R, 2), (None, R, 'seqof')],
    'CreateObjectRequest': [(0, R, 'cons'), (1, O, 'seqof')],
    'DeleteObjectRequest': [(None, R, 12)],
    'AddListElementRequest': [(0, R, 12), (1, R, 9), (2, O, 2), (3, R, 'any')],
    'RemoveListElementRequest': [(0, R, 12), (1, R, 9), (2, O, 2), (3, R, 'any')],
    'DeviceCommunicationControlRequest': [(0, O, 2), (1, R, 9), (2, O, 7)],
    'ReinitializeDeviceRequest': [(0, R, 9), (1, O, 7)],
    'ConfirmedPrivateTransferRequest': [(0, R, 2), (1, R, 2), (2, O, 'any')],
    'ConfirmedPrivateTransferACK': [(0, R, 2), (1, R, 2), (2, O, 'any')],
    'UnconfirmedPrivateTransferRequest': [(0, R, 2), (1, R, 2), (2, O, 'any')],
    'ConfirmedTextMessageRequest': [(0, R, 12), (1, O, 'cons'), (2, R, 9), (3, R, 7)],
    'UnconfirmedTextMessageRequest': [(0, R, 12), (1, O, 'cons'), (2, R, 9), (3, R, 7)],
    'AcknowledgeAlarmRequest': [(0, R, 2), (1, R, 12), (2, R, 9), (3, R, 'cons'), (4, R, 7), (5, R, 'cons')],
    'ConfirmedEventNotificationRequest': [(0, R, 2), (1, R, 12), (2, R, 12), (3, R, 'cons'), (4, R, 2), (5, R, 2), (6, R, 9),
                                          (7, O, 7), (8, R, 9), (9, O, 1), (10, O, 9), (11, R, 9), (12, O, 'cons')],
    'UnconfirmedEventNotificationRequest': [(0, R, 2), (1, R, 12), (2, R, 12), (3, R, 'cons'), (4, R, 2), (5, R, 2), (6, R, 9),
                                            (7, O, 7), (8, R, 9), (9, O, 1), (10, O, 9), (11, R, 9), (12, O, 'cons')],
    'LifeSafetyOperationRequest': [(0, R, 2), (1, R, 7), (2, R, 9), (3, O, 12)],
    'GetEventInformationRequest': [(0, O, 12)],
    'GetEventInformationACK': [(0, R, 'seqof'), (1, R, 1)],
    # ---- unconfirmed services
    'WhoIsRequest': [(0, O, 2), (1, O, 2)],
    'IAmRequest': [(None, R, 12), (None, R, 2), (None, R, 9), (None, R, 2)],
    'IHaveRequest': [(None, R, 12), (None, R, 12), (None, R, 7)],
    'WhoHasLimits': [(0, R, 2), (1, R, 2)],
    'TimeSynchronizationRequest': [(None, R, 'cons')],
    'UTCTimeSynchronizationRequest': [(None, R, 'cons')],
    # ---- errors and base types
    'Error': [(None, R, 9), (None, R, 9)],
    'ErrorType': [(None, R, 9), (None, R, 9)],
    'DateTime': [(None, R, 10), (None, R, 11)],
    'ObjectPropertyReference': [(0, R, 12), (1, R, 9), (2, O, 2)],
    'DeviceObjectPropertyReference': [(0, R, 12), (1, R, 9), (2, O, 2), (3, O, 12)],
    'DeviceObjectReference': [(0, O, 12), (1, R, 12)],
    'RecipientProcess': [(0, R, 'cons'), (1, R, 2)],
    'COVSubscription': [(0, R, 'cons'), (1, R, 'cons'), (2, R, 1), (3, R, 2), (4, O, 4)],
    'DeviceAddress': [(None, R, 2), (None, R, 6)],
    'DateRange': [(None, R, 10), (None, R, 10)],
    # ---- round 2 (builder C03): more services, errors, base types, notification parameters
    'GetAlarmSummaryAlarmSummary': [(None, R, 12), (None, R, 9), (None, R, 8)],
    'GetAlarmSummaryACK': [(None, R, 'seqof')],
    'GetEnrollmentSummaryRequest': [(0, R, 9), (1, O, 'cons'), (2, O, 9), (3, O, 9), (4, O, 'cons'), (5, O, 2)],
    'GetEnrollmentSummaryRequestPriorityFilterType': [(0, R, 2), (1, R, 2)],
    'GetEnrollmentSummaryEnrollmentSummary': [(None, R, 12), (None, R, 9), (None, R, 9), (None, R, 2), (None, O, 2)],
    'GetEnrollmentSummaryACK': [(None, R, 'seqof')],
    'GetEventInformationEventSummary': [(0, R, 12), (1, R, 9), (2, R, 8), (3, R, 'seqof'), (4, R, 9), (5, R, 8), (6, R, 'seqof')],
    'CreateObjectACK': [(None, R, 12)],
    'RangeByPosition': [(None, R, 2), (None, R, 3)],
    'RangeBySequenceNumber': [(None, R, 2), (None, R, 3)],
    'RangeByTime': [(None, R, 'cons'), (None, R, 3)],
    'VTOpenRequest': [(None, R, 9), (None, R, 2)],
    'VTOpenACK': [(None, R, 2)],
    'VTCloseRequest': [(None, R, 'seqof')],
    'VTDataRequest': [(None, R, 2), (None, R, 6), (None, R, 2)],
    'VTDataACK': [(0, R, 1), (1, O, 2)],     # acceptedOctetCount: present only if allNewDataAccepted = FALSE
    'WhoHasRequest': [(None, O, 'cons'), (None, R, 'cons')],
    'WriteGroupRequest': [(0, R, 2), (1, R, 2), (2, R, 'seqof'), (3, O, 1)],
    'GroupChannelValue': [(0, R, 2), (1, O, 2), (None, R, 'cons')],
    'ChangeListError': [(0, R, 'cons'), (1, R, 2)],
    'CreateObjectError': [(0, R, 'cons'), (1, R, 2)],
    'WritePropertyMultipleError': [(0, R, 'cons'), (1, R, 'cons')],
    'ConfirmedPrivateTransferError': [(0, R, 'cons'), (1, R, 2), (2, R, 2), (3, O, 'any')],
    'VTCloseError': [(0, R, 'cons'), (1, O, 'seqof')],
    'AddressBinding': [(None, R, 12), (None, R, 'cons')],
    'Destination': [(None, R, 8), (None, R, 11), (None, R, 11), (None, R, 'cons'), (None, R, 2), (None, R, 1), (None, R, 8)],
    'TimeValue': [(None, R, 11), (None, R, 'any')],
    'DailySchedule': [(0, R, 'seqof')],
    'SpecialEvent': [(None, R, 'cons'), (2, R, 'seqof'), (3, R, 2)],
    'ActionCommand': [(0, O, 12), (1, R, 12), (2, R, 9), (3, O, 2), (4, R, 'any'), (5, O, 2), (6, O, 2), (7, R, 1), (8, R, 1)],
    'ActionList': [(0, R, 'seqof')],
    'SetpointReference': [(0, O, 'cons')],
    'VTSession': [(None, R, 2), (None, R, 2), (None, R, 'cons')],
    'Prescale': [(0, R, 2), (1, R, 2)],
    'AccumulatorRecord': [(0, R, 'cons'), (1, R, 2), (2, R, 2), (3, R, 9)],
    'LogRecord': [(0, R, 'cons'), (1, R, 'cons'), (2, O, 8)],
    'NotificationParametersChangeOfBitstring': [(0, R, 8), (1, R, 8)],
    'NotificationParametersChangeOfState': [(0, R, 'cons'), (1, R, 8)],
    'NotificationParametersChangeOfValue': [(0, R, 'cons'), (1, R, 8)],
    'NotificationParametersCommandFailure': [(0, R, 'any'), (1, R, 8), (2, R, 'any')],
    'NotificationParametersFloatingLimit': [(0, R, 4), (1, R, 8), (2, R, 4), (3, R, 4)],
    'NotificationParametersOutOfRange': [(0, R, 4), (1, R, 8), (2, R, 4), (3, R, 4)],
    'NotificationParametersChangeOfLifeSafety': [(0, R, 9), (1, R, 9), (2, R, 8), (3, R, 9)],
    'NotificationParametersExtended': [(0, R, 2), (1, R, 2), (2, R, 'seqof')],      # parameters [2] SEQUENCE OF CHOICE {...}
    'NotificationParametersBufferReady': [(0, R, 'cons'), (1, R, 2), (2, R, 2)],
    'NotificationParametersUnsignedRange': [(0, R, 2), (1, R, 8), (2, R, 2)],
}

# CHOICE productions: the alternatives in order as (context number or None, kind)
CHOICES = {
    'Range': [(3, 'cons'), (6, 'cons'), (7, 'cons')],
    'ReadAccessResultElementChoice': [(4, 'any'), (5, 'cons')],
    'AtomicReadFileRequestAccessMethodChoice': [(0, 'cons'), (1, 'cons')],
    'AtomicReadFileACKAccessMethodChoice': [(0, 'cons'), (1, 'cons')],
    'AtomicWriteFileRequestAccessMethodChoice': [(0, 'cons'), (1, 'cons')],
    'AtomicWriteFileACK': [(0, 3), (1, 3)],
    'CreateObjectRequestObjectSpecifier': [(0, 9), (1, 12)],
    'TimeStamp': [(0, 11), (1, 2), (2, 'cons')],
    'Recipient': [(0, 12), (1, 'cons')],
    'WhoHasObject': [(2, 12), (3, 7)],
    'ConfirmedTextMessageRequestMessageClass': [(0, 2), (1, 7)],
    'UnconfirmedTextMessageRequestMessageClass': [(0, 2), (1, 7)],
    # ---- round 2 (builder C03)
    'SpecialEventPeriod': [(0, 'cons'), (1, 12)],
    'CalendarEntry': [(0, 10), (1, 'cons'), (2, 6)],
    'Scale': [(0, 4), (1, 3)],
    'LogRecordLogDatum': [(0, 8), (1, 1), (2, 4), (3, 9), (4, 2), (5, 3), (6, 8), (7, 0), (8, 'cons'), (9, 4), (10, 'any')],
    'NotificationParametersChangeOfValueNewValue': [(0, 8), (1, 4)],
    # extended.parameters: ... enum ENUMERATED, reference [0] BACnetDeviceObjectPropertyReference
    'NotificationParametersExtendedParametersType': [(None, 0), (None, 4), (None, 2), (None, 1), (None, 5), (None, 6), (None, 8), (None, 9), (0, 'cons')],
    # BACnetNotificationParameters (135-2012): complex-event-type [6] SEQUENCE OF BACnetPropertyValue; 7 and 12 unused
    'NotificationParameters': [(0, 'cons'), (1, 'cons'), (2, 'cons'), (3, 'cons'), (4, 'cons'), (5, 'cons'), (6, 'seqof'),
                               (8, 'cons'), (9, 'cons'), (10, 'cons'), (11, 'cons'), (13, 'cons'), (14, 'cons'), (15, 'cons'),
                               (16, 'cons'), (17, 'cons'), (18, 'cons'), (19, 'cons')],
}

# service choice numbers (clause 21, BACnetConfirmedServiceChoice / BACnetUnconfirmedServiceChoice)
CONFIRMED_CHOICE = {
    'AcknowledgeAlarmRequest': 0, 'ConfirmedCOVNotificationRequest': 1, 'ConfirmedEventNotificationRequest': 2,
    'GetAlarmSummaryRequest': 3, 'GetEnrollmentSummaryRequest': 4, 'SubscribeCOVRequest': 5,
    'AtomicReadFileRequest': 6, 'AtomicWriteFileRequest': 7, 'AddListElementRequest': 8, 'RemoveListElementRequest': 9,
    'CreateObjectRequest': 10, 'DeleteObjectRequest': 11, 'ReadPropertyRequest': 12, 'ReadPropertyMultipleRequest': 14,
    'WritePropertyRequest': 15, 'WritePropertyMultipleRequest': 16, 'DeviceCommunicationControlRequest': 17,
    'ConfirmedPrivateTransferRequest': 18, 'ConfirmedTextMessageRequest': 19, 'ReinitializeDeviceRequest': 20,
    'VTOpenRequest': 21, 'VTCloseRequest': 22, 'VTDataRequest': 23, 'ReadRangeRequest': 26,
    'LifeSafetyOperationRequest': 27, 'SubscribeCOVPropertyRequest': 28, 'GetEventInformationRequest': 29,
}
UNCONFIRMED_CHOICE = {
    'IAmRequest': 0, 'IHaveRequest': 1, 'UnconfirmedCOVNotificationRequest': 2, 'UnconfirmedEventNotificationRequest': 3,
    'UnconfirmedPrivateTransferRequest': 4, 'UnconfirmedTextMessageRequest': 5, 'TimeSynchronizationRequest': 6,
    'WhoHasRequest': 7, 'WhoIsRequest': 8, 'UTCTimeSynchronizationRequest': 9,
}


# Deviations of the pinned implementation from the productions above that do not touch the wire format of
# anything the implementation can produce (accepted, listed so that the comparison stays exact elsewhere):
#   (production, element index, field) -> reason
ACCEPTED_DEVIATIONS = {
    ('ReadAccessResult', 1, 'optional'): 'listOfResults is OPTIONAL in the standard, required in bacpypes (a result without a list cannot be built or read; every list the library emits is still laid out as the standard says)',
    ('DeviceCommunicationControlRequest', 1, 'optional'): 'enable-disable is required in the standard, optional in bacpypes (the library accepts a request the standard forbids; what it emits is unaffected)',
}


def _same_kind(got, want):
    # a context-tagged integer is laid out identically whether the table says Unsigned or Integer
    # (WriteProperty priority 1..16 is `Integer` in bacpypes, Unsigned8 in the standard)
    return got == want or (want == 'int' and got in (2, 3))


def kind_of(klass):
    """coarse kind of a bacpypes element class, in the vocabulary above"""
    from bacpypes import primitivedata as P, constructeddata as C
    if klass in C._sequence_of_classes or klass in C._list_of_classes or klass in C._array_of_classes:
        return 'seqof'
    if issubclass(klass, C.AnyAtomic):
        return 'any'
    if issubclass(klass, P.Atomic):
        return klass._app_tag
    if issubclass(klass, C.Any) or getattr(klass, '__name__', '') == 'SequenceOfAny':
        return 'any'
    return 'cons'


def compare(find_class):
    """returns a list of differences between the implementation's tables and the transcription;
    find_class(name) -> class or None"""
    diffs = []
    for name, want in SEQUENCES.items():
        cls = find_class(name)
        if cls is None:
            diffs.append({'production': name, 'what': 'class not found'})
            continue
        got = [(e.context, bool(e.optional), kind_of(e.klass)) for e in cls.sequenceElements]
        same = len(got) == len(want)
        if same:
            for i, (g, w) in enumerate(zip(got, want)):
                if g[0] != w[0] or not _same_kind(g[2], w[2]):
                    same = False
                if g[1] != w[1] and (name, i, 'optional') not in ACCEPTED_DEVIATIONS:
                    same = False
        if not same:
            diffs.append({'production': name, 'implementation': [list(g) for g in got], 'standard': [list(w) for w in want],
                          'elements': [e.name for e in cls.sequenceElements]})
    for name, want in CHOICES.items():
        cls = find_class(name)
        if cls is None:
            diffs.append({'production': name, 'what': 'class not found'})
            continue
        els = getattr(cls, 'choiceElements', None)
        if els is None:      # implemented as a sequence of optional elements (e.g. AtomicWriteFileACK)
            els = cls.sequenceElements
        got = [(e.context, kind_of(e.klass)) for e in els]
        if got != [tuple(w) for w in want]:
            diffs.append({'production': name, 'implementation': [list(g) for g in got], 'standard': [list(w) for w in want],
                          'elements': [e.name for e in els]})
    return diffs
