"""Virtual-clock, virtual-LAN wiring of full bacpypes application stacks (used by C10, C15, C16).

  clock = VClock()                       # installs bacpypes.task._time, fresh TaskManager, empty deferredFns
  lan = clock.network('lan')
  dev = Stack(clock, lan, device_id=1, services=[...])
  cli = Stack(clock, lan, device_id=2)
  iocb = cli.request(ReadPropertyRequest(...), dev.address); clock.run(); iocb.ioResponse / iocb.ioError
"""
import sys


class VClock:
    def __init__(self, start=1700000000.0):
        import bacpypes.task as task
        import bacpypes.core as core
        self.now = [start]
        task._time = lambda: self.now[0]
        # fresh singleton task manager (the metaclass caches the instance: drop it first)
        task._Trigger = None        # no wake-up pipe (it would leak two descriptors per TaskManager)
        task.TaskManager._singleton_instance = None
        task._task_manager = None
        task._unscheduled_tasks = []
        task._Trigger = None
        task.TaskManager._singleton_instance = None
        self.tm = task.TaskManager()
        assert task._task_manager is self.tm and self.tm.tasks == []
        core.deferredFns = []
        self.task, self.core = task, core
        self.steps = 0

    def network(self, name='lan', broadcast=None):
        from bacpypes.vlan import Network
        from bacpypes.pdu import LocalBroadcast
        return Network(name=name, broadcast_address=broadcast or LocalBroadcast())

    def drain(self, limit=100000):
        """run deferred functions (one at a time, each guarded) and every task that is due now"""
        core = self.core
        n = 0
        errors = []
        while True:
            progressed = False
            while core.deferredFns:
                fnlist = core.deferredFns
                core.deferredFns = []
                for fn, args, kwargs in fnlist:
                    n += 1
                    try:
                        fn(*args, **kwargs)
                    except Exception as e:      # mirror of core.run's outer handler: log and go on
                        errors.append(e)
                progressed = True
                if n > limit:
                    raise RuntimeError('drain: step limit')
            task, delta = self.tm.get_next_task()
            if task is not None:
                n += 1
                try:
                    self.tm.process_task(task)
                except Exception as e:
                    errors.append(e)
                progressed = True
            if not progressed:
                break
            if n > limit:
                raise RuntimeError('drain: step limit')
        self.steps += n
        return errors

    def next_due(self):
        # like core.run / TaskManager.get_next_task: only the ROOT of the scheduler's heap is looked at
        # (the same instant as min() on a valid heap; on a damaged heap the real loop sleeps on the root too)
        tasks = self.tm.tasks
        return tasks[0][0] if tasks else None

    def advance(self, seconds):
        """advance virtual time by `seconds`, firing every task on the way in order"""
        errors = self.drain()
        target = self.now[0] + seconds
        while True:
            nd = self.next_due()
            if nd is None or nd > target:
                break
            self.now[0] = max(self.now[0], nd)
            errors += self.drain()
        self.now[0] = target
        errors += self.drain()
        return errors

    def run(self, max_seconds=600.0):
        """run until nothing is scheduled or max_seconds of virtual time passed"""
        errors = self.drain()
        target = self.now[0] + max_seconds
        while True:
            nd = self.next_due()
            if nd is None or nd > target:
                break
            self.now[0] = max(self.now[0], nd)
            errors += self.drain()
        return errors


def make_device(device_id, name=None, max_apdu=1024, seg='segmentedBoth', vendor=999, **kw):
    from bacpypes.local.device import LocalDeviceObject
    return LocalDeviceObject(
        objectName=name or 'dev%d' % device_id, objectIdentifier=('device', device_id),
        maxApduLengthAccepted=max_apdu, segmentationSupported=seg, vendorIdentifier=vendor,
        maxSegmentsAccepted=kw.pop('max_segments', 64), **kw)


def Stack(clock, lan, device_id, services=(), address=None, **devkw):
    """full stack: application (with the given service mix-ins) / ASAP / SMAP / NSAP / vlan Node"""
    from bacpypes.app import ApplicationIOController
    from bacpypes.appservice import StateMachineAccessPoint, ApplicationServiceAccessPoint
    from bacpypes.netservice import NetworkServiceAccessPoint, NetworkServiceElement
    from bacpypes.comm import bind
    from bacpypes.vlan import Node
    from bacpypes.pdu import Address
    from bacpypes.iocb import IOCB
    from bacpypes.service.device import WhoIsIAmServices

    class _NSE(NetworkServiceElement):
        _startup_disabled = True

    bases = tuple(services) + (ApplicationIOController,)

    class _App(*bases):
        def __init__(self, device, lan, addr):
            self.address = addr
            self.indications, self.confirmations = [], []
            ApplicationIOController.__init__(self, device)
            self.asap = ApplicationServiceAccessPoint()
            self.smap = StateMachineAccessPoint(device)
            self.smap.deviceInfoCache = self.deviceInfoCache
            self.nsap = NetworkServiceAccessPoint()
            self.nse = _NSE()
            bind(self.nse, self.nsap)
            bind(self, self.asap, self.smap, self.nsap)
            self.node = Node(addr, lan)
            self.nsap.bind(self.node)

        def indication(self, apdu):
            self.indications.append(apdu)
            super().indication(apdu)

        def confirmation(self, apdu):
            self.confirmations.append(apdu)
            super().confirmation(apdu)

        def send(self, apdu, dest=None):
            if dest is not None:
                apdu.pduDestination = dest
            iocb = IOCB(apdu)
            self.request_io(iocb)
            return iocb

    dev = make_device(device_id, **devkw)
    app = _App(dev, lan, address or Address(device_id))
    app.device = dev
    return app


class RawNode:
    """a bare vlan node that records every frame it sees and can inject raw frames"""
    def __init__(self, lan, address, promiscuous=True):
        from bacpypes.vlan import Node
        from bacpypes.comm import Client, bind
        from bacpypes.pdu import Address

        outer = self

        class _C(Client):
            def confirmation(self, pdu):
                outer.frames.append((str(pdu.pduSource), str(pdu.pduDestination), bytes(pdu.pduData)))
        self.frames = []
        self.address = Address(address)
        self.node = Node(self.address, lan, promiscuous=promiscuous)
        self.client = _C()
        bind(self.client, self.node)

    def send(self, dest, data):
        from bacpypes.pdu import PDU, Address
        self.client.request(PDU(bytes(data), source=self.address, destination=Address(dest) if not hasattr(dest, 'addrType') else dest))


class FauxMux:
    """socket-free stand-in for UDPMultiplexer: AnnexJCodec above, a vlan.IPNode below"""
    def __new__(cls, addr, network):
        from bacpypes.comm import Client, Server, bind
        from bacpypes.vlan import IPNode
        from bacpypes.pdu import Address, LocalBroadcast, PDU
        from bacpypes.bvllservice import unpack_ip_addr

        class _Mux(Client, Server):
            def __init__(self):
                Client.__init__(self)
                Server.__init__(self)
                self.address = addr
                self.node = IPNode(addr, network)
                bind(self, self.node)

            def indication(self, pdu):
                if pdu.pduDestination.addrType == Address.localBroadcastAddr:
                    dest = addr.addrBroadcastTuple
                elif pdu.pduDestination.addrType == Address.localStationAddr:
                    dest = unpack_ip_addr(pdu.pduDestination.addrAddr)
                else:
                    raise RuntimeError("invalid destination address type")
                self.request(PDU(pdu, source=addr.addrTuple, destination=dest))

            def confirmation(self, pdu):
                src = Address(pdu.pduSource)
                dest = LocalBroadcast() if pdu.pduDestination == addr.addrBroadcastTuple else Address(pdu.pduDestination)
                self.response(PDU(pdu, source=src, destination=dest))
        return _Mux()


def BIPStack(clock, ipnet, ip, device_id, services=(), **devkw):
    """application stack over BIPSimple / AnnexJCodec / FauxMux on a vlan.IPNetwork"""
    from bacpypes.app import ApplicationIOController
    from bacpypes.appservice import StateMachineAccessPoint, ApplicationServiceAccessPoint
    from bacpypes.netservice import NetworkServiceAccessPoint, NetworkServiceElement
    from bacpypes.bvllservice import BIPSimple, AnnexJCodec
    from bacpypes.comm import bind
    from bacpypes.pdu import Address
    from bacpypes.iocb import IOCB

    class _NSE(NetworkServiceElement):
        _startup_disabled = True

    class _App(*(tuple(services) + (ApplicationIOController,))):
        def __init__(self, device, addr):
            self.address = addr
            ApplicationIOController.__init__(self, device)
            self.asap = ApplicationServiceAccessPoint()
            self.smap = StateMachineAccessPoint(device)
            self.smap.deviceInfoCache = self.deviceInfoCache
            self.nsap = NetworkServiceAccessPoint()
            self.nse = _NSE()
            bind(self.nse, self.nsap)
            bind(self, self.asap, self.smap, self.nsap)
            self.bip = BIPSimple()
            self.annexj = AnnexJCodec()
            self.mux = FauxMux(addr, ipnet)
            bind(self.bip, self.annexj, self.mux)
            self.nsap.bind(self.bip, address=addr)

    dev = make_device(device_id, **devkw)
    app = _App(dev, Address(ip))
    app.device = dev
    return app


class RawIPNode:
    """bare node on a vlan.IPNetwork: records datagrams addressed to it, injects raw datagrams"""
    def __init__(self, ipnet, ip):
        from bacpypes.vlan import IPNode
        from bacpypes.comm import Client, bind
        from bacpypes.pdu import Address
        outer = self

        class _C(Client):
            def confirmation(self, pdu):
                outer.frames.append((pdu.pduSource, pdu.pduDestination, bytes(pdu.pduData)))
        self.frames = []
        self.address = Address(ip)
        self.node = IPNode(self.address, ipnet)
        self.client = _C()
        bind(self.client, self.node)

    def send(self, dest_tuple, data):
        from bacpypes.pdu import PDU
        self.client.request(PDU(bytes(data), source=self.address.addrTuple, destination=dest_tuple))
