"""Shared trace harness for C04/C05/C11/C12: several StateMachineAccessPoints joined by a scripted
medium under a virtual clock.  A *scenario* is a JSON-able dict (so that it can be stored as a replay);
`run_scenario` executes it on the implementation and returns a `Trace` whose events are plain tuples.

  nodes     [{addr, maxApdu, seg, maxSegs, retries, apduTimeout, segTimeout, window, appTimeout,
              know: {peer: {maxApdu, seg, maxSegs, maxNpdu}}, raw}]
  requests  [{t, src, dst, len, service, invoke, resp: [kind, arg], resp_delay}]
  faults    {frame index: [delivery offsets in ms]}   ([] = drop, [0,0] = duplicate, [d] = delay, [0,d] = late duplicate)
  silence   frame index from which every frame is lost (or None)
  inject    [{after: frame index | t: ms, src, dst, frame: {...header fields..., data: hex}}]   forged frames

All timeouts are multiples of 125 ms so that every instant is an exactly representable binary fraction
(the library computes `now + msecs / 1000.0` in floating point)."""
import heapq, itertools

SEG_NAMES = ['noSegmentation', 'segmentedTransmit', 'segmentedReceive', 'segmentedBoth']
STATE_NAMES = ['IDLE', 'SEGMENTED_REQUEST', 'AWAIT_CONFIRMATION', 'AWAIT_RESPONSE', 'SEGMENTED_RESPONSE',
               'SEGMENTED_CONFIRMATION', 'COMPLETED', 'ABORTED']
MAX_APDUS = [50, 128, 206, 480, 1024, 1476]

NOW = [0.0]
_TM = [None]


def _setup_clock():
    """virtual clock: must be installed before the TaskManager singleton is created"""
    import bacpypes.task as task
    if _TM[0] is None:
        task._time = lambda: NOW[0]
        _TM[0] = task.TaskManager()
        assert task._task_manager is _TM[0]
    tm = _TM[0]
    tm.tasks[:] = []
    tm.counter = itertools.count()
    NOW[0] = 0.0
    import bacpypes.core as core
    core.deferredFns[:] = []
    return tm


def mk_address(a):
    """station numbers of the scenarios -> bacpypes addresses: 0..255 a local station with a one-octet MAC; net*1000 + mac
    (1000..99999) a remote station on network `net`; 100000 + mac a local station with the two-octet MAC 00:mac"""
    from bacpypes.pdu import Address, RemoteStation
    a = int(a)
    if a >= 100000:
        return Address(bytes([0, a % 1000]))
    if a >= 1000:
        return RemoteStation(a // 1000, a % 1000)
    return Address(a)


def addr_no(address):
    """the inverse of mk_address, reading the fields of the Address object (not comparing Address objects)"""
    if address is None or not address.addrAddr:
        return -1
    raw = bytes(address.addrAddr)
    net = address.addrNet
    if net is not None:
        return net * 1000 + raw[0]
    if len(raw) == 2:
        return 100000 + raw[1]
    return raw[0]


def ms(t):
    return int(round(t * 1000))


class Dev(object):
    """the local device object as far as SSM.__init__ is concerned"""
    def __init__(self, cfg):
        self.maxApduLengthAccepted = cfg['maxApdu']
        self.segmentationSupported = cfg['seg']
        self.maxSegmentsAccepted = cfg['maxSegs']
        self.numberOfApduRetries = cfg['retries']
        self.apduTimeout = cfg['apduTimeout']
        self.apduSegmentTimeout = cfg['segTimeout']


def node_cfg(addr, **kw):
    cfg = dict(addr=addr, maxApdu=50, seg='segmentedBoth', maxSegs=64, retries=3, apduTimeout=3000,
               segTimeout=1500, window=2, appTimeout=3000, know={}, raw=False)
    cfg.update(kw)
    return cfg


def req_payload(reqno, n):
    """request payload: first two octets identify the request (when there is room)"""
    return bytes(([reqno & 255, (reqno >> 8) & 255] + [(reqno * 37 + i * 7 + 11) & 255 for i in range(2, n)])[:n])


def resp_payload(reqno, server, n):
    return bytes(([(reqno + 128) & 255, server & 255] + [(reqno * 53 + server * 101 + i * 13 + 5) & 255 for i in range(2, n)])[:n])


def hdr_of(apdu):
    """decoded fixed header of an APDU object as a dict of ints (None -> -1)"""
    def z(v):
        if v is None:
            return -1
        if v is True:
            return 1
        if v is False:
            return 0
        return int(v)
    return {'type': z(apdu.apduType), 'seg': z(apdu.apduSeg), 'mor': z(apdu.apduMor), 'sa': z(apdu.apduSA),
            'srv': z(apdu.apduSrv), 'nak': z(apdu.apduNak), 'seq': z(apdu.apduSeq), 'win': z(apdu.apduWin),
            'maxsegs': z(apdu.apduMaxSegs), 'maxresp': z(apdu.apduMaxResp), 'service': z(apdu.apduService),
            'invoke': z(apdu.apduInvokeID), 'reason': z(apdu.apduAbortRejectReason)}


class Trace(object):
    def __init__(self, spec):
        self.spec = spec
        self.events = []          # tuples, first item = kind
        self.frames = []          # per frame index: dict(t, src, dst, hdr, data, enc_len, encoded, fate)
        self.exns = []            # (t, code, where, class name)
        self.residue = None       # at quiescence: {addr: {'client': [...], 'server': [...]}} and 'tasks'
        self.end_t = 0
        self.steps = 0
        self.livelock = False

    def ev(self, *e):
        self.events.append(e)


class World(object):
    def __init__(self, spec):
        from bacpypes.comm import bind, Server, ApplicationServiceElement
        from bacpypes.appservice import StateMachineAccessPoint
        from bacpypes.app import DeviceInfoCache, DeviceInfo
        from bacpypes.pdu import Address
        from bacpypes.apdu import IAmRequest
        self.spec = spec
        self.tm = _setup_clock()
        self.trace = Trace(spec)
        self.nodes = {}
        self.inflight = []          # FIFO of (frame index, copy number)
        self.delayed = []           # heap of (due, seqno, kind, payload)
        self.seq = itertools.count()
        self.faults = {int(k): list(v) for k, v in (spec.get('faults') or {}).items()}
        self.silence = spec.get('silence')
        self.inject_after = {}
        for inj in spec.get('inject') or []:
            if 'after' in inj:
                self.inject_after.setdefault(int(inj['after']), []).append(inj)
        world = self

        class Medium(Server):
            def __init__(self, addr):
                Server.__init__(self)
                self.addr = addr

            def indication(self, apdu):
                world.sent(self.addr, apdu)

        class App(ApplicationServiceElement):
            def __init__(self, addr):
                ApplicationServiceElement.__init__(self)
                self.addr = addr

            def indication(self, apdu):
                world.app_indication(self.addr, apdu)

            def confirmation(self, apdu):
                world.app_confirmation(self.addr, apdu)

        from bacpypes.app import ApplicationIOController

        class IOApp(ApplicationIOController):
            def __init__(self, addr):
                ApplicationIOController.__init__(self, None, deviceInfoCache=DeviceInfoCache())
                self.addr = addr

            def indication(self, apdu):
                world.app_indication(self.addr, apdu)

        from bacpypes.appservice import ApplicationServiceAccessPoint

        class RawASAP(ApplicationServiceAccessPoint):
            def indication(self, apdu):
                self.sap_request(apdu)

            def confirmation(self, apdu):
                self.sap_response(apdu)

        for cfg in spec['nodes']:
            addr = cfg['addr']
            n = {'cfg': cfg, 'address': mk_address(addr)}
            if not cfg.get('raw'):
                cache = DeviceInfoCache()
                for peer, k in (cfg.get('know') or {}).items():
                    # what the peer announced in its I-Am, through the public entry point
                    iam = IAmRequest(iAmDeviceIdentifier=('device', int(peer)), maxAPDULengthAccepted=k.get('maxApdu'),
                                     segmentationSupported=k.get('seg', 'noSegmentation'), vendorID=999)
                    iam.pduSource = mk_address(peer)
                    cache.iam_device_info(iam)
                    di = cache.get_device_info(mk_address(peer))
                    if di is not None:
                        # learned by reading the peer's device object (not carried by I-Am)
                        if k.get('maxSegs') is not None:
                            di.maxSegmentsAccepted = k.get('maxSegs')
                        if k.get('maxNpdu') is not None:
                            di.maxNpduLength = k.get('maxNpdu')
                # the real device object, built from what the scenario configures (a stand-in when the scenario says so):
                # the predicates judge by the scenario's values, never by what the device object reports back
                if cfg.get('dev') == 'stub':
                    dev = Dev(cfg)
                else:
                    from bacpypes.local.device import LocalDeviceObject
                    dev = LocalDeviceObject(objectName='node%d' % addr, objectIdentifier=('device', addr % 4000000), vendorIdentifier=999,
                                            maxApduLengthAccepted=cfg['maxApdu'], segmentationSupported=cfg['seg'],
                                            maxSegmentsAccepted=cfg['maxSegs'], numberOfApduRetries=cfg['retries'],
                                            apduTimeout=cfg['apduTimeout'], apduSegmentTimeout=cfg['segTimeout'])
                smap = StateMachineAccessPoint(dev, cache)
                smap.proposedWindowSize = cfg['window']
                smap.applicationTimeout = cfg['appTimeout']
                if cfg.get('via_iocb'):
                    # the client application talks to the stack through IOCBs (app.ApplicationIOController + per-peer SieveQueue)
                    app = IOApp(addr)
                else:
                    app = App(addr)
                med = Medium(addr)
                if cfg.get('via_iocb'):
                    # with the real ApplicationServiceAccessPoint on the way down (it copies the request and hands the invoke id
                    # back only after the stack returns); upwards the raw PDUs are passed through undecoded
                    bind(app, RawASAP(), smap, med)
                else:
                    bind(app, smap, med)
                n.update(smap=smap, app=app, med=med, cache=cache)
            self.nodes[addr] = n
        # server application behaviour: (src, payload) -> request record
        self.policy = {}
        self.parked = {}
        self.iocbs = []
        for i, r in enumerate(spec.get('requests') or []):
            r = dict(r)
            r['no'] = i
            self.policy.setdefault((r['src'], r['dst'], bytes(req_payload(i, r['len']))), []).append(r)
        self.requests = [dict(r, no=i) for i, r in enumerate(spec.get('requests') or [])]
        for r in self.requests:
            if r.get('t', 0) == -1:
                continue        # submitted only from a confirmation callback (chains)
            heapq.heappush(self.delayed, (r.get('t', 0) / 1000.0, next(self.seq), 'submit', r))
        self.chains = [dict(c) for c in spec.get('chains') or []]
        self.in_chain = False
        for inj in spec.get('inject') or []:
            if 'after' not in inj:
                heapq.heappush(self.delayed, (inj['t'] / 1000.0, next(self.seq), 'inject', inj))
        for ia in spec.get('iam') or []:
            heapq.heappush(self.delayed, (ia['t'] / 1000.0, next(self.seq), 'iam', ia))

    # ---- medium
    def sent(self, src, apdu):
        """a frame leaves node `src`: encode it as the network layer would, record it, decide its fate"""
        from bacpypes.apdu import APDU
        from bacpypes.pdu import PDU
        t = self.trace
        idx = len(t.frames)
        x = APDU()
        apdu.encode(x)
        p = PDU()
        x.encode(p)
        encoded = bytes(p.pduData)
        dst = apdu.pduDestination
        dsta = addr_no(dst)
        # the header as it is on the wire: decode the octets again
        y = APDU()
        y.decode(PDU(encoded))
        hdr = hdr_of(y)
        if self.silence is not None and idx >= self.silence:
            fate = []
        else:
            fate = self.faults.get(idx, [0])
        fr = {'idx': idx, 't': ms(NOW[0]), 'src': src, 'dst': dsta, 'hdr': hdr, 'data': bytes(apdu.pduData),
              'enc_len': len(encoded), 'encoded': encoded, 'fate': list(fate)}
        t.frames.append(fr)
        t.ev('tx', ms(NOW[0]), idx, src, dsta)
        for d in fate:
            if d == 0:
                self.inflight.append(('frame', idx))
            else:
                heapq.heappush(self.delayed, (NOW[0] + d / 1000.0, next(self.seq), 'frame', idx))
        for inj in self.inject_after.get(idx, []):
            self.inflight.append(('inject', inj))

    def deliver_octets(self, src, dst, octets, tag):
        from bacpypes.apdu import APDU
        from bacpypes.pdu import PDU, Address
        n = self.nodes.get(dst)
        self.trace.ev('rx', ms(NOW[0]), tag, src, dst)
        if n is None or n['cfg'].get('raw'):
            return
        a = APDU()
        try:
            a.decode(PDU(octets, source=mk_address(src), destination=mk_address(dst)))
        except Exception as e:
            self.exn(e, 'decode', dst)
            return
        try:
            n['smap'].confirmation(a)
        except Exception as e:
            self.exn(e, 'rx', dst)

    def exn(self, e, where, node):
        from pyerr import exc_code
        self.trace.exns.append((ms(NOW[0]), exc_code(e), where, type(e).__name__, node, str(e)[:80]))
        self.trace.ev('exn', ms(NOW[0]), exc_code(e), where, node)

    # ---- applications
    def app_indication(self, addr, apdu):
        """server side: a request (or an abort from the client) reaches the application"""
        t = self.trace
        src = addr_no(apdu.pduSource)
        h = hdr_of(apdu)
        data = bytes(apdu.pduData)
        t.ev('ind', ms(NOW[0]), addr, src, h['type'], h['invoke'], data, h['reason'])
        if h['type'] != 0:
            return
        recs = self.policy.get((src, addr, data))
        rec = recs[0] if recs else None
        resp = (rec or {}).get('resp', ['simple'])
        delay = (rec or {}).get('resp_delay', 0)
        job = {'node': addr, 'to': src, 'invoke': h['invoke'], 'service': h['service'], 'resp': resp,
               'no': rec['no'] if rec else -1}
        if delay == -1:
            # the application parks its answer (it will give it from inside a later indication, or never)
            self.parked.setdefault(addr, []).append(job)
        elif delay == -2:
            # ... and here it first gives every answer it has parked, then answers this request, all inside this indication
            jobs, self.parked[addr] = self.parked.get(addr, []), []
            for j in jobs:
                self.respond(j)
            self.respond(job)
        elif delay:
            heapq.heappush(self.delayed, (NOW[0] + delay / 1000.0, next(self.seq), 'respond', job))
        else:
            self.respond(job)

    def respond(self, job):
        from bacpypes.apdu import SimpleAckPDU, ComplexAckPDU, ErrorPDU, RejectPDU, AbortPDU
        from bacpypes.pdu import Address
        kind = job['resp'][0]
        if kind == 'silent':
            return
        if kind == 'simple':
            a = SimpleAckPDU(job['service'], job['invoke'])
        elif kind == 'complex':
            a = ComplexAckPDU(job['service'], job['invoke'])
            a.put_data(resp_payload(job['no'], job['node'], job['resp'][1]))
        elif kind == 'error':
            a = ErrorPDU(job['service'], job['invoke'])
            a.put_data(resp_payload(job['no'], job['node'], job['resp'][1]))
        elif kind == 'reject':
            a = RejectPDU(job['invoke'], job['resp'][1])
        elif kind == 'abort':
            a = AbortPDU(True, job['invoke'], job['resp'][1])
        else:
            raise ValueError(kind)
        a.pduDestination = mk_address(job['to'])
        self.trace.ev('respond', ms(NOW[0]), job['node'], job['to'], job['invoke'], job['no'], kind)
        try:
            self.nodes[job['node']]['app'].response(a)
        except Exception as e:
            self.exn(e, 'respond', job['node'])

    def app_confirmation(self, addr, apdu):
        t = self.trace
        src = addr_no(apdu.pduSource)
        h = hdr_of(apdu)
        data = bytes(apdu.pduData) if apdu.pduData is not None else b''
        t.ev('conf', ms(NOW[0]), addr, src, h['type'], h['invoke'], data, h['reason'])
        # request chaining: the confirmation callback submits the next request at once (each chain entry is used once)
        if not self.in_chain:
            for c in self.chains:
                if c['node'] == addr and c['peer'] == src and c['invoke'] == h['invoke']:
                    self.chains.remove(c)
                    self.in_chain = True
                    try:
                        self.submit(self.requests[c['no']])
                    finally:
                        self.in_chain = False
                    break

    def submit(self, r):
        from bacpypes.apdu import ConfirmedRequestPDU
        from bacpypes.pdu import Address
        n = self.nodes[r['src']]
        if n['cfg'].get('raw'):
            return          # a request of a raw peer is only the script of the server application's answer
        a = ConfirmedRequestPDU(r.get('service', 12))
        a.pduDestination = mk_address(r['dst'])
        if r.get('invoke') is not None:
            a.apduInvokeID = r['invoke']
        a.put_data(req_payload(r['no'], r['len']))
        live = [(addr_no(tr.pdu_address), tr.invokeID) for tr in n['smap'].clientTransactions]
        # the event is placed before the call (a local abort is delivered inside it) and completed afterwards
        pos = len(self.trace.events)
        want = -1 if r.get('invoke') is None else r['invoke']
        self.trace.ev('submit', ms(NOW[0]), r['src'], r['dst'], r['no'], want, 0, tuple(live))
        code = 0
        try:
            if n['cfg'].get('via_iocb'):
                from bacpypes.iocb import IOCB
                io = IOCB(a)
                box = {}

                def cb(iocb, _addr=r['src']):
                    x = iocb.ioResponse if iocb.ioResponse is not None else iocb.ioError
                    if isinstance(x, Exception):
                        box['exc'] = x          # refused with an exception below: reported through the IOCB
                    else:
                        self.app_confirmation(_addr, x)
                io.add_callback(cb)
                self.iocbs.append(io)
                n['app'].request_io(io)
                if 'exc' in box:
                    raise box['exc']
            else:
                n['app'].request(a)
        except Exception as e:
            from pyerr import exc_code
            code = exc_code(e)
            self.trace.exns.append((ms(NOW[0]), code, 'submit', type(e).__name__, r['src'], str(e)[:80]))
        inv = -1 if a.apduInvokeID is None else a.apduInvokeID
        self.trace.events[pos] = ('submit', ms(NOW[0]), r['src'], r['dst'], r['no'], inv, code, tuple(live))

    def do_inject(self, inj):
        from bacpypes.apdu import APDU
        from bacpypes.pdu import PDU
        f = inj['frame']
        if 'octets' in f:
            octets = bytes.fromhex(f['octets'])
        else:
            a = APDU()
            a.apduType = f['type']
            for k, attr in (('seg', 'apduSeg'), ('mor', 'apduMor'), ('sa', 'apduSA'), ('srv', 'apduSrv'), ('nak', 'apduNak'),
                            ('seq', 'apduSeq'), ('win', 'apduWin'), ('maxsegs', 'apduMaxSegs'), ('maxresp', 'apduMaxResp'),
                            ('service', 'apduService'), ('invoke', 'apduInvokeID'), ('reason', 'apduAbortRejectReason')):
                if k in f:
                    setattr(a, attr, f[k])
            a.pduData = bytes.fromhex(f.get('data', ''))
            p = PDU()
            a.encode(p)
            octets = bytes(p.pduData)
        self.deliver_octets(inj['src'], inj['dst'], octets, ('inj', octets.hex()))

    def do_iam(self, ia):
        """an I-Am of station ia['peer'] reaches the application of node ia['node'], which records it"""
        from bacpypes.apdu import IAmRequest
        from bacpypes.pdu import Address
        n = self.nodes[ia['node']]
        iam = IAmRequest(iAmDeviceIdentifier=('device', int(ia['peer'])), maxAPDULengthAccepted=ia['maxApdu'],
                         segmentationSupported=ia['seg'], vendorID=999)
        iam.pduSource = mk_address(ia['peer'])
        self.trace.ev('iam', ms(NOW[0]), ia['node'], ia['peer'], ia['maxApdu'], ia['seg'])
        try:
            n['cache'].iam_device_info(iam)
        except Exception as e:
            self.exn(e, 'iam', ia['node'])

    # ---- observation of the live state
    def snapshot(self):
        out = []
        for addr in sorted(self.nodes):
            n = self.nodes[addr]
            if n['cfg'].get('raw'):
                continue
            sm = n['smap']
            for role, lst in (('c', sm.clientTransactions), ('s', sm.serverTransactions)):
                for tr in lst:
                    out.append((addr, role, addr_no(tr.pdu_address), -1 if tr.invokeID is None else tr.invokeID,
                                tr.state, ms(tr.taskTime) if tr.isScheduled else -1))
        return tuple(out)

    def records(self):
        """what every node's DeviceInfoCache holds at the end: {(node, peer): (maxApdu, segmentationSupported)}"""
        out = {}
        for addr, n in self.nodes.items():
            if n['cfg'].get('raw') or 'cache' not in n:
                continue
            for key, di in n['cache'].cache.items():
                if hasattr(key, 'addrAddr'):
                    out[(addr, addr_no(key))] = (di.maxApduLengthAccepted, di.segmentationSupported)
        return out

    def refcounts(self):
        """DeviceInfoCache bookkeeping per node: for every record (in order of its station number) the reference count the
        cache holds and the number of live transactions of that node that hold this very record object"""
        out = []
        for addr in sorted(self.nodes):
            n = self.nodes[addr]
            if n['cfg'].get('raw') or 'cache' not in n:
                continue
            recs = {}
            for key, di in n['cache'].cache.items():
                recs[id(di)] = di
            live = n['smap'].clientTransactions + n['smap'].serverTransactions
            rows = []
            for di in recs.values():
                rows.append((addr, addr_no(di.address), getattr(di, '_ref_count', -1), sum(1 for tr in live if tr.device_info is di)))
            out.extend(sorted(rows))
        return tuple(out)

    def orphan_timers(self):
        """scheduled timers of transactions that are in no transaction list any more"""
        listed = set()
        for n in self.nodes.values():
            if n['cfg'].get('raw'):
                continue
            for tr in n['smap'].clientTransactions + n['smap'].serverTransactions:
                listed.add(id(tr))
        return sum(1 for (_, _, task) in self.tm.tasks if hasattr(task, 'ssmSAP') and id(task) not in listed)

    # ---- main loop
    def run(self, max_steps=20000):
        import bacpypes.core as core
        t = self.trace
        tm = self.tm
        steps = 0
        while True:
            steps += 1
            if steps > max_steps:
                t.livelock = True
                break
            if self.inflight:
                kind, what = self.inflight.pop(0)
                if kind == 'frame':
                    fr = t.frames[what]
                    self.deliver_octets(fr['src'], fr['dst'], fr['encoded'], what)
                else:
                    self.do_inject(what)
            else:
                cand = []
                if self.delayed:
                    cand.append((self.delayed[0][0], 0))
                if tm.tasks:
                    cand.append((tm.tasks[0][0], 1))
                if not cand:
                    break
                when, which = min(cand)
                if when > NOW[0]:
                    NOW[0] = when
                if which == 0:
                    _, _, kind, what = heapq.heappop(self.delayed)
                    if kind == 'frame':
                        fr = t.frames[what]
                        self.deliver_octets(fr['src'], fr['dst'], fr['encoded'], what)
                    elif kind == 'submit':
                        self.submit(what)
                    elif kind == 'respond':
                        self.respond(what)
                    elif kind == 'inject':
                        self.do_inject(what)
                    elif kind == 'iam':
                        self.do_iam(what)
                else:
                    task, _ = tm.get_next_task()
                    if task is not None:
                        owner = self.owner_of(task)
                        t.ev('fire', ms(NOW[0]), owner[0], owner[1], owner[2], owner[3], owner[4])
                        try:
                            tm.process_task(task)
                        except Exception as e:
                            self.exn(e, 'timer', owner[0])
            while core.deferredFns:
                fn, args, kwargs = core.deferredFns.pop(0)
                try:
                    fn(*args, **kwargs)
                except Exception as e:
                    self.exn(e, 'deferred', -1)
            t.ev('state', ms(NOW[0]), self.snapshot(), self.orphan_timers(), self.refcounts())
        t.steps = steps
        t.end_t = ms(NOW[0])
        t.residue = {'snapshot': self.snapshot(), 'tasks': len(tm.tasks), 'inflight': len(self.inflight),
                     'delayed': len(self.delayed), 'records': self.records(), 'refcounts': self.refcounts()}
        return t

    def owner_of(self, task):
        """(node, role, peer, invoke, state) of the transaction a timer belongs to"""
        ssap = getattr(task, 'ssmSAP', None)
        for addr, n in self.nodes.items():
            if n.get('smap') is ssap and ssap is not None:
                role = 'c' if type(task).__name__ == 'ClientSSM' else 's'
                return (addr, role, addr_no(task.pdu_address), -1 if task.invokeID is None else task.invokeID, task.state)
        return (-1, '?', -1, -1, -1)


def run_scenario(spec, max_steps=20000):
    w = World(spec)
    tr = w.run(max_steps)
    tr.world = w
    return tr


# ---------------------------------------------------------------------------------------------
# analysis helpers shared by the four direct predicates

def two_nodes(cmax=50, smax=50, cseg='segmentedBoth', sseg='segmentedBoth', cwin=2, swin=2, retries=3,
              cmaxsegs=64, smaxsegs=64, know=True, **kw):
    """client = node 1, server = node 2; each knows the other's I-Am data when know=True"""
    c = node_cfg(1, maxApdu=cmax, seg=cseg, window=cwin, retries=retries, maxSegs=cmaxsegs, **kw)
    s = node_cfg(2, maxApdu=smax, seg=sseg, window=swin, retries=retries, maxSegs=smaxsegs, **kw)
    if know:
        c['know'] = {2: {'maxApdu': smax, 'seg': sseg, 'maxSegs': smaxsegs}}
        s['know'] = {1: {'maxApdu': cmax, 'seg': cseg, 'maxSegs': cmaxsegs}}
    return [c, s]


def outcomes(trace, node):
    return [e for e in trace.events if e[0] == 'conf' and e[2] == node]


def indications(trace, node):
    return [e for e in trace.events if e[0] == 'ind' and e[2] == node]


def frame_role(fr):
    """classify a frame: 'req', 'req-seg', 'cack', 'cack-seg', 'segack-c' (sent by client i.e. srv=0),
    'segack-s', 'sack', 'error', 'reject', 'abort'"""
    h = fr['hdr']
    ty = h['type']
    if ty == 0:
        return 'req-seg' if h['seg'] == 1 else 'req'
    if ty == 3:
        return 'cack-seg' if h['seg'] == 1 else 'cack'
    if ty == 4:
        return 'segack-s' if h['srv'] == 1 else 'segack-c'
    return {2: 'sack', 5: 'error', 6: 'reject', 7: 'abort', 1: 'unconf'}.get(ty, 'other')


def describe_frame(trace, idx):
    """position of a frame inside its transfer, computed from the fault-free prefix of the trace"""
    fr = trace.frames[idx]
    role = frame_role(fr)
    h = fr['hdr']
    d = {'role': role, 'seq': h['seq'], 'mor': h['mor'], 'nak': h['nak']}
    if role in ('req-seg', 'cack-seg'):
        d['pos'] = 'first' if h['seq'] == 0 and not any(
            f['hdr']['type'] == h['type'] and f['hdr']['seg'] == 1 and f['src'] == fr['src'] and f['idx'] < idx and f['hdr']['invoke'] == h['invoke']
            for f in trace.frames) else ('last' if h['mor'] == 0 else 'middle')
    if role in ('segack-c', 'segack-s'):
        prior = [f for f in trace.frames if f['idx'] < idx and frame_role(f) == role and f['src'] == fr['src'] and f['hdr']['invoke'] == h['invoke']]
        d['pos'] = 'first' if not prior else 'later'
    return d


# ---------------------------------------------------------------------------------------------
# canonical form of a trace (list of ints) — what the Coq world model must reproduce

def cksum(data):
    """order-sensitive checksum of a payload (same definition in Ssm.v: cksum)"""
    a = 0
    for i, b in enumerate(data):
        a = (a * 31 + b + 1) % 1000003
    return a


HDR_KEYS = ['type', 'seg', 'mor', 'sa', 'srv', 'nak', 'seq', 'win', 'maxsegs', 'maxresp', 'service', 'invoke', 'reason']
WHERE = {'rx': 0, 'timer': 1, 'respond': 2, 'submit': 3, 'decode': 4, 'deferred': 5, 'iam': 6}


def canon_trace(tr):
    out = []
    for e in tr.events:
        k = e[0]
        if k == 'submit':
            _, t, src, dst, no, inv, code, live = e
            out += [10, t, src, dst, no, inv, code]
        elif k == 'tx':
            _, t, idx, src, dst = e
            fr = tr.frames[idx]
            out += [11, t, src, dst] + [fr['hdr'][h] for h in HDR_KEYS] + [len(fr['data']), cksum(fr['data']), fr['enc_len']]
        elif k == 'ind':
            _, t, node, src, ty, inv, data, reason = e
            out += [12, t, node, src, ty, inv, len(data), cksum(data), reason]
        elif k == 'conf':
            _, t, node, src, ty, inv, data, reason = e
            out += [13, t, node, src, ty, inv, len(data), cksum(data), reason]
        elif k == 'fire':
            _, t, node, role, peer, inv, state = e
            out += [14, t, node, 0 if role == 'c' else 1, peer, inv, state]
        elif k == 'exn':
            _, t, code, where, node = e
            out += [15, t, code, WHERE.get(where, 9), node]
    snap = tr.residue['snapshot']
    out += [16, tr.end_t, 1 if tr.livelock else 0, len(snap)]
    for (addr, role, peer, inv, state, armed) in snap:
        out += [addr, 0 if role == 'c' else 1, peer, inv, state, armed]
    return out


# ---------------------------------------------------------------------------------------------
# the four direct predicates, evaluated on an implementation trace

def _req_by_no(tr):
    return {i: dict(r, no=i) for i, r in enumerate(tr.spec.get('requests') or [])}


def _cfg(tr, addr):
    for c in tr.spec['nodes']:
        if c['addr'] == addr:
            return c
    return None


def request_outcomes(tr):
    """map request number -> list of conf events; also returns unmatched confs"""
    live = {}
    res = {}
    unmatched = []
    sub = {}
    for pos, e in enumerate(tr.events):
        if e[0] == 'submit':
            _, t, src, dst, no, inv, code, _live = e
            sub[no] = (pos, e)
            res.setdefault(no, [])
            if code == 0 and inv >= 0:
                live[(src, dst, inv)] = no
        elif e[0] == 'conf':
            _, t, node, src, ty, inv, data, reason = e
            no = live.get((node, src, inv))
            if no is None:
                unmatched.append((pos, e))
            else:
                res[no].append((pos, e))
    return res, unmatched, sub


def expected_response(tr, r):
    """what the server application answers to request record r: (apdu type, payload or None, reason or None)"""
    kind = r.get('resp', ['simple'])[0]
    if kind == 'simple':
        return (2, b'', None)
    if kind == 'complex':
        return (3, resp_payload(r['no'], r['dst'], r['resp'][1]), None)
    if kind == 'error':
        return (5, resp_payload(r['no'], r['dst'], r['resp'][1]), None)
    if kind == 'reject':
        return (6, b'', r['resp'][1])
    if kind == 'abort':
        return (7, b'', r['resp'][1])
    return None


def nsegs(n, sz):
    return 1 if n == 0 else (n + sz - 1) // sz


def time_bound(tr, r):
    """generous bound on the time to the outcome of request r (C04 'bounded by the configured timeouts and retry count')"""
    c = _cfg(tr, r['src'])
    s = _cfg(tr, r['dst']) or c
    R = c['retries']
    ta, ts = c['apduTimeout'], c['segTimeout']
    tso = max(ts, s['segTimeout'])
    rl = r['len']
    pl = r['resp'][1] if r.get('resp', ['simple'])[0] in ('complex', 'error') else 0
    segs = nsegs(rl, 50) + nsegs(pl, 50) + 2
    delays = sum(sum(v) for v in (tr.spec.get('faults') or {}).values()) + max(r.get('resp_delay', 0), 0)
    k = sum(1 for e in tr.events if e[0] == 'rx' and e[4] == r['src'])
    return (R + 1) * ta + (R + 1) * (R + 1) * segs * tso + delays + k * max(ta, tso) + s['appTimeout']


def _is_abort_echo(tr, pos, fr):
    """ServerSSM.segmented_request/segmented_response send a client's Abort straight back (same srv bit): such a frame belongs
    to the serving role of the node although its srv bit is 0"""
    if fr['hdr']['type'] != 7:
        return False
    q = pos - 1
    while q >= 0 and tr.events[q][0] != 'state':
        e = tr.events[q]
        if e[0] == 'rx':
            h = _rx_hdr(tr, e[2])
            return bool(h) and h['type'] == 7 and h['invoke'] == fr['hdr']['invoke'] and e[3] == fr['dst'] and e[4] == fr['src']
        q -= 1
    return False


def check_c04(tr):
    f = []
    if tr.livelock:
        f.append({'kind': 'livelock', 'steps': tr.steps})
    res, unmatched, sub = request_outcomes(tr)
    reqs = _req_by_no(tr)
    for no, (pos, e) in sub.items():
        _, t, src, dst, _no, inv, code, _live = e
        r = reqs[no]
        outs = res.get(no, [])
        if code != 0:
            # refused synchronously with an exception: that is the outcome
            if outs:
                f.append({'kind': 'outcome-after-refusal', 'req': no})
            continue
        if len(outs) == 0:
            f.append({'kind': 'no-outcome', 'req': no})
            continue
        if len(outs) > 1:
            f.append({'kind': 'multiple-outcomes', 'req': no, 'types': [o[1][4] for o in outs]})
        opos, o = outs[0]
        if o[4] not in (2, 3, 5, 6, 7):
            f.append({'kind': 'outcome-of-wrong-kind', 'req': no, 'type': o[4]})
        if o[1] - t > time_bound(tr, r):
            f.append({'kind': 'outcome-too-late', 'req': no, 'took_ms': o[1] - t, 'bound_ms': time_bound(tr, r)})
        # after the outcome: no client-originated frame for it, transaction gone
        nxt = [p for n2, (p, e2) in sub.items() if p > opos and e2[2] == src and e2[3] == dst and e2[5] == inv]
        until = min(nxt) if nxt else len(tr.events)
        for p in range(opos + 1, until):
            e2 = tr.events[p]
            if e2[0] == 'tx':
                fr = tr.frames[e2[2]]
                h = fr['hdr']
                if fr['src'] == src and fr['dst'] == dst and h['invoke'] == inv and \
                        (h['type'] == 0 or (h['type'] in (4, 7) and h['srv'] == 0)) and not _is_abort_echo(tr, p, fr):
                    f.append({'kind': 'frame-after-outcome', 'req': no, 'frame': e2[2], 'role': frame_role(fr)})
                    break
            if e2[0] == 'state' and p == opos + 1 or (e2[0] == 'state' and all(tr.events[q][0] != 'state' for q in range(opos + 1, p))):
                for (addr, role, peer, i2, state, armed) in e2[2]:
                    if addr == src and role == 'c' and peer == dst and i2 == inv:
                        f.append({'kind': 'transaction-kept-after-outcome', 'req': no, 'state': state, 'armed': armed})
    for (pos, e) in unmatched:
        f.append({'kind': 'outcome-without-request', 'node': e[2], 'src': e[3], 'invoke': e[5], 'type': e[4]})
    # bounded time: when a time-out is processed no other transaction's timer is overdue (armed for an earlier instant)
    snap = ()
    for e in tr.events:
        if e[0] == 'state':
            snap = e[2]
        elif e[0] == 'fire':
            over = [x for x in snap if x[5] != -1 and x[5] < e[1]]
            if over:
                f.append({'kind': 'timer-overdue', 't': e[1], 'fired': list(e[2:7]), 'overdue': [list(x) for x in over[:3]]})
                break
    # a transaction that left its table keeps no timer
    for e in tr.events:
        if e[0] == 'state' and len(e) > 3 and e[3]:
            f.append({'kind': 'timer-kept-after-removal', 't': e[1], 'timers': e[3]})
            break
    # the cache's bookkeeping of who uses a peer's record follows the transactions: at every step the reference count of a
    # record equals the number of live transactions holding it (so the release at the end of a transaction can never fail
    # and pre-empt the delivery of the outcome), and nothing stays referenced at quiescence
    for e in tr.events:
        if e[0] == 'state' and len(e) > 4:
            bad = [list(x) for x in e[4] if x[2] != x[3]]
            if bad:
                f.append({'kind': 'record-refcount-differs-from-live-transactions', 't': e[1], 'records': bad[:4]})
                break
    if not tr.livelock and not tr.residue['snapshot']:
        left = [list(x) for x in tr.residue.get('refcounts', ()) if x[2] != 0]
        if left:
            f.append({'kind': 'residue-record-references', 'records': left[:4]})
    # the retry count is respected: an unsegmented request is put on the wire at most retries + 1 times
    sent = {}
    for fr in tr.frames:
        h = fr['hdr']
        c = _cfg(tr, fr['src'])
        if h['type'] == 0 and h['seg'] == 0 and c is not None and not c.get('raw'):
            no = _req_at(_submit_lookup(tr), (fr['src'], fr['dst'], h['invoke']), next(p for p, e in enumerate(tr.events) if e[0] == 'tx' and e[2] == fr['idx']))
            sent[no] = sent.get(no, 0) + 1
            if no is not None and sent[no] == c['retries'] + 2:
                f.append({'kind': 'more-transmissions-than-retries', 'req': no, 'retries': c['retries'], 'frame': fr['idx']})
    if not tr.livelock:
        if tr.residue['snapshot']:
            f.append({'kind': 'residue-transactions', 'residue': list(tr.residue['snapshot'])})
        if tr.residue['tasks']:
            f.append({'kind': 'residue-timers', 'tasks': tr.residue['tasks']})
    for x in tr.exns:
        if x[2] == 'submit':
            continue
        f.append({'kind': 'exception', 'class': x[3], 'where': x[2], 'node': x[4], 'msg': x[5], 't': x[0]})
    return f


def _submit_lookup(tr):
    """(src, dst, invoke) -> list of (event position, request no) in submission order"""
    m = {}
    for pos, e in enumerate(tr.events):
        if e[0] == 'submit' and e[6] == 0:
            m.setdefault((e[2], e[3], e[5]), []).append((pos, e[4]))
    return m


def _req_at(m, key, pos):
    cands = [no for (p, no) in m.get(key, []) if p <= pos]
    return cands[-1] if cands else None


def transfers(tr):
    """segmented transfers on the wire: key (src, dst, invoke, type, request no) -> list of frame indices"""
    out = {}
    m = _submit_lookup(tr)
    txpos = {e[2]: pos for pos, e in enumerate(tr.events) if e[0] == 'tx'}
    rm = {}
    for pos, e in enumerate(tr.events):
        if e[0] == 'respond':
            rm.setdefault((e[2], e[3], e[4]), []).append((pos, e[5]))
    for fr in tr.frames:
        h = fr['hdr']
        if h['type'] in (0, 3) and h['seg'] == 1 and not (_cfg(tr, fr['src']) or {}).get('raw'):
            ty = h['type']
            if ty == 0:
                no = _req_at(m, (fr['src'], fr['dst'], h['invoke']), txpos[fr['idx']])
            else:
                # a response segment belongs to the request the server application answered last for this (client, id)
                no = _req_at(rm, (fr['src'], fr['dst'], h['invoke']), txpos[fr['idx']])
            out.setdefault((fr['src'], fr['dst'], h['invoke'], ty, no), []).append(fr['idx'])
    return out


def check_c05(tr):
    f = []
    reqs = _req_by_no(tr)
    m = _submit_lookup(tr)
    # 1. what reaches an application is exactly what was submitted
    for pos, e in enumerate(tr.events):
        if e[0] == 'ind' and e[4] == 0:
            _, t, node, src, ty, inv, data, reason = e
            no = _req_at(m, (src, node, inv), pos)
            if no is None:
                if not (_cfg(tr, src) or {}).get('raw'):
                    f.append({'kind': 'indication-without-request', 'node': node, 'src': src, 'invoke': inv})
                continue
            want = req_payload(no, reqs[no]['len'])
            # a late copy of an earlier request that used the same (client, id) is indistinguishable on the wire
            older = [req_payload(n2, reqs[n2]['len']) for (p2, n2) in m.get((src, node, inv), []) if p2 <= pos]
            if data != want and data not in older:
                f.append({'kind': 'request-payload-differs', 'req': no, 'got_len': len(data), 'want_len': len(want),
                          'first_diff': next((i for i in range(min(len(data), len(want))) if data[i] != want[i]), min(len(data), len(want)))})
        elif e[0] == 'conf' and e[4] in (3, 5):
            _, t, node, src, ty, inv, data, reason = e
            no = _req_at(m, (node, src, inv), pos)
            if no is None:
                continue
            exp = expected_response(tr, reqs[no])
            older = [expected_response(tr, reqs[n2]) for (p2, n2) in m.get((node, src, inv), []) if p2 <= pos]
            if (exp is None or exp[0] != ty or data != exp[1]) and not any(o is not None and o[0] == ty and o[1] == data for o in older):
                f.append({'kind': 'response-payload-differs', 'req': no, 'type': ty, 'got_len': len(data),
                          'want_len': len(exp[1]) if exp else -1})
    # 2. wire discipline of every segmented transfer
    delivered_at = {}     # frame idx -> list of event positions where it was delivered
    txpos = {}
    injected = []
    for pos, e in enumerate(tr.events):
        if e[0] == 'rx' and not isinstance(e[2], int):
            h = _hdr_from_octets(bytes.fromhex(e[2][1]))
            if h is not None:
                injected.append((pos, e[3], e[4], h))
        if e[0] == 'rx' and isinstance(e[2], int):
            delivered_at.setdefault(e[2], []).append(pos)
        elif e[0] == 'tx':
            txpos[e[2]] = pos
    for (src, dst, inv, ty, no), idxs in transfers(tr).items():
        if no is None:
            continue
        full = req_payload(no, reqs[no]['len']) if ty == 0 else (expected_response(tr, reqs[no]) or (0, b''))[1]
        sizes = set(len(tr.frames[i]['data']) for i in idxs if tr.frames[i]['hdr']['mor'] == 1)
        if len(sizes) > 1:
            f.append({'kind': 'segment-sizes-differ', 'req': no, 'sizes': sorted(sizes)})
            continue
        sz = sizes.pop() if sizes else max(1, len(full))
        if sz == 0:
            f.append({'kind': 'empty-segment', 'req': no})
            continue
        n = nsegs(len(full), sz)
        # acknowledgements the sender has received so far (by event position)
        acks = []
        for fr in tr.frames:
            h = fr['hdr']
            if h['type'] == 4 and fr['src'] == dst and fr['dst'] == src and h['invoke'] == inv and h['srv'] == (1 if ty == 0 else 0):
                for p in delivered_at.get(fr['idx'], []):
                    acks.append((p, h['seq'], h['win'], h['nak']))
        for (p, isrc, idst, h) in injected:
            if h['type'] == 4 and isrc == dst and idst == src and h['invoke'] == inv and h['srv'] == (1 if ty == 0 else 0):
                acks.append((p, h['seq'], h['win'], h['nak']))
        acks.sort()
        hi = -1          # highest segment index sent so far
        for i in idxs:
            fr = tr.frames[i]
            h = fr['hdr']
            cands = [j for j in range(h['seq'], n, 256) if full[j * sz:(j + 1) * sz] == fr['data'] and (1 if j < n - 1 else 0) == h['mor']]
            if not cands:
                f.append({'kind': 'segment-not-a-slice', 'req': no, 'frame': i, 'seq': h['seq'], 'mor': h['mor'], 'len': len(fr['data']),
                          'segsize': sz, 'nsegs': n})
                continue
            # the index meant: nearest to the progress so far
            j = min(cands, key=lambda c: abs(c - max(hi, 0)))
            # window: j must lie within (last acknowledged index, last acknowledged + window]
            seen = [a for a in acks if a[0] < txpos[i]]
            if not seen:
                if j != 0:
                    f.append({'kind': 'segment-before-first-ack', 'req': no, 'frame': i, 'index': j})
            else:
                # acknowledgements are cumulative: the base is the highest index acknowledged so far (a late copy of an
                # old ack does not move it back); the window is the one announced by the newest ack
                awin = seen[-1][2]
                base = max(min(range(a[1], n + 256, 256), key=lambda c: abs(c - j)) for a in seen)
                if not (j <= base + awin) and not (j == 0):
                    f.append({'kind': 'window-exceeded', 'req': no, 'frame': i, 'index': j, 'acked': base, 'window': awin})
            hi = max(hi, j)
    return f


def check_c11(tr):
    f = []
    reqs = _req_by_no(tr)
    m = _submit_lookup(tr)
    # fresh invoke ids
    for e in tr.events:
        if e[0] == 'submit':
            _, t, src, dst, no, inv, code, live = e
            if code == 0 and (dst, inv) in live:
                f.append({'kind': 'invoke-id-reused-while-live', 'req': no, 'invoke': inv, 'peer': dst})
            if code != 0 and reqs[no].get('invoke') is None and len([1 for (p, i) in live if p == dst]) < 255:
                f.append({'kind': 'request-refused-with-free-ids', 'req': no, 'code': code, 'live': len(live)})
    # replies reach only the request they answer, and carry its answer
    res, unmatched, sub = request_outcomes(tr)
    for no, outs in res.items():
        r = reqs[no]
        for (pos, o) in outs:
            _, t, node, src, ty, inv, data, reason = o
            if src != r['dst']:
                f.append({'kind': 'outcome-from-other-peer', 'req': no, 'src': src})
            # the answer to this request, or (a late copy of) the answer to an earlier request that used the same (peer, id):
            # those two cannot be told apart on the wire
            exps = [expected_response(tr, reqs[n2]) for (p2, n2) in m.get((r['src'], r['dst'], inv), []) if p2 <= pos]
            if ty in (3, 5):
                if not any(e is not None and e[0] == ty and e[1] == data for e in exps):
                    f.append({'kind': 'outcome-is-not-the-answer-to-this-request', 'req': no, 'type': ty})
            if ty in (2, 6) and not any(e is not None and e[0] == ty for e in exps):
                f.append({'kind': 'outcome-is-not-the-answer-to-this-request', 'req': no, 'type': ty})
    for (pos, e) in unmatched:
        f.append({'kind': 'reply-delivered-without-live-request', 'node': e[2], 'src': e[3], 'invoke': e[5], 'type': e[4]})
    # step-wise: an inbound PDU touches only the transaction with its (peer, invoke id)
    prev = ()
    cur_rx = None
    touched_conf = []
    step_submits = []
    for pos, e in enumerate(tr.events):
        if e[0] == 'rx':
            cur_rx = e
            touched_conf = []
            step_submits = []
        elif e[0] == 'submit' and cur_rx is not None:
            step_submits.append((e[2], 'c', e[3], e[5]))      # the application's own doing inside this step (request chaining)
        elif e[0] in ('submit', 'fire', 'respond'):
            cur_rx = None
        elif e[0] in ('conf', 'ind') and cur_rx is not None:
            touched_conf.append(e)
        elif e[0] == 'state':
            snap = e[2]
            if cur_rx is not None:
                _, t, tag, src, dst = cur_rx
                if isinstance(tag, int):
                    h = tr.frames[tag]['hdr']
                else:
                    h = _hdr_from_octets(bytes.fromhex(tag[1]))
                if h is not None and h['type'] != 1:
                    inv = h['invoke']
                    ty = h['type']
                    client_side = ty in (2, 3, 5, 6) or (ty in (4, 7) and h['srv'] == 1)
                    role = 'c' if client_side else 's'
                    before = {(a, ro, p, i): (st, arm) for (a, ro, p, i, st, arm) in prev}
                    after = {(a, ro, p, i): (st, arm) for (a, ro, p, i, st, arm) in snap}
                    for k in set(before) | set(after):
                        if before.get(k) != after.get(k) and k != (dst, role, src, inv) and k not in step_submits:
                            # the server application may answer inside the same step: that changes only the same key too
                            f.append({'kind': 'pdu-touched-other-transaction', 'pdu': [ty, src, inv], 'touched': list(k),
                                      'before': before.get(k), 'after': after.get(k)})
                    if client_side and sum(1 for c in touched_conf if c[0] == 'conf' and (c[3], c[5]) == (src, inv)) > 1:
                        f.append({'kind': 'one-reply-completed-two-requests', 'pdu': [ty, src, inv]})
                    for c in touched_conf:
                        if c[0] == 'conf' and (c[3], c[5]) != (src, inv):
                            f.append({'kind': 'pdu-completed-other-request', 'pdu': [ty, src, inv], 'outcome_for': [c[3], c[5]]})
                        if c[0] == 'ind' and c[4] == 0:
                            st = before.get((dst, 's', src, inv))
                            if st is not None and st[0] == 3:
                                f.append({'kind': 'duplicate-request-reindicated', 'node': dst, 'src': src, 'invoke': inv})
                    if client_side and (dst, 'c', src, inv) not in before and (touched_conf or before != after):
                        f.append({'kind': 'reply-without-live-transaction-had-effect', 'pdu': [ty, src, inv]})
            prev = snap
            cur_rx = None
    return f


def _hdr_from_octets(octets):
    from bacpypes.apdu import APDU
    from bacpypes.pdu import PDU
    try:
        a = APDU()
        a.decode(PDU(octets))
        return hdr_of(a)
    except Exception:
        return None


def raw_hdr(octets):
    """fixed APDU header read straight from the octets (ASHRAE 135 clause 20.1), independent of bacpypes' APCI.decode:
    C12 judges what a peer announced by what it put on the wire, not by what the library made of it"""
    h = {k: -1 for k in HDR_KEYS}
    b = bytes(octets)
    if not b:
        return None
    ty = b[0] >> 4
    h['type'] = ty
    try:
        if ty == 0:
            h['seg'], h['mor'], h['sa'] = (b[0] >> 3) & 1, (b[0] >> 2) & 1, (b[0] >> 1) & 1
            h['maxsegs'], h['maxresp'], h['invoke'] = (b[1] >> 4) & 7, b[1] & 15, b[2]
            if h['seg']:
                h['seq'], h['win'], h['service'] = b[3], b[4], b[5]
            else:
                h['service'] = b[3]
        elif ty == 1:
            h['service'] = b[1]
        elif ty == 2:
            h['invoke'], h['service'] = b[1], b[2]
        elif ty == 3:
            h['seg'], h['mor'], h['invoke'] = (b[0] >> 3) & 1, (b[0] >> 2) & 1, b[1]
            if h['seg']:
                h['seq'], h['win'], h['service'] = b[2], b[3], b[4]
            else:
                h['service'] = b[2]
        elif ty == 4:
            h['nak'], h['srv'], h['invoke'], h['seq'], h['win'] = (b[0] >> 1) & 1, b[0] & 1, b[1], b[2], b[3]
        elif ty == 5:
            h['invoke'], h['service'] = b[1], b[2]
        elif ty == 6:
            h['invoke'], h['reason'] = b[1], b[2]
        elif ty == 7:
            h['srv'], h['invoke'], h['reason'] = b[0] & 1, b[1], b[2]
        else:
            return None
    except IndexError:
        return None
    return h


def _rx_hdr(tr, tag):
    return raw_hdr(tr.frames[tag]['encoded']) if isinstance(tag, int) else raw_hdr(bytes.fromhex(tag[1]))


def _decode_maxresp(code):
    return MAX_APDUS[code] if 0 <= code < 6 else None


def _decode_maxsegs(code):
    return [None, 2, 4, 8, 16, 32, 64, None][code] if 0 <= code < 8 else None


def knowledge_states(tr, node, peer, pos_from, pos_to):
    """what node holds about peer (I-Am data) at event position pos_from and every state it passes through up to pos_to"""
    c = _cfg(tr, node) or {}
    k0 = (c.get('know') or {}).get(peer) or (c.get('know') or {}).get(str(peer))
    cur = dict(k0) if k0 is not None else None
    states = []
    started = False
    for pos, e in enumerate(tr.events):
        if pos > pos_to:
            break
        if pos >= pos_from and not started:
            states.append(dict(cur) if cur is not None else None)
            started = True
        if e[0] == 'iam' and e[2] == node and e[3] == peer:
            cur = dict(cur) if cur is not None else {'maxSegs': None, 'maxNpdu': None}
            cur['maxApdu'], cur['seg'] = e[4], e[5]
            if started:
                states.append(dict(cur))
    if not started:
        states.append(dict(cur) if cur is not None else None)
    return states


def check_c12(tr):
    f = []
    # where an attempt of a request (re)starts: its submission, and every expiry of the client's timer in AWAIT_CONFIRMATION
    # (the whole request is issued again: ClientSSM re-evaluates sizes and capabilities then, so is it judged)
    sub_pos = {}
    for pos, e in enumerate(tr.events):
        if e[0] == 'submit':
            sub_pos.setdefault((e[2], e[3], e[5]), []).append(pos)
        elif e[0] == 'fire' and e[3] == 'c' and e[6] == 2:
            sub_pos.setdefault((e[2], e[4], e[5]), []).append(pos)
    last_req = {}        # (server, client, invoke) -> header of the request frame most recently delivered
    first_win = {}       # (receiver, sender, invoke, type) -> proposed window of the first segment delivered
    last_ack_win = {}
    pos_of_rx = []
    for pos, e in enumerate(tr.events):
        if e[0] == 'rx':
            _, t, tag, src, dst = e
            h = _rx_hdr(tr, tag)
            if h is None:
                continue
            if h['type'] == 0:
                last_req[(dst, src, h['invoke'])] = h
            if h['type'] in (0, 3) and h['seg'] == 1 and h['seq'] == 0:
                first_win[(dst, src, h['invoke'], h['type'])] = h['win']
            if h['type'] == 4:
                # (sender of the data, its peer, invoke, type of the data frames) -> window of the newest ack it has received
                last_ack_win[(dst, src, h['invoke'], 0 if h['srv'] == 1 else 3)] = h['win']
        elif e[0] == 'tx':
            fr = tr.frames[e[2]]
            h = raw_hdr(fr['encoded'])
            src, dst = fr['src'], fr['dst']
            c = _cfg(tr, src)
            if c is None or c.get('raw'):
                continue
            ty = h['type']
            resp_dir = ty in (2, 3, 5, 6) or (ty in (4, 7) and h['srv'] == 1)
            limit = None
            if resp_dir:
                rq = last_req.get((src, dst, h['invoke']))
                if rq is not None:
                    limit = _decode_maxresp(rq['maxresp'])
                    if ty == 3 and h['seg'] == 1:
                        if rq['sa'] != 1:
                            f.append({'kind': 'segmented-response-not-allowed', 'frame': fr['idx']})
            else:
                # what the sender held about the destination from the moment the request was submitted up to now: a frame
                # is judged against the most generous of those states (a transaction sized before a newer I-Am may go on)
                starts = [p for p in sub_pos.get((src, dst, h['invoke']), []) if p <= pos]
                states = knowledge_states(tr, src, dst, starts[-1] if starts else pos, pos)
                if all(k is not None and k.get('maxApdu') is not None for k in states):
                    limit = max(min(k['maxApdu'], k['maxNpdu']) if k.get('maxNpdu') is not None else k['maxApdu'] for k in states)
                if ty == 0 and h['seg'] == 1 and all(k is not None and k.get('seg') not in ('segmentedReceive', 'segmentedBoth') for k in states):
                    f.append({'kind': 'segmented-request-to-incapable-peer', 'frame': fr['idx'], 'peer_seg': states[-1].get('seg')})
            if limit is not None and fr['enc_len'] > limit:
                kk = (knowledge_states(tr, src, dst, pos, pos)[-1] or {})
                subs = [p for p in sub_pos.get((src, dst, h['invoke']), []) if p <= pos and tr.events[p][0] == 'submit']
                norec = bool(subs) and knowledge_states(tr, src, dst, subs[-1], subs[-1])[0] is None
                f.append({'kind': 'apdu-longer-than-peer-max', 'frame': fr['idx'], 'role': frame_role(fr), 'enc_len': fr['enc_len'],
                          'limit': limit, 'payload_len': len(fr['data']), 'resp_dir': resp_dir, 'src': src, 'dst': dst,
                          'sender_iam_value': kk.get('maxApdu'), 'no_record_at_submit': norec})
            if ty in (0, 3) and h['seg'] == 1 and h['seq'] != 0:
                lw = last_ack_win.get((src, dst, h['invoke'], ty))
                if lw is not None and h['win'] > lw:
                    f.append({'kind': 'segment-window-above-latest-ack', 'frame': fr['idx'], 'win': h['win'], 'latest_ack_window': lw})
            if (ty in (0, 3) and h['seg'] == 1) or ty == 4:
                if not (1 <= h['win'] <= 127):
                    f.append({'kind': 'window-out-of-range', 'frame': fr['idx'], 'role': frame_role(fr), 'win': h['win']})
            if ty == 4:
                # an ack answers the transfer (dst -> src); its window must not exceed the proposed one
                tty = 0 if h['srv'] == 1 else 3
                pw = first_win.get((src, dst, h['invoke'], tty))
                if pw is not None and h['win'] > pw:
                    f.append({'kind': 'window-larger-than-proposed', 'frame': fr['idx'], 'win': h['win'], 'proposed': pw})
    # the record of a peer says what its latest I-Am said, unless the peer itself set segmented-response-accepted in a request
    said_sa = set()
    for e in tr.events:
        if e[0] == 'rx':
            h = _rx_hdr(tr, e[2])
            if h and h['type'] == 0 and h['sa'] == 1:
                said_sa.add((e[4], e[3]))
    for (node, peer), (ma, sg) in sorted((tr.residue.get('records') or {}).items()):
        st = knowledge_states(tr, node, peer, len(tr.events), len(tr.events))[-1]
        if st is not None and (node, peer) not in said_sa and sg != st.get('seg'):
            f.append({'kind': 'record-changed-without-iam', 'node': node, 'peer': peer, 'record': sg, 'latest_iam': st.get('seg')})
    # "when a message cannot be sent within those limits the requester is told so with an abort instead"
    if not tr.livelock:
        res, unmatched, sub = request_outcomes(tr)
        for no, (pos, e) in sub.items():
            if e[6] == 0 and not res.get(no):
                sent_any = any(fr['src'] == e[2] and fr['dst'] == e[3] and fr['hdr']['type'] == 0 and fr['hdr']['invoke'] == e[5] for fr in tr.frames)
                if not sent_any:
                    f.append({'kind': 'requester-not-told', 'req': no})
    # number of segments of a response within the request's limit
    for (src, dst, inv, ty, _no), idxs in transfers(tr).items():
        if ty == 0:
            nseg = len(set(tr.frames[i]['hdr']['seq'] for i in idxs))
            p1 = next(p for p, e in enumerate(tr.events) if e[0] == 'tx' and e[2] == min(idxs))
            starts = [p for p in sub_pos.get((src, dst, inv), []) if p <= p1]
            states = knowledge_states(tr, src, dst, starts[-1] if starts else p1, p1)
            if all(k is not None and k.get('maxSegs') for k in states) and nseg > max(k['maxSegs'] for k in states) and nseg <= 256:
                f.append({'kind': 'more-request-segments-than-peer-accepts', 'invoke': inv, 'segments': nseg, 'limit': max(k['maxSegs'] for k in states)})
        if ty != 3:
            continue
        nseg = len(set(tr.frames[i]['hdr']['seq'] for i in idxs))
        # the request it answers: the last one delivered before the first response segment
        rq = None
        first_tx = min(idxs)
        for pos, e in enumerate(tr.events):
            if e[0] == 'tx' and e[2] == first_tx:
                break
            if e[0] == 'rx':
                h = _rx_hdr(tr, e[2])
                if h and h['type'] == 0 and e[3] == dst and e[4] == src and h['invoke'] == inv:
                    rq = h
        if rq is not None:
            ms_ = _decode_maxsegs(rq['maxsegs'])
            total = max((s for s in [nseg]), default=0)
            # count by what the full transfer would need: the highest index announced with more-follows = 0
            if ms_ is not None and total > ms_:
                f.append({'kind': 'more-segments-than-accepted', 'invoke': inv, 'segments': total, 'limit': ms_})
    return f


# ---------------------------------------------------------------------------------------------
# scenario generators (every random choice from the rng handed in)

TIMEOUTS = [250, 500, 1000, 1500, 3000]
FAULT_KINDS = {'drop': [], 'dup': [0, 0], 'delay125': [125], 'delay500': [500], 'delay2000': [2000], 'latedup': [0, 4000], 'dupdelay': [0, 125]}


def rand_nodes(rng, big=False, know=None, same_timeouts=None):
    pool = [50, 50, 50, 50, 128, 128, 206] + ([480, 1024, 1476] if big else [])
    cmax, smax = rng.choice(pool), rng.choice(pool)
    segs = rng.choice([('segmentedBoth', 'segmentedBoth')] * 6 + [(a, b) for a in SEG_NAMES for b in SEG_NAMES])
    retries = rng.choice([0, 1, 2, 3, 3])
    if same_timeouts is None:
        same_timeouts = rng.random() < 0.5
    ta, ts = rng.choice(TIMEOUTS), rng.choice(TIMEOUTS)
    nodes = two_nodes(cmax=cmax, smax=smax, cseg=segs[0], sseg=segs[1], cwin=rng.randrange(1, 9), swin=rng.randrange(1, 9),
                      retries=retries, cmaxsegs=rng.choice([0, 2, 4, 8, 64, 64, 64, 100]), smaxsegs=rng.choice([0, 2, 4, 8, 64, 64, 64, 100]),
                      know=(rng.random() < 0.6) if know is None else know, apduTimeout=ta, segTimeout=ts,
                      appTimeout=rng.choice([1000, 3000]))
    if not same_timeouts:
        nodes[1]['apduTimeout'], nodes[1]['segTimeout'] = rng.choice(TIMEOUTS), rng.choice(TIMEOUTS)
        nodes[1]['retries'] = rng.choice([0, 1, 2, 3])
    # sometimes what the peers know is not what the peers are (I-Am older than the configuration)
    if nodes[0]['know'] and rng.random() < 0.15:
        nodes[0]['know'][2]['maxApdu'] = rng.choice(pool)
        nodes[0]['know'][2]['seg'] = rng.choice(SEG_NAMES)
    if nodes[1]['know'] and rng.random() < 0.15:
        nodes[1]['know'][1]['maxApdu'] = rng.choice(pool)
    if nodes[1]['know'] and rng.random() < 0.15:
        nodes[1]['know'][1]['seg'] = rng.choice(SEG_NAMES)
    if nodes[0]['know'] and rng.random() < 0.2:
        nodes[0]['know'][2]['maxNpdu'] = rng.choice([50, 128, 206])
    if nodes[0]['know'] and rng.random() < 0.3:
        nodes[0]['know'][2]['maxSegs'] = None
    return nodes


def boundary_len(rng, sz):
    return rng.choice([0, 1, 2, sz - 1, sz, sz + 1, 2 * sz - 1, 2 * sz, 2 * sz + 1, 3 * sz, 3 * sz + 1, 4 * sz, 4 * sz + 1, 4 * sz + 2,
                       rng.randrange(0, 4 * sz + 3), rng.randrange(0, 4 * sz + 3)])


def rand_request(rng, nodes, t=0, src=1, dst=2, kinds=None):
    c = [n for n in nodes if n['addr'] == src][0]
    s = [n for n in nodes if n['addr'] == dst][0]
    k = (c.get('know') or {}).get(dst)
    rsz = (k or {}).get('maxApdu') or c['maxApdu']
    kind = rng.choice(kinds or ['complex'] * 6 + ['simple', 'simple', 'error', 'reject', 'abort', 'silent'])
    resp = {'complex': lambda: ['complex', boundary_len(rng, min(c['maxApdu'], 1476))], 'simple': lambda: ['simple'],
            'error': lambda: ['error', rng.randrange(0, 12)], 'reject': lambda: ['reject', rng.randrange(0, 10)],
            'abort': lambda: ['abort', rng.randrange(0, 12)], 'silent': lambda: ['silent']}[kind]()
    r = {'t': t, 'src': src, 'dst': dst, 'len': boundary_len(rng, rsz) if rng.random() < 0.7 else rng.randrange(0, 40),
         'service': rng.choice([12, 14, 15, 18]), 'resp': resp, 'resp_delay': rng.choice([0] * 8 + [125, 4000])}
    return r


def rand_faults(rng, nframes, k):
    faults = {}
    for _ in range(k):
        faults[rng.randrange(0, max(1, nframes + 2))] = list(FAULT_KINDS[rng.choice(list(FAULT_KINDS))])
    return faults


def gen_transaction(rng, big=False, maxfaults=2):
    """one confirmed request between two nodes under up to `maxfaults` faults (or silence from some frame on)"""
    nodes = rand_nodes(rng, big=big)
    spec = {'nodes': nodes, 'requests': [rand_request(rng, nodes)]}
    base = run_scenario(spec)
    n = len(base.frames)
    u = rng.random()
    if u < 0.15:
        pass
    elif u < 0.25:
        spec['silence'] = rng.randrange(0, n + 1)
    else:
        spec['faults'] = rand_faults(rng, n, 1 if rng.random() < 0.5 else maxfaults)
    return spec


def single_fault_family(rng, nodes=None, req=None, kinds=('drop', 'dup', 'delay500', 'latedup')):
    """fault-free baseline + every single fault at every frame index"""
    nodes = nodes or rand_nodes(rng, same_timeouts=True)
    if req is None:
        req = rand_request(rng, nodes, kinds=['complex'] * 4 + ['simple'])
        req['resp_delay'] = 0        # the application answers at once: only the network misbehaves
    spec = {'nodes': nodes, 'requests': [req]}
    base = run_scenario(spec)
    out = [(spec, None, base)]
    for i in range(len(base.frames)):
        for k in kinds:
            out.append((dict(spec, faults={i: list(FAULT_KINDS[k])}), (k, i), base))
    return out


def gen_concurrent(rng, nreq=None, npeers=None):
    """1..40 concurrent requests from node 1 over 1..4 servers (and sometimes a second client using the same ids),
    late/duplicate/foreign replies injected"""
    npeers = npeers or rng.randrange(1, 5)
    nreq = nreq or rng.choice([1, 2, 3, 5, 8, 13, 20, 40])
    cmax = rng.choice([50, 128, 206])
    retries = rng.choice([0, 1, 3])
    ta, ts = rng.choice([1000, 3000]), rng.choice([500, 1500])
    mk = lambda a: node_cfg(a, maxApdu=cmax, window=rng.randrange(1, 5), retries=retries, apduTimeout=ta, segTimeout=ts,
                            appTimeout=3000)
    nodes = [mk(1)] + [mk(10 + i) for i in range(npeers)]
    clients = [1]
    if rng.random() < 0.4:
        nodes.append(mk(2))
        clients.append(2)
    reqs = []
    forced = rng.random() < 0.4
    for i in range(nreq):
        src = rng.choice(clients)
        dst = 10 + rng.randrange(npeers)
        kind = rng.choice(['complex'] * 4 + ['simple', 'error', 'silent', 'reject'])
        resp = ['complex', rng.choice([3, 10, cmax - 1, cmax + 1, 2 * cmax + 3])] if kind == 'complex' else \
            ['error', 4] if kind == 'error' else ['reject', 3] if kind == 'reject' else [kind]
        r = {'t': rng.choice([0, 0, 0, 125, 250, 1000]), 'src': src, 'dst': dst, 'len': rng.choice([2, 5, 20, cmax + 5, 2 * cmax + 1]),
             'service': 12, 'resp': resp, 'resp_delay': rng.choice([0, 0, 125, 500, 4000])}
        if forced and rng.random() < 0.5:
            r['invoke'] = rng.choice([1, 2, 3, 7])        # application-chosen ids, collisions across peers (and sometimes within)
        reqs.append(r)
    spec = {'nodes': nodes, 'requests': reqs}
    base = run_scenario(spec)
    n = len(base.frames)
    if rng.random() < 0.7 and n:
        spec['faults'] = rand_faults(rng, n, rng.randrange(1, 4))
    # forged replies: from a peer that was not asked, with an id that is not live, or long after completion
    inj = []
    for _ in range(rng.randrange(0, 4)):
        ty = rng.choice([2, 3, 5, 6, 7, 4])
        # a peer that was never asked (98, 99) with an id that may well be live; or a real peer with an id never allocated
        isrc = rng.choice([98, 99, 99] + [10 + i for i in range(npeers)])
        fr = {'type': ty, 'invoke': rng.choice([1, 2, 3, 4, 9]) if isrc >= 98 else rng.choice([200, 201, 250]), 'service': 12}
        if ty == 3:
            fr.update(seg=rng.random() < 0.3, mor=False, data='aabbcc')
            if fr['seg']:
                fr.update(seq=rng.choice([0, 1]), win=2, mor=rng.random() < 0.5)
        if ty == 5:
            fr['data'] = '9100'
        if ty in (6, 7):
            fr['reason'] = 4
        if ty == 7:
            fr['srv'] = rng.random() < 0.8
        if ty == 4:
            fr.update(nak=False, srv=rng.random() < 0.7, seq=rng.choice([0, 1, 5]), win=rng.choice([1, 2, 4]))
        where = {'after': rng.randrange(0, n + 1)} if n and rng.random() < 0.6 else {'t': rng.choice([0, 125, 9000, 20000])}
        inj.append(dict(where, src=isrc, dst=rng.choice(clients), frame=fr))
    if inj:
        spec['inject'] = inj
    return spec


def gen_wrap(rng):
    """more than 256 requests in sequence to one peer with a few long-lived ones in between: counter wrap-around"""
    nodes = [node_cfg(1, retries=0, apduTimeout=1000), node_cfg(10, appTimeout=250000), node_cfg(11)]
    reqs = []
    t = 0
    stuck = set(rng.sample(range(0, 60), 5))
    for i in range(rng.choice([258, 300])):
        slow = i in stuck
        reqs.append({'t': t, 'src': 1, 'dst': 10 if (slow or rng.random() < 0.8) else 11, 'len': 3, 'service': 12,
                     'resp': ['simple'], 'resp_delay': 200000 if slow else 0})
        t += 125
    nodes[0]['apduTimeout'] = 250000
    return {'nodes': nodes, 'requests': reqs}


def gen_chained(rng):
    """re-entrant client application: its confirmation callback submits the next request at once, to the same peer and with
    the SAME application-chosen invoke id, while other transactions created later (any peer) are still outstanding"""
    cmax = rng.choice([50, 128])
    mk = lambda a: node_cfg(a, maxApdu=cmax, window=2, retries=rng.choice([0, 1]), apduTimeout=rng.choice([1000, 3000]), segTimeout=500, appTimeout=6000)
    nodes = [mk(1), mk(10), mk(11)]
    inv = rng.choice([3, 7, 200])
    kind = lambda: rng.choice([['simple'], ['complex', rng.choice([4, cmax + 9])], ['error', 4]])
    reqs = [{'t': 0, 'src': 1, 'dst': 10, 'len': rng.choice([3, 9]), 'service': 12, 'resp': kind(), 'resp_delay': rng.choice([250, 500]), 'invoke': inv}]
    for k in range(rng.choice([1, 2, 3])):
        # created after the first, still outstanding when the first is answered
        r = {'t': rng.choice([0, 125]), 'src': 1, 'dst': rng.choice([10, 11]), 'len': 4, 'service': 12, 'resp': kind(), 'resp_delay': rng.choice([2000, 4000])}
        if rng.random() < 0.5:
            r['invoke'] = rng.choice([i for i in (1, 2, 9, 201) if i != inv])
        reqs.append(r)
    chains = []
    prev_inv, prev_peer = inv, 10
    for k in range(rng.choice([1, 1, 2])):
        same = rng.random() < 0.8
        nr = {'t': -1, 'src': 1, 'dst': 10 if same or rng.random() < 0.5 else 11, 'len': rng.choice([5, cmax + 3]), 'service': 12, 'resp': kind(),
              'resp_delay': rng.choice([0, 250]), 'invoke': prev_inv if same else rng.choice([prev_inv, None, 77])}
        reqs.append(nr)
        chains.append({'node': 1, 'peer': prev_peer, 'invoke': prev_inv, 'no': len(reqs) - 1})
        if nr['invoke'] is None:
            break
        prev_inv, prev_peer = nr['invoke'], nr['dst']
    spec = {'nodes': nodes, 'requests': reqs, 'chains': chains}
    if rng.random() < 0.3:
        n = len(run_scenario(spec).frames)
        spec['faults'] = rand_faults(rng, n, 1)
    return spec


def gen_wrap_run(rng):
    """the allocation cursor comes back to a RUN of live ids that straddles 255 -> 0: requests number 254.. (ids 255, 0, 1 ..) or
    253.. (254, 255, 0) stay outstanding, 256 more requests to the same peer bring the cursor round again"""
    nodes = [node_cfg(1, retries=0, apduTimeout=250000), node_cfg(10, appTimeout=250000)]
    run = rng.choice([[254, 255], [254, 255], [254, 255, 256], [253, 254, 255], [253, 254, 255], [253, 254, 255, 256], [255, 256], [254, 256]])
    extra = set(rng.sample(range(0, 250), rng.choice([0, 0, 2])))
    reqs = []
    t = 0
    for i in range(256 + 256 + rng.choice([3, 6])):
        slow = (i in run) or (i in extra)
        reqs.append({'t': t, 'src': 1, 'dst': 10, 'len': 3, 'service': 12, 'resp': ['simple'], 'resp_delay': 200000 if slow else 0})
        t += 125
    return {'nodes': nodes, 'requests': reqs}


def gen_record_maxsegs(rng):
    """the server's record of the client carries a max-segments-accepted figure (read from the device object, any number)
    that differs from the limit the request itself carries (2, 4, 8, ... by encoding): answers needing segment counts between
    and around the two"""
    cmax = rng.choice([50, 50, 128])
    cms = rng.choice([2, 3, 4, 5, 6, 7, 8, 9, 10, 16, 23, 31, 0])
    rec = rng.choice([3, 5, 6, 7, 9, 10, 12, 23, 31, 100, 2, 4])
    nodes = two_nodes(cmax=cmax, smax=rng.choice([cmax, 1476]), cwin=rng.choice([2, 8]), swin=rng.choice([2, 8]), retries=1, cmaxsegs=cms, smaxsegs=64,
                      know=True, apduTimeout=1000, segTimeout=500, appTimeout=1000)
    nodes[1]['know'][1]['maxSegs'] = rec
    code_limit = 0 if not cms else max([g for g in (2, 4, 8, 16, 32, 64) if g <= cms] or [0])
    around = sorted(set([code_limit, rec, cms]))
    nseg = max(1, rng.choice([a + d for a in around for d in (-1, 0, 1, 2)]))
    plen = min(nseg, 34) * cmax - rng.randrange(0, cmax - 1)
    req = {'t': 0, 'src': 1, 'dst': 2, 'len': rng.choice([3, 20]), 'service': 12, 'resp': ['complex', max(1, plen)], 'resp_delay': 0}
    return {'nodes': nodes, 'requests': [req]}


def gen_bidir_records(rng):
    """the IUT (node 1) holds an I-Am record of a peer (node 2) that can transmit but not receive segments; the peer sends the
    IUT a SEGMENTED request (its SA bit is clear), then the IUT's application sends that peer a request larger than the
    peer's maximum APDU.  The peer never sets SA, so ServerSSM.idle leaves the record alone (the upgrade it performs on SA = 1
    is not modelled); the record is tried with all four segmentation values"""
    pmax = rng.choice([50, 128])
    rec = rng.choice(SEG_NAMES + ['segmentedTransmit', 'segmentedTransmit'])
    iut = node_cfg(1, maxApdu=rng.choice([206, 1476]), seg='segmentedBoth', retries=1, apduTimeout=1000, segTimeout=500, window=2, appTimeout=1000)
    peer = node_cfg(2, maxApdu=pmax, seg=rng.choice(['segmentedTransmit', 'segmentedTransmit', 'noSegmentation']), retries=1, apduTimeout=1000,
                    segTimeout=500, window=2, appTimeout=1000)
    spec = {'nodes': [iut, peer], 'requests': []}
    if rng.random() < 0.6:
        iut['know'] = {2: {'maxApdu': pmax, 'seg': rec, 'maxSegs': rng.choice([None, 4, 64])}}
    else:
        spec['iam'] = [{'t': rng.choice([0, 250]), 'node': 1, 'peer': 2, 'maxApdu': pmax, 'seg': rec}]
    if rng.random() < 0.5:
        peer['know'] = {1: {'maxApdu': iut['maxApdu'], 'seg': 'segmentedBoth', 'maxSegs': None}}
    for k in range(rng.choice([1, 1, 2])):
        spec['requests'].append({'t': 500 + 125 * k, 'src': 2, 'dst': 1, 'len': rng.choice([pmax + 3, 3 * pmax + 1, 10, iut['maxApdu'] + 30]),
                                 'service': 12, 'resp': rng.choice([['simple'], ['complex', 5]]), 'resp_delay': 0})
    for k in range(rng.choice([1, 2])):
        spec['requests'].append({'t': 2000 + 1500 * k, 'src': 1, 'dst': 2, 'len': rng.choice([pmax + 7, 2 * pmax + 1, pmax - 10, 4 * pmax]),
                                 'service': 12, 'resp': ['simple'], 'resp_delay': 0})
    return spec


def gen_capability(rng, big=True):
    """C12: capability pairs crossed with payload lengths around the boundaries they induce, fault-free"""
    cmax, smax = rng.choice(MAX_APDUS if big else [50, 128, 206]), rng.choice(MAX_APDUS if big else [50, 128, 206])
    cseg, sseg = rng.choice(SEG_NAMES), rng.choice(SEG_NAMES)
    if rng.random() < 0.5:
        cseg = sseg = 'segmentedBoth'
    cms, sms = rng.choice([0, 2, 4, 8, 16, 32, 64, 100]), rng.choice([0, 2, 4, 8, 16, 32, 64, 100])
    nodes = two_nodes(cmax=cmax, smax=smax, cseg=cseg, sseg=sseg, cwin=rng.choice([1, 2, 8, 127]), swin=rng.choice([1, 2, 8, 127]),
                      retries=1, cmaxsegs=cms, smaxsegs=sms, know=rng.random() < 0.75, apduTimeout=1000, segTimeout=500, appTimeout=1000)
    if nodes[0]['know'] and rng.random() < 0.3:
        nodes[0]['know'][2]['maxSegs'] = None
    if nodes[0]['know'] and rng.random() < 0.2:
        nodes[0]['know'][2]['maxNpdu'] = rng.choice([50, 128, 480])
    if nodes[1]['know'] and rng.random() < 0.2:
        nodes[1]['know'][1]['maxApdu'] = rng.choice(MAX_APDUS)
    if nodes[1]['know'] and rng.random() < 0.25:
        # what the server recorded from the client's I-Am contradicts what the request itself says (SA bit)
        nodes[1]['know'][1]['seg'] = rng.choice(SEG_NAMES)
    k = nodes[0]['know'].get(2) if nodes[0]['know'] else None
    rsz = (k or {}).get('maxApdu') or cmax
    lim = {0: 3, 2: 2, 4: 4, 8: 8}.get(sms, 5)
    rlen = rng.choice([0, 1, rsz - 6, rsz - 4, rsz - 1, rsz, rsz + 1, 2 * rsz, 2 * rsz + 1, lim * rsz, lim * rsz + 1, rng.randrange(0, 3 * rsz)])
    lim2 = {0: 3, 2: 2, 4: 4, 8: 8}.get(cms, 5)
    if cms in (16, 32) and rng.random() < 0.5:
        lim2 = cms            # around the limit the request itself carries (code 4 / 5)
    plen = rng.choice([0, 1, cmax - 5, cmax - 3, cmax - 1, cmax, cmax + 1, 2 * cmax, 2 * cmax + 1, lim2 * cmax, lim2 * cmax + 1, rng.randrange(0, 3 * cmax)])
    if not big:
        rlen, plen = min(rlen, 700), min(plen, 900 if cmax == 50 else 700)
    req = {'t': 0, 'src': 1, 'dst': 2, 'len': max(0, rlen), 'service': 12, 'resp': ['complex', max(0, plen)], 'resp_delay': 0}
    if rng.random() < 0.5:
        nodes[0]['via_iocb'] = True       # the same request through ApplicationIOController.request_io (no invoke id chosen by the application)
    return {'nodes': nodes, 'requests': [req]}


def gen_scripted_windows(rng, server_side=None, wins=None):
    """a raw peer (node 9) that acknowledges a segmented transfer of node 1 with a window that changes from ack to ack
    (e.g. 4, 2, 1, 3), acknowledging a sequence number that is still inside the new window.  server_side: node 1 sends a
    segmented *response* to a request of the raw peer; otherwise node 1 sends a segmented *request* to it."""
    server_side = (rng.random() < 0.5) if server_side is None else server_side
    wins = wins or [rng.choice([1, 2, 3, 4, 6, 8]) for _ in range(8)]
    n = node_cfg(1, maxApdu=50, window=rng.choice([2, 4, 8]), retries=1, apduTimeout=1000, segTimeout=500, appTimeout=1000, maxSegs=0)
    raw = node_cfg(9, raw=True)
    L = 50 * rng.randrange(8, 20) + rng.randrange(0, 50)
    inv = 5
    if server_side:
        req = {'t': 0, 'src': 9, 'dst': 1, 'len': 5, 'service': 12, 'resp': ['complex', L], 'resp_delay': 0}
        first = {'t': 0, 'src': 9, 'dst': 1, 'frame': {'type': 0, 'seg': False, 'mor': False, 'sa': True, 'maxsegs': 0, 'maxresp': 0,
                                                         'invoke': inv, 'service': 12, 'data': bytes(req_payload(0, 5)).hex()}}
        spec = {'nodes': [n, raw], 'requests': [req], 'inject': [first]}
    else:
        req = {'t': 0, 'src': 1, 'dst': 9, 'len': L, 'service': 12, 'resp': ['simple'], 'resp_delay': 0, 'invoke': inv}
        spec = {'nodes': [n, raw], 'requests': [req], 'inject': []}
    acked_upto = -1      # frame index after which the last ack was injected
    for rnd in range(len(wins)):
        tr = run_scenario(spec)
        burst = [f for f in tr.frames if f['src'] == 1 and f['hdr']['seg'] == 1 and f['idx'] > acked_upto]
        if not burst:
            break
        burst = [f for f in burst if f['t'] == burst[0]['t']]      # before any retransmission
        w = wins[rnd]
        k = min(len(burst), w) - 1
        if rng.random() < 0.3:
            k = rng.randrange(0, k + 1)
        ack = {'type': 4, 'nak': False, 'srv': not server_side, 'invoke': inv, 'seq': burst[k]['hdr']['seq'], 'win': w}
        acked_upto = burst[-1]['idx']
        spec['inject'] = spec['inject'] + [{'after': acked_upto, 'src': 9, 'dst': 1, 'frame': ack}]
        if burst[k]['hdr']['mor'] == 0:
            break
    return spec


def gen_bidirectional(rng):
    """two or three nodes that are client AND server towards each other at once: both allocate invoke ids from 1, so equal ids
    are live in both directions; late / duplicate Aborts of both polarities (srv = 0 and 1) are injected from the real peers.
    No I-Am records (a node's record of a peer it also serves would be upgraded in place by ServerSSM.idle: not modelled)."""
    nn = rng.choice([2, 2, 3])
    cmax = rng.choice([50, 128])
    mk = lambda a: node_cfg(a, maxApdu=cmax, window=rng.randrange(1, 4), retries=rng.choice([0, 1, 2]), apduTimeout=rng.choice([1000, 3000]),
                            segTimeout=rng.choice([500, 1500]), appTimeout=rng.choice([1000, 3000, 6000]))
    nodes = [mk(a) for a in range(1, nn + 1)]
    reqs = []
    for i in range(rng.choice([2, 3, 4, 6, 8])):
        src = rng.randrange(1, nn + 1)
        dst = rng.choice([a for a in range(1, nn + 1) if a != src])
        kind = rng.choice(['complex', 'complex', 'simple', 'simple', 'error', 'silent'])
        resp = ['complex', rng.choice([3, cmax - 5, cmax + 7, 2 * cmax + 3])] if kind == 'complex' else ['error', 4] if kind == 'error' else [kind]
        reqs.append({'t': rng.choice([0, 0, 0, 125, 250, 500, 1000]), 'src': src, 'dst': dst, 'len': rng.choice([2, 5, cmax + 5, 2 * cmax + 1]),
                     'service': 12, 'resp': resp, 'resp_delay': rng.choice([0, 0, 125, 500, 2000, 4000])})
    spec = {'nodes': nodes, 'requests': reqs}
    base = run_scenario(spec)
    n = len(base.frames)
    if rng.random() < 0.5 and n:
        spec['faults'] = rand_faults(rng, n, rng.randrange(1, 3))
    inj = []
    for _ in range(rng.randrange(1, 5)):
        a, b = rng.sample(range(1, nn + 1), 2)
        fr = {'type': 7, 'srv': rng.random() < 0.5, 'invoke': rng.choice([1, 1, 2, 3]), 'reason': rng.choice([0, 4, 9])}
        where = {'after': rng.randrange(0, n + 1)} if n and rng.random() < 0.7 else {'t': rng.choice([0, 125, 500, 1000, 3000, 9000])}
        inj.append(dict(where, src=a, dst=b, frame=fr))
    spec['inject'] = inj
    return spec


def gen_known_overlap(rng):
    """two or three stations that hold each other's device information records (I-Am data given at start, or an I-Am that
    arrives while transactions are already open, or both: a second I-Am re-announces the same record) and use them at once:
    several client transactions towards one known peer overlapping in time (answers delayed, segmented transfers next to
    one-frame ones), a client transaction towards a peer while a request FROM that peer is being served (both hold the one
    record of that peer), transactions that end by answer, by error, by time-out (silent peer) and by abort, in every order
    of completion; later a request on its own.  Records are truthful and every station is segmentedBoth, so that
    ServerSSM.idle never has to upgrade a record in place (not modelled)."""
    nn = rng.choice([2, 2, 2, 3])
    cmax = rng.choice([50, 50, 128])
    retries = rng.choice([0, 1, 2])
    mk = lambda a: node_cfg(a, maxApdu=cmax, window=rng.randrange(1, 4), retries=retries, apduTimeout=rng.choice([1000, 3000]),
                            segTimeout=rng.choice([500, 1500]), appTimeout=rng.choice([3000, 6000]), maxSegs=64)
    nodes = [mk(a) for a in range(1, nn + 1)]
    iams = []
    for n in nodes:
        for m in nodes:
            if m is n:
                continue
            u = rng.random()
            if u < 0.7:
                n['know'][m['addr']] = {'maxApdu': cmax, 'seg': 'segmentedBoth', 'maxSegs': rng.choice([None, 64])}
            if u > 0.55:
                # announced (again) while things are going on: the record object is kept, its count must be too
                iams.append({'t': rng.choice([0, 125, 250, 500, 1000]), 'node': n['addr'], 'peer': m['addr'], 'maxApdu': cmax, 'seg': 'segmentedBoth'})
    reqs = []
    oneway = rng.random() < 0.4
    for i in range(rng.choice([2, 2, 3, 4, 6])):
        src = 1 if oneway else rng.randrange(1, nn + 1)
        dst = rng.choice([a for a in range(1, nn + 1) if a != src])
        kind = rng.choice(['complex', 'complex', 'simple', 'simple', 'error', 'silent', 'abort'])
        resp = ['complex', rng.choice([3, cmax - 5, cmax + 7, 2 * cmax + 3])] if kind == 'complex' else ['error', 4] if kind == 'error' \
            else ['abort', 4] if kind == 'abort' else [kind]
        reqs.append({'t': rng.choice([0, 0, 0, 125, 250]), 'src': src, 'dst': dst, 'len': rng.choice([2, 5, cmax + 5, 2 * cmax + 1]),
                     'service': 12, 'resp': resp, 'resp_delay': rng.choice([0, 125, 125, 500, 2000])})
    # afterwards, on its own
    reqs.append({'t': 60000, 'src': 1, 'dst': 2, 'len': rng.choice([3, cmax + 9]), 'service': 12, 'resp': ['simple'], 'resp_delay': 0})
    spec = {'nodes': nodes, 'requests': reqs}
    if iams:
        spec['iam'] = iams
    if rng.random() < 0.4:
        n = len(run_scenario(spec).frames)
        spec['faults'] = rand_faults(rng, n, rng.randrange(1, 3))
    return spec


def gen_stale_segment(rng):
    """two or three transfers one after the other between the same two stations (invoke ids allocated by the stack), every
    answer segmented; one response segment of an EARLIER transfer is duplicated and its copy is late: it arrives while a
    LATER transfer is being reassembled and is waiting (one of its own segments is delayed) for exactly that sequence number
    (aligned), or at some other instant of the later transfer (random).  The copy belongs to a finished transaction and must
    not become part of the later answer."""
    win = lambda: rng.choice([1, 1, 1, 2, 3])
    nodes = two_nodes(cmax=50, smax=50, cwin=win(), swin=win(), retries=rng.choice([1, 2, 3]), know=rng.random() < 0.5,
                      apduTimeout=3000, segTimeout=rng.choice([1000, 1500]), appTimeout=3000)
    k = rng.randrange(2, 6)
    same = rng.random() < 0.7
    reqs = []
    gap = rng.choice([1000, 2000])
    for i in range(rng.choice([2, 2, 3])):
        L = 50 * (k if same else rng.randrange(2, 6)) + rng.randrange(1, 50)
        reqs.append({'t': i * gap, 'src': 1, 'dst': 2, 'len': rng.choice([3, 3, 70]), 'service': 12, 'resp': ['complex', L],
                     'resp_delay': rng.choice([0, 0, 125])})
    spec = {'nodes': nodes, 'requests': reqs}
    base = run_scenario(spec)
    segs = {}       # request no -> {seq: frame} (first transmission of each response segment)
    for (src, dst, inv, ty, no), idxs in transfers(base).items():
        if ty == 3 and src == 2:
            for x in idxs:
                segs.setdefault(no, {}).setdefault(base.frames[x]['hdr']['seq'], base.frames[x])
    nos = sorted(n for n in segs if n is not None)
    if len(nos) < 2:
        return spec
    j = rng.choice(nos[1:])
    i = rng.choice([n for n in nos if n < j])
    common = sorted(set(segs[i]) & set(segs[j]))
    if not common:
        return spec
    q = rng.choice(common)
    fi, fj = segs[i][q], segs[j][q]
    faults = {}
    if rng.random() < 0.75:
        pause = rng.choice([250, 500])
        faults[fj['idx']] = [pause]
        faults[fi['idx']] = [0, fj['t'] - fi['t'] + rng.choice([0, 125, 125, pause - 125])]
    else:
        faults[fi['idx']] = [0, max(125, fj['t'] - fi['t'] + rng.choice([-125, 0, 125, 250]))]
        if rng.random() < 0.5:
            faults[rng.choice(list(segs[j].values()))['idx']] = [rng.choice([125, 250, 500])]
    spec['faults'] = faults
    return spec


def gen_same_mac(rng):
    """stations that differ only in the network number (1:5, 2:5), or in the length of the MAC (05 vs 00:05), or are local vs
    remote with equal octets: as clients of one server with equal invoke ids, and as servers of one client that uses the
    same application-chosen id towards each"""
    cmax = rng.choice([50, 128])
    mk = lambda a: node_cfg(a, maxApdu=cmax, window=2, retries=rng.choice([0, 1, 2]), apduTimeout=rng.choice([1000, 3000]), segTimeout=500,
                            appTimeout=rng.choice([3000, 6000]))
    mac = rng.choice([5, 7, 200])
    twins = rng.sample([mac, 1000 + mac, 2000 + mac, 100000 + mac, 65000 + mac], rng.choice([2, 2, 3, 4]))
    reqs = []
    if rng.random() < 0.5:
        # the twins are clients of one server
        nodes = [mk(a) for a in twins] + [mk(10)]
        for a in twins:
            for k in range(rng.choice([1, 1, 2])):
                kind = rng.choice(['complex', 'complex', 'simple', 'error'])
                resp = ['complex', rng.choice([4, cmax - 3, cmax + 9])] if kind == 'complex' else ['error', 4] if kind == 'error' else [kind]
                reqs.append({'t': rng.choice([0, 0, 125, 500]), 'src': a, 'dst': 10, 'len': rng.choice([2, 7, cmax + 3]), 'service': 12,
                             'resp': resp, 'resp_delay': rng.choice([0, 250, 1500, 4000])})
    else:
        # the twins are servers of one client, which picks the same invoke id towards each of them
        nodes = [mk(1)] + [mk(a) for a in twins]
        for a in twins:
            for k in range(rng.choice([1, 1, 2])):
                kind = rng.choice(['complex', 'complex', 'simple', 'error'])
                resp = ['complex', rng.choice([4, cmax - 3, cmax + 9])] if kind == 'complex' else ['error', 4] if kind == 'error' else [kind]
                r = {'t': rng.choice([0, 0, 125, 500]), 'src': 1, 'dst': a, 'len': rng.choice([2, 7, cmax + 3]), 'service': 12,
                     'resp': resp, 'resp_delay': rng.choice([0, 250, 1500, 4000])}
                if rng.random() < 0.6:
                    r['invoke'] = rng.choice([3, 7])
                reqs.append(r)
    spec = {'nodes': nodes, 'requests': reqs}
    if rng.random() < 0.4:
        n = len(run_scenario(spec).frames)
        spec['faults'] = rand_faults(rng, n, rng.randrange(1, 3))
    return spec


def gen_park_flush(rng):
    """a server application that parks answers and gives them from inside a later indication: two to four clients whose
    requests carry EQUAL invoke ids (every stack starts at 1) towards one server"""
    nc = rng.choice([2, 2, 3, 4])
    cmax = rng.choice([50, 128])
    srv = node_cfg(10, maxApdu=cmax, appTimeout=rng.choice([3000, 6000, 20000]), retries=1, window=2)
    clients = [node_cfg(a, maxApdu=cmax, retries=rng.choice([0, 1, 3]), apduTimeout=rng.choice([1000, 3000]), segTimeout=500, window=2)
               for a in range(1, nc + 1)]
    reqs = []
    t = 0
    order = list(range(1, nc + 1))
    rng.shuffle(order)
    for k, a in enumerate(order):
        last = (k == len(order) - 1)
        mode = -2 if (last or rng.random() < 0.2) else rng.choice([-1, -1, -1, 0, 500])
        kind = rng.choice(['complex', 'complex', 'simple', 'error'])
        resp = ['complex', rng.choice([4, cmax - 3, cmax + 9])] if kind == 'complex' else ['error', 4] if kind == 'error' else [kind]
        reqs.append({'t': t, 'src': a, 'dst': 10, 'len': rng.choice([2, 7, cmax + 3]), 'service': 12, 'resp': resp, 'resp_delay': mode})
        t += rng.choice([0, 125, 250, 1000])
    if rng.random() < 0.4:
        # a second round: ids move on, a later flush may meet retransmissions
        a = rng.choice(order)
        reqs.append({'t': t + 500, 'src': a, 'dst': 10, 'len': 3, 'service': 12, 'resp': ['simple'], 'resp_delay': rng.choice([-2, 0, -1])})
    spec = {'nodes': clients + [srv], 'requests': reqs}
    if rng.random() < 0.3:
        n = len(run_scenario(spec).frames)
        spec['faults'] = rand_faults(rng, n, 1)
    return spec


def gen_iam(rng):
    """I-Am PDUs arriving in the middle of things: the client has (or has not) a record of the server, a transaction with it
    is open (slow answer) or not, a second I-Am announces reduced (or enlarged) capabilities, then a request is sized
    between the old and the new limits"""
    big, small = rng.choice([(1476, 128), (1024, 50), (480, 128), (206, 50), (128, 480), (50, 1476)])
    segs = rng.choice([('segmentedBoth', 'noSegmentation'), ('segmentedBoth', 'segmentedBoth'), ('noSegmentation', 'segmentedBoth'),
                       ('segmentedBoth', 'segmentedTransmit')])
    c = node_cfg(1, maxApdu=1476, seg='segmentedBoth', window=rng.choice([1, 2, 4]), retries=rng.choice([0, 1, 2]), apduTimeout=1000, segTimeout=500, maxSegs=64)
    s_ = node_cfg(2, maxApdu=1476, seg='segmentedBoth', window=2, retries=1, apduTimeout=1000, segTimeout=500, appTimeout=6000, maxSegs=64)
    if rng.random() < 0.8:
        c['know'] = {2: {'maxApdu': big, 'seg': segs[0], 'maxSegs': rng.choice([None, 4, 64])}}
    reqs = []
    if rng.random() < 0.8:
        reqs.append({'t': 0, 'src': 1, 'dst': 2, 'len': rng.choice([5, 60, 300]), 'service': 12, 'resp': ['simple'],
                     'resp_delay': rng.choice([4000, 4000, 1500, 0])})       # keeps a transaction (and the record) in use
    iams = [{'t': rng.choice([250, 500, 500, 1250]), 'node': 1, 'peer': 2, 'maxApdu': small, 'seg': segs[1]}]
    if rng.random() < 0.3:
        iams.append({'t': rng.choice([1500, 2500]), 'node': 1, 'peer': 2, 'maxApdu': rng.choice([50, 206, 1024]), 'seg': rng.choice(SEG_NAMES)})
    lo, hi = min(big, small), max(big, small)
    for t in rng.sample([1000, 2000, 3000, 5000], rng.randrange(1, 3)):
        reqs.append({'t': t, 'src': 1, 'dst': 2, 'len': rng.choice([lo - 7, lo + 1, (lo + hi) // 2, min(hi, 700) - 10, 2 * lo + 3, 310]),
                     'service': 12, 'resp': ['simple'], 'resp_delay': 0})
    reqs = [dict(r, len=max(0, min(r['len'], 1400))) for r in reqs]
    return {'nodes': [c, s_], 'requests': reqs, 'iam': iams}


def gen_request_tail(rng, variant=None):
    """a segmented request and what follows its last segment: (A) the whole request is transferred and the one-frame reply is
    lost (single fault: the whole request is retransmitted); (B) the server's ack of the last request segment is lost, the
    first segment of a segmented response still arrives, then nothing reaches anybody any more; (C) a random loss among the
    last frames, optionally followed by silence or a second fault"""
    variant = variant or rng.choice('AABBC')
    nodes = two_nodes(cmax=50, smax=50, cwin=rng.randrange(1, 5), swin=rng.randrange(1, 5), retries=rng.choice([1, 2, 3]),
                      know=rng.random() < 0.5, apduTimeout=rng.choice([500, 1000, 3000]), segTimeout=rng.choice([500, 1000, 1500]))
    if variant == 'A':
        resp = rng.choice([['simple'], ['complex', 10], ['error', 3]])
    elif variant == 'B':
        resp = ['complex', 50 * rng.randrange(1, 4) + rng.randrange(1, 50)]
    else:
        resp = rng.choice([['simple'], ['simple'], ['complex', 10], ['complex', 120], ['error', 3]])
    req = {'t': 0, 'src': 1, 'dst': 2, 'len': 50 * rng.randrange(1, 5) + rng.randrange(1, 50), 'service': 12, 'resp': resp, 'resp_delay': 0}
    spec = {'nodes': nodes, 'requests': [req]}
    base = run_scenario(spec)
    n = len(base.frames)
    roles = [frame_role(f) for f in base.frames]
    if variant == 'A':
        reply = [i for i, r in enumerate(roles) if r in ('sack', 'cack', 'error')]
        spec['faults'] = {(reply[0] if reply else n - 1): []}
    elif variant == 'B':
        acks = [i for i, r in enumerate(roles) if r == 'segack-s']
        first = [i for i, r in enumerate(roles) if r == 'cack-seg']
        if acks and first:
            spec['faults'] = {acks[-1]: []}
            spec['silence'] = first[0] + 1 + rng.choice([0, 0, 1])
        else:
            spec['silence'] = max(0, n - 2)
    else:
        i = rng.randrange(max(0, n - 5), n)
        spec['faults'] = {i: []}
        u = rng.random()
        if u < 0.4:
            spec['silence'] = rng.randrange(i + 1, n + 4)
        elif u < 0.6:
            spec['faults'][rng.randrange(max(0, n - 5), n + 2)] = list(FAULT_KINDS[rng.choice(['drop', 'delay500', 'dup'])])
    return spec


def gen_sa_mismatch(rng):
    """what the server recorded about the client (I-Am, at start or arriving just before the request) says it can receive
    segments, the request itself says it cannot (SA = 0) — or the other way round — and the answer needs several segments"""
    cmax = rng.choice([50, 128, 206])
    cseg = rng.choice(['noSegmentation', 'segmentedTransmit', 'segmentedTransmit', 'segmentedBoth'])
    rec = rng.choice(['segmentedBoth', 'segmentedReceive', 'segmentedBoth', 'noSegmentation'])
    c = node_cfg(1, maxApdu=cmax, seg=cseg, retries=1, apduTimeout=1000, segTimeout=500, window=2)
    s_ = node_cfg(2, maxApdu=rng.choice([cmax, 1476]), seg='segmentedBoth', retries=1, apduTimeout=1000, segTimeout=500, window=2, appTimeout=1000)
    spec = {'nodes': [c, s_], 'requests': [{'t': 1000, 'src': 1, 'dst': 2, 'len': rng.choice([3, 20]), 'service': 12,
                                             'resp': ['complex', cmax * rng.randrange(1, 4) + rng.randrange(1, cmax)], 'resp_delay': 0}]}
    if rng.random() < 0.5:
        s_['know'] = {1: {'maxApdu': cmax, 'seg': rec, 'maxSegs': None}}
    else:
        spec['iam'] = [{'t': rng.choice([0, 500, 1000]), 'node': 2, 'peer': 1, 'maxApdu': cmax, 'seg': rec}]
    if rng.random() < 0.3:
        spec['requests'].append({'t': 3000, 'src': 1, 'dst': 2, 'len': 3, 'service': 12, 'resp': ['complex', 2 * cmax + 5], 'resp_delay': 0})
    return spec


def gen_forged_window(rng):
    """C12: a raw peer (node 9) talks to a real node with window sizes 0 / > 127 in segments and segment acks"""
    n = node_cfg(1, maxApdu=50, window=rng.choice([1, 2, 8]), retries=1, apduTimeout=1000, segTimeout=500, appTimeout=1000)
    raw = node_cfg(9, raw=True)
    win = rng.choice([0, 0, 128, 200, 255, 1, 2, 127])
    if rng.random() < 0.5:
        # raw peer opens a segmented request towards node 1 with proposed window `win`
        fr = {'type': 0, 'seg': True, 'mor': True, 'sa': True, 'maxsegs': 0, 'maxresp': 0, 'invoke': 5, 'seq': 0, 'win': win,
              'service': 12, 'data': 'aa' * 20}
        return {'nodes': [n, raw], 'requests': [], 'inject': [{'t': 0, 'src': 9, 'dst': 1, 'frame': fr}]}
    # node 1 sends a segmented request to the raw peer, which acks with window `win`
    req = {'t': 0, 'src': 1, 'dst': 9, 'len': 50 * rng.choice([3, 5, 9]) + 7, 'service': 12, 'resp': ['simple'], 'resp_delay': 0, 'invoke': 1}
    ack = {'type': 4, 'nak': False, 'srv': True, 'invoke': 1, 'seq': 0, 'win': win}
    return {'nodes': [n, raw], 'requests': [req], 'inject': [{'after': 0, 'src': 9, 'dst': 1, 'frame': ack}]}


# ---------------------------------------------------------------------------------------------
# a scenario as an expression of the Coq world model (coq/theories/SsmWorld.v: run_spec)

def _z(v):
    return '(%d)' % v if v < 0 else '%d' % v


def _oz(v):
    return 'None' if v is None else '(Some %s)' % _z(v)


def _b(v):
    return 'true' if v else 'false'


def coq_apdu_from_octets(octets):
    h = _hdr_from_octets(octets)
    from bacpypes.apdu import APDU
    from bacpypes.pdu import PDU
    a = APDU()
    a.decode(PDU(octets))
    data = list(bytes(a.pduData))
    return '(mkApdu %s %s %s %s %s %s %s %s %s %s %s %s %s %s)' % (
        _z(h['type']), _b(h['seg'] == 1), _b(h['mor'] == 1), _b(h['sa'] == 1), _b(h['srv'] == 1), _b(h['nak'] == 1),
        _z(h['seq']), _z(h['win']), _z(h['maxsegs']), _z(h['maxresp']), _z(h['service']), _z(h['invoke']), _z(h['reason']),
        '[' + ';'.join(str(x) for x in data) + ']')


def inject_octets(f):
    from bacpypes.apdu import APDU
    from bacpypes.pdu import PDU
    if 'octets' in f:
        return bytes.fromhex(f['octets'])
    a = APDU()
    a.apduType = f['type']
    for k, attr in (('seg', 'apduSeg'), ('mor', 'apduMor'), ('sa', 'apduSA'), ('srv', 'apduSrv'), ('nak', 'apduNak'),
                    ('seq', 'apduSeq'), ('win', 'apduWin'), ('maxsegs', 'apduMaxSegs'), ('maxresp', 'apduMaxResp'),
                    ('service', 'apduService'), ('invoke', 'apduInvokeID'), ('reason', 'apduAbortRejectReason')):
        if k in f:
            setattr(a, attr, f[k])
    a.pduData = bytes.fromhex(f.get('data', ''))
    p = PDU()
    a.encode(p)
    return bytes(p.pduData)


RESP_KIND = {'simple': 0, 'complex': 1, 'error': 2, 'reject': 3, 'abort': 4, 'silent': 5}


def coq_spec(spec):
    nodes = []
    for c in sorted(spec['nodes'], key=lambda c: c['addr']):
        know = []
        for peer, k in sorted((c.get('know') or {}).items(), key=lambda kv: int(kv[0])):
            know.append('(%d, mkDinfo %s %d %s %s)' % (int(peer), _oz(k.get('maxApdu')), SEG_NAMES.index(k.get('seg', 'noSegmentation')),
                                                       _oz(k.get('maxSegs')), _oz(k.get('maxNpdu'))))
        nodes.append('mkNode %d %d %d %d %d %d %d %d %d %s [%s]' % (
            c['addr'], c['maxApdu'], SEG_NAMES.index(c['seg']), c['maxSegs'], c['retries'], c['apduTimeout'], c['segTimeout'],
            c['window'], c['appTimeout'], _b(c.get('raw')), ';'.join(know)))
    reqs = []
    for r in spec.get('requests') or []:
        resp = r.get('resp', ['simple'])
        reqs.append('mkReq %s %d %d %d %d %s %d %d %s' % (
            _z(r.get('t', 0)), r['src'], r['dst'], r['len'], r.get('service', 12), _z(-1 if r.get('invoke') is None else r['invoke']),
            RESP_KIND[resp[0]], resp[1] if len(resp) > 1 else 0, _z(r.get('resp_delay', 0))))
    faults = ['(%d, [%s])' % (int(k), ';'.join(str(d) for d in v)) for k, v in sorted((spec.get('faults') or {}).items(), key=lambda kv: int(kv[0]))]
    sil = spec.get('silence')
    injs = []
    for i in spec.get('inject') or []:
        injs.append('mkInj %s %d %d %d %s' % (_z(i['after']) if 'after' in i else '(-1)', i.get('t', 0), i['src'], i['dst'],
                                              coq_apdu_from_octets(inject_octets(i['frame']))))
    if spec.get('chains'):
        iams = ['mkIam %d %d %d %d %d' % (i['t'], i['node'], i['peer'], i['maxApdu'], SEG_NAMES.index(i['seg'])) for i in spec.get('iam') or []]
        chains = ['(%d, %d, %d, %d)' % (c['node'], c['peer'], c['invoke'], c['no']) for c in spec['chains']]
        return 'run_spec_c [%s] [%s] [%s] %s [%s] [%s] [%s]' % (';'.join(nodes), ';'.join(reqs), ';'.join(faults), _z(-1 if sil is None else sil),
                                                               ';'.join(injs), ';'.join(iams), ';'.join(chains))
    if spec.get('iam'):
        iams = ['mkIam %d %d %d %d %d' % (i['t'], i['node'], i['peer'], i['maxApdu'], SEG_NAMES.index(i['seg'])) for i in spec['iam']]
        return 'run_spec_x [%s] [%s] [%s] %s [%s] [%s]' % (';'.join(nodes), ';'.join(reqs), ';'.join(faults), _z(-1 if sil is None else sil),
                                                          ';'.join(injs), ';'.join(iams))
    return 'run_spec [%s] [%s] [%s] %s [%s]' % (';'.join(nodes), ';'.join(reqs), ';'.join(faults), _z(-1 if sil is None else sil), ';'.join(injs))


CASE_MAX_STEPS = 6000


def scenario_case(spec, kind):
    from core import Case
    tr = run_scenario(spec, max_steps=CASE_MAX_STEPS)
    exp = canon_trace(tr)
    nontrivial = len(tr.frames) >= 1
    return Case(kind, coq_spec(spec), exp, key=repr(sorted(spec.items(), key=lambda kv: kv[0])), nontrivial=nontrivial, desc={'spec': spec})


# ---------------------------------------------------------------------------------------------
# shared plumbing of harness/props/c04.py, c05.py, c11.py, c12.py

COQ_IMPORTS = 'From Bac Require Import Base Ssm SsmWorld.'
TRUSTED = ['models coq/theories/Ssm.v (SSM/ClientSSM/ServerSSM/StateMachineAccessPoint, appservice.py:43-1380) and SsmWorld.v '
           '(scripted medium, TaskManager (time, counter) order, scripted applications) written by hand; tie = whole-trace correspondence',
           'harness/ssm_common.py: the scripted medium, virtual clock (bacpypes.task._time), applications and trace canonicaliser',
           'apdu.APCI.encode/decode (C07) is used by the harness to put frames on the wire and read their headers back']
ASSUMPTIONS = ['timeouts are multiples of 125 ms (exact binary fractions of a second), every header field fits one octet',
               'one TaskManager per process, reset between scenarios; link layer replaced by the scripted medium (no NPDU header)',
               'DeviceInfoCache: get / I-Am update with record aliasing (open transactions see the updated record) are modelled in the world model; the reference '
               'counts are modelled in DevCache.v (own correspondence) and checked by the direct predicate on every scenario, not carried by the world model; nor is the in-place upgrade of device_info.segmentationSupported in '
               'ServerSSM.idle (scenarios in which a node is client and server towards the same peer carry no records)',
               'resp_delay -1 / -2 script a server application that parks its answer / gives all parked answers from inside this indication']


def run_checked(spec, checker, max_steps=20000):
    tr = run_scenario(spec, max_steps=max_steps)
    fs = checker(tr)
    for f in fs:
        f['spec'] = spec
    return tr, fs


def spec_key(spec):
    import json
    return json.dumps(spec, sort_keys=True, default=str)


def fix_spec(spec):
    """JSON turns the integer keys of know / faults into strings: undo"""
    spec = dict(spec)
    spec['nodes'] = [dict(n, know={int(k): v for k, v in (n.get('know') or {}).items()}) for n in spec['nodes']]
    if spec.get('faults'):
        spec['faults'] = {int(k): v for k, v in spec['faults'].items()}
    return spec


def replay_generic(payload, checker, name):
    f = payload.get('failure') or {}
    spec = f.get('spec')
    if spec is None:
        mc = (payload.get('broken') or [{}])[0]
        mc = mc.get('minimal_case', {}) if isinstance(mc, dict) else {}
        spec = (mc.get('desc') or {}).get('spec')
    if spec is None:
        print('replay: no scenario in this file')
        return
    spec = fix_spec(spec)
    tr = run_scenario(spec)
    print('scenario:', spec_key(spec))
    for e in tr.events:
        if e[0] == 'tx':
            fr = tr.frames[e[2]]
            print('  tx', fr['idx'], 't=%d' % fr['t'], fr['src'], '->', fr['dst'], frame_role(fr),
                  {k: v for k, v in fr['hdr'].items() if v != -1}, 'len', len(fr['data']), 'apdu', fr['enc_len'], 'fate', fr['fate'])
        elif e[0] in ('ind', 'conf'):
            print(' ', e[0], e[1:6], 'len', len(e[6]), 'reason', e[7])
        elif e[0] != 'state':
            print(' ', e)
    print('residue:', tr.residue)
    print('%s predicate on the implementation trace:' % name)
    for x in checker(tr):
        print('  FAIL', {k: v for k, v in x.items() if k != 'spec'})
    import core
    got, err = core.coq_eval(COQ_IMPORTS, coq_spec(spec))
    exp = canon_trace(run_scenario(spec, max_steps=CASE_MAX_STEPS))
    print('model trace equals implementation trace:', got == exp)
    if got != exp:
        print('implementation:', exp[:400])
        print('model         :', (got or [])[:400], err)


def max_transfer_segments(tr):
    """largest number of segments any transfer of the trace needs (from the wire: full length / segment size)"""
    reqs = _req_by_no(tr)
    best = 0
    for (src, dst, inv, ty, no), idxs in transfers(tr).items():
        if no is None:
            continue
        full = reqs[no]['len'] if ty == 0 else len((expected_response(tr, reqs[no]) or (0, b''))[1])
        sizes = [len(tr.frames[i]['data']) for i in idxs if tr.frames[i]['hdr']['mor'] == 1]
        if sizes and min(sizes) > 0:
            best = max(best, nsegs(full, min(sizes)))
    return best


def direct_families(rng, families, checker, focus=(), extra=None):
    """families: list of (name, generator(rng) -> spec, count).  Returns (failures, stats)."""
    failures, n, nontriv, hist, samples = [], 0, set(), {}, []
    for name, gen, count in families:
        for _ in range(count):
            spec = gen(rng)
            tr, fs = run_checked(spec, checker)
            n += 1
            hist[name] = hist.get(name, 0) + 1
            if tr.frames:
                nontriv.add(spec_key(spec))
            for f in fs:
                f['family'] = name
                f['max_nsegs'] = max_transfer_segments(tr)
            failures.extend(fs)
            if len(samples) < 3 and tr.frames:
                samples.append({'direct': name, 'frames': len(tr.frames), 'end_ms': tr.end_t,
                                'outcomes': [[e[4], e[7]] for e in tr.events if e[0] == 'conf'][:4]})
    for d in focus or ():
        if isinstance(d, dict) and 'spec' in d:
            spec = fix_spec(d['spec'])
            tr, fs = run_checked(spec, checker)
            n += 1
            for f in fs:
                f['family'] = 'focus'
                f['max_nsegs'] = max_transfer_segments(tr)
            failures.extend(fs)
    return failures, {'evaluations': n, 'distinct_nontrivial': len(nontriv), 'families': hist, 'samples': samples}


def known_replays(prop, checker, max_steps=8000):
    """the canonical replays of the recorded known findings are evaluated on every run"""
    import core, json
    out = []
    for e in core.load_findings(prop):
        if e.get('status') != 'known':
            continue
        spec = ((e.get('replay') or {}).get('failure') or {}).get('spec')
        if not spec:
            continue
        spec = fix_spec(json.loads(json.dumps(spec)))
        tr, fs = run_checked(spec, checker, max_steps=max_steps)
        for f in fs:
            f['family'] = 'known-replay'
            f['max_nsegs'] = max_transfer_segments(tr)
        out.extend(fs)
    return out


def model_agrees(specs):
    """for each scenario: does the Coq world model (the unchanged, proved-about semantics) produce exactly the trace the
    implementation produces?  Used to decide whether a failing input is a *known* failure: only if the model fails on it in
    the same way.  Fail-closed: if the model cannot be evaluated nothing agrees."""
    import core
    if not specs:
        return []
    cases = [scenario_case(sp, 'agree') for sp in specs]
    try:
        mism, errs = core.run_coq_cases('AGREE', COQ_IMPORTS, cases, shard=40)
    except Exception:
        return [False] * len(specs)
    if errs:
        return [False] * len(specs)
    bad = set(id(c) for c in mism)
    return [id(c) not in bad for c in cases]
