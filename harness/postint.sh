#!/bin/bash
# postint.sh <Cxx>... : after integration: test suite on /repo, then for each property quick check (seeds 0,1) and the seeded changes
cd /verif
echo "== tests: $(cd /repo && PYTHONPATH=/repo/py34 /venv/bin/python -m pytest -q -p no:cacheprovider --timeout=900 tests 2>&1 | tail -1)"
for p in "$@"; do
  for s in 0 1; do
    echo "== $p seed $s"; VERIF_SEED=$s ./check $p --tier quick 2>&1 | tail -4
  done
  if [ -d /tmp/seed/$p/out ]; then echo "== $p seeded"; python3 harness/keepseed.py $p 2>&1 | tail -4; fi
done
echo "== done $(date)"
