#!/usr/bin/env python3
"""parseed.py [-j N] <seeded/Cxx-k>... : run seeded changes through their property's quick check in parallel.
Each slot is a copy of /verif (with its build output) plus a scratch worktree of /repo under /tmp/ps/slot<i>;
/repo itself is never touched.  Updates seeded/<id>/meta.json (confirmed_by_integrator) and prints one line per seed."""
import json, os, queue, shutil, subprocess, sys, threading
VERIF = os.path.dirname(os.path.dirname(os.path.abspath(__file__)))
ROOT = os.environ.get("PARSEED_ROOT", "/tmp/ps")


def sh(cmd, **kw):
    return subprocess.run(cmd, shell=True, capture_output=True, text=True, **kw)


def main():
    args = sys.argv[1:]
    j = 4
    if args and args[0] == '-j':
        j = int(args[1]); args = args[2:]
    seeds = [os.path.abspath(a.rstrip('/')) for a in args]
    j = min(j, len(seeds))
    q = queue.Queue()
    for s in seeds:
        q.put(s)
    lock = threading.Lock()

    def worker(i):
        slot = '%s/slot%d' % (ROOT, i)
        sh('git -C /repo worktree remove --force %s/repo; rm -rf %s' % (slot, slot))
        os.makedirs(slot)
        sh('git -C /repo worktree add --detach %s/repo HEAD' % slot)
        sh('rsync -a --exclude .git --exclude replays --exclude seeded --exclude work %s/ %s/verif/' % (VERIF, slot))
        try:
            while True:
                try:
                    s = q.get_nowait()
                except queue.Empty:
                    break
                meta = json.load(open(os.path.join(s, 'meta.json')))
                prop = meta['property']
                env = dict(os.environ, VERIF_REPO=slot + '/repo')
                p = subprocess.run([sys.executable, slot + '/verif/harness/seedtest.py', prop, s], capture_output=True, text=True, env=env)
                r = None
                for line in p.stdout.splitlines():
                    try:
                        r = json.loads(line)
                    except ValueError:
                        pass
                with lock:
                    if r is None:
                        print('%s ERROR %s' % (os.path.basename(s), (p.stdout + p.stderr)[-300:]), flush=True)
                        continue
                    confirmed = r.get('demo_fails_with_change') and r.get('demo_passes_without') and 'passed' in r.get('tests_with_change', '') and 'failed' not in r.get('tests_with_change', '')
                    print('%s confirmed=%s detected=%s failing_input=%s | %s' % (os.path.basename(s), confirmed, r.get('detected'), r.get('with_failing_input'), r.get('summary', r.get('status'))), flush=True)
                    c = meta.setdefault('confirmed_by_integrator', {})
                    meta.update({'tests_pass_with_change': 'passed' in r.get('tests_with_change', '') and 'failed' not in r.get('tests_with_change', ''),
                                 'demo_fails_with_change': r.get('demo_fails_with_change'), 'demo_passes_without': r.get('demo_passes_without')})
                    c.update({'confirmed': bool(confirmed),
                              'ran': ['git apply patch.diff (scratch worktree of /repo)', 'pytest tests (PYTHONPATH=<worktree>/py34): ' + r.get('tests_with_change', ''),
                                      'demo.py with change: exit %s' % ('!= 0' if r.get('demo_fails_with_change') else '0'),
                                      './check %s --tier quick (VERIF_REPO=<worktree>)' % prop, 'git checkout -- .',
                                      'demo.py without change: exit %s' % ('0' if r.get('demo_passes_without') else '!= 0')],'check_detected': r.get('detected'), 'check_gave_failing_input': r.get('with_failing_input'),
                              'violation_lines': [l.replace(slot + '/verif', '/verif') for l in r.get('violation_lines') or []],
                              'check_summary': r.get('summary'), 'check_wall_s': r.get('wall_s')})
                    c['ran'] = c['ran']
                    json.dump(meta, open(os.path.join(s, 'meta.json'), 'w'), indent=1)
        finally:
            sh('git -C /repo worktree remove --force %s/repo; rm -rf %s' % (slot, slot))

    ts = [threading.Thread(target=worker, args=(i,)) for i in range(j)]
    for t in ts:
        t.start()
    for t in ts:
        t.join()
    sh('git -C /repo worktree prune')


if __name__ == '__main__':
    main()
