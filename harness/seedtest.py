#!/usr/bin/env python3
"""seedtest.py <Cxx> <dir-with-patch.diff>... : apply each seeded change to /repo, run the quick check,
undo the change, and report whether the check raised a VIOLATION.  Refuses to run if /repo is dirty."""
import json, os, subprocess, sys, time

REPO = os.environ.get('VERIF_REPO', '/repo')
VERIF = os.path.dirname(os.path.dirname(os.path.abspath(__file__)))


def sh(cmd, **kw):
    return subprocess.run(cmd, shell=True, capture_output=True, text=True, **kw)


def main():
    prop = sys.argv[1]
    dirs = sys.argv[2:]
    if sh('git -C %s status --porcelain' % REPO).stdout.strip():
        sys.exit('refusing: /repo has uncommitted changes')
    results = []
    for d in dirs:
        patch = os.path.join(d, 'patch.diff')
        r = {'dir': d}
        a = sh('git -C %s apply --check %s' % (REPO, patch))
        if a.returncode != 0:
            r['status'] = 'patch does not apply: ' + a.stderr[:200]
            results.append(r)
            continue
        try:
            sh('git -C %s apply %s' % (REPO, patch))
            demo = os.path.join(d, 'demo.py')
            if os.path.exists(demo):
                dm = sh('PYTHONPATH=%s/py34 timeout 300 /venv/bin/python %s' % (REPO, demo), cwd=d)
                r['demo_fails_with_change'] = dm.returncode != 0
            tp = sh('cd %s && PYTHONPATH=%s/py34 timeout 900 /venv/bin/python -m pytest -q -p no:cacheprovider --timeout=900 tests 2>&1 | tail -1' % (REPO, REPO))
            r['tests_with_change'] = tp.stdout.strip()[-80:]
            t0 = time.time()
            c = sh('cd %s && timeout 1500 ./check %s --tier quick' % (VERIF, prop))
            r['wall_s'] = round(time.time() - t0, 1)
            r['exit'] = c.returncode
            r['violation_lines'] = [l for l in c.stdout.splitlines() if l.startswith('VIOLATION')]
            r['summary'] = c.stdout.strip().splitlines()[-1][:300] if c.stdout.strip() else c.stderr[-300:]
            r['detected'] = c.returncode == 1 and bool(r['violation_lines'])
            r['with_failing_input'] = any('no-failing-input-found' not in l for l in r['violation_lines'])
        finally:
            sh('git -C %s checkout -- .' % REPO)
            sh('git -C %s clean -fdq -- py34' % REPO)
        if os.path.exists(os.path.join(d, 'demo.py')):
            dm = sh('PYTHONPATH=%s/py34 timeout 300 /venv/bin/python %s' % (REPO, os.path.join(d, 'demo.py')), cwd=d)
            r['demo_passes_without'] = dm.returncode == 0
        results.append(r)
        print(json.dumps(r))
    return 0


if __name__ == '__main__':
    sys.exit(main())
