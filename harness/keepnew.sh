#!/bin/bash
# keepnew.sh <wave-tag> <Cxx>... : copy /tmp/seed/<Cxx>/out/<k> to seeded/<Cxx>-<tag>-<k> and run them through parseed
tag=$1; shift
cd /verif
S=""
for p in "$@"; do
  for d in /tmp/seed/$p/out/*/; do
    k=$(basename $d)
    [ -f $d/patch.diff ] || continue
    dst=seeded/$p-$tag-$k
    mkdir -p $dst; cp $d/patch.diff $d/demo.py $d/meta.json $dst/ 2>/dev/null
    S="$S $dst"
  done
done
python3 harness/parseed.py -j ${J:-6} $S
