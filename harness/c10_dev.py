"""C10, device level: every frame injected into a full device stack on the virtual LAN is predicted FROM ITS RAW
OCTETS by coq/theories/DeviceRx.v (dropped / reply frame with type, invoke ID, reason or error codes, routing /
transaction-table and timer residue after it) and compared with what the stack does.

The only thing handed to the model besides the octets is what the service layer above the ASAP did with the request
(helper present?, its response or exception, the length of a ComplexAck's parameters, an I-Am reaching the
device-information cache): observed at the helper / ASAP boundary of the same world by instance-level wrappers."""
import c10_common as C
import vnet

SEG_NAMES = ['noSegmentation', 'segmentedTransmit', 'segmentedReceive', 'segmentedBoth']
REASONS = {'other': 0, 'bufferOverflow': 1, 'inconsistentParameters': 2, 'invalidParameterDatatype': 3, 'invalidTag': 4,
           'missingRequiredParameter': 5, 'parameterOutOfRange': 6, 'tooManyArguments': 7, 'undefinedEnumeration': 8,
           'unrecognizedService': 9}
SNIFF_ADDR = 250


def mac_code(b):
    c = 1
    for x in bytes(b):
        c = c * 256 + x
    return c


def _z(v):
    return '(%d)' % v if v < 0 else '%d' % v


def _nl(xs):
    return '[' + ';'.join(str(x) for x in xs) + ']%N'


def _enum(table, v):
    if isinstance(v, int):
        return v
    return table[v]


class ObservedDevice:
    """C.Device() + a promiscuous sniffer + wrappers at the service boundary; builds the Coq event list and the
    expected canonical trace side by side"""

    def __init__(self, dcc=None, silent=False):
        from bacpypes.appservice import ServerSSM
        self.ServerSSM = ServerSSM
        self.w = C.Device()
        self.app = self.w.dev
        self.sniff = vnet.RawNode(self.w.lan, SNIFF_ADDR, promiscuous=True)
        self.t0 = self.w.clock.now[0]
        self.events, self.expected = [], []
        self.client_role = False       # the device acted as a client (outside the server-role model)
        self.odd = []                  # observations the oracle interface cannot express
        self.dcc = 0
        self.dcc_name = dcc or 'enable'
        self.stopped = False           # the DCC service changed dccEnableDisable: d_dcc is read-only in the model, what follows is outside it
        if dcc:
            self.app.smap.dccEnableDisable = dcc
            self.dcc = {'enable': 0, 'disable': 1, 'disableInitiation': 2}[dcc]
        if silent:      # a service that returns without responding: the transaction waits for the application time-out
            self.app.do_ReadPropertyRequest = lambda apdu: None
        self._hook()

    # ---- service boundary
    def _hook(self):
        from bacpypes.apdu import ConfirmedRequestPDU
        app = self.app
        rec = self.rec = {'calls': [], 'down': [], 'iam': []}
        cur = [None]

        def mk(orig, name):
            def wrapper(apdu):
                r = {'name': name, 'confirmed': isinstance(apdu, ConfirmedRequestPDU), 'resp': [], 'resp_done': 0, 'exc': None}
                rec['calls'].append(r)
                prev, cur[0] = cur[0], r
                try:
                    return orig(apdu)
                except BaseException as e:
                    r['exc'] = e
                    raise
                finally:
                    cur[0] = prev
            return wrapper
        for name in dir(type(app)):
            if name.startswith('do_'):
                setattr(app, name, mk(getattr(app, name), name))
        orig_resp = app.response

        def response(apdu):
            r = cur[0]
            if r is not None:
                r['resp'].append(apdu)
            orig_resp(apdu)
            if r is not None:
                r['resp_done'] += 1
        app.response = response
        orig_down = app.asap.response

        def down(xpdu):
            rec['down'].append(xpdu)
            orig_down(xpdu)
        app.asap.response = down
        cache = app.deviceInfoCache
        orig_iam = cache.iam_device_info

        def iam(apdu):
            orig_iam(apdu)
            rec['iam'].append((apdu.maxAPDULengthAccepted, apdu.segmentationSupported))
        cache.iam_device_info = iam

    def cfg_coq(self):
        s, d = self.app.smap, self.app.smap.localDevice
        g = lambda n, dflt: getattr(d, n, dflt)
        return '(SsmWorld.mkNode %d %d %d %d %d %d %d %d %d false [])' % (
            C.DEV_ADDR, g('maxApduLengthAccepted', s.maxApduLengthAccepted),
            SEG_NAMES.index(g('segmentationSupported', s.segmentationSupported)),
            g('maxSegmentsAccepted', s.maxSegmentsAccepted), g('numberOfApduRetries', s.numberOfApduRetries),
            g('apduTimeout', s.apduTimeout), g('apduSegmentTimeout', s.segmentTimeout), s.proposedWindowSize, s.applicationTimeout)

    def now_ms(self):
        return int(round((self.w.clock.now[0] - self.t0) * 1000))

    # ---- observation
    def _svc(self, frame):
        from bacpypes.apdu import confirmed_request_types, SimpleAckPDU, ComplexAckPDU, Error, ErrorPDU, AbortReason
        from bacpypes.errors import ExecutionError, RejectException, AbortException
        from bacpypes.basetypes import ErrorClass, ErrorCode
        rec = self.rec
        helper = False
        r = C.parse_npdu_apdu(frame)
        if r is not None and r[0] == 0:
            a = r[2]
            k = 5 if a[0] & 0x08 else 3
            if len(a) > k:
                atype = confirmed_request_types.get(a[k])
                helper = atype is not None and hasattr(self.app, 'do_' + atype.__name__)
        calls = [c for c in rec['calls'] if c['confirmed']]
        x, ln = 'XSilent', 0
        if len(calls) > 1:
            self.odd.append('several confirmed helper calls for one frame')
        if calls:
            c = calls[0]
            helper = True
            e = c['exc']
            if e is not None and c['resp_done']:
                self.odd.append('helper responded and raised')
            if isinstance(e, ExecutionError):
                x = '(XExecError %d %d)' % (_enum(ErrorClass.enumerations, e.errorClass), _enum(ErrorCode.enumerations, e.errorCode))
            elif isinstance(e, RejectException):
                x = '(XReject %d)' % _enum(REASONS, e.rejectReason)
            elif isinstance(e, AbortException):
                x = '(XAbort %d)' % _enum(AbortReason.enumerations, e.abortReason)
            elif e is not None:
                x = 'XExn'
            elif c['resp']:
                if len(c['resp']) > 1:
                    self.odd.append('helper responded twice')
                p = c['resp'][0]
                if isinstance(p, SimpleAckPDU):
                    x = '(XResp 2 0 0)'
                elif isinstance(p, (Error, ErrorPDU)):
                    x = '(XResp 5 %d %d)' % (_enum(ErrorClass.enumerations, p.errorClass), _enum(ErrorCode.enumerations, p.errorCode))
                elif isinstance(p, ComplexAckPDU):
                    x = '(XResp 3 0 0)'
                    for d in rec['down']:
                        if d.apduType == 3:
                            ln = len(d.pduData)
                else:
                    self.odd.append('helper responded with %s' % type(p).__name__)
        iam = 'None'
        if rec['iam']:
            ma, sg = rec['iam'][-1]
            iam = '(Some (%s, %d))' % (_z(ma), SEG_NAMES.index(sg) if sg in SEG_NAMES else _enum({}, sg))
        return '(mkSvc %s %s %d %s)' % ('true' if helper else 'false', x, ln, iam)

    def _canon_out(self, dst, data):
        """one frame the device put on the LAN -> ints as DeviceRx.canon_dout, or None for what the server-role model
        does not produce (unconfirmed service traffic, the device's own confirmed requests)"""
        if len(data) < 2 or data[0] != 1:
            return [97]
        ctl, i = data[1], 2
        route = [-1, -1]
        if ctl & 0x20:
            dnet, dlen = (data[i] << 8) | data[i + 1], data[i + 2]
            route = [dnet, mac_code(data[i + 3:i + 3 + dlen])]
            i += 3 + dlen
        if ctl & 0x08:
            i += 3 + data[i + 2]
        if ctl & 0x20:
            i += 1
        if ctl & 0x80:
            mt = data[i]
            if mt == 0 and len(data) >= i + 3:
                return [2, (data[i + 1] << 8) | data[i + 2]]
            return [98, mt]
        a = data[i:]
        t = a[0] >> 4
        if t == 0:
            self.client_role = True
            return None
        if t == 1:
            return None
        if dst == '*':
            return [96]
        head = [1, mac_code(bytes([int(dst)])) if dst.isdigit() else -5] + route
        if t == 2:
            return head + [2, a[1], 0, 0, 0, 0, -1, 0]
        if t == 3:
            seg, mor = (a[0] >> 3) & 1, (a[0] >> 2) & 1
            if seg:
                return head + [3, a[1], 0, 0, 1, mor, a[2], len(a) - 5]
            return head + [3, a[1], 0, 0, 0, mor, -1, len(a) - 3]
        if t == 4:
            return head + [4, a[1], 0, 0, 0, 0, a[2], 0]
        if t == 5:
            cls = code = -1
            if len(a) >= 7 and a[3] == 0x91 and a[5] == 0x91:
                cls, code = a[4], a[6]
            return head + [5, a[1], cls, code, 0, 0, -1, 0]
        return head + [t, a[1], a[2], 0, 0, 0, -1, 0]

    def _outs(self):
        out = []
        for src, dst, data in self.sniff.frames:
            if src != str(C.DEV_ADDR):
                continue
            c = self._canon_out(dst, data)
            if c is not None:
                out.append(c)
        self.sniff.frames.clear()
        return [len(out)] + [v for c in out for v in c]

    def _state(self):
        smap, tm = self.app.smap, self.w.clock.tm
        if smap.clientTransactions:
            self.client_role = True
        sched = [t[-1] for t in tm.tasks if isinstance(t[-1], self.ServerSSM)]
        listed = sum(1 for s in sched if any(s is tr for tr in smap.serverTransactions))
        return [len(smap.serverTransactions), listed, len(sched) - listed, 0]

    # ---- events
    def rx(self, node, frame, bcast=False):
        """node (a vnet.RawNode) sends the octets to the device; everything due at this instant runs"""
        from bacpypes.pdu import LocalBroadcast
        if self.stopped:
            return []
        now = self.now_ms()
        for k in self.rec:
            self.rec[k] = []
        self.sniff.frames.clear()
        node.send(LocalBroadcast() if bcast else C.DEV_ADDR, frame)
        errs = self.w.clock.drain()
        ev = 'ERx %d (mkFrame %s %s %s) %s' % (now, _nl(node.address.addrAddr), 'true' if bcast else 'false', _nl(frame), self._svc(frame))
        self.events.append(ev)
        self.expected += self._outs() + self._state()
        if self.app.smap.dccEnableDisable != self.dcc_name:
            self.stopped = True
        return errs

    def adv(self, seconds):
        if self.stopped:
            return
        now = self.now_ms()
        self.sniff.frames.clear()
        self.w.clock.run(seconds)
        self.events.append('EAdv %d %d' % (now, now + int(round(seconds * 1000))))
        self.expected += self._outs() + self._state()

    def finish(self, seconds=600.0):
        now = self.now_ms()
        self.sniff.frames.clear()
        self.w.clock.run(seconds)
        self.expected += self._outs() + self._state() + [0]
        return 'canon_scenario %s %d [%s] %d' % (self.cfg_coq(), self.dcc, '; '.join(self.events), now)


# ---------------------------------------------------------------------------------------------------------------
# scenario families (the same ones the direct predicate of harness/props/c10.py walks through)

def garbage(rng, pool, kind):
    if kind == 0:    # random octets as a whole frame (network layer)
        return bytes(rng.randrange(256) for _ in range(rng.randrange(0, 12)))
    if kind == 1:    # valid NPDU header, random APDU
        return C.npdu(bytes(rng.randrange(256) for _ in range(rng.randrange(0, 12))))
    if kind == 2:    # corrupted fixed header of a valid request (any of the first octets)
        name, apdu = rng.choice(pool)
        m = bytearray(apdu)
        m[rng.randrange(min(4, len(m)))] = rng.randrange(256)
        return C.npdu(bytes(m))
    if kind == 3:    # network-layer message / bad version / address fields
        return bytes([rng.choice([0, 1, 1, 2]), rng.randrange(256)]) + bytes(rng.randrange(256) for _ in range(rng.randrange(0, 10)))
    if kind == 4:    # well-formed network-layer messages of every registered type, and unregistered ones
        mt = rng.choice([0, 0, 1, 1, 2, 3, 4, 5, 6, 7, 8, 9, 0x12, 0x13, 0x0A, 0x40, 0x80, 0xFF])
        body = bytes(rng.randrange(256) for _ in range(rng.choice([0, 1, 2, 2, 3, 4, 6])))
        ctl = 0x80 | rng.choice([0, 0, 0x04, 0x20, 0x08])
        hdr = bytes([1, ctl])
        if ctl & 0x20:
            hdr += rng.choice([b'\xff\xff\x00', b'\x00\x05\x00', b'\x00\x05\x01\x07'])
        if ctl & 0x08:
            hdr += bytes([0, rng.choice([5, 6]), 1, rng.randrange(1, 255)])
        if ctl & 0x20:
            hdr += b'\xff'
        return hdr + bytes([mt]) + body
    if kind == 5:    # a valid request behind every shape of destination / source address fields
        name, apdu = rng.choice(pool)
        ctl = rng.choice([0x20, 0x28, 0x08, 0x24, 0x2C])
        hdr = bytes([1, ctl])
        if ctl & 0x20:
            hdr += rng.choice([b'\xff\xff\x00', b'\x00\x05\x00', b'\x00\x05\x01\x01', b'\x00\x00\x01\x01', b'\xff\xff\x01\x01'])
        if ctl & 0x08:
            hdr += rng.choice([bytes([0, 5, 1, 7]), bytes([0, 6, 2, 7, 8]), b'\xff\xff\x01\x01', b'\x00\x05\x00', bytes([0, 5, 6, 1, 2, 3, 4, 5, 6])])
        if ctl & 0x20:
            hdr += bytes([rng.choice([0, 1, 255])])
        return hdr + bytes(apdu)
    name, apdu = rng.choice(pool)      # truncated valid frame
    f = C.npdu(apdu)
    return f[:rng.randrange(len(f))]


def _case(Case, kind, od, desc):
    coq = od.finish()
    desc = dict(desc)
    if od.client_role:
        desc['note'] = 'the device also acted as a client (not modelled; server side compared)'
    return Case(kind, coq, od.expected, key=coq, nontrivial=True, desc=desc)


def scenario_cases(rng, tier, pool, other_confirmed, unconf, stats):
    from core import Case
    out = []
    big = tier == 'thorough'

    def keep(kind, od, desc):
        if od.odd:
            stats['outside_oracle_interface'] = stats.get('outside_oracle_interface', 0) + 1
            return
        if od.client_role:
            stats['client_role_seen'] = stats.get('client_role_seen', 0) + 1
        if od.stopped:
            stats['cut_at_dcc_change'] = stats.get('cut_at_dcc_change', 0) + 1
        out.append(_case(Case, kind, od, desc))

    # garbage of every layer interleaved with a valid request, then a valid ReadProperty
    for _ in range(1500 if big else 260):
        od = ObservedDevice()
        name, apdu = rng.choice(pool)
        v = bytearray(apdu); v[2] = 77
        frames = [garbage(rng, pool, rng.randrange(7)) for _ in range(rng.randrange(1, 5))]
        frames.insert(rng.randrange(len(frames) + 1), C.npdu(bytes(v)))
        for f in frames:
            od.rx(od.w.raw, f, bcast=(rng.random() < 0.08))
        rp = bytearray(pool[0][1]); rp[2] = 78
        od.rx(od.w.raw, C.npdu(bytes(rp)))
        keep('dev:garbage+valid', od, {'family': 'garbage interleaved with a valid request', 'frames': [f.hex() for f in frames]})

    # histories of well-formed traffic
    conf_pool = pool + other_confirmed
    for _ in range(600 if big else 110):
        od = ObservedDevice()
        inv, script = 100, []
        for step in range(rng.randrange(2, 7)):
            if rng.random() < 0.4:
                name, apdu = rng.choice(unconf)
                f = C.npdu(apdu, False)
            else:
                name, apdu = rng.choice(conf_pool)
                a = bytearray(apdu); a[2] = inv
                inv += 1
                f = C.npdu(bytes(a))
            script.append(f)
            od.rx(od.w.raw, f)
            if rng.random() < 0.2:
                od.adv(rng.choice([0.5, 4.0]))
        keep('dev:history', od, {'family': 'history of valid traffic', 'frames': [f.hex() for f in script]})

    # routed requests through alternating routers, with a planted I-Am-Router-To-Network
    rp = pool[0][1]
    for _ in range(200 if big else 50):
        od = ObservedDevice()
        w = od.w
        snet, sadr = rng.choice([5, 6, 700]), bytes([rng.randrange(1, 255)])
        script = []
        if rng.random() < 0.5:
            liar = rng.choice([w.raw, w.raw2])
            f = bytes([0x01, 0x80, 0x01, snet >> 8, snet & 255])
            od.rx(liar, f); script.append(f)
        inv = 150
        for node in [rng.choice([w.raw, w.raw2]) for _ in range(rng.randrange(2, 6))]:
            a = bytearray(rng.choice(pool)[1] if rng.random() < 0.3 else rp); a[2] = inv
            inv += 1
            f = C.npdu_routed(bytes(a), snet, sadr)
            od.rx(node, f); script.append(f)
        keep('dev:routed', od, {'family': 'routed requests', 'frames': [f.hex() for f in script]})

    # requests announcing small max-APDU codes and segmented-response acceptance: long answers are segmented or
    # aborted; segment acks good and bad
    from bacpypes.apdu import ReadPropertyMultipleRequest, ReadAccessSpecification, PropertyReference

    def _rpm(obj, props):
        return ReadPropertyMultipleRequest(listOfReadAccessSpecs=[ReadAccessSpecification(
            objectIdentifier=obj, listOfPropertyReferences=[PropertyReference(propertyIdentifier=q) for q in props])])
    long_reqs = [_rpm(('analogValue', 1), ['all']), _rpm(('device', C.DEV_ADDR), ['all']),
                 _rpm(('analogValue', 1), ['objectName', 'presentValue', 'statusFlags', 'units', 'objectIdentifier', 'objectType'])]
    for _ in range(500 if big else 90):
        od = ObservedDevice()
        inv = 90
        code, sa = rng.choice([0, 0, 1, 2, 5, 7, 12]), rng.random() < 0.7
        apdu = C.encode_request(rng.choice(long_reqs), inv, max_resp_code=code, seg_accepted=sa)
        if rng.random() < 0.3:
            apdu = bytes([apdu[0], (rng.randrange(8) << 4) | code]) + apdu[2:]
        script = [C.npdu(apdu)]
        od.rx(od.w.raw, script[0])
        for _ in range(rng.randrange(0, 4)):
            nak, srv = rng.random() < 0.3, rng.random() < 0.15
            seq, win = rng.choice([0, 0, 1, 1, 2, 3, 255]), rng.choice([0, 1, 2, 2, 4, 127, 128, 255])
            ack = bytes([0x40 | (2 if nak else 0) | (1 if srv else 0), inv, seq, win])
            if rng.random() < 0.2:
                ack = ack[:rng.randrange(1, 4)]
            if rng.random() < 0.1:
                ack = bytes([0x70, inv, 0])          # the client aborts
            f = C.npdu(ack, False)
            script.append(f)
            od.rx(od.w.raw, f)
            d = rng.choice([0.0, 0.0, 1.0, 6.0])
            if d:
                od.adv(d)
        keep('dev:segmented-response', od, {'family': 'segmented response + segment acks', 'frames': [f.hex() for f in script]})

    # segmented requests (first / middle / last segments, out of order, duplicates) and duplicates of a request
    for _ in range(300 if big else 60):
        od = ObservedDevice()
        name, apdu = rng.choice(pool)
        inv = 60
        body = bytes(apdu[3:])              # service choice + parameters
        cut = rng.randrange(1, max(2, len(body)))
        segs = [body[:cut], body[cut:]] if rng.random() < 0.7 else [body[:1], body[1:cut + 1], body[cut + 1:]]
        frames = []
        for k, sgm in enumerate(segs):
            mor = k < len(segs) - 1
            hdr = bytes([0x08 | (0x04 if mor else 0) | 0x02, apdu[1], inv, k, rng.choice([1, 2, 4])])
            frames.append(C.npdu(hdr + bytes([apdu[3]]) + (sgm[1:] if k == 0 else sgm)))
        order = list(range(len(frames)))
        r = rng.random()
        if r < 0.2:
            rng.shuffle(order)
        elif r < 0.4:
            order.insert(rng.randrange(len(order)), rng.randrange(len(order)))
        elif r < 0.5:
            order = order[:-1]
        script = []
        for k in order:
            od.rx(od.w.raw, frames[k]); script.append(frames[k])
            if rng.random() < 0.15:
                od.adv(rng.choice([1.0, 6.0]))
        if rng.random() < 0.5:
            a = bytearray(apdu); a[2] = inv
            od.rx(od.w.raw, C.npdu(bytes(a))); script.append(C.npdu(bytes(a)))
        keep('dev:segmented-request', od, {'family': 'segmented request', 'frames': [f.hex() for f in script]})

    # a service that stays silent: the transaction lingers in AWAIT_RESPONSE until the application time-out; duplicates of
    # the request are ignored meanwhile, a client Abort ends it, other requests are served
    for _ in range(200 if big else 40):
        od = ObservedDevice(silent=True)
        rp = bytearray(pool[0][1]); rp[2] = 50
        script = [C.npdu(bytes(rp))]
        od.rx(od.w.raw, script[0])
        for _ in range(rng.randrange(1, 5)):
            r = rng.random()
            if r < 0.3:
                f = script[0]                                   # duplicate
            elif r < 0.45:
                f = C.npdu(bytes([0x70 | rng.choice([0, 0, 1]), 50, rng.randrange(10)]), False)     # Abort from the client (srv 0) / stray (srv 1)
            elif r < 0.55:
                f = C.npdu(bytes([0x40, 50, 0, 2]), False)      # SegmentAck nobody asked for
            elif r < 0.8:
                a = bytearray(rng.choice(pool)[1]); a[2] = rng.choice([50, 51])
                f = C.npdu(bytes(a))
            else:
                f = garbage(rng, pool, rng.randrange(7))
            script.append(f)
            od.rx(od.w.raw, f)
            if rng.random() < 0.4:
                od.adv(rng.choice([1.0, 2.5, 4.0]))
        keep('dev:silent-service', od, {'family': 'service that does not respond', 'frames': [f.hex() for f in script]})

    # a device whose communication has been disabled listens to DeviceCommunicationControl, ReinitializeDevice, Who-Is only
    for _ in range(150 if big else 30):
        od = ObservedDevice(dcc=rng.choice(['disable', 'disable', 'disableInitiation']))
        script = []
        for _ in range(rng.randrange(1, 5)):
            r = rng.random()
            if r < 0.3:
                f = C.npdu(rng.choice(unconf)[1], False)
            elif r < 0.5:
                f = garbage(rng, pool, rng.randrange(7))
            else:
                a = bytearray(rng.choice(conf_pool)[1]); a[2] = 40 + len(script)
                f = C.npdu(bytes(a))
            od.rx(od.w.raw, f); script.append(f)
        keep('dev:dcc-disabled', od, {'family': 'communication disabled', 'frames': [f.hex() for f in script]})
    # routed requests whose originator has a MAC address of every legal length (SLEN 1..8: ARCNET/MS-TP, ZigBee/IPv6 VMAC,
    # Ethernet/B-IP, LonTalk Neuron ID 7, ...; 16 and 18: IPv6 forms; 255: the largest the octet allows), well-formed and
    # mutated, some behind a global-broadcast DADR; and frames for remote stations (DLEN of the same range), which a
    # device with one adapter lets pass
    for k in range(330 if big else 66):
        od = ObservedDevice()
        w = od.w
        L = MAC_LENGTHS[k % len(MAC_LENGTHS)]
        snet, sadr = rng.choice([1, 5, 6, 700, 65534]), bytes(rng.randrange(256) for _ in range(L))
        script, inv = [], 150
        for node in [rng.choice([w.raw, w.raw2]) for _ in range(rng.randrange(1, 4))]:
            name, apdu = rng.choice(pool)
            r = rng.random()
            if r < 0.45:
                apdu = rng.choice(C.mutations(rng, apdu, 2))[1]
            a = bytearray(apdu); a[2] = inv
            inv += 1
            if r > 0.85:       # for somebody else: DNET/DLEN/DADR of a remote station (and the source fields or not)
                dl = rng.choice(MAC_LENGTHS)
                hdr = bytes([1, 0x24 | (0x08 if rng.random() < 0.5 else 0), 0, 9, dl]) + bytes(rng.randrange(256) for _ in range(dl))
                if hdr[1] & 0x08:
                    hdr += bytes([snet >> 8, snet & 255, L]) + sadr
                f = hdr + bytes([255]) + bytes(a)
            elif r > 0.75:     # global broadcast DADR in front of the source fields
                f = bytes([1, 0x2C, 255, 255, 0, snet >> 8, snet & 255, L]) + sadr + bytes([255]) + bytes(a)
            else:
                f = C.npdu_routed(bytes(a), snet, sadr)
            od.rx(node, f); script.append(f)
        keep('dev:routed-maclen', od, {'family': 'routed requests, source/destination MAC lengths', 'slen': L, 'frames': [f.hex() for f in script]})

    # every value of the fields of the fixed header that leave it intact (wave 6): the run walks through ALL invoke IDs 0..255
    # (four per scenario; 0 and 255 are ordinary IDs), the second octet takes any value (reserved bit, max-segments code,
    # max-APDU code incl. reserved ones), the low bits of the first (reserved bit, segmented-response-accepted) and the NPCI
    # priority / expecting-reply bits vary; valid and mutated requests of every service, two stations, an ID reused at once
    ids = list(range(256))
    if big:
        ids = ids * 3
    rng.shuffle(ids)
    for k in range(0, len(ids), 4):
        od = ObservedDevice()
        w = od.w
        script = []
        mine = ids[k:k + 4]
        if rng.random() < 0.5:
            mine = mine + [rng.choice(mine)]        # the same ID again, from the same or the other station
        for inv in mine:
            name, apdu = rng.choice(pool)
            if rng.random() < 0.3:
                apdu = rng.choice(C.mutations(rng, apdu, 2))[1]
            a = bytearray(apdu)
            a[2] = inv
            if rng.random() < 0.3:
                a[1] = rng.randrange(256)
            a[0] = (a[0] & 0xFC) | rng.choice([0, 0, 1, 2, 3])
            f = bytes([1, rng.choice([4, 4, 0, 5, 7])]) + bytes(a)
            od.rx(rng.choice([w.raw, w.raw, w.raw2]), f); script.append(f)
            if rng.random() < 0.2:
                od.adv(rng.choice([0.5, 4.0]))
        keep('dev:header-fields', od, {'family': 'fixed-header field values (invoke ID 0..255, second octet, flag bits)', 'invoke_ids': mine,
                                       'frames': [f.hex() for f in script]})
    return out


MAC_LENGTHS = [1, 2, 3, 4, 5, 6, 7, 8, 16, 18, 255]


def single_case(name, how, m):
    """one (mutated) request as a raw frame: the device-level prediction for it"""
    from core import Case
    od = ObservedDevice()
    od.rx(od.w.raw, C.npdu(m))
    if od.odd:
        return None
    return _case(Case, 'dev:' + name, od, {'request': name, 'mutation': how, 'apdu': bytes(m).hex(), 'frames': [C.npdu(m).hex()]})
