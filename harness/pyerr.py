"""Map implementation exceptions to the model's err_code (coq/theories/Base.v)."""
import struct


def exc_code(e):
    from bacpypes import errors as E
    name = type(e).__name__
    if isinstance(e, E.InvalidTag): return 2
    if isinstance(e, E.MissingRequiredParameter): return 3
    if isinstance(e, E.InvalidParameterDatatype): return 4
    if isinstance(e, E.TooManyArguments): return 5
    if isinstance(e, E.RejectException): return 100
    if isinstance(e, E.AbortException): return 200
    if isinstance(e, E.DecodingError): return 1
    if isinstance(e, E.EncodingError): return 6
    if isinstance(e, struct.error): return 12
    if isinstance(e, UnicodeError): return 16      # subclass of ValueError
    if isinstance(e, OverflowError): return 13
    if isinstance(e, ValueError): return 7
    if isinstance(e, TypeError): return 8
    if isinstance(e, KeyError): return 9
    if isinstance(e, IndexError): return 10
    if isinstance(e, AttributeError): return 11
    if isinstance(e, NameError): return 14
    if isinstance(e, RuntimeError): return 15
    return 18


def canon_call(fn, ok):
    """run fn(); return [0]+ok(result) or [1, code]"""
    try:
        r = fn()
    except RecursionError:
        raise
    except Exception as e:
        return [1, exc_code(e)]
    return [0] + list(ok(r))
