#!/bin/bash
# mkworkspace.sh <name>: isolated builder workspace: clone of /verif + worktree of /repo under /tmp/w/<name>
set -e
n="$1"
mkdir -p /tmp/w/$n
git -C /repo worktree add --detach /tmp/w/$n/repo HEAD >/dev/null 2>&1
git clone -q /verif /tmp/w/$n/verif
cd /tmp/w/$n/verif && git config user.email builder@example.com && git config user.name builder
echo "/tmp/w/$n ready"
