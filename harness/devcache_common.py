"""DeviceInfoCache histories on the real objects (app.DeviceInfoCache, appservice.StateMachineAccessPoint, ClientSSM,
ServerSSM) against coq/theories/DevCache.v: dc_run.  An op is a JSON-able list:

  ['iam', instance, address, maxApdu, seg]   DeviceInfoCache.iam_device_info(IAmRequest from `address`)
  ['open', address, role]                    ClientSSM / ServerSSM (role 'c' / 's') created for that peer and put in its table
  ['close', k, how]                          the k-th live transaction (creation order) goes to COMPLETED / ABORTED (how 6 / 7)
  ['upgrade', k]                             the record of the k-th live transaction is upgraded as ServerSSM.idle does on SA = 1

After every op: exception code, then every record (creation order: instance, address, max-APDU, segmentation, count),
the int keys and the Address keys of the cache dict in dict order with the record they lead to, the live transactions with the
record each holds."""
import ssm_common as S


def run_history(ops):
    """-> (canonical observation, details)"""
    from bacpypes.app import DeviceInfoCache
    from bacpypes.appservice import StateMachineAccessPoint, ClientSSM, ServerSSM, COMPLETED, ABORTED
    from bacpypes.apdu import IAmRequest
    from pyerr import exc_code
    S._setup_clock()
    cache = DeviceInfoCache()
    smap = StateMachineAccessPoint(S.Dev(S.node_cfg(1)), cache)
    order = []          # record objects in creation order
    live = []           # transactions in creation order
    out = []
    log = []

    def note_records():
        for di in cache.cache.values():
            if not any(di is x for x in order):
                order.append(di)

    def idx(di):
        for i, x in enumerate(order):
            if x is di:
                return i
        return -1

    for op in ops:
        code = 0
        try:
            if op[0] == 'iam':
                iam = IAmRequest(iAmDeviceIdentifier=('device', op[1]), maxAPDULengthAccepted=op[3],
                                 segmentationSupported=S.SEG_NAMES[op[4]], vendorID=999)
                iam.pduSource = S.mk_address(op[2])
                cache.iam_device_info(iam)
            elif op[0] == 'open':
                if op[2] == 'c':
                    tr = ClientSSM(smap, S.mk_address(op[1]))
                    smap.clientTransactions.append(tr)
                else:
                    tr = ServerSSM(smap, S.mk_address(op[1]))
                    smap.serverTransactions.append(tr)
                live.append(tr)
            elif op[0] == 'close':
                if op[1] < len(live):
                    tr = live.pop(op[1])          # whatever happens below, set_state has taken it out of its table first
                    tr.set_state(COMPLETED if op[2] == 6 else ABORTED)
            elif op[0] == 'upgrade':
                if op[1] < len(live) and live[op[1]].device_info:
                    di = live[op[1]].device_info
                    # ServerSSM.idle, appservice.py:907-928
                    if di.segmentationSupported == 'noSegmentation':
                        di.segmentationSupported = 'segmentedReceive'
                        cache.update_device_info(di)
                    elif di.segmentationSupported == 'segmentedTransmit':
                        di.segmentationSupported = 'segmentedBoth'
                        cache.update_device_info(di)
        except Exception as e:
            code = exc_code(e)
            log.append((list(op), type(e).__name__, str(e)[:60]))
        note_records()
        out.append(code)
        out.append(len(order))
        for di in order:
            out += [di.deviceIdentifier, S.addr_no(di.address), di.maxApduLengthAccepted, S.SEG_NAMES.index(di.segmentationSupported),
                    getattr(di, '_ref_count', -1)]
        ints = [(k, v) for k, v in cache.cache.items() if isinstance(k, int)]
        addrs = [(k, v) for k, v in cache.cache.items() if not isinstance(k, int)]
        out.append(len(ints))
        for k, v in ints:
            out += [k, idx(v)]
        out.append(len(addrs))
        for k, v in addrs:
            out += [S.addr_no(k), idx(v)]
        out.append(len(live))
        for tr in live:
            out += [S.addr_no(tr.pdu_address), idx(tr.device_info) if tr.device_info else -1]
    det = {'log': log, 'order': order, 'live': live, 'cache': cache, 'smap': smap}
    return out, det


def coq_ops(ops):
    parts = []
    for op in ops:
        if op[0] == 'iam':
            parts.append('DevCache.DIam %d %d %d %d' % (op[1], op[2], op[3], op[4]))
        elif op[0] == 'open':
            parts.append('DevCache.DOpen %d' % op[1])
        elif op[0] == 'close':
            parts.append('DevCache.DClose %d' % op[1])
        else:
            parts.append('DevCache.DUpgrade %d' % op[1])
    return 'DevCache.dc_run [%s]' % '; '.join(parts)


def gen_history(rng):
    """a few devices (instances 1..4) at a few addresses (10..13) announcing themselves, re-announcing with other limits,
    moving to another address or turning up with another instance at a known address; transactions of both roles towards
    known and unknown peers overlapping in every way, finishing in any order; records upgraded while shared"""
    ops = []
    nlive = 0
    insts, addrs = [1, 2, 3, 4], [10, 11, 12, 13]
    settled = rng.random() < 0.6          # mostly: each device stays at its own address
    for _ in range(rng.randrange(3, 25)):
        u = rng.random()
        if u < 0.25:
            i = rng.choice(insts)
            a = addrs[i - 1] if (settled or rng.random() < 0.5) else rng.choice(addrs)
            ops.append(['iam', i, a, rng.choice([50, 128, 206, 480, 1024, 1476]), rng.randrange(4)])
        elif u < 0.6:
            ops.append(['open', rng.choice(addrs + [99]), rng.choice('cs')])
            nlive += 1
        elif u < 0.9 and nlive:
            ops.append(['close', rng.randrange(nlive), rng.choice([6, 7])])
            nlive -= 1
        elif nlive:
            ops.append(['upgrade', rng.randrange(nlive)])
    order = list(range(nlive))
    while nlive and rng.random() < 0.8:
        ops.append(['close', rng.randrange(nlive), rng.choice([6, 7])])
        nlive -= 1
    return ops


def check_history(ops):
    """the property's predicate on the implementation alone: finishing a transaction never raises (the outcome is not
    pre-empted), creating one never raises, after every op the count of each record is the number of live transactions
    holding it, and no record stays referenced when no transaction is left"""
    obs, det = run_history(ops)
    f = []
    for (op, cls, msg) in det['log']:
        if op[0] in ('open', 'close'):
            f.append({'kind': 'devcache-exception-in-transaction', 'op': op, 'class': cls, 'msg': msg, 'dc_ops': ops})
    live = det['live']
    for i, di in enumerate(det['order']):
        n = sum(1 for tr in live if tr.device_info is di)
        if getattr(di, '_ref_count', None) != n:
            f.append({'kind': 'devcache-refcount-differs-from-live-transactions', 'record': i, 'count': getattr(di, '_ref_count', None),
                      'live': n, 'dc_ops': ops})
    sm = det['smap']
    if len(sm.clientTransactions) + len(sm.serverTransactions) != len(live):
        f.append({'kind': 'devcache-transaction-table-differs', 'tables': len(sm.clientTransactions) + len(sm.serverTransactions),
                  'live': len(live), 'dc_ops': ops})
    return f, det
