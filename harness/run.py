#!/usr/bin/env python3
"""./check <Cxx> --tier quick|thorough [--replay file]   — see DESIGN.md section 3."""
import argparse, collections, importlib, json, os, random, sys, time, traceback

HERE = os.path.dirname(os.path.abspath(__file__))
sys.path.insert(0, HERE)
import core

TRUSTED_COMMON = [
    'Coq 8.16.1 kernel (coqc); vm_compute used for table obligations, witnesses and the in-kernel correspondence; native_compute not used',
    'translator/translate.py (+ pyfn.py): source -> coq/gen/*.v, fail-closed',
    'harness (generators, canonicalisers, comparators) in /verif/harness: ordinary Python, the weaker half of the tie',
    'CPython 3.12 library behaviour the code delegates to (struct, re, heapq, socket.inet_aton, calendar, text codecs): modelled, pinned by correspondence only',
]


def main():
    ap = argparse.ArgumentParser()
    ap.add_argument('prop')
    ap.add_argument('--tier', default=os.environ.get('VERIF_TIER', 'quick'))
    ap.add_argument('--replay')
    ap.add_argument('--no-build', action='store_true', help='dev only: skip make')
    a = ap.parse_args()
    prop = a.prop.upper()
    tier = a.tier if a.tier in ('quick', 'thorough') else 'quick'
    seed = int(os.environ.get('VERIF_SEED', '0') or 0)
    os.environ.setdefault('PYTHONHASHSEED', '0')
    os.environ['TZ'] = 'UTC'
    time.tzset()
    t0 = time.time()
    mod = importlib.import_module('props.' + prop.lower())

    if a.replay:
        core.impl_import_guard()
        payload = json.load(open(a.replay))
        mod.replay(payload)
        return 0

    violations = []      # (what, payload)
    broken = []          # obligations / correspondences that no longer check
    notes = []
    known_lines = []

    # 1. import guard
    try:
        core.impl_import_guard()
        impl_ok = True
    except Exception as e:
        impl_ok = False
        broken.append({'kind': 'import', 'what': 'bacpypes does not import from %s: %r' % (core.IMPL, e)})

    # 2./3. translate + build + property theorems
    scan = core.forbidden_scan()
    if scan:
        broken.append({'kind': 'forbidden', 'what': 'forbidden vernacular: ' + '; '.join(scan[:5])})
    if a.no_build:
        b = {'translate_ok': True, 'build_ok': True, 'log': '', 'cmd': '(skipped)'}
    else:
        b = core.build(mod.COQ_TARGETS)
    if not b['translate_ok']:
        broken.append({'kind': 'translation', 'what': 'translator aborted', 'log': b['log'][-1500:]})
    if not b['build_ok']:
        broken.append({'kind': 'obligation', 'what': 'Coq build failed at %s' % b.get('failed_at'), 'log': b['log'][-3000:]})
    if b['build_ok']:
        pc = core.compile_props(prop)
        if not pc['ok']:
            broken.append({'kind': 'obligation', 'what': 'props/%s.v: theorem %s no longer checks' % (prop, pc.get('failed_theorem')),
                           'log': pc['log'][-3000:]})
    else:
        pc = {'ok': False, 'theorems': [], 'examples': [], 'closed': 0, 'axioms': [], 'cmd': '', 'discharged': 0, 'log': ''}
        try:
            import re
            txt = open(os.path.join(core.COQ, 'props', prop + '.v')).read()
            pc['theorems'] = re.findall(r'^\s*Theorem\s+(\w+)', re.sub(r'\(\*.*?\*\)', '', txt, flags=re.S), flags=re.M)
        except OSError:
            pass

    chk = None
    if tier == 'thorough' and b['build_ok'] and pc['ok'] and not os.environ.get('VERIF_NO_COQCHK'):
        chk = core.coqchk(prop)
        if not chk['ok']:
            broken.append({'kind': 'obligation', 'what': 'coqchk rejected BacProps.%s' % prop, 'log': chk['log']})

    # 4. correspondence
    rng = random.Random(seed * 1000003 + 17)
    cases, mism, cerrors = [], [], []
    hist = collections.Counter()
    if impl_ok:
        try:
            cases = list(mod.cases(rng, tier))
        except Exception as e:
            cerrors.append('case generation failed: %r\n%s' % (e, traceback.format_exc()[-1500:]))
        for c in cases:
            hist[c.kind] += 1
        if b['build_ok'] and cases:
            mism, errs = core.run_coq_cases(prop, mod.COQ_IMPORTS, cases)
            cerrors.extend(errs)
        elif b.get('partial') and cases:
            # an obligation (e.g. a translated-text equivalence) no longer builds; the model itself may still be
            # there: evaluate the cases anyway so that disagreements can point the search at a failing input
            mism, errs = core.run_coq_cases(prop, mod.COQ_IMPORTS, cases)
            if errs:
                notes.append('correspondence not evaluated after the failed build: ' + errs[0][:300])
                mism = []
    if cerrors:
        broken.append({'kind': 'correspondence', 'what': 'model could not be evaluated: ' + cerrors[0][:1500]})
    if mism:
        mism.sort(key=lambda c: len(c.coq))
        first = mism[0]
        got, _ = core.coq_eval(mod.COQ_IMPORTS, first.coq)
        broken.append({'kind': 'correspondence',
                       'what': 'model and implementation disagree on %d of %d cases' % (len(mism), len(cases)),
                       'minimal_case': {'kind': first.kind, 'desc': first.desc, 'coq': first.coq[:2000],
                                        'implementation': first.expected, 'model': got}})

    # 5. direct property check on the implementation
    failures, dstats = [], {}
    if impl_ok:
        try:
            failures, dstats = mod.direct(random.Random(seed * 7919 + 3), tier, focus=[m.desc for m in mism[:50]])
        except Exception as e:
            broken.append({'kind': 'harness', 'what': 'direct check crashed: %r' % (e,), 'log': traceback.format_exc()[-2000:]})
    findings = {f['id']: f for f in core.load_findings(prop)}
    seen_known = collections.OrderedDict()
    new_failures = []
    for f in failures:
        fid = mod.classify(f)
        if fid is not None and fid in findings and findings[fid].get('status') == 'known':
            seen_known.setdefault(fid, f)
        else:
            new_failures.append(f)
    for fid, f in seen_known.items():
        line = 'KNOWN-FINDING: property=%s %s' % (prop, findings[fid]['what'])
        known_lines.append(line)
        print(line)

    # 6. verdict
    status = 0
    if new_failures:
        status = 1
        # one replay per distinct failure kind (first = smallest as produced by the generator)
        bykind = collections.OrderedDict()
        for f in new_failures:
            bykind.setdefault(f.get('kind'), f)
        for k, f in bykind.items():
            path = core.write_replay(prop, {'property': prop, 'type': 'failing-input', 'failure': f,
                                            'broken': [x['what'] for x in broken]})
            print('VIOLATION property=%s replay=%s' % (prop, path))
    elif broken:
        status = 1
        path = core.write_replay(prop, {'property': prop, 'type': 'unproved', 'broken': broken,
                                        'note': 'the named theorem / correspondence no longer checks; the search of the implementation found no failing input'})
        print('VIOLATION property=%s replay=%s no-failing-input-found' % (prop, path))

    # 7. evidence
    keys = set()
    nontriv = set()
    for c in cases:
        keys.add(c.key)
        if c.nontrivial:
            nontriv.add(c.key)
    samples = []
    per_kind = {}
    for c in cases:
        if c.kind not in per_kind:
            per_kind[c.kind] = c
    for k, c in list(per_kind.items())[:12]:
        samples.append({'kind': k, 'input': c.desc if len(str(c.desc)) < 600 else str(c.desc)[:600] + '...',
                        'implementation_and_model_output': c.expected[:60]})
    obligations = len(pc['theorems']) + len(getattr(mod, 'TABLE_OBLIGATIONS', []))
    discharged = (pc['discharged'] + len(getattr(mod, 'TABLE_OBLIGATIONS', []))) if b['build_ok'] else 0
    tb = list(TRUSTED_COMMON) + list(getattr(mod, 'TRUSTED', []))
    tb.append('Print Assumptions: %d of %d property theorems closed under the global context; axioms named: %s'
              % (pc['closed'], len(pc['theorems']), ', '.join(pc['axioms']) or 'none'))
    ev = {
        'property_id': prop, 'tier': tier, 'seed': seed, 'level': 'proof',
        'coverage': {
            'obligations': max(obligations, 1), 'discharged': discharged,
            'checker_cmd': (b['cmd'] + ' && ' + pc['cmd']) if pc['cmd'] else b['cmd'] or 'make',
            'trusted_base': tb,
            'theorems': pc['theorems'], 'nonvacuity_examples': pc['examples'],
            'table_obligations': getattr(mod, 'TABLE_OBLIGATIONS', []),
            'evaluations': len(cases) + int(dstats.get('evaluations', 0)),
            'distinct_nontrivial': len(nontriv) + int(dstats.get('distinct_nontrivial', 0)),
            'rule': mod.RULE,
            'samples': samples + dstats.get('samples', [])[:6],
            'traces_validated_against_impl': len(cases) - len(mism) if b['build_ok'] else 0,
            'correspondence_cases': len(cases), 'correspondence_disagreements': len(mism),
            'input_histogram': dict(hist),
            'direct_check': {k: v for k, v in dstats.items() if k != 'samples'},
            'exhaustive': bool(dstats.get('exhaustive', False)),
            'known_findings_reported': known_lines,
            'broken': [x['what'] for x in broken],
            'coqchk': ({'cmd': chk['cmd'], 'ok': chk['ok'], 'context_summary': chk['log']} if chk else 'not run in this tier'),
        },
        'assumptions': list(getattr(mod, 'ASSUMPTIONS', [])),
        'wall_s': round(time.time() - t0, 2),
        'violations': len(new_failures) + (1 if (broken and not new_failures) else 0),
    }
    os.makedirs(os.path.join(core.VERIF, 'evidence'), exist_ok=True)
    with open(os.path.join(core.VERIF, 'evidence', prop + '.json'), 'w') as f:
        json.dump(ev, f, indent=1, default=str)
    print('%s tier=%s seed=%d: %d theorems (%d discharged), %d correspondence cases (%d disagreements), '
          'direct check %s evaluations, %d new failures, %d known findings, %.1fs'
          % (prop, tier, seed, len(pc['theorems']), discharged, len(cases), len(mism),
             dstats.get('evaluations', 0), len(new_failures), len(seen_known), time.time() - t0))
    return status


if __name__ == '__main__':
    sys.exit(main())
