#!/usr/bin/env python3
"""Regenerate MANIFEST.json from the table below (kept valid at all times)."""
import json, os
VERIF = os.path.dirname(os.path.dirname(os.path.abspath(__file__)))
ALL = ['C%02d' % i for i in range(1, 21)]
# property -> (technique, level text, level note, design ref)
import glob
CLAIMED = {}
for f in sorted(glob.glob(os.path.join(VERIF, 'harness', 'claims.d', '*.json'))):
    CLAIMED.update(json.load(open(f)))
m = {
    'version': 1,
    'setup_cmd': './setup.sh',
    'hooks': {'guard': 'BACPYPES_VERIF', 'enable': 'none needed: checks observe through public classes, the virtual LAN and bacpypes.task._time',
              'baseline_off_cmd': 'cd /repo && /venv/bin/python -m pytest -ra -q -p no:cacheprovider --timeout=900 --continue-on-collection-errors',
              'source_commits': [], 'add_only': True},
    'engines': [{'name': 'coq-model', 'path': 'coq/', 'serves_properties': sorted(CLAIMED),
                 'kind_free_text': 'Coq 8.16.1 models + theorems (coq/theories, coq/props), source-translated tables (coq/gen), in-kernel correspondence (harness/)'}],
    'checks': [], 'not_applicable': [],
    'notes': 'Every check: translate /repo -> coq/gen, make the model + lemmas, compile props/<id>.v (theorems + Print Assumptions), run the correspondence (model evaluated by vm_compute inside Coq vs the implementation on the same inputs), then the direct property predicate on the implementation.  See DESIGN.md.',
}
for p in ALL:
    if p in CLAIMED:
        c = CLAIMED[p]
        m['checks'].append({
            'property_id': p,
            'quick_cmd': './check %s --tier quick' % p,
            'thorough_cmd': './check %s --tier thorough' % p,
            'evidence_file': 'evidence/%s.json' % p,
            'replay_cmd_template': './check %s --replay {path}' % p,
            'engine': 'coq-model',
            'level_claimed': {'category': 'proof', 'text': c['text'], 'design_ref': c.get('design_ref', 'DESIGN.md section 5 / ' + p)},
            'level_note': c['note'],
            'technique': c['technique'],
        })
    else:
        m['not_applicable'].append({'property_id': p, 'reason': 'not claimed yet: the Coq model and check for this property have not been built at this commit (see DESIGN.md section 9 for the build order); the technique does apply'})
json.dump(m, open(os.path.join(VERIF, 'MANIFEST.json'), 'w'), indent=1)
print('claimed:', sorted(CLAIMED))
