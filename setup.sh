#!/bin/bash
# MANIFEST.setup_cmd: regenerate coq/gen from /repo, build every model and lemma file (full .vo).
set -e
cd "$(dirname "$0")"
export VERIF_REPO="${VERIF_REPO:-/repo}"
export PYTHONHASHSEED=0 TZ=UTC PYTHONPATH="$VERIF_REPO/py34" PYTHONDONTWRITEBYTECODE=1
ulimit -s unlimited 2>/dev/null || true
mkdir -p work evidence replays coq/gen
/venv/bin/python - <<'PY'
import sys
sys.path.insert(0, 'harness')
import core, glob, os
targets = sorted(os.path.relpath(f, core.COQ) + 'o' for f in glob.glob(core.COQ + '/theories/*.v'))
r = core.build(targets)
print(r['log'][-3000:])
if not (r['build_ok'] and r['translate_ok']):
    sys.exit('setup: build failed at %s' % r.get('failed_at'))
hits = core.forbidden_scan()
if hits:
    sys.exit('setup: forbidden vernacular: %s' % hits)
print('setup ok')
PY
