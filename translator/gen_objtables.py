"""Translator plug-in for C15: gen/ObjTables.v — the property descriptor list of every registered object class.

For each of the object classes registered in bacpypes.object (vendor id 0) two tables are written: `T_<type>_o`, the class
as registered, and `T_<type>_m`, the subclass the C15 harness uses, which re-declares every property except
objectIdentifier/objectName/objectType/propertyList as `Property(identifier, datatype, None, optional, mutable=True)`;
plus `T_localdev` (ten plain properties of LocalDeviceObject) and `all_tables`.  A descriptor is
`mkP <PropertyIdentifier number> <dtype> <optional> <mutable>` with dtype over the constructors of Bac.Obj
(`DS/DArray/DList` of `SAtom tag lo hi | SAny | SCons class-id`, fixed length, and the element `fix_length` appends).
Everything is read from the imported classes (identifier, datatype class, subtype, fixed_length, prototype,
_low_limit/_high_limit, optional, mutable).  Fail-closed: a datatype that is none of Atomic / AnyAtomic / Sequence / Choice /
ArrayOf / ListOf of those, an array or list of AnyAtomic, or an identifier outside PropertyIdentifier aborts.

Class ids and the codes of prototype elements are assigned in a fixed order (classes sorted by module and name, tables in
sorted object-type order), so the harness — which imports this module and calls build() in its own process before it
interns anything else — arrives at the same numbers as the generated file (it compares the two texts)."""
import copy, os, subprocess, sys

HERE = os.path.dirname(os.path.abspath(__file__))
HARNESS = os.path.join(os.path.dirname(HERE), 'harness')
REPO = os.environ.get('VERIF_REPO', '/repo')

KEEP = ('objectIdentifier', 'objectName', 'objectType', 'propertyList')
ERRNAME = {1: 'DecodingError', 2: 'InvalidTag', 3: 'MissingRequired', 4: 'InvalidParameterDatatype', 5: 'TooManyArguments',
           6: 'EncodingError', 7: 'ValueErr', 8: 'TypeErr', 9: 'KeyErr', 10: 'IndexErr', 11: 'AttrErr', 12: 'StructErr',
           13: 'OverflowErr', 14: 'NameErr', 15: 'RuntimeErr', 16: 'UnicodeErr', 17: 'OutOfFuel', 18: 'OtherErr',
           100: '(RejectExc 0)', 200: '(AbortExc 0)'}

_CODES, _CIDS, _MUT = {}, {}, {}
_ENV = {}


def code(key):
    return _CODES.setdefault(key, len(_CODES) + 1)


def cid(cls):
    return _CIDS.setdefault(cls, len(_CIDS) + 1)




def env():
    """lazy import of the implementation names used here"""
    if 'P' not in _ENV:
        from bacpypes import primitivedata as P, constructeddata as C, object as O, apdu as A, basetypes as T
        _ENV.update(P=P, C=C, O=O, A=A, T=T)
    return _ENV


B = env


def exc_code(e):
    if HARNESS not in sys.path:
        sys.path.insert(0, HARNESS)
    import pyerr
    return pyerr.exc_code(e)


def taghash(taglist):
    """Bac.ObjCodec.taghash: a constructed value is identified by the digest of the tags it encodes to"""
    h = 7
    for t in taglist:
        d = bytes(t.tagData)
        for x in [t.tagClass, t.tagNumber, t.tagLVT, len(d)] + list(d):
            h = (h * 1000003 + x + 11) % 2305843009213693951
    return h


def canon_tags(taglist):
    return [(t.tagClass, t.tagNumber, t.tagLVT, bytes(t.tagData).hex()) for t in taglist]


def classes():
    """{object type: (registered class, all-mutable subclass)}"""
    O = B()['O']
    if not _MUT:
        for (otype, vid), cls in sorted(O.registered_object_types.items(), key=lambda kv: str(kv[0])):
            if vid != 0:
                continue
            props = [O.Property(p.identifier, p.datatype, None, optional=p.optional, mutable=True)
                     for pid, p in cls._properties.items() if pid not in KEEP]
            M = type('Mut' + cls.__name__, (cls,), {'properties': props})
            O.register_object_type(M, vendor_id=998)
            _MUT[otype] = (cls, M)
    return _MUT


def atom_code(t):
    if t.tagNumber == 2:
        return int.from_bytes(bytes(t.tagData), 'big')
    return code(('t', t.tagNumber, t.tagLVT, bytes(t.tagData)))


def abs_elem(scls, v):
    """abstract element: ('a',k,c) | ('o',k,c) | ('c',cid,c) | ('b',cid,err) | ('x',)"""
    e = B()
    P, C = e['P'], e['C']
    if issubclass(scls, C.AnyAtomic):
        if isinstance(v, P.Atomic) and not isinstance(v, C.AnyAtomic):
            t = P.Tag(); v.encode(t)
            return ('o', t.tagNumber, atom_code(t))
        return ('x',)
    if issubclass(scls, P.Atomic):
        try:
            t = P.Tag(); scls(v).encode(t)
        except Exception:
            return ('x',)
        return ('a', t.tagNumber, atom_code(t))
    if not isinstance(v, scls):
        return ('x',)
    try:
        tl = P.TagList(); v.encode(tl)
    except Exception as ex:
        return ('b', cid(scls), exc_code(ex))
    return ('c', cid(scls), taghash(tl.tagList))


def sdt_of(cls):
    e = B()
    P, C = e['P'], e['C']
    if issubclass(cls, C.AnyAtomic):
        return ('any',)
    if issubclass(cls, P.Atomic):
        if issubclass(cls, P.Unsigned):
            return ('atom', 2, cls._low_limit, cls._high_limit)
        return ('atom', cls._app_tag, 0, None)
    assert issubclass(cls, (C.Sequence, C.Choice)), cls
    return ('cons', cid(cls))


def proto_of(dt):
    """what ArrayOf.fix_length appends"""
    P = B()['P']
    if issubclass(dt.subtype, P.Atomic):
        v = dt.subtype().value if dt.prototype is None else dt.prototype
    else:
        v = dt.subtype() if dt.prototype is None else copy.deepcopy(dt.prototype)
    return abs_elem(dt.subtype, v)


def dt_of(dt):
    C = B()['C']
    if issubclass(dt, C.Array):
        s = sdt_of(dt.subtype)
        assert s[0] != 'any'
        return ('array', s, dt.fixed_length, proto_of(dt))
    if issubclass(dt, C.List):
        s = sdt_of(dt.subtype)
        assert s[0] != 'any'
        return ('list', s)
    return ('s', sdt_of(dt))


# ---- Coq text
def q_opt(x):
    return 'None' if x is None else '(Some %d)' % x


def q_elem(e):
    if e[0] == 'a': return '(EAtom %d %d)' % (e[1], e[2])
    if e[0] == 'o': return '(EObj %d %d)' % (e[1], e[2])
    if e[0] == 'c': return '(ECons %d %d)' % (e[1], e[2])
    if e[0] == 'b': return '(EBad %d %s)' % (e[1], ERRNAME[e[2]])
    return '(EBad 0 OutOfFuel)'       # never produced by the model's own steps: forces a disagreement


def q_sdt(s):
    if s[0] == 'any': return 'SAny'
    if s[0] == 'atom': return '(SAtom %d %d %s)' % (s[1], s[2], q_opt(s[3]))
    return '(SCons %d)' % s[1]


def q_dt(d):
    if d[0] == 's': return '(DS %s)' % q_sdt(d[1])
    if d[0] == 'list': return '(DList %s)' % q_sdt(d[1])
    return '(DArray %s %s %s)' % (q_sdt(d[1]), q_opt(d[2]), q_elem(d[3]))


def q_bool(b):
    return 'true' if b else 'false'


def pid_num(name):
    T = B()['T']
    return T.PropertyIdentifier.enumerations[name] if isinstance(name, str) else int(name)



DEV_PIDS = ['objectName', 'vendorIdentifier', 'maxApduLengthAccepted', 'segmentationSupported', 'apduTimeout',
            'numberOfApduRetries', 'vendorName', 'description', 'location', 'databaseRevision', 'objectList']
_BUILT = {}


def build():
    """-> (text of gen/ObjTables.v, {class: table name}); must run before anything else is interned"""
    if _BUILT:
        return _BUILT['text'], _BUILT['names']
    from bacpypes.local.device import LocalDeviceObject
    assert not _CODES and not _CIDS
    e = env()
    P, C = e['P'], e['C']
    cl = classes()
    allcls = set()
    for otype in sorted(cl):
        for p in cl[otype][0]._properties.values():
            for d in (p.datatype, getattr(p.datatype, 'subtype', None)):
                if d is not None and isinstance(d, type) and issubclass(d, (C.Sequence, C.Choice)):
                    allcls.add(d)
    for k in sorted(allcls, key=lambda k: (k.__module__, k.__name__)):
        cid(k)
    lines = ['(* GENERATED by translator/gen_objtables.py from the imported bacpypes.object classes — do not edit *)',
             'From Bac Require Import Base Obj.', 'Open Scope Z_scope.', '']
    names = {}

    def q_table(props):
        return '[' + ';\n  '.join('mkP %d %s %s %s' % (pid_num(p.identifier), q_dt(dt_of(p.datatype)), q_bool(p.optional), q_bool(p.mutable))
                                   for p in props) + ']'
    order = []
    for otype in sorted(cl):
        for tag, K in zip('om', cl[otype]):
            name = 'T_%s_%s' % (otype.replace('-', '_'), tag)
            if not name.isidentifier():
                raise OSError('object type name %r' % (otype,))
            lines.append('Definition %s : list pdesc :=\n  %s.' % (name, q_table(list(K._properties.values()))))
            names[K] = name
            order.append(name)
    lines.append('Definition T_localdev : list pdesc :=\n  %s.' % q_table([LocalDeviceObject._properties[pid] for pid in DEV_PIDS]))
    order.append('T_localdev')
    lines.append('Definition all_tables : list (list pdesc) :=\n  [' + ';\n   '.join(order) + '].')
    _BUILT['text'] = '\n'.join(lines) + '\n'
    _BUILT['names'] = names
    return _BUILT['text'], names


def gen_objtables():
    envv = dict(os.environ, PYTHONPATH=os.path.join(REPO, 'py34'), PYTHONHASHSEED='0', PYTHONDONTWRITEBYTECODE='1')
    p = subprocess.run([sys.executable, os.path.abspath(__file__), '--emit'], env=envv, capture_output=True, text=True, timeout=600)
    if p.returncode != 0 or not p.stdout.startswith('(* GENERATED'):
        raise OSError('object table extraction failed: ' + (p.stderr or p.stdout)[-600:].strip())
    return p.stdout


TARGETS = {'ObjTables.v': gen_objtables}

if __name__ == '__main__' and '--emit' in sys.argv:
    try:
        sys.stdout.write(build()[0])
    except Exception as ex:
        sys.stderr.write('%s: %s\n' % (type(ex).__name__, ex))
        sys.exit(2)
