"""Translator plug-in for C08: AST translation of the network-layer codec methods of npdu.py.

py34/bacpypes/npdu.py is parsed with `ast` and the BODIES of
    NPCI.encode, NPCI.decode, NPDU.encode, NPDU.decode and <Message>.encode / <Message>.decode
    for the twelve registered network-layer message classes
are translated statement by statement into Gallina definitions (coq/gen/NpciFns.v, module
BacGen.NpciFns) over the vocabulary of coq/theories/NpciRt.v and the hand model coq/theories/Npci.v.
coq/theories/NpciGenFacts.v then proves, for all inputs, that every generated definition equals the
hand-model definition the C08 theorems are about; an edit of a translated method therefore yields an
edited Gallina term and either still proves (neutral rewrite) or breaks the build (fail-closed).

Every method  def m(self, pdu)  becomes   Definition <Class>_<m> (self : T) (pdu : pyobj) : res (T * pyobj)
(the two objects after the call; a raised exception is Err).  Local variables are SSA-renamed
(<name>_<k>), so the proof scripts never mention them.

Accepted subset (anything else raises pyfn.Unsupported -> TRANSLATION-ABORT -> NpciFns.v does not compile):
  statements   docstring; `pass`; `x = e`; `a = b = e`; `obj.attr = e` (record update); `x op= e`;
               `if/elif/else`; `raise Exc(...)`; `for x in <list expr>:` (fold_res);
               `for i in range(e):` with i unused (iter_res); `while <buf>.pduData:` (while_res with
               fuel 1 + len(buf.pduData), the only while form accepted);
               `buf.put(e)`, `buf.put_short(e)`, `buf.put_long(e)`, `buf.put_data(e)`;
               `obj.listattr.append(e)`; `Class.method(self, pdu)` for an already translated method.
  expressions  int / True / False / None / [] literals, local names, `obj.attr`, attribute of an address
               (addrType addrNet addrLen addrAddr) or routing-table entry (rtDNET rtPortID rtPortInfo),
               class constants `Class.NAME` read from the class bodies of npdu.py (and Address.* from
               pdu.py), `+ - << >> & |`, `== != < <= > >=`, `is None`, `is not None`, `not`, `and`, `or`,
               `len(e)`, `buf.get()`, `buf.get_short()`, `buf.get_long()`, `buf.get_data(e)`,
               and the CONSTRUCTOR MAPPING (documented, not skipped):
                   RemoteStation(n, a) -> RStation n a      RemoteBroadcast(n) -> RBroadcast n
                   GlobalBroadcast()   -> GBroadcast        (the address values of Npci.v; the range checks of
                                                             the pdu.py constructors cannot refuse decoded octets)
                   RoutingTableEntry(d, p, i) -> mkRte d p i (checked: its __init__ in npdu.py only stores its
                                                             three parameters in rtDNET, rtPortID, rtPortInfo)
SKIP allow-list (the only statements dropped):
  * `if _debug: ...`
  * docstrings
  * `PCI.update(a, b)` / `NPCI.update(a, b)`  — copy addressing, user data and header attributes between the
    two objects; in the model that copy is `with_msg` of enc_frame and is pinned by the correspondence.
A value that may be None is read through `req` (TypeError) where Python needs a number / bytes, and through
`req_attr` (AttributeError) where an attribute of it is read.
"""
import ast, os
import pyfn
from pyfn import Unsupported

REPO = os.environ.get('VERIF_REPO', '/repo')

# ---- types
N, BOOL, NONE, EMPTY = ('N',), ('bool',), ('none',), ('emptylist',)
ADDR, RTE = ('addr',), ('rte',)


def LIST(t):
    return ('list', t)


def OPT(t):
    return ('opt', t)


def OBJ(c):
    return ('obj', c)


BYTES = LIST(N)


def coq_ty(t):
    k = t[0]
    if k == 'N':
        return 'N'
    if k == 'bool':
        return 'bool'
    if k == 'addr':
        return 'addr'
    if k == 'rte':
        return 'rte'
    if k == 'list':
        return '(list %s)' % coq_ty(t[1])
    if k == 'opt':
        return '(option %s)' % coq_ty(t[1])
    if k == 'obj':
        return 'pyobj' if t[1] == 'pyobj' else 'obj_' + t[1]
    raise Unsupported('no Coq type for %r' % (t,))


# attributes of the object records of NpciRt.v
FIELDS = {
    'pyobj': {'pduData': BYTES, 'pduExpectingReply': BOOL, 'pduNetworkPriority': N, 'npduVersion': N,
              'npduControl': OPT(N), 'npduDADR': OPT(ADDR), 'npduSADR': OPT(ADDR), 'npduHopCount': OPT(N),
              'npduNetMessage': OPT(N), 'npduVendorID': OPT(N)},
    'WhoIsRouterToNetwork': {'wirtnNetwork': OPT(N)},
    'IAmRouterToNetwork': {'iartnNetworkList': LIST(N)},
    'ICouldBeRouterToNetwork': {'icbrtnNetwork': N, 'icbrtnPerformanceIndex': N},
    'RejectMessageToNetwork': {'rmtnRejectionReason': N, 'rmtnDNET': N},
    'RouterBusyToNetwork': {'rbtnNetworkList': LIST(N)},
    'RouterAvailableToNetwork': {'ratnNetworkList': LIST(N)},
    'InitializeRoutingTable': {'irtTable': LIST(RTE)},
    'InitializeRoutingTableAck': {'irtaTable': LIST(RTE)},
    'EstablishConnectionToNetwork': {'ectnDNET': N, 'ectnTerminationTime': N},
    'DisconnectConnectionToNetwork': {'dctnDNET': N},
    'WhatIsNetworkNumber': {},
    'NetworkNumberIs': {'nniNet': N, 'nniFlag': N},
}
ADDR_ATTRS = {'addrType': N, 'addrNet': OPT(N), 'addrLen': OPT(N), 'addrAddr': OPT(BYTES)}
RTE_ATTRS = {'rtDNET': N, 'rtPortID': N, 'rtPortInfo': BYTES}
MESSAGES = [c for c in FIELDS if c != 'pyobj']
HEADER_CLASSES = ['NPCI', 'NPDU']
SKIP_CALLS = {('PCI', 'update'), ('NPCI', 'update')}
CTOR_MAP = {'RemoteStation': ('RStation', [N, BYTES], ADDR), 'RemoteBroadcast': ('RBroadcast', [N], ADDR),
            'GlobalBroadcast': ('GBroadcast', [], ADDR), 'RoutingTableEntry': ('mkRte', [N, N, BYTES], RTE)}
EXC = dict(pyfn.EXC, DecodingError='DecodingError', EncodingError='EncodingError', AttributeError='AttrErr')
PUTS = {'put': N, 'put_short': N, 'put_long': N, 'put_data': BYTES}
GETS = {'get': (0, N), 'get_short': (0, N), 'get_long': (0, N), 'get_data': (1, BYTES)}


def class_constants(cls):
    """NAME = <int literal> assignments in a class body"""
    out = {}
    for s in cls.body:
        if isinstance(s, ast.Assign) and len(s.targets) == 1 and isinstance(s.targets[0], ast.Name) \
                and isinstance(s.value, ast.Constant) and isinstance(s.value.value, int) \
                and not isinstance(s.value.value, bool) and s.value.value >= 0:
            out[s.targets[0].id] = s.value.value
    return out


def is_debug_if(s):
    return isinstance(s, ast.If) and isinstance(s.test, ast.Name) and s.test.id == '_debug' and not s.orelse


def is_docstring(s):
    return isinstance(s, ast.Expr) and isinstance(s.value, ast.Constant) and isinstance(s.value.value, str)


def skip_call(s):
    if not (isinstance(s, ast.Expr) and isinstance(s.value, ast.Call)):
        return False
    f = s.value.func
    return (isinstance(f, ast.Attribute) and isinstance(f.value, ast.Name) and (f.value.id, f.attr) in SKIP_CALLS
            and len(s.value.args) == 2 and not s.value.keywords and all(isinstance(a, ast.Name) for a in s.value.args))


def skipped(s):
    return is_debug_if(s) or is_docstring(s) or skip_call(s)


class Ctx:
    """what the translation of one method needs from the module"""

    def __init__(self, consts, methods):
        self.consts = consts          # class name -> {NAME: int}
        self.methods = methods        # (class, method) -> self type, for the methods translated so far


class Method:
    def __init__(self, ctx, cls, fn, selfty):
        self.ctx, self.cls, self.fn, self.selfty = ctx, cls, fn, selfty
        self.count = {}

    def fresh(self, base):
        base = ''.join(ch for ch in base if ch.isalnum() or ch == '_') or 'v'
        self.count[base] = self.count.get(base, 0) + 1
        return '%s_%d' % (base, self.count[base])

    # ------------------------------------------------------------------ static analysis
    def assigned(self, stmts):
        """python names a block may (re)bind or mutate"""
        out = set()
        for s in stmts:
            if skipped(s):
                continue
            for n in ast.walk(s):
                if isinstance(n, (ast.Assign, ast.AugAssign)):
                    tg = n.targets if isinstance(n, ast.Assign) else [n.target]
                    for t in tg:
                        if isinstance(t, ast.Name):
                            out.add(t.id)
                        elif isinstance(t, ast.Attribute) and isinstance(t.value, ast.Name):
                            out.add(t.value.id)
                        else:
                            raise Unsupported('assignment target %s' % ast.dump(t)[:80])
                elif isinstance(n, ast.For):
                    if isinstance(n.target, ast.Name):
                        out.add(n.target.id)
                elif isinstance(n, ast.Call):
                    f = n.func
                    if isinstance(f, ast.Attribute):
                        # obj.put(..) / obj.get() mutate obj; obj.attr.append(..) mutates obj; Class.m(a, b) mutates a and b
                        v = f.value
                        if isinstance(v, ast.Name):
                            out.add(v.id)
                        elif isinstance(v, ast.Attribute) and isinstance(v.value, ast.Name):
                            out.add(v.value.id)
                        for a in n.args:
                            if isinstance(a, ast.Name):
                                out.add(a.id)
        return out

    def falls_through(self, stmts):
        live = [s for s in stmts if not skipped(s)]
        return not (live and isinstance(live[-1], ast.Raise))

    def definitely(self, stmts):
        """names certainly bound when the block falls through (None = the block never falls through)"""
        if not self.falls_through(stmts):
            return None
        out = set()
        for s in stmts:
            if skipped(s):
                continue
            if isinstance(s, ast.Assign):
                for t in s.targets:
                    if isinstance(t, ast.Name):
                        out.add(t.id)
            elif isinstance(s, ast.If):
                a, b = self.definitely(s.body), self.definitely(s.orelse)
                if a is None and b is None:
                    return None
                out |= (b if a is None else a if b is None else (a & b))
        return out

    # ------------------------------------------------------------------ expressions
    # expr -> (binds, text, type); binds = [(pattern, monadic text)] in evaluation order; env may be rebound
    def expr(self, e, env):
        if isinstance(e, ast.Constant):
            if e.value is None:
                return [], 'None', NONE
            if isinstance(e.value, bool):
                return [], 'true' if e.value else 'false', BOOL
            if isinstance(e.value, int) and e.value >= 0:
                return [], str(e.value), N
            raise Unsupported('constant %r' % (e.value,))
        if isinstance(e, ast.List) and not e.elts:
            return [], '[]', EMPTY
        if isinstance(e, ast.Name):
            if e.id in env:
                return [], env[e.id][0], env[e.id][1]
            raise Unsupported('unknown name %s (not bound on every path)' % e.id)
        if isinstance(e, ast.Attribute):
            return self.attribute(e, env)
        if isinstance(e, ast.UnaryOp) and isinstance(e.op, ast.Not):
            b, t, y = self.expr(e.operand, env)
            return b, '(negb %s)' % self.truth(t, y), BOOL
        if isinstance(e, ast.BinOp):
            return self.binop(e.op, e.left, e.right, env)
        if isinstance(e, ast.BoolOp):
            return self.boolop(e, env)
        if isinstance(e, ast.Compare):
            return self.compare(e, env)
        if isinstance(e, ast.Call):
            return self.call(e, env)
        raise Unsupported('expression %s' % type(e).__name__)

    def number(self, binds, t, y, what):
        """a value used as a number: None raises TypeError"""
        if y == N:
            return t
        if y == OPT(N):
            v = self.fresh('n')
            binds.append((v, 'req %s' % t))
            return v
        raise Unsupported('%s: %s where a number is expected' % (what, y))

    def octets(self, binds, t, y, what):
        if y == BYTES:
            return t
        if y == OPT(BYTES):
            v = self.fresh('d')
            binds.append((v, 'req %s' % t))
            return v
        raise Unsupported('%s: %s where octets are expected' % (what, y))

    def truth(self, t, y):
        if y == BOOL:
            return t
        if y == N:
            return '(negb (%s =? 0))' % t
        if y[0] == 'list':
            return '(py_nonempty %s)' % t
        raise Unsupported('truth value of %s' % (y,))

    def attribute(self, e, env):
        v = e.value
        # Class.CONSTANT
        if isinstance(v, ast.Name) and v.id not in env:
            if v.id in self.ctx.consts and e.attr in self.ctx.consts[v.id]:
                return [], '%d (* %s.%s *)' % (self.ctx.consts[v.id][e.attr], v.id, e.attr), N
            raise Unsupported('unknown class constant %s.%s' % (v.id, e.attr))
        b, t, y = self.expr(v, env)
        if y[0] == 'obj':
            fs = FIELDS[y[1]]
            if e.attr not in fs:
                raise Unsupported('attribute %s of a %s object is not in the model' % (e.attr, y[1]))
            return b, '(%s %s)' % (e.attr, t), fs[e.attr]
        if y == OPT(ADDR):
            a = self.fresh('a')
            b = b + [(a, 'req_attr %s' % t)]
            t, y = a, ADDR
        if y == ADDR:
            if e.attr not in ADDR_ATTRS:
                raise Unsupported('address attribute %s' % e.attr)
            return b, '(%s %s)' % (e.attr, t), ADDR_ATTRS[e.attr]
        if y == RTE:
            if e.attr not in RTE_ATTRS:
                raise Unsupported('routing table entry attribute %s' % e.attr)
            return b, '(%s %s)' % (e.attr, t), RTE_ATTRS[e.attr]
        raise Unsupported('attribute %s of %s' % (e.attr, y))

    def binop(self, op, left, right, env):
        ops = {ast.BitOr: 'N.lor', ast.BitAnd: 'N.land', ast.LShift: 'N.shiftl', ast.RShift: 'N.shiftr', ast.Add: 'N.add'}
        b1, t1, y1 = self.expr(left, env) if isinstance(left, ast.AST) else left
        b2, t2, y2 = self.expr(right, env)
        binds = b1 + b2
        name = type(op).__name__
        t1 = self.number(binds, t1, y1, name)
        t2 = self.number(binds, t2, y2, name)
        if isinstance(op, ast.Sub):
            v = self.fresh('n')
            binds.append((v, 'py_sub %s %s' % (t1, t2)))
            return binds, v, N
        if type(op) not in ops:
            raise Unsupported('operator %s' % name)
        return binds, '(%s %s %s)' % (ops[type(op)], t1, t2), N

    def boolop(self, e, env):
        # left to right, short-circuit: an operand that can fail is evaluated only when reached
        is_and = isinstance(e.op, ast.And)
        parts = []
        for v in e.values:
            before = dict(env)
            b, t, y = self.expr(v, env)
            if env != before:
                raise Unsupported('side effect on an object inside and/or')
            parts.append((b, self.truth(t, y)))
        binds = list(parts[0][0])
        acc = parts[0][1]
        for b, t in parts[1:]:
            if not b:
                acc = '(%s %s %s)' % (acc, '&&' if is_and else '||', t)
            else:
                inner = self.wrap(b, 'Ok %s' % t)
                r = self.fresh('c')
                binds.append((r, '(if %s then %s else Ok %s)' % (acc, inner, 'false') if is_and
                              else '(if %s then Ok true else %s)' % (acc, inner)))
                acc = r
        return binds, acc, BOOL

    def compare(self, e, env):
        if len(e.ops) != 1:
            raise Unsupported('chained comparison')
        op = e.ops[0]
        b1, t1, y1 = self.expr(e.left, env)
        b2, t2, y2 = self.expr(e.comparators[0], env)
        binds = b1 + b2
        if isinstance(op, (ast.Is, ast.IsNot)):
            if y2 != NONE or y1[0] != 'opt':
                raise Unsupported('`is` other than <optional value> is [not] None')
            t = '(py_is_none %s)' % t1
            return binds, t if isinstance(op, ast.Is) else '(negb %s)' % t, BOOL
        name = type(op).__name__
        if isinstance(op, (ast.Eq, ast.NotEq)) and y1 == BOOL and y2 == BOOL:
            t = '(Bool.eqb %s %s)' % (t1, t2)
            return binds, t if isinstance(op, ast.Eq) else '(negb %s)' % t, BOOL
        if isinstance(op, (ast.Eq, ast.NotEq)) and (y1 == OPT(N) or y2 == OPT(N)):
            raise Unsupported('== on a possibly-None number')     # None == 3 is False, not an error
        t1 = self.number(binds, t1, y1, name)
        t2 = self.number(binds, t2, y2, name)
        tbl = {ast.Eq: '(%s =? %s)', ast.NotEq: '(negb (%s =? %s))', ast.Lt: '(%s <? %s)', ast.LtE: '(%s <=? %s)'}
        if type(op) in tbl:
            return binds, tbl[type(op)] % (t1, t2), BOOL
        if isinstance(op, ast.Gt):
            return binds, '(%s <? %s)' % (t2, t1), BOOL
        if isinstance(op, ast.GtE):
            return binds, '(%s <=? %s)' % (t2, t1), BOOL
        raise Unsupported('comparison %s' % name)

    def call(self, e, env):
        if e.keywords:
            raise Unsupported('keyword arguments')
        f = e.func
        if isinstance(f, ast.Name) and f.id == 'len' and len(e.args) == 1:
            b, t, y = self.expr(e.args[0], env)
            if y[0] == 'opt' and y[1][0] == 'list':
                v = self.fresh('d')
                b = b + [(v, 'req %s' % t)]
                t, y = v, y[1]
            if y[0] != 'list':
                raise Unsupported('len of %s' % (y,))
            return b, '(lenN %s)' % t, N
        if isinstance(f, ast.Name) and f.id in CTOR_MAP and f.id not in env:
            ctor, argtys, ty = CTOR_MAP[f.id]
            if len(e.args) != len(argtys):
                raise Unsupported('%s with %d arguments' % (f.id, len(e.args)))
            binds, texts = [], []
            for a, want in zip(e.args, argtys):
                b, t, y = self.expr(a, env)
                binds += b
                texts.append(self.coerce(binds, t, y, want, 'argument of %s' % f.id))
            return binds, '(%s)' % ' '.join([ctor] + texts) if texts else ctor, ty
        if isinstance(f, ast.Attribute) and f.attr in GETS and isinstance(f.value, ast.Name) and f.value.id in env \
                and env[f.value.id][1] == OBJ('pyobj'):
            nargs, ty = GETS[f.attr]
            if len(e.args) != nargs:
                raise Unsupported('%s with %d arguments' % (f.attr, len(e.args)))
            binds, args = [], []
            for a in e.args:
                b, t, y = self.expr(a, env)
                binds += b
                args.append(self.number(binds, t, y, f.attr))
            obj = f.value.id
            v, o2 = self.fresh('v'), self.fresh(obj)
            binds.append(('(%s, %s)' % (v, o2), ' '.join(['py_' + f.attr] + args + [env[obj][0]])))
            env[obj] = (o2, env[obj][1])
            return binds, v, ty
        raise Unsupported('call %s' % ast.dump(f)[:100])

    def coerce(self, binds, t, y, want, what):
        if y == want:
            return t
        if want[0] == 'opt' and y == want[1]:
            return '(Some %s)' % t
        if want[0] == 'opt' and y == NONE:
            return 'None'
        if want[0] == 'list' and y == EMPTY:
            return '[]'
        if want == N and y == OPT(N):
            return self.number(binds, t, y, what)
        if want == BYTES and y == OPT(BYTES):
            return self.octets(binds, t, y, what)
        raise Unsupported('%s: %s where %s is expected' % (what, y, want))

    # ------------------------------------------------------------------ statements
    def wrap(self, binds, body):
        for p, m in reversed(binds):
            body = 'do %s <- %s;\n%s' % (p, m, body)
        return body

    def tuple_of(self, names):
        if not names:
            return 'tt'
        if len(names) == 1:
            return names[0]
        return '(' + ', '.join(names) + ')'

    def pattern_of(self, names):
        if not names:
            return '_'
        if len(names) == 1:
            return names[0]
        return '(' + ', '.join(names) + ')'

    def bind_name(self, env, name, ty):
        v = self.fresh(name)
        env[name] = (v, ty)
        return v

    def assign_to(self, target, t, y, env, binds):
        """returns Gallina `let` lines for one assignment target"""
        if isinstance(target, ast.Name):
            if y in (NONE, EMPTY):
                raise Unsupported('local variable bound to None / an empty list (type unknown)')
            if target.id in env and env[target.id][1][0] == 'obj':
                raise Unsupported('rebinding the object %s' % target.id)
            v = self.bind_name(env, target.id, y)
            return 'let %s := %s in\n' % (v, t)
        if isinstance(target, ast.Attribute) and isinstance(target.value, ast.Name) and target.value.id in env \
                and env[target.value.id][1][0] == 'obj':
            obj = target.value.id
            cls = env[obj][1][1]
            if target.attr not in FIELDS[cls]:
                raise Unsupported('attribute %s of a %s object is not in the model' % (target.attr, cls))
            val = self.coerce(binds, t, y, FIELDS[cls][target.attr], '%s.%s' % (obj, target.attr))
            old = env[obj][0]
            v = self.bind_name(env, obj, env[obj][1])
            return 'let %s := set_%s %s %s in\n' % (v, target.attr, val, old)
        raise Unsupported('assignment target %s' % ast.dump(target)[:80])

    def seq(self, stmts, env, tail):
        """Gallina text (type res _) of stmts followed by tail(env)"""
        if not stmts:
            return tail(env)
        s, rest = stmts[0], stmts[1:]
        if skipped(s):
            return self.seq(rest, env, tail)
        if isinstance(s, ast.Pass):
            return self.seq(rest, env, tail)
        if isinstance(s, ast.Raise):
            if [x for x in rest if not skipped(x)]:
                raise Unsupported('statements after raise')
            exc = s.exc.func if isinstance(s.exc, ast.Call) else s.exc
            if s.cause is None and isinstance(exc, ast.Name) and exc.id in EXC:
                return 'Err %s' % EXC[exc.id]
            raise Unsupported('raise of an unknown exception')
        if isinstance(s, ast.Assign):
            binds, t, y = self.expr(s.value, env)
            # bind the value once, then the targets left to right
            lets = ''
            if len(s.targets) > 1 and y not in (NONE, EMPTY):
                v = self.fresh('t')
                lets += 'let %s := %s in\n' % (v, t)
                t = v
            post = []
            for tg in s.targets:
                lets += self.assign_to(tg, t, y, env, post)
            if post:
                raise Unsupported('assignment needs a conversion that can fail')
            return self.wrap(binds, lets + self.seq(rest, env, tail))
        if isinstance(s, ast.AugAssign):
            if not isinstance(s.target, ast.Name):
                raise Unsupported('augmented assignment to a non-local')
            cur = self.expr(ast.Name(id=s.target.id, ctx=ast.Load()), env)
            binds, t, y = self.binop(s.op, cur, s.value, env)
            post = []
            lets = self.assign_to(s.target, t, y, env, post)
            return self.wrap(binds, lets + self.seq(rest, env, tail))
        if isinstance(s, ast.Expr) and isinstance(s.value, ast.Call):
            return self.call_stmt(s.value, rest, env, tail)
        if isinstance(s, ast.If):
            return self.if_stmt(s, rest, env, tail)
        if isinstance(s, ast.For):
            return self.for_stmt(s, rest, env, tail)
        if isinstance(s, ast.While):
            return self.while_stmt(s, rest, env, tail)
        raise Unsupported('statement %s' % type(s).__name__)

    def call_stmt(self, c, rest, env, tail):
        if c.keywords:
            raise Unsupported('keyword arguments')
        f = c.func
        if not isinstance(f, ast.Attribute):
            raise Unsupported('call statement %s' % ast.dump(f)[:80])
        v = f.value
        # buf.put*(e)
        if f.attr in PUTS and isinstance(v, ast.Name) and v.id in env and env[v.id][1] == OBJ('pyobj') and len(c.args) == 1:
            binds, t, y = self.expr(c.args[0], env)
            arg = self.number(binds, t, y, f.attr) if PUTS[f.attr] == N else self.octets(binds, t, y, f.attr)
            old = env[v.id][0]
            nv = self.bind_name(env, v.id, env[v.id][1])
            binds.append((nv, 'py_%s %s %s' % (f.attr, arg, old)))
            return self.wrap(binds, self.seq(rest, env, tail))
        # obj.listattr.append(e)
        if f.attr == 'append' and isinstance(v, ast.Attribute) and isinstance(v.value, ast.Name) and v.value.id in env \
                and env[v.value.id][1][0] == 'obj' and len(c.args) == 1:
            obj = v.value.id
            fs = FIELDS[env[obj][1][1]]
            if v.attr not in fs or fs[v.attr][0] != 'list':
                raise Unsupported('append to %s.%s' % (obj, v.attr))
            binds, t, y = self.expr(c.args[0], env)
            val = self.coerce(binds, t, y, fs[v.attr][1], 'appended element')
            old = env[obj][0]
            nv = self.bind_name(env, obj, env[obj][1])
            return self.wrap(binds, 'let %s := set_%s (%s %s ++ [%s]) %s in\n' % (nv, v.attr, v.attr, old, val, old)
                             + self.seq(rest, env, tail))
        # Class.method(a, b): a method translated earlier
        if isinstance(v, ast.Name) and (v.id, f.attr) in self.ctx.methods and len(c.args) == 2 \
                and all(isinstance(a, ast.Name) and a.id in env for a in c.args):
            a, b = c.args[0].id, c.args[1].id
            if env[a][1] != self.ctx.methods[(v.id, f.attr)] or env[b][1] != OBJ('pyobj') or a == b:
                raise Unsupported('%s.%s applied to other objects than it was translated for' % (v.id, f.attr))
            oa, ob = env[a][0], env[b][0]
            na, nb = self.bind_name(env, a, env[a][1]), self.bind_name(env, b, env[b][1])
            return 'do (%s, %s) <- %s_%s %s %s;\n' % (na, nb, v.id, f.attr, oa, ob) + self.seq(rest, env, tail)
        raise Unsupported('call statement %s' % ast.dump(f)[:100])

    def join(self, names, envs):
        """types of the joined variables (must agree in every branch that falls through)"""
        tys = {}
        for n in names:
            ts = {e[n][1] for e in envs if e is not None and n in e}
            if len(ts) != 1:
                raise Unsupported('variable %s has different types on different paths: %s' % (n, sorted(ts)))
            tys[n] = ts.pop()
        return tys

    def if_stmt(self, s, rest, env, tail):
        binds, t, y = self.expr(s.test, env)
        cond = self.truth(t, y)
        may = self.assigned(s.body) | self.assigned(s.orelse)
        da, db = self.definitely(s.body), self.definitely(s.orelse)
        both = (da & db) if (da is not None and db is not None) else (da if db is None else db if da is None else set())
        if da is None and db is None:
            if [x for x in rest if not skipped(x)]:
                raise Unsupported('statements after an if that always raises')
            never = lambda e2: (_ for _ in ()).throw(Unsupported('branch falls through although it ends in raise'))
            a = self.seq(s.body, dict(env), never)
            o = self.seq(s.orelse, dict(env), never)
            return self.wrap(binds, '(if %s\n then (%s)\n else (%s))' % (cond, a, o))
        names = sorted(n for n in may if n in env or n in both)
        ends = []

        def end(e2):
            ends.append(dict(e2))
            return 'Ok ' + self.tuple_of([e2[n][0] for n in names])
        a = self.seq(s.body, dict(env), end)
        o = self.seq(s.orelse, dict(env), end)
        tys = self.join(names, ends)
        pats = [self.bind_name(env, n, tys[n]) for n in names]
        text = 'do %s <- (if %s\n then (%s)\n else (%s));\n' % (self.pattern_of(pats), cond, a, o)
        return self.wrap(binds, text + self.seq(rest, env, tail))

    def loop_state(self, body, env):
        names = sorted(n for n in self.assigned(body) if n in env)
        return names

    def lam(self, pats, extra=None):
        st = '(_ : unit)' if not pats else pats[0] if len(pats) == 1 else "'(" + ', '.join(pats) + ')'
        return 'fun %s%s =>' % (st, ' ' + extra if extra else '')

    def loop_body(self, body, env, names):
        """translate a loop body as a function of the loop state; returns (pats, text)"""
        inner = dict(env)
        pats = [self.bind_name(inner, n, env[n][1]) for n in names]
        ends = []

        def end(e2):
            ends.append(dict(e2))
            return 'Ok ' + self.tuple_of([e2[n][0] for n in names])
        return pats, inner, end, ends

    def for_stmt(self, s, rest, env, tail):
        if s.orelse or not isinstance(s.target, ast.Name):
            raise Unsupported('for loop shape')
        it = s.iter
        names = [n for n in self.loop_state(s.body, env) if n != s.target.id]
        init = self.tuple_of([env[n][0] for n in names])
        if isinstance(it, ast.Call) and isinstance(it.func, ast.Name) and it.func.id == 'range' and 'range' not in env:
            if len(it.args) != 1 or it.keywords:
                raise Unsupported('range with other than one argument')
            if any(isinstance(n, ast.Name) and n.id == s.target.id for b in s.body for n in ast.walk(b)):
                raise Unsupported('loop counter used in the body')
            binds, t, y = self.expr(it.args[0], env)
            cnt = self.number(binds, t, y, 'range')
            pats, inner, end, ends = self.loop_body(s.body, env, names)
            body = self.seq(s.body, inner, end)
            self.join(names, ends + [env])
            head = 'iter_res (N.to_nat %s) (%s\n%s)\n %s' % (cnt, self.lam(pats), body, init)
        else:
            binds, t, y = self.expr(it, env)
            if y[0] == 'opt' and y[1][0] == 'list':
                raise Unsupported('iteration over a possibly-None list')
            if y[0] != 'list':
                raise Unsupported('iteration over %s' % (y,))
            pats, inner, end, ends = self.loop_body(s.body, env, names)
            x = self.bind_name(inner, s.target.id, y[1])
            body = self.seq(s.body, inner, end)
            self.join(names, ends + [env])
            head = 'fold_res (%s\n%s)\n %s %s' % (self.lam(pats, x), body, t, init)
        env.pop(s.target.id, None)
        outs = [self.bind_name(env, n, env[n][1]) for n in names]
        return self.wrap(binds, 'do %s <- %s;\n' % (self.pattern_of(outs), head) + self.seq(rest, env, tail))

    def while_stmt(self, s, rest, env, tail):
        # only `while <buffer object>.pduData:` — fuel = 1 + octets in that buffer at loop entry
        t = s.test
        if s.orelse or not (isinstance(t, ast.Attribute) and t.attr == 'pduData' and isinstance(t.value, ast.Name)
                            and t.value.id in env and env[t.value.id][1] == OBJ('pyobj')):
            raise Unsupported('while loop other than `while <buffer>.pduData:`')
        buf = t.value.id
        names = self.loop_state(s.body, env)
        if buf not in names:
            raise Unsupported('while loop whose body does not touch the buffer it tests')
        init = self.tuple_of([env[n][0] for n in names])
        fuel = 'S (length (pduData %s))' % env[buf][0]
        pats, inner, end, ends = self.loop_body(s.body, env, names)
        cb, ct, cy = self.expr(s.test, inner)
        if cb:
            raise Unsupported('while condition that can fail')
        cond = self.truth(ct, cy)
        body = self.seq(s.body, inner, end)
        self.join(names, ends + [env])
        head = 'while_res (%s)\n (%s %s)\n (%s\n%s)\n %s' % (fuel, self.lam(pats), cond, self.lam(pats), body, init)
        outs = [self.bind_name(env, n, env[n][1]) for n in names]
        return 'do %s <- %s;\n' % (self.pattern_of(outs), head) + self.seq(rest, env, tail)

    # ------------------------------------------------------------------ one method
    def emit(self):
        fn = self.fn
        a = fn.args
        if fn.decorator_list or a.vararg or a.kwarg or a.kwonlyargs or a.defaults or a.posonlyargs or len(a.args) != 2:
            raise Unsupported('argument shape / decorator')
        p_self, p_buf = a.args[0].arg, a.args[1].arg
        if p_self != 'self' or p_buf == 'self':
            raise Unsupported('first parameter is not self')
        env = {p_self: ('self_0', self.selfty), p_buf: (p_buf + '_0', OBJ('pyobj'))}
        for s in fn.body:
            for n in ast.walk(s):
                if isinstance(n, (ast.Return, ast.Yield, ast.YieldFrom, ast.Try, ast.With, ast.Global, ast.Nonlocal,
                                  ast.Lambda, ast.Delete, ast.Import, ast.ImportFrom, ast.Assert)):
                    raise Unsupported('statement %s' % type(n).__name__)
        body = self.seq(fn.body, env, lambda e: 'Ok (%s, %s)' % (e[p_self][0], e[p_buf][0]))
        name = '%s_%s' % (self.cls, fn.name)
        return ('(* %s.%s, npdu.py:%d-%d *)\nDefinition %s (self_0 : %s) (%s_0 : pyobj) : res (%s * pyobj) :=\n%s.\n'
                % (self.cls, fn.name, fn.lineno, fn.end_lineno, name, coq_ty(self.selfty), p_buf, coq_ty(self.selfty), body))


def check_rte_ctor(cls):
    """RoutingTableEntry.__init__ must only store its three parameters, in the order of mkRte"""
    init = [s for s in cls.body if isinstance(s, ast.FunctionDef) and s.name == '__init__']
    if len(init) != 1:
        raise Unsupported('RoutingTableEntry.__init__ not found')
    f = init[0]
    params = [x.arg for x in f.args.args]
    body = [s for s in f.body if not skipped(s)]
    want = ['rtDNET', 'rtPortID', 'rtPortInfo']
    got = []
    for s in body:
        if not (isinstance(s, ast.Assign) and len(s.targets) == 1 and isinstance(s.targets[0], ast.Attribute)
                and isinstance(s.targets[0].value, ast.Name) and s.targets[0].value.id == 'self'
                and isinstance(s.value, ast.Name)):
            raise Unsupported('RoutingTableEntry.__init__ does more than store its parameters')
        got.append((s.targets[0].attr, s.value.id))
    if len(params) != 4 or f.args.vararg or f.args.kwarg or got != list(zip(want, params[1:])):
        raise Unsupported('RoutingTableEntry.__init__ is not (dnet, portID, portInfo) -> rtDNET, rtPortID, rtPortInfo')


def check_message_init(cls):
    """the attributes the constructor creates are the record fields declared in FIELDS; npduNetMessage = <Class>.messageType"""
    init = [s for s in cls.body if isinstance(s, ast.FunctionDef) and s.name == '__init__']
    if len(init) != 1:
        raise Unsupported('%s.__init__ not found' % cls.name)
    attrs, mt = [], False
    for s in ast.walk(init[0]):
        if isinstance(s, ast.Assign):
            for t in s.targets:
                if isinstance(t, ast.Attribute) and isinstance(t.value, ast.Name) and t.value.id == 'self':
                    if t.attr == 'npduNetMessage':
                        v = s.value
                        mt = isinstance(v, ast.Attribute) and isinstance(v.value, ast.Name) and v.value.id == cls.name \
                            and v.attr == 'messageType'
                    else:
                        attrs.append(t.attr)
    if sorted(attrs) != sorted(FIELDS[cls.name]):
        raise Unsupported('%s.__init__ creates attributes %s, the model record has %s' % (cls.name, sorted(attrs), sorted(FIELDS[cls.name])))
    if not mt:
        raise Unsupported('%s.__init__ does not store %s.messageType in npduNetMessage' % (cls.name, cls.name))


def gen_npci_fns():
    src_path = os.path.join(REPO, 'py34', 'bacpypes', 'npdu.py')
    tree = ast.parse(open(src_path).read())
    pdu_tree = ast.parse(open(os.path.join(REPO, 'py34', 'bacpypes', 'pdu.py')).read())
    classes = {}
    for n in tree.body:
        if isinstance(n, ast.ClassDef):
            if n.name in classes:
                raise Unsupported('class %s defined twice' % n.name)
            classes[n.name] = n
    consts = {name: class_constants(c) for name, c in classes.items()}
    addr_cls = [n for n in pdu_tree.body if isinstance(n, ast.ClassDef) and n.name == 'Address']
    if len(addr_cls) != 1:
        raise Unsupported('pdu.Address not found')
    consts['Address'] = class_constants(addr_cls[0])
    for k in ('remoteStationAddr', 'remoteBroadcastAddr', 'globalBroadcastAddr'):
        if k not in consts['Address']:
            raise Unsupported('Address.%s not found' % k)
    # the names the constructor mapping and the skip list rely on must be the imported ones, not redefined here
    for name in ('RemoteStation', 'RemoteBroadcast', 'GlobalBroadcast', 'Address', 'PCI'):
        if name in classes or any(isinstance(n, ast.FunctionDef) and n.name == name for n in tree.body):
            raise Unsupported('%s is redefined in npdu.py' % name)
    if 'RoutingTableEntry' not in classes:
        raise Unsupported('RoutingTableEntry not found')
    check_rte_ctor(classes['RoutingTableEntry'])

    ctx = Ctx(consts, {})
    out = ['(* GENERATED by translator/gen_npcifns.py from py34/bacpypes/npdu.py (AST translation) — do not edit *)',
           'From Bac Require Import Base Npci NpciRt.', 'Open Scope N_scope.', '',
           '(* pdu.Address type codes (pdu.py) *)']
    for k in ('remoteStationAddr', 'remoteBroadcastAddr', 'globalBroadcastAddr'):
        out.append('Definition Address_%s : N := %d.' % (k, consts['Address'][k]))
    out.append('')
    order = HEADER_CLASSES + MESSAGES
    for cname in order:
        if cname not in classes:
            raise Unsupported('class %s not found' % cname)
        cls = classes[cname]
        if cname in MESSAGES:
            if 'messageType' not in consts[cname]:
                raise Unsupported('%s.messageType is not an integer literal' % cname)
            check_message_init(cls)
            out.append('Definition %s_messageType : N := %d.' % (cname, consts[cname]['messageType']))
        selfty = OBJ('pyobj') if cname in HEADER_CLASSES else OBJ(cname)
        for mname in ('encode', 'decode'):
            fns = [s for s in cls.body if isinstance(s, ast.FunctionDef) and s.name == mname]
            if len(fns) != 1:
                raise Unsupported('%s.%s: %d definitions in the class body' % (cname, mname, len(fns)))
            try:
                out.append(Method(ctx, cname, fns[0], selfty).emit())
            except Unsupported as e:
                raise Unsupported('npdu.py:%s.%s: %s' % (cname, mname, e))
            ctx.methods[(cname, mname)] = selfty
    return '\n'.join(out) + '\n'


TARGETS = {'NpciFns.v': gen_npci_fns}
