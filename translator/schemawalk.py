#!/usr/bin/env python3
"""Walk the declarative wire schema of bacpypes (apdu.py, basetypes.py) by introspection.

Used (a) by translate.py in a subprocess (`python schemawalk.py` prints JSON) to produce
coq/gen/Schemas.v and (b) in-process by harness/props/c03.py, which also needs the class objects.
Fail-closed: any element class that is not one of the known kinds, any class overriding the generic
codec other than the expected ones, any name collision raises SchemaError.
"""
import inspect, json, sys


class SchemaError(Exception):
    pass


# classes whose own encode/decode replace the table-driven codec; value = model constructor
CUSTOM_CODEC = {'NameValue': 'namevalue'}
# the PDU wrappers: their encode/decode call Sequence.encode/decode on a tag list (modelled by hand)
WRAPPERS = {'APCISequence'}


def walk():
    from bacpypes import apdu, basetypes, constructeddata as cd, primitivedata as pd

    Sequence, Choice = cd.Sequence, cd.Choice
    registries = {}
    for reg in ('confirmed_request_types', 'complex_ack_types', 'unconfirmed_request_types', 'error_types'):
        d = getattr(apdu, reg)
        if not isinstance(d, dict) or not d:
            raise SchemaError('registry %s missing or empty' % reg)
        registries[reg] = d

    by_class = {}     # class -> name
    atoms = {}        # atomic class name -> class
    names = {}        # name -> class
    out = {}          # name -> description
    order = []

    def is_abstract_wrapper(c):
        # APCISequence, ConfirmedRequestSequence, ComplexAckSequence, ... : APCI mix-ins without a table of their own
        return issubclass(c, apdu.APCISequence) and 'sequenceElements' not in vars(c) and \
            all('sequenceElements' not in vars(b) for b in c.__mro__ if b is not Sequence and issubclass(b, Sequence))

    def overrides(c):
        """names of classes in c's MRO (below Sequence/Choice) that define encode or decode"""
        hits = []
        for b in c.__mro__:
            if b in (Sequence, Choice, object):
                continue
            if not issubclass(b, (Sequence, Choice)):
                continue        # APCI/PDU side of the hierarchy: header codec, property C07
            if 'encode' in vars(b) or 'decode' in vars(b):
                hits.append(b.__name__)
        return hits

    def atom_app(k):
        app = k._app_tag
        if not isinstance(app, int) or not (0 <= app <= 12):
            raise SchemaError('atomic class %s has application tag %r' % (k.__name__, app))
        return app

    def type_of(k, where):
        if k in cd._sequence_of_classes or k in cd._list_of_classes:
            sub = k.subtype
            if sub in cd._sequence_of_classes or sub in cd._list_of_classes or sub in cd._array_of_classes:
                raise SchemaError('%s: nested list type %s' % (where, k.__name__))
            if k in cd._list_of_classes:
                # Sequence.decode treats a ListOf element as a structure (it is not in _sequence_of_classes)
                raise SchemaError('%s: ListOf element %s is not table-driven like SequenceOf' % (where, k.__name__))
            return {'k': 'seqof', 'of': type_of(sub, where)}
        if k in cd._array_of_classes:
            raise SchemaError('%s: ArrayOf element %s not mapped' % (where, k.__name__))
        if not inspect.isclass(k):
            raise SchemaError('%s: element class %r is not a class' % (where, k))
        if k is cd.Any:
            return {'k': 'any'}
        if k is cd.SequenceOfAny:
            return {'k': 'seqofany'}
        if issubclass(k, cd.Any):
            raise SchemaError('%s: unknown Any subclass %s' % (where, k.__name__))
        if issubclass(k, cd.AnyAtomic):
            if k is not cd.AnyAtomic:
                raise SchemaError('%s: unknown AnyAtomic subclass %s' % (where, k.__name__))
            return {'k': 'anyatomic'}
        if issubclass(k, pd.Atomic):
            for m in ('encode', 'decode'):
                owner = [b for b in k.__mro__ if m in vars(b)][0]
                if owner.__module__ != pd.__name__:
                    raise SchemaError('%s: atomic class %s overrides %s outside primitivedata' % (where, k.__name__, m))
            if atoms.setdefault(k.__name__, k) is not k:
                raise SchemaError('two different atomic classes named %s' % k.__name__)
            return {'k': 'atom', 'cls': k.__name__, 'app': atom_app(k)}
        if issubclass(k, (Sequence, Choice)):
            return {'k': 'ref', 'name': add(k)}
        raise SchemaError('%s: element class %s is of no known kind' % (where, k.__name__))

    def add(c):
        if c in by_class:
            return by_class[c]
        name = c.__name__
        if name in names and names[name] is not c:
            raise SchemaError('two different classes named %s' % name)
        if issubclass(c, Sequence) and issubclass(c, Choice):
            raise SchemaError('%s is both Sequence and Choice' % name)
        ov = [o for o in overrides(c) if o not in WRAPPERS]
        custom = None
        if ov:
            if ov == [name] and name in CUSTOM_CODEC:
                custom = CUSTOM_CODEC[name]
            else:
                raise SchemaError('%s: generic codec overridden by %s' % (name, ov))
        by_class[c] = name
        names[name] = c
        is_seq = issubclass(c, Sequence)
        els = c.sequenceElements if is_seq else c.choiceElements
        desc = {'kind': custom or ('seq' if is_seq else 'choice'), 'module': c.__module__.split('.')[-1],
                'pdu': bool(issubclass(c, apdu.APCISequence)), 'elements': []}
        seen = set()
        for i, e in enumerate(els):
            if type(e) is not cd.Element:
                raise SchemaError('%s[%d]: not an Element' % (name, i))
            if e.name in seen:
                raise SchemaError('%s: duplicate element name %s' % (name, e.name))
            seen.add(e.name)
            if e.context is not None and not (isinstance(e.context, int) and not isinstance(e.context, bool) and 0 <= e.context):
                raise SchemaError('%s.%s: context %r' % (name, e.name, e.context))
            if e.optional not in (True, False):
                raise SchemaError('%s.%s: optional %r' % (name, e.name, e.optional))
            t = type_of(e.klass, '%s.%s' % (name, e.name))
            if not is_seq and t['k'] == 'anyatomic':
                raise SchemaError('%s.%s: AnyAtomic alternative of a Choice not mapped' % (name, e.name))
            desc['elements'].append({'name': e.name, 'type': t, 'ctx': e.context, 'opt': bool(e.optional)})
        out[name] = desc
        order.append(name)      # post-order: everything referenced is already listed
        return name

    regs_out = {}
    for reg, d in registries.items():
        regs_out[reg] = {}
        for choice, c in sorted(d.items()):
            if not (inspect.isclass(c) and issubclass(c, apdu.APCISequence)):
                raise SchemaError('%s[%r] is not an APCISequence' % (reg, choice))
            regs_out[reg][int(choice)] = add(c)
    for mod in (apdu, basetypes):
        for n, c in sorted(vars(mod).items()):
            if inspect.isclass(c) and c.__module__ == mod.__name__ and issubclass(c, (Sequence, Choice)):
                if c in (Sequence, Choice) or c.__name__ in WRAPPERS or is_abstract_wrapper(c):
                    continue
                add(c)
    return {'classes': out, 'order': order, 'registries': regs_out}, names, atoms


if __name__ == '__main__':
    try:
        desc, _, _ = walk()
    except SchemaError as e:
        print('SCHEMA-ERROR: %s' % e)
        sys.exit(2)
    json.dump(desc, sys.stdout)
