"""Translator plug-in for C02: statement-by-statement translation of the tag framing methods of
py34/bacpypes/primitivedata.py into Gallina (coq/gen/TagFns.v, module BacGen.TagFns).

Translated (METHODS below): Tag.encode, Tag.decode, TagList.encode, TagList.decode.  A constructor call
such as `Tag(pdu)` is translated by inlining the class's `__init__` with the statically known argument
tuple (conditions over `args`, `len(args)`, `isinstance(args[i], C)` are decided at translation time).

The output uses the vocabulary of the hand model: record `tag` (Tag.v), the `res` monad and the octet
readers/writers of Base.v (`put`, `put_short`, `put_long`, `get`, `get_short`, `get_long`, `get_data` —
these model comm.PDUData and stay hand-written), and the loop combinators of PyLoops.v.
coq/theories/TagGenFacts.v proves, for all inputs, that every generated definition equals the hand model
(enc_tag, dec_tag, enc_tags, dec_tags), so the theorems of the model are theorems about this text.

Statement forms accepted (everything else raises pyfn.Unsupported -> TRANSLATION-ABORT -> the generated
file does not compile -> the check fails closed):
  x = e, self.attr = e, x += e, self.attr += e            let-bindings / record-field slots
  pdu.put(e) pdu.put_short(e) pdu.put_long(e) pdu.put_data(e)     append to the buffer
  pdu.get() pdu.get_short() pdu.get_long() pdu.get_data(e)        consume from the buffer (expressions)
  if / elif / else                                        `do (modified slots) <- (if c then .. else ..)`
  try: ... except E: raise X(...)                         `match .. with Err E => Err X | r => r end`
  while pdu.pduData: ...                                  while_fuel, fuel = length of that buffer at loop entry
  for x in <list field>: ...                              for_each (monadic fold)
  lst.append(e)                                           lst ++ [e]
  obj.method(args) for a translated method, Class(args)   call of the generated definition / inlined __init__
  raise X(...)                                            Err X
  expressions: int and bytes literals, names, self.attr, Class.CONSTANT (read from the class body),
  + * << >> & |, == != < <= > >=, and / or / not, `is None`, len(), isinstance(), args[i]
SKIPPED statements (the complete allow-list): docstrings, `pass`, `if _debug: ...` (no else branch).
No call is on a skip list: every call must be one of the forms above.
Dynamic dispatch: `tag.encode(pdu)` on a list element is taken to be Tag.encode; the translation aborts when a
subclass of Tag / TagList in the module defines encode or decode, or when anything assigns to Tag.encode etc.

Python ints are translated as N (the model's domain: tag fields are naturals); `-` is therefore not
accepted.  Evaluation order is kept: side effects become binds in source order, and a value that was read
before a later side effect changed its slot aborts the translation."""
import ast, os
import pyfn
from pyfn import Unsupported

REPO = os.environ.get('VERIF_REPO', '/repo')
SRC_REL = 'py34/bacpypes/primitivedata.py'

# ---- vocabulary: Python classes <-> records of the hand model (Tag.v)
CLASSES = {
    'Tag': {'ctor': 'mkTag',
            'fields': [('tagClass', 'cls', 'N'), ('tagNumber', 'num', 'N'), ('tagLVT', 'lvt', 'N'), ('tagData', 'data', 'bytes')]},
    # a TagList is its tagList (the hand model has no wrapper record)
    'TagList': {'ctor': None, 'fields': [('tagList', None, ('list', 'Tag'))]},
}
# methods to translate, in dependency order.  self: 'in' (read), 'out' (every field assigned before it is
# read; no self parameter), 'inout'; returns: what the generated function returns (the mutated things)
METHODS = [
    ('Tag', 'encode', {'gen': 'gen_Tag_encode', 'self': 'in', 'params': [('pdu', 'pdu')], 'returns': ['pdu']}),
    ('Tag', 'decode', {'gen': 'gen_Tag_decode', 'self': 'out', 'params': [('pdu', 'pdu')], 'returns': ['self', 'pdu']}),
    ('TagList', 'encode', {'gen': 'gen_TagList_encode', 'self': 'in', 'params': [('pdu', 'pdu')], 'returns': ['pdu']}),
    ('TagList', 'decode', {'gen': 'gen_TagList_decode', 'self': 'inout', 'params': [('pdu', 'pdu')], 'returns': ['self', 'pdu']}),
]
EXC = {'DecodingError': 'DecodingError', 'InvalidTag': 'InvalidTag', 'ValueError': 'ValueErr', 'TypeError': 'TypeErr',
       'KeyError': 'KeyErr', 'IndexError': 'IndexErr', 'RuntimeError': 'RuntimeErr', 'EncodingError': 'EncodingError',
       'InvalidParameterDatatype': 'InvalidParameterDatatype', 'AttributeError': 'AttrErr'}
PDU_GET = {'get': ('get', 0, 'N'), 'get_short': ('get_short', 0, 'N'), 'get_long': ('get_long', 0, 'N'), 'get_data': ('get_data', 1, 'bytes')}
PDU_PUT = {'put': ('put', 'N', True), 'put_short': ('put_short', 'N', False), 'put_long': ('put_long', 'N', False), 'put_data': (None, 'bytes', False)}


def coq_ty(ty):
    if ty == 'N':
        return 'N'
    if ty == 'B':
        return 'bool'
    if ty in ('bytes', 'pdu'):
        return '(list N)'
    if isinstance(ty, tuple) and ty[0] == 'obj':
        return {'Tag': 'tag', 'TagList': '(list tag)'}[ty[1]]
    if isinstance(ty, tuple) and ty[0] == 'list':
        return '(list %s)' % coq_ty(('obj', ty[1]))
    raise Unsupported('type %r' % (ty,))


class V:
    """a pure value: Coq text of type ty; deps = {slot: version read}; const = Python int of a literal"""
    def __init__(self, ty, text, deps=None, const=None):
        self.ty, self.text, self.deps, self.const = ty, text, dict(deps or {}), const


class Static:
    """a value known at translation time (None, bool, int, tuple of values)"""
    def __init__(self, value):
        self.value = value


class PduRef:
    def __init__(self, slot):
        self.slot = slot


class ObjRef:
    def __init__(self, oid):
        self.oid = oid


class Env:
    def __init__(self):
        self.frames = [(0, {})]      # (frame id, {python name: ('slot', s) | PduRef | ObjRef | Static})
        self.slots = {}              # slot -> ('def', ty) | ('static', value)
        self.ver = {}
        self.objs = {}               # oid -> {'cls', 'prefix', 'mode'}
        self.counter = 0

    def copy(self):
        e = Env()
        e.frames = [(i, dict(d)) for i, d in self.frames]
        e.slots = dict(self.slots)
        e.ver = dict(self.ver)
        e.objs = {k: dict(v) for k, v in self.objs.items()}
        e.counter = self.counter
        return e

    def fresh(self, base):
        self.counter += 1
        return '%s%d' % (base, self.counter)

    def bump(self, slot):
        self.ver[slot] = self.ver.get(slot, 0) + 1

    def new_obj(self, cls, prefix, mode):
        oid = len(self.objs) + 1
        while oid in self.objs:
            oid += 1
        self.objs[oid] = {'cls': cls, 'prefix': prefix, 'mode': mode}
        return oid


def tuple_text(slots):
    if not slots:
        return 'tt'
    if len(slots) == 1:
        return slots[0]
    return '(' + ', '.join(slots) + ')'


def pat_text(slots):
    return '_' if not slots else tuple_text(slots)


def assemble(items, tail, ind):
    pad = '  ' * ind
    out = []
    for kind, pat, term in items:
        if kind == 'do':
            out.append('%sdo %s <- %s;' % (pad, pat, term))
        else:
            out.append('%slet %s := %s in' % (pad, pat, term))
    out.append(pad + tail)
    return '\n'.join(out)


class Translator:
    def __init__(self, tree):
        self.classes = {n.name: n for n in tree.body if isinstance(n, ast.ClassDef)}
        self.emitted = {}            # (cls, method) -> sig
        self.ind = 1

    # ------------------------------------------------------------------ helpers
    def where(self, node):
        return 'line %s' % getattr(node, 'lineno', '?')

    def method_def(self, cname, mname):
        c = self.classes.get(cname)
        if c is None:
            raise Unsupported('class %s not found' % cname)
        defs = [n for n in c.body if isinstance(n, ast.FunctionDef) and n.name == mname]
        if len(defs) != 1:
            raise Unsupported('%s.%s: %d definitions in the class body' % (cname, mname, len(defs)))
        if defs[0].decorator_list:
            raise Unsupported('%s.%s is decorated' % (cname, mname))
        return defs[0]

    def class_const(self, cname, attr, node):
        c = self.classes[cname]
        vals = [n for n in c.body if isinstance(n, ast.Assign) and len(n.targets) == 1
                and isinstance(n.targets[0], ast.Name) and n.targets[0].id == attr]
        if len(vals) != 1:
            raise Unsupported('%s: %s.%s is not a unique class-level constant' % (self.where(node), cname, attr))
        v = vals[0].value
        if not (isinstance(v, ast.Constant) and isinstance(v.value, int) and not isinstance(v.value, bool) and v.value >= 0):
            raise Unsupported('%s: %s.%s is not a natural-number literal' % (self.where(node), cname, attr))
        return V('N', str(v.value), const=v.value)

    def check_fresh(self, v, env, node=None):
        for s, ver in v.deps.items():
            if env.ver.get(s, 0) != ver:
                raise Unsupported('%s: value read from %s before a later side effect changed it' % (self.where(node), s))

    def read_slot(self, env, slot, node=None):
        st = env.slots.get(slot)
        if st is None:
            raise Unsupported('%s: %s is read before it is assigned' % (self.where(node), slot))
        if st[0] == 'static':
            return Static(st[1])
        return V(st[1], slot, {slot: env.ver.get(slot, 0)})

    def write_slot(self, env, items, slot, val, node=None, want=None):
        if isinstance(val, Static):
            if val.value is not None:
                raise Unsupported('%s: assignment of a translation-time value other than None' % self.where(node))
            env.slots[slot] = ('static', None)
            env.bump(slot)
            return
        if not isinstance(val, V):
            raise Unsupported('%s: assignment of an object or buffer reference to %s' % (self.where(node), slot))
        if want is not None and val.ty != want:
            raise Unsupported('%s: %s holds %s, assigned %s' % (self.where(node), slot, want, val.ty))
        self.check_fresh(val, env, node)
        items.append(('let', slot, val.text))
        env.slots[slot] = ('def', val.ty)
        env.bump(slot)

    # ---- objects
    def fields(self, cls):
        return CLASSES[cls]['fields']

    def field_slot(self, o, f):
        return '%s_%s' % (o['prefix'], f)

    def split(self, env, items, oid):
        o = env.objs[oid]
        if o['mode'] == 'split':
            return
        w = self.read_slot(env, o['prefix'])
        for f, proj, fty in self.fields(o['cls']):
            s = self.field_slot(o, f)
            items.append(('let', s, '(%s %s)' % (proj, w.text) if proj else w.text))
            env.slots[s] = ('def', fty)
            env.bump(s)
        o['mode'] = 'split'

    def field_read(self, env, oid, f, node):
        o = env.objs[oid]
        spec = [x for x in self.fields(o['cls']) if x[0] == f]
        if not spec:
            raise Unsupported('%s: attribute %s of %s is not in the model vocabulary' % (self.where(node), f, o['cls']))
        _, proj, fty = spec[0]
        if o['mode'] == 'whole':
            w = self.read_slot(env, o['prefix'], node)
            return V(fty, '(%s %s)' % (proj, w.text) if proj else w.text, w.deps)
        return self.read_slot(env, self.field_slot(o, f), node)

    def field_write(self, env, items, oid, f, val, node):
        o = env.objs[oid]
        spec = [x for x in self.fields(o['cls']) if x[0] == f]
        if not spec:
            raise Unsupported('%s: attribute %s of %s is not in the model vocabulary' % (self.where(node), f, o['cls']))
        self.split(env, items, oid)
        self.write_slot(env, items, self.field_slot(o, f), val, node, want=spec[0][2])

    def whole(self, env, oid, node=None):
        o = env.objs[oid]
        if o['mode'] == 'whole':
            w = self.read_slot(env, o['prefix'], node)
            return V(('obj', o['cls']), w.text, w.deps)
        parts, deps = [], {}
        for f, proj, fty in self.fields(o['cls']):
            v = self.read_slot(env, self.field_slot(o, f), node)
            if not isinstance(v, V) or v.ty != fty:
                raise Unsupported('%s: field %s of the object is None / untyped where the whole object is needed' % (self.where(node), f))
            parts.append(v.text)
            deps.update(v.deps)
        ctor = CLASSES[o['cls']]['ctor']
        return V(('obj', o['cls']), '(%s %s)' % (ctor, ' '.join(parts)) if ctor else parts[0], deps)

    def set_whole(self, env, oid):
        """the object was replaced by the result of a call bound to its prefix slot"""
        o = env.objs[oid]
        for f, _, _ in self.fields(o['cls']):
            s = self.field_slot(o, f)
            if s in env.slots:
                del env.slots[s]
                env.bump(s)
        env.slots[o['prefix']] = ('def', ('obj', o['cls']))
        env.bump(o['prefix'])
        o['mode'] = 'whole'

    # ---- names
    def lookup(self, env, name, node):
        fid, d = env.frames[-1]
        if name in d:
            b = d[name]
            if isinstance(b, tuple) and b[0] == 'slot':
                return self.read_slot(env, b[1], node)
            return b
        raise Unsupported('%s: unknown name %s' % (self.where(node), name))

    def local_slot(self, env, name):
        if not (name.isidentifier() and name.isascii()):
            raise Unsupported('identifier %r' % name)
        fid, d = env.frames[-1]
        return ('v_%s' % name) if fid == 0 else ('f%d_%s' % (fid, name))

    # ------------------------------------------------------------------ expressions
    def truth(self, v, env, node=None):
        if isinstance(v, Static):
            if isinstance(v.value, (bool, int, tuple)) or v.value is None:
                return Static(bool(v.value))
            raise Unsupported('%s: truth value of a translation-time %r' % (self.where(node), type(v.value).__name__))
        if isinstance(v, V):
            if v.ty == 'B':
                return v
            if v.ty == 'N':
                return V('B', '(negb (%s =? 0))' % v.text, v.deps)
            if v.ty == 'bytes' or (isinstance(v.ty, tuple) and v.ty[0] == 'list'):
                return V('B', '(nonempty %s)' % v.text, v.deps)
        raise Unsupported('%s: truth value of this expression' % self.where(node))

    def expr(self, e, env, items):
        if isinstance(e, ast.Constant):
            if isinstance(e.value, bool):
                return V('B', 'true' if e.value else 'false')
            if isinstance(e.value, int):
                if e.value < 0:
                    raise Unsupported('%s: negative literal' % self.where(e))
                return V('N', str(e.value), const=e.value)
            if isinstance(e.value, bytes):
                return V('bytes', '[' + '; '.join(str(b) for b in e.value) + ']' if e.value else '[]')
            if e.value is None:
                return Static(None)
            raise Unsupported('%s: constant %r' % (self.where(e), e.value))
        if isinstance(e, ast.Name):
            return self.lookup(env, e.id, e)
        if isinstance(e, ast.Attribute):
            if isinstance(e.value, ast.Name) and e.value.id in self.classes and e.value.id not in env.frames[-1][1]:
                return self.class_const(e.value.id, e.attr, e)
            base = self.expr(e.value, env, items)
            if isinstance(base, ObjRef):
                return self.field_read(env, base.oid, e.attr, e)
            if isinstance(base, PduRef) and e.attr == 'pduData':
                r = self.read_slot(env, base.slot, e)
                return V('bytes', r.text, r.deps)
            raise Unsupported('%s: attribute .%s' % (self.where(e), e.attr))
        if isinstance(e, ast.UnaryOp) and isinstance(e.op, ast.Not):
            t = self.truth(self.expr(e.operand, env, items), env, e)
            if isinstance(t, Static):
                return Static(not t.value)
            return V('B', '(negb %s)' % t.text, t.deps)
        if isinstance(e, ast.BinOp):
            ops = {ast.Add: '(%s + %s)', ast.Mult: '(%s * %s)', ast.LShift: '(N.shiftl %s %s)', ast.RShift: '(N.shiftr %s %s)',
                   ast.BitAnd: '(N.land %s %s)', ast.BitOr: '(N.lor %s %s)'}
            if type(e.op) not in ops:
                raise Unsupported('%s: operator %s' % (self.where(e), type(e.op).__name__))
            a = self.expr(e.left, env, items)
            b = self.expr(e.right, env, items)
            for x in (a, b):
                if not (isinstance(x, V) and x.ty == 'N'):
                    raise Unsupported('%s: operand of %s is not a number' % (self.where(e), type(e.op).__name__))
                self.check_fresh(x, env, e)
            return V('N', ops[type(e.op)] % (a.text, b.text), {**a.deps, **b.deps})
        if isinstance(e, ast.Compare):
            if len(e.ops) != 1:
                raise Unsupported('%s: chained comparison' % self.where(e))
            a = self.expr(e.left, env, items)
            b = self.expr(e.comparators[0], env, items)
            return self.compare(e.ops[0], a, b, env, e)
        if isinstance(e, ast.BoolOp):
            is_and = isinstance(e.op, ast.And)
            dyn = []
            for sub in e.values:
                n0 = len(items)
                t = self.truth(self.expr(sub, env, items), env, sub)
                if isinstance(t, Static):
                    if t.value != is_and:        # False in `and` / True in `or` decides (short circuit)
                        if dyn:
                            raise Unsupported('%s: translation-time operand after a run-time one in and/or' % self.where(e))
                        return Static(t.value)
                    continue
                if dyn and len(items) != n0:
                    raise Unsupported('%s: side effect in a short-circuited operand' % self.where(e))
                dyn.append(t)
            if not dyn:
                return Static(is_and)
            deps = {}
            for t in dyn:
                self.check_fresh(t, env, e)
                deps.update(t.deps)
            if len(dyn) == 1:
                return dyn[0]
            return V('B', '(' + (' && ' if is_and else ' || ').join(t.text for t in dyn) + ')', deps)
        if isinstance(e, ast.Subscript):
            base = self.expr(e.value, env, items)
            idx = self.expr(e.slice, env, items)
            if isinstance(base, Static) and isinstance(base.value, tuple) and isinstance(idx, V) and idx.const is not None:
                if idx.const >= len(base.value):
                    raise Unsupported('%s: index out of the argument tuple' % self.where(e))
                return base.value[idx.const]
            raise Unsupported('%s: subscript' % self.where(e))
        if isinstance(e, ast.Call):
            return self.call(e, env, items)
        raise Unsupported('%s: expression %s' % (self.where(e), type(e).__name__))

    def compare(self, op, a, b, env, node):
        def pyval(x):
            if isinstance(x, Static):
                return True, x.value
            if isinstance(x, V) and x.const is not None:
                return True, x.const
            return False, None
        if isinstance(op, (ast.Is, ast.IsNot)):
            # only against None
            if not (isinstance(b, Static) and b.value is None):
                raise Unsupported('%s: `is` against something other than None' % self.where(node))
            if isinstance(a, Static):
                r = a.value is None
            elif isinstance(a, (V, PduRef, ObjRef)):
                r = False
            else:
                raise Unsupported('%s: `is None` of this expression' % self.where(node))
            return Static(r if isinstance(op, ast.Is) else not r)
        if isinstance(a, Static) or isinstance(b, Static):
            (ka, va), (kb, vb) = pyval(a), pyval(b)
            if not (ka and kb) or isinstance(va, tuple) or isinstance(vb, tuple) or va is None or vb is None:
                raise Unsupported('%s: comparison with a translation-time value' % self.where(node))
            fn = {ast.Eq: lambda x, y: x == y, ast.NotEq: lambda x, y: x != y, ast.Lt: lambda x, y: x < y,
                  ast.LtE: lambda x, y: x <= y, ast.Gt: lambda x, y: x > y, ast.GtE: lambda x, y: x >= y}.get(type(op))
            if fn is None:
                raise Unsupported('%s: comparison %s' % (self.where(node), type(op).__name__))
            return Static(fn(va, vb))
        if not (isinstance(a, V) and isinstance(b, V) and a.ty == 'N' and b.ty == 'N'):
            raise Unsupported('%s: comparison of non-numbers' % self.where(node))
        self.check_fresh(a, env, node)
        self.check_fresh(b, env, node)
        forms = {ast.Eq: '(%s =? %s)', ast.NotEq: '(negb (%s =? %s))', ast.Lt: '(%s <? %s)', ast.LtE: '(%s <=? %s)',
                 ast.Gt: '(%s <? %s)', ast.GtE: '(%s <=? %s)'}
        if type(op) not in forms:
            raise Unsupported('%s: comparison %s' % (self.where(node), type(op).__name__))
        x, y = (b, a) if isinstance(op, (ast.Gt, ast.GtE)) else (a, b)
        return V('B', forms[type(op)] % (x.text, y.text), {**a.deps, **b.deps})

    # ---- calls
    def call(self, e, env, items):
        if e.keywords:
            raise Unsupported('%s: keyword arguments' % self.where(e))
        f = e.func
        if isinstance(f, ast.Name):
            if f.id == 'len' and len(e.args) == 1:
                a = self.expr(e.args[0], env, items)
                if isinstance(a, Static) and isinstance(a.value, tuple):
                    return Static(len(a.value))
                if isinstance(a, V) and (a.ty == 'bytes' or (isinstance(a.ty, tuple) and a.ty[0] == 'list')):
                    return V('N', '(lenN %s)' % a.text, a.deps)
                raise Unsupported('%s: len() of this expression' % self.where(e))
            if f.id == 'isinstance' and len(e.args) == 2 and isinstance(e.args[1], ast.Name):
                a = self.expr(e.args[0], env, items)
                cname = e.args[1].id
                if isinstance(a, PduRef) and cname == 'PDUData':
                    return Static(True)
                if isinstance(a, ObjRef) and env.objs[a.oid]['cls'] == cname:
                    return Static(True)
                if isinstance(a, V) and a.ty in ('N', 'B', 'bytes') and cname == 'PDUData':
                    return Static(False)
                raise Unsupported('%s: isinstance(.., %s) cannot be decided at translation time' % (self.where(e), cname))
            if f.id in self.classes and f.id in CLASSES and f.id not in env.frames[-1][1]:
                args = [self.expr(a, env, items) for a in e.args]
                return self.ctor(f.id, args, env, items, e)
            raise Unsupported('%s: call of %s' % (self.where(e), f.id))
        if isinstance(f, ast.Attribute):
            # lst.append(x) on an assignable list
            if f.attr == 'append' and len(e.args) == 1:
                tgt = f.value
                cur = self.expr(tgt, env, items)
                if isinstance(cur, V) and isinstance(cur.ty, tuple) and cur.ty[0] == 'list':
                    a = self.expr(e.args[0], env, items)
                    if not isinstance(a, ObjRef) or env.objs[a.oid]['cls'] != cur.ty[1]:
                        raise Unsupported('%s: append of something that is not a %s' % (self.where(e), cur.ty[1]))
                    self.check_fresh(cur, env, e)          # the argument must not have changed the list
                    w = self.whole(env, a.oid, e)
                    self.assign(tgt, V(cur.ty, '(%s ++ [%s])' % (cur.text, w.text), {**cur.deps, **w.deps}), env, items, e)
                    return Static(None)
                raise Unsupported('%s: .append on this expression' % self.where(e))
            recv = self.expr(f.value, env, items)
            if isinstance(recv, PduRef):
                return self.pdu_call(recv, f.attr, e, env, items)
            if isinstance(recv, ObjRef):
                args = [self.expr(a, env, items) for a in e.args]
                return self.method_call(recv, f.attr, args, env, items, e)
            raise Unsupported('%s: call of .%s on this expression' % (self.where(e), f.attr))
        raise Unsupported('%s: call' % self.where(e))

    def pdu_call(self, recv, name, e, env, items):
        slot = recv.slot
        if name in PDU_GET:
            fn, nargs, rty = PDU_GET[name]
            if len(e.args) != nargs:
                raise Unsupported('%s: %s() takes %d arguments' % (self.where(e), name, nargs))
            pre = ''
            if nargs:
                a = self.expr(e.args[0], env, items)
                if not (isinstance(a, V) and a.ty == 'N'):
                    raise Unsupported('%s: argument of %s is not a number' % (self.where(e), name))
                self.check_fresh(a, env, e)
                pre = a.text + ' '
            self.read_slot(env, slot, e)
            t = env.fresh('t')
            items.append(('do', '(%s, %s)' % (t, slot), '%s %s%s' % (fn, pre, slot)))
            env.bump(slot)
            return V(rty, t)
        if name in PDU_PUT:
            fn, aty, monadic = PDU_PUT[name]
            if len(e.args) != 1:
                raise Unsupported('%s: %s() takes one argument' % (self.where(e), name))
            a = self.expr(e.args[0], env, items)
            if not (isinstance(a, V) and a.ty == aty):
                raise Unsupported('%s: argument of %s is not of type %s' % (self.where(e), name, aty))
            self.check_fresh(a, env, e)
            self.read_slot(env, slot, e)
            if monadic:
                t = env.fresh('t')
                items.append(('do', t, '%s %s' % (fn, a.text)))
                items.append(('let', slot, '%s ++ %s' % (slot, t)))
            elif fn:
                items.append(('let', slot, '%s ++ %s %s' % (slot, fn, a.text)))
            else:
                items.append(('let', slot, '%s ++ %s' % (slot, a.text)))
            env.bump(slot)
            return Static(None)
        raise Unsupported('%s: unknown buffer method %s' % (self.where(e), name))

    def method_call(self, recv, mname, args, env, items, node):
        o = env.objs[recv.oid]
        sig = self.emitted.get((o['cls'], mname))
        if sig is None:
            raise Unsupported('%s: call of %s.%s, which is not a translated method' % (self.where(node), o['cls'], mname))
        if len(args) != len(sig['params']):
            raise Unsupported('%s: %s.%s called with %d arguments' % (self.where(node), o['cls'], mname, len(args)))
        text = sig['gen']
        if sig['self'] in ('in', 'inout'):
            w = self.whole(env, recv.oid, node)
            self.check_fresh(w, env, node)
            text += ' ' + w.text
        pdus = {}
        for (pname, pty), a in zip(sig['params'], args):
            if pty == 'pdu':
                if not isinstance(a, PduRef):
                    raise Unsupported('%s: argument %s of %s.%s is not a buffer' % (self.where(node), pname, o['cls'], mname))
                self.read_slot(env, a.slot, node)
                text += ' ' + a.slot
                pdus[pname] = a.slot
            else:
                raise Unsupported('parameter type %r' % (pty,))
        pat = []
        for r in sig['returns']:
            pat.append(o['prefix'] if r == 'self' else pdus[r])
        if len(set(pat)) != len(pat):
            raise Unsupported('%s: aliased arguments' % self.where(node))
        items.append(('do', pat_text(pat), text))
        for r in sig['returns']:
            if r == 'self':
                self.set_whole(env, recv.oid)
            else:
                env.bump(pdus[r])
        return Static(None)

    def ctor(self, cname, args, env, items, node):
        init = self.method_def(cname, '__init__')
        a = init.args
        if a.kwarg or a.kwonlyargs or a.defaults or a.posonlyargs or not a.args:
            raise Unsupported('%s: %s.__init__ argument shape' % (self.where(node), cname))
        names = [x.arg for x in a.args]
        npos = len(names) - 1
        if len(args) < npos or (len(args) > npos and not a.vararg):
            raise Unsupported('%s: %s() called with %d arguments' % (self.where(node), cname, len(args)))
        n = env.fresh('o')
        oid = env.new_obj(cname, n, 'split')
        fid = env.counter
        frame = {names[0]: ObjRef(oid)}
        for nm, v in zip(names[1:], args[:npos]):
            if isinstance(v, V):
                raise Unsupported('%s: value parameter of an inlined constructor' % self.where(node))
            frame[nm] = v
        if a.vararg:
            frame[a.vararg.arg] = Static(tuple(args[npos:]))
        env.frames.append((fid, frame))
        term = self.block(init.body, env, items)
        env.frames.pop()
        if term is not None:
            raise Unsupported('%s: %s.__init__ raises for this call' % (self.where(node), cname))
        return ObjRef(oid)

    # ------------------------------------------------------------------ statements
    def assign(self, tgt, val, env, items, node):
        if isinstance(tgt, ast.Name):
            fid, d = env.frames[-1]
            if isinstance(val, (PduRef, ObjRef)):
                if tgt.id in d and isinstance(d[tgt.id], tuple):
                    raise Unsupported('%s: %s changes from a value to a reference' % (self.where(node), tgt.id))
                d[tgt.id] = val
                return
            if tgt.id in d and not isinstance(d[tgt.id], tuple):
                raise Unsupported('%s: %s changes from a reference to a value' % (self.where(node), tgt.id))
            slot = self.local_slot(env, tgt.id)
            d[tgt.id] = ('slot', slot)
            self.write_slot(env, items, slot, val, node)
            return
        if isinstance(tgt, ast.Attribute):
            base = self.expr(tgt.value, env, items)
            if isinstance(base, ObjRef):
                self.field_write(env, items, base.oid, tgt.attr, val, node)
                return
        raise Unsupported('%s: assignment target' % self.where(node))

    def presplit(self, env, items, blocks, prepare=None):
        """objects that a branch / loop body switches to field slots are switched before the construct"""
        for blk in blocks:
            dry = env.copy()
            if prepare:
                prepare(dry)
            self.block(blk, dry, [])
            for oid, o in env.objs.items():
                if o['mode'] == 'whole' and dry.objs[oid]['mode'] == 'split':
                    self.split(env, items, oid)

    def changed(self, env, ends):
        out = set()
        for e in ends:
            for s in set(e.ver) | set(env.ver):
                if e.ver.get(s, 0) != env.ver.get(s, 0):
                    out.add(s)
        return sorted(out)

    def join(self, env, items, ends, mk, node):
        """ends = [(env_end, items, term)] of the alternatives; emits one `do (slots) <- mk(texts)`"""
        for e, its, term in ends:
            if term is not None and term[0] != 'raise':
                raise Unsupported('%s: return inside a branch' % self.where(node))
        live = [x for x in ends if x[2] is None]
        if not live:
            raise Unsupported('%s: every alternative raises' % self.where(node))
        for oid in env.objs:
            if len({e.objs[oid]['mode'] for e, _, _ in live}) > 1:
                raise Unsupported('%s: object representation differs between the alternatives' % self.where(node))
        tup, undef = [], []
        for s in self.changed(env, [e for e, _, _ in live]):
            st = [e.slots.get(s) for e, _, _ in live]
            if all(x is not None and x == st[0] for x in st):
                if st[0][0] == 'def':
                    tup.append(s)
                env.slots[s] = st[0]
            else:
                undef.append(s)
            env.ver[s] = max([e.ver.get(s, 0) for e, _, _ in live] + [env.ver.get(s, 0)]) + 1
        for s in undef:
            env.slots.pop(s, None)
        self.ind += 2
        texts = []
        for e, its, term in ends:
            tail = ('Ok %s' % tuple_text(tup)) if term is None else ('Err %s' % term[1])
            texts.append('\n' + assemble(its, tail, self.ind))
        self.ind -= 2
        items.append(('do', pat_text(tup), mk(texts)))
        for oid in env.objs:
            env.objs[oid]['mode'] = live[0][0].objs[oid]['mode']
        # names bound to value slots in an alternative stay visible (their slots decide whether they are readable)
        for e, _, _ in live:
            for (fid, d), (_, d2) in zip(env.frames, e.frames):
                for k, b in d2.items():
                    if isinstance(b, tuple) and k not in d:
                        d[k] = b
                    elif k in d and not isinstance(b, tuple) and d[k] is not b and not (
                            type(d[k]) is type(b) and getattr(d[k], '__dict__', None) == getattr(b, '__dict__', None)):
                        raise Unsupported('%s: a name refers to different objects after the alternatives' % self.where(node))
        env.counter = max([env.counter] + [e.counter for e, _, _ in ends])

    def sub_block(self, blk, env):
        e = env.copy()
        its = []
        self.ind += 2
        term = self.block(blk, e, its)
        self.ind -= 2
        return e, its, term

    def block(self, stmts, env, items):
        term = None
        for s in stmts:
            if term is not None:
                raise Unsupported('%s: statement after raise/return' % self.where(s))
            term = self.stmt(s, env, items)
        return term

    def stmt(self, s, env, items):
        if isinstance(s, ast.Expr) and isinstance(s.value, ast.Constant) and isinstance(s.value.value, str):
            return None                                           # docstring
        if isinstance(s, ast.Pass):
            return None
        if isinstance(s, ast.If) and isinstance(s.test, ast.Name) and s.test.id == '_debug' and not s.orelse:
            return None                                           # debug logging
        if isinstance(s, ast.Expr) and isinstance(s.value, ast.Call):
            self.expr(s.value, env, items)
            return None
        if isinstance(s, ast.Assign):
            if len(s.targets) != 1:
                raise Unsupported('%s: multiple assignment' % self.where(s))
            self.assign(s.targets[0], self.expr(s.value, env, items), env, items, s)
            return None
        if isinstance(s, ast.AugAssign):
            cur = self.expr(s.target, env, items)
            val = self.expr(ast.BinOp(left=s.target, op=s.op, right=s.value, lineno=s.lineno), env, items)
            del cur
            self.assign(s.target, val, env, items, s)
            return None
        if isinstance(s, ast.Raise):
            exc = s.exc.func if isinstance(s.exc, ast.Call) else s.exc
            if s.cause is None and isinstance(exc, ast.Name) and exc.id in EXC:
                return ('raise', EXC[exc.id])
            raise Unsupported('%s: raise of an unknown exception' % self.where(s))
        if isinstance(s, ast.If):
            c = self.truth(self.expr(s.test, env, items), env, s)
            if isinstance(c, Static):
                return self.block(s.body if c.value else s.orelse, env, items)
            self.check_fresh(c, env, s)
            self.presplit(env, items, [s.body, s.orelse])
            ends = [self.sub_block(s.body, env), self.sub_block(s.orelse, env)]
            pad = '  ' * (self.ind + 1)
            self.join(env, items, ends,
                      lambda t: '(if %s then%s\n%selse%s)' % (c.text, t[0], pad, t[1]), s)
            return None
        if isinstance(s, ast.Try):
            if s.orelse or s.finalbody or not s.handlers:
                raise Unsupported('%s: try with else/finally' % self.where(s))
            arms = []
            for h in s.handlers:
                if not (isinstance(h.type, ast.Name) and h.type.id in EXC and h.name is None and len(h.body) == 1
                        and isinstance(h.body[0], ast.Raise)):
                    raise Unsupported('%s: except clause other than `except E: raise X(...)`' % self.where(h))
                t = self.stmt(h.body[0], env.copy(), [])
                arms.append('| Err %s => Err %s' % (EXC[h.type.id], t[1]))
            self.presplit(env, items, [s.body])
            ends = [self.sub_block(s.body, env)]
            pad = '  ' * (self.ind + 1)
            self.join(env, items, ends,
                      lambda t: '(match (%s)\n%swith %s | r => r end)' % (t[0], pad, ' '.join(arms)), s)
            return None
        if isinstance(s, ast.While):
            return self.stmt_while(s, env, items)
        if isinstance(s, ast.For):
            return self.stmt_for(s, env, items)
        raise Unsupported('%s: statement %s' % (self.where(s), type(s).__name__))

    def loop_state(self, env, body, node, prepare=None):
        """slots carried round the loop: changed by the body and defined before it"""
        dry = env.copy()
        if prepare:
            prepare(dry)
        term = self.block(body, dry, [])
        if term is not None:
            raise Unsupported('%s: loop body always raises/returns' % self.where(node))
        state = []
        for s in self.changed(env, [dry]):
            before = env.slots.get(s)
            if before is None:
                continue                       # local to one iteration (reading it first aborts below)
            if before[0] != 'def' or dry.slots.get(s) != before:
                raise Unsupported('%s: loop changes the kind of %s' % (self.where(node), s))
            state.append(s)
        for oid, o in env.objs.items():
            if dry.objs[oid]['mode'] != o['mode']:
                raise Unsupported('%s: loop changes an object representation' % self.where(node))
        return state

    def finish_loop(self, env, e2, state, node):
        for s in self.changed(env, [e2]):
            if s in state:
                env.ver[s] = e2.ver[s] + 1
            else:
                env.slots.pop(s, None)
                env.ver[s] = e2.ver.get(s, 0) + 1
        env.counter = max(env.counter, e2.counter)

    def stmt_while(self, s, env, items):
        if s.orelse:
            raise Unsupported('%s: while/else' % self.where(s))
        t = s.test
        if not (isinstance(t, ast.Attribute) and t.attr == 'pduData' and isinstance(t.value, ast.Name)):
            raise Unsupported('%s: while condition other than `<buffer>.pduData`' % self.where(s))
        ref = self.lookup(env, t.value.id, t)
        if not isinstance(ref, PduRef):
            raise Unsupported('%s: while condition other than `<buffer>.pduData`' % self.where(s))
        self.presplit(env, items, [s.body])
        fuel = '(length %s)' % self.read_slot(env, ref.slot, s).text
        state = self.loop_state(env, s.body, s)
        if ref.slot not in state:
            raise Unsupported('%s: the loop body never consumes from the buffer it tests' % self.where(s))
        ce = env.copy()
        cits = []
        cond = self.truth(self.expr(t, ce, cits), ce, s)
        if cits or not isinstance(cond, V):
            raise Unsupported('%s: loop condition' % self.where(s))
        e2, its, term = self.sub_block(s.body, env)
        binder = ("fun '%s" if len(state) > 1 else 'fun %s') % tuple_text(state)
        body = '\n' + assemble(its, 'Ok %s' % tuple_text(state), self.ind + 2)
        items.append(('do', pat_text(state), 'while_fuel %s (%s => %s)\n%s(%s =>%s) %s'
                      % (fuel, binder, cond.text, '  ' * (self.ind + 1), binder, body, tuple_text(state))))
        self.finish_loop(env, e2, state, s)
        return None

    def stmt_for(self, s, env, items):
        if s.orelse or not isinstance(s.target, ast.Name):
            raise Unsupported('%s: for loop shape' % self.where(s))
        it = self.expr(s.iter, env, items)
        if not (isinstance(it, V) and isinstance(it.ty, tuple) and it.ty[0] == 'list'):
            raise Unsupported('%s: for loop over something that is not a list field' % self.where(s))
        self.check_fresh(it, env, s)
        var = self.local_slot(env, s.target.id)

        def prepare(e):
            oid = e.new_obj(it.ty[1], var, 'whole')
            e.slots[var] = ('def', ('obj', it.ty[1]))
            e.bump(var)
            e.frames[-1][1][s.target.id] = ObjRef(oid)
        self.presplit(env, items, [s.body], prepare)
        it = self.expr(s.iter, env, [])
        base = env.copy()
        prepare(base)
        state = self.loop_state(base, s.body, s)
        for sl in state:
            if sl in it.deps or sl == var or sl.startswith(var + '_'):
                raise Unsupported('%s: the loop changes the list it iterates over or its loop variable' % self.where(s))
        e2, its, term = self.sub_block(s.body, base)
        bp = ("'%s" if len(state) > 1 else '%s') % pat_text(state)
        body = '\n' + assemble(its, 'Ok %s' % tuple_text(state), self.ind + 2)
        items.append(('do', pat_text(state), 'for_each (fun %s %s =>%s)\n%s%s %s'
                      % (var, bp, body, '  ' * (self.ind + 1), it.text, tuple_text(state))))
        # the loop variable does not survive in the model (its last value is not used by the accepted subset)
        for k in [k for k in e2.ver if k == var or k.startswith(var + '_')]:
            e2.ver.pop(k, None)
        self.finish_loop(env, e2, state, s)
        env.slots.pop(var, None)
        return None

    # ------------------------------------------------------------------ methods
    def emit(self, cname, mname, sig):
        fn = self.method_def(cname, mname)
        a = fn.args
        if a.vararg or a.kwarg or a.kwonlyargs or a.defaults or a.posonlyargs:
            raise Unsupported('%s.%s: argument shape' % (cname, mname))
        names = [x.arg for x in a.args]
        if names[1:] != [p for p, _ in sig['params']] or not names:
            raise Unsupported('%s.%s: parameters %r differ from the declared %r' % (cname, mname, names[1:], [p for p, _ in sig['params']]))
        env = Env()
        frame = env.frames[-1][1]
        params = []
        if sig['self'] in ('in', 'inout'):
            oid = env.new_obj(cname, 'self', 'whole')
            env.slots['self'] = ('def', ('obj', cname))
            params.append('(self : %s)' % coq_ty(('obj', cname)))
        else:
            oid = env.new_obj(cname, 'self', 'split')
        frame[names[0]] = ObjRef(oid)
        pslots = {}
        for pname, pty in sig['params']:
            slot = 'v_' + pname
            env.slots[slot] = ('def', 'pdu')
            frame[pname] = PduRef(slot)
            pslots[pname] = slot
            params.append('(%s : %s)' % (slot, coq_ty(pty)))
        start = env.copy()
        items = []
        self.ind = 1
        term = self.block(fn.body, env, items)
        if term is not None and term[0] != 'raise':
            raise Unsupported('%s.%s: return value' % (cname, mname))
        rets, rtys = [], []
        for r in sig['returns']:
            if r == 'self':
                if term is None:
                    rets.append(self.whole(env, oid, fn).text)
                rtys.append(coq_ty(('obj', cname)))
            else:
                rets.append(pslots[r])
                rtys.append(coq_ty('pdu'))
        changed = self.changed(start, [env])
        if 'self' not in sig['returns'] and any(s == 'self' or s.startswith('self_') for s in changed):
            raise Unsupported('%s.%s changes self but is declared read-only' % (cname, mname))
        for pname, slot in pslots.items():
            if pname not in sig['returns'] and slot in changed:
                raise Unsupported('%s.%s changes %s but does not return it' % (cname, mname, pname))
        tail = ('Ok %s' % tuple_text(rets)) if term is None else 'Err %s' % term[1]
        body = assemble(items, tail, 1)
        self.emitted[(cname, mname)] = sig
        return ('(* %s.%s (%s:%d-%d) *)\nDefinition %s %s : res (%s) :=\n%s.\n'
                % (cname, mname, SRC_REL, fn.lineno, fn.end_lineno, sig['gen'], ' '.join(params), ' * '.join(rtys), body))


def check_no_override(tree):
    """the translated methods are the ones every Tag / TagList object runs: no subclass in the module may define
    a method of the same name, and nothing may assign to Class.method outside the class body"""
    names = {}
    for cname, mname, _ in METHODS:
        names.setdefault(cname, set()).add(mname)
    classes = {n.name: n for n in tree.body if isinstance(n, ast.ClassDef)}

    def derives(c, root, seen=()):
        for b in c.bases:
            if isinstance(b, ast.Name):
                if b.id == root:
                    return True
                if b.id in classes and b.id not in seen and derives(classes[b.id], root, seen + (b.id,)):
                    return True
        return False
    for root, ms in names.items():
        for c in classes.values():
            if c.name != root and derives(c, root):
                for n in c.body:
                    if isinstance(n, (ast.FunctionDef, ast.Assign)) and (
                            (isinstance(n, ast.FunctionDef) and n.name in ms) or
                            (isinstance(n, ast.Assign) and any(isinstance(t, ast.Name) and t.id in ms for t in n.targets))):
                        raise Unsupported('line %d: subclass %s of %s overrides a translated method' % (n.lineno, c.name, root))
    for n in ast.walk(tree):
        targets = n.targets if isinstance(n, ast.Assign) else [n.target] if isinstance(n, (ast.AugAssign, ast.AnnAssign)) else []
        for t in targets:
            if (isinstance(t, ast.Attribute) and isinstance(t.value, ast.Name) and t.value.id in names
                    and (t.attr in names[t.value.id] or t.attr == '__init__')):
                raise Unsupported('line %d: assignment to %s.%s replaces a translated method' % (n.lineno, t.value.id, t.attr))


def gen_tagfns():
    path = os.path.join(REPO, SRC_REL)
    tree = ast.parse(open(path).read())
    check_no_override(tree)
    tr = Translator(tree)
    out = ['(* GENERATED by translator/gen_tagfns.py from %s — do not edit *)' % SRC_REL,
           'From Bac Require Import Base Tag PyLoops.', 'Open Scope N_scope.', '']
    for cname, mname, sig in METHODS:
        try:
            out.append(tr.emit(cname, mname, sig))
        except Unsupported as e:
            raise Unsupported('%s: %s.%s: %s' % (SRC_REL, cname, mname, e))
    return '\n'.join(out)


TARGETS = {'TagFns.v': gen_tagfns}
