"""Fail-closed translator of a small subset of straight-line Python functions into Gallina.

Accepted subset (anything else raises Unsupported, which the caller treats as a broken tie):
  def f(params): docstring; statements
  statements: tuple-unpacking assignment from a parameter of declared tuple type,
              `x = expr`, `if/elif/else`, `return expr`, `raise Name(...)`, `pass`,
              `for i in range(a, b, step)` with literal bounds (unrolled),
              `xs = [c for c in p]` for a parameter declared as a triple (identity copy)
  expressions: int literals, names, + - * % //, comparisons (== != < <= > >=) between ints,
              between an int and a table element (None-aware: ordering against None is TypeError),
              lexicographic comparison of 3-tuples, `not x`, and/or,
              True/False, T[i] on a module-level literal list, p[:3] on a 4-tuple parameter,
              p.attr[:3] on a declared record parameter,
              calendar.monthrange(y, m)[1]  (mapped to the model's Calendar.last_day)

Every generated function returns `res T`; exceptions are Err constructors.
Types: Z (int), B (bool), OZ (option Z, element of a table containing None),
       T3 (Z*Z*Z), D4 (Z*Z*Z*Z), W3 (Z*Z*Z octet triple), DR (startDate D4, endDate D4).
"""
import ast


class Unsupported(Exception):
    pass


EXC = {'ValueError': 'ValueErr', 'TypeError': 'TypeErr', 'IndexError': 'IndexErr',
       'RuntimeError': 'RuntimeErr', 'KeyError': 'KeyErr'}

COQ_TY = {'Z': 'Z', 'B': 'bool', 'OZ': '(option Z)', 'T3': '(Z * Z * Z)',
          'D4': '(Z * Z * Z * Z)', 'W3': '(Z * Z * Z)', 'DR': '((Z * Z * Z * Z) * (Z * Z * Z * Z))'}


def zlit(n):
    return '(%d)%%Z' % n if n < 0 else '%d%%Z' % n


class Fn:
    def __init__(self, module_tables, name, node, sig):
        self.tables = module_tables      # name -> list of int|None
        self.name = name
        self.node = node
        self.sig = sig                   # {'params': {p: ty}, 'ret': ty}
        self.env = {}                    # python var -> (coq text, type)
        self.fresh = 0

    def gensym(self, base='v'):
        self.fresh += 1
        return '%s_%d' % (base, self.fresh)

    # ---- expressions: return (binds, text, type); binds = [(var, monadic text)]
    def expr(self, e, subst):
        if isinstance(e, ast.Constant):
            if isinstance(e.value, bool):
                return [], ('true' if e.value else 'false'), 'B'
            if isinstance(e.value, int):
                return [], zlit(e.value), 'Z'
            raise Unsupported('constant %r' % (e.value,))
        if isinstance(e, ast.Name):
            if e.id in subst:
                return [], zlit(subst[e.id]), 'Z'
            if e.id in self.env:
                t, ty = self.env[e.id]
                return [], t, ty
            raise Unsupported('unknown name %s' % e.id)
        if isinstance(e, ast.UnaryOp) and isinstance(e.op, ast.USub):
            b, t, ty = self.expr(e.operand, subst)
            self.want(ty, 'Z')
            return b, '(- %s)%%Z' % t, 'Z'
        if isinstance(e, ast.UnaryOp) and isinstance(e.op, ast.Not):
            b, t, ty = self.expr(e.operand, subst)
            return b, '(negb %s)' % self.truth(t, ty), 'B'
        if isinstance(e, ast.BinOp):
            ops = {ast.Add: '+', ast.Sub: '-', ast.Mult: '*', ast.Mod: 'mod', ast.FloorDiv: '/'}
            if type(e.op) not in ops:
                raise Unsupported('binop %s' % type(e.op).__name__)
            b1, t1, y1 = self.expr(e.left, subst)
            b2, t2, y2 = self.expr(e.right, subst)
            self.want(y1, 'Z'); self.want(y2, 'Z')
            # Python % and // are floored, like Coq's Z.modulo / Z.div
            return b1 + b2, '(%s %s %s)%%Z' % (t1, ops[type(e.op)], t2), 'Z'
        if isinstance(e, ast.BoolOp):
            parts = [self.expr(v, subst) for v in e.values]
            binds = [x for p in parts for x in p[0]]
            if binds:
                raise Unsupported('failing operand inside and/or (short-circuit not modelled)')
            op = ' && ' if isinstance(e.op, ast.And) else ' || '
            return [], '(' + op.join(self.truth(p[1], p[2]) for p in parts) + ')', 'B'
        if isinstance(e, ast.Compare):
            if len(e.ops) != 1:
                raise Unsupported('chained comparison')
            b1, t1, y1 = self.expr(e.left, subst)
            b2, t2, y2 = self.expr(e.comparators[0], subst)
            return self.compare(e.ops[0], b1 + b2, t1, y1, t2, y2)
        if isinstance(e, ast.Subscript):
            return self.subscript(e, subst)
        raise Unsupported('expression %s' % type(e).__name__)

    def want(self, ty, expected):
        if ty != expected:
            raise Unsupported('type %s where %s expected' % (ty, expected))

    def truth(self, t, ty):
        if ty == 'B':
            return t
        if ty == 'Z':
            return '(negb (%s =? 0)%%Z)' % t
        if ty == 'OZ':
            return '(oz_truth %s)' % t
        raise Unsupported('truth value of %s' % ty)

    def compare(self, op, binds, t1, y1, t2, y2):
        zops = {ast.Eq: '=?', ast.NotEq: None, ast.Lt: '<?', ast.LtE: '<=?', ast.Gt: '>?', ast.GtE: '>=?'}
        if type(op) not in zops:
            raise Unsupported('comparison %s' % type(op).__name__)
        if y1 == 'Z' and y2 == 'Z':
            if isinstance(op, ast.NotEq):
                return binds, '(negb (%s =? %s)%%Z)' % (t1, t2), 'B'
            return binds, '(%s %s %s)%%Z' % (t1, zops[type(op)], t2), 'B'
        if {y1, y2} == {'OZ', 'Z'}:
            names = {ast.Eq: 'eq', ast.NotEq: 'ne', ast.Lt: 'lt', ast.LtE: 'le', ast.Gt: 'gt', ast.GtE: 'ge'}
            fn = 'oz_cmp_%s_%s' % (names[type(op)], 'l' if y1 == 'OZ' else 'r')
            v = self.gensym('c')
            return binds + [(v, '%s %s %s' % (fn, t1, t2))], v, 'B'
        if y1 == 'T3' and y2 == 'T3':
            names = {ast.Eq: 'eq', ast.NotEq: 'ne', ast.Lt: 'lt', ast.LtE: 'le', ast.Gt: 'gt', ast.GtE: 'ge'}
            return binds, '(t3_%s %s %s)' % (names[type(op)], t1, t2), 'B'
        raise Unsupported('comparison between %s and %s' % (y1, y2))

    def subscript(self, e, subst):
        # calendar.monthrange(y, m)[1]
        v = e.value
        if (isinstance(v, ast.Call) and isinstance(v.func, ast.Attribute)
                and isinstance(v.func.value, ast.Name) and v.func.value.id == 'calendar'
                and v.func.attr == 'monthrange' and len(v.args) == 2 and not v.keywords
                and isinstance(e.slice, ast.Constant) and e.slice.value == 1):
            b1, t1, y1 = self.expr(v.args[0], subst)
            b2, t2, y2 = self.expr(v.args[1], subst)
            self.want(y1, 'Z'); self.want(y2, 'Z')
            r = self.gensym('ld')
            return b1 + b2 + [(r, 'monthrange_last %s %s' % (t1, t2))], r, 'Z'
        # x[:3]
        if isinstance(e.slice, ast.Slice):
            s = e.slice
            if not (s.lower is None and s.step is None and isinstance(s.upper, ast.Constant) and s.upper.value == 3):
                raise Unsupported('slice other than [:3]')
            if isinstance(v, ast.Name) and v.id in self.env and self.env[v.id][1] == 'D4':
                return [], '(d4_first3 %s)' % self.env[v.id][0], 'T3'
            if (isinstance(v, ast.Attribute) and isinstance(v.value, ast.Name)
                    and v.value.id in self.env and self.env[v.value.id][1] == 'DR'
                    and v.attr in ('startDate', 'endDate')):
                proj = 'fst' if v.attr == 'startDate' else 'snd'
                return [], '(d4_first3 (%s %s))' % (proj, self.env[v.value.id][0]), 'T3'
            raise Unsupported('slice of unsupported value')
        # TABLE[i]
        if isinstance(v, ast.Name) and v.id in self.tables:
            b, t, y = self.expr(e.slice, subst)
            self.want(y, 'Z')
            tbl = self.tables[v.id]
            r = self.gensym('e')
            if any(x is None for x in tbl):
                return b + [(r, 'tbl_get_o %s %s' % (v.id, t))], r, 'OZ'
            return b + [(r, 'tbl_get_z %s %s' % (v.id, t))], r, 'Z'
        raise Unsupported('subscript')

    # ---- statements -> Gallina expression of type res RET, with continuation text k
    def wrap(self, binds, body):
        for v, m in reversed(binds):
            body = '(do %s <- %s; %s)' % (v, m, body)
        return body

    def ret(self, e, subst):
        b, t, y = self.expr(e, subst)
        rt = self.sig['ret']
        if y != rt:
            raise Unsupported('return type %s, declared %s' % (y, rt))
        return self.wrap(b, 'Ok %s' % t)

    def block(self, stmts, k, subst):
        """translate stmts followed by continuation k (text or None = falls off the end)"""
        if not stmts:
            if k is None:
                raise Unsupported('function can fall off its end (returns None)')
            return k
        s, rest = stmts[0], stmts[1:]
        if isinstance(s, ast.Expr) and isinstance(s.value, ast.Constant) and isinstance(s.value.value, str):
            return self.block(rest, k, subst)
        if isinstance(s, ast.Pass):
            return self.block(rest, k, subst)
        if isinstance(s, ast.Return):
            if s.value is None:
                raise Unsupported('bare return')
            return self.ret(s.value, subst)
        if isinstance(s, ast.Raise):
            exc = s.exc
            if isinstance(exc, ast.Call):
                exc = exc.func
            if isinstance(exc, ast.Name) and exc.id in EXC:
                return 'Err %s' % EXC[exc.id]
            raise Unsupported('raise of unknown exception')
        if isinstance(s, ast.If):
            b, t, y = self.expr(s.test, subst)
            cond = self.truth(t, y)
            saved = dict(self.env)
            if rest or k is not None:
                kn = self.gensym('k')
                kt = self.block(rest, k, subst)
                self.env = dict(saved)
                a = self.block(s.body, kn, subst)
                self.env = dict(saved)
                o = self.block(s.orelse, kn, subst)
                self.env = saved
                return self.wrap(b, '(let %s := %s in if %s then %s else %s)' % (kn, kt, cond, a, o))
            a = self.block(s.body, None, subst)
            self.env = dict(saved)
            o = self.block(s.orelse, None, subst)
            self.env = saved
            return self.wrap(b, '(if %s then %s else %s)' % (cond, a, o))
        if isinstance(s, ast.For):
            it = s.iter
            if not (isinstance(s.target, ast.Name) and isinstance(it, ast.Call) and isinstance(it.func, ast.Name)
                    and it.func.id == 'range' and not it.keywords and not s.orelse):
                raise Unsupported('for loop shape')
            args = []
            for a in it.args:
                try:
                    args.append(ast.literal_eval(a))
                except Exception:
                    raise Unsupported('non-literal range bound')
            if not all(isinstance(a, int) for a in args) or len(range(*args)) > 64:
                raise Unsupported('range bounds')
            # unroll: body_i0 ; body_i1 ; ... ; rest
            def unroll(vals):
                if not vals:
                    return self.block(rest, k, subst)
                sub = dict(subst); sub[s.target.id] = vals[0]
                kn = self.gensym('k')
                kt = unroll(vals[1:])
                return '(let %s := %s in %s)' % (kn, kt, self.block(s.body, kn, sub))
            return unroll(list(range(*args)))
        if isinstance(s, ast.Assign) and len(s.targets) == 1:
            tgt = s.targets[0]
            if isinstance(tgt, ast.Tuple):
                names = [n.id for n in tgt.elts if isinstance(n, ast.Name)]
                if len(names) != len(tgt.elts) or not isinstance(s.value, ast.Name) or s.value.id not in self.env:
                    raise Unsupported('tuple assignment shape')
                src, ty = self.env[s.value.id]
                arity = {'D4': 4, 'W3': 3, 'T3': 3}.get(ty)
                if arity != len(names):
                    raise Unsupported('unpacking %d names from %s' % (len(names), ty))
                for n in names:
                    self.env[n] = ('py_' + n, 'Z')
                pat = "'(" + ', '.join('py_' + n for n in names) + ')'
                return '(let %s := %s in %s)' % (pat, src, self.block(rest, k, subst))
            if isinstance(tgt, ast.Name):
                # xs = [c for c in p]  (identity copy of an octet triple)
                v = s.value
                if (isinstance(v, ast.ListComp) and len(v.generators) == 1 and isinstance(v.elt, ast.Name)
                        and isinstance(v.generators[0].target, ast.Name)
                        and v.elt.id == v.generators[0].target.id and not v.generators[0].ifs
                        and isinstance(v.generators[0].iter, ast.Name)
                        and self.env.get(v.generators[0].iter.id, (None, None))[1] == 'W3'):
                    self.env[tgt.id] = self.env[v.generators[0].iter.id]
                    return self.block(rest, k, subst)
                b, t, y = self.expr(v, subst)
                nm = 'py_' + tgt.id
                self.env[tgt.id] = (nm, y)
                return self.wrap(b, '(let %s := %s in %s)' % (nm, t, self.block(rest, k, subst)))
        raise Unsupported('statement %s' % type(s).__name__)

    def emit(self):
        a = self.node.args
        if a.vararg or a.kwarg or a.kwonlyargs or a.defaults or a.posonlyargs:
            raise Unsupported('argument shape')
        params = [x.arg for x in a.args]
        if set(params) != set(self.sig['params']):
            raise Unsupported('parameters %r differ from declared %r' % (params, list(self.sig['params'])))
        for p in params:
            self.env[p] = ('py_' + p, self.sig['params'][p])
        body = self.block(self.node.body, None, {})
        ps = ' '.join('(py_%s : %s)' % (p, COQ_TY[self.sig['params'][p]]) for p in params)
        return 'Definition %s %s : res %s :=\n  %s.\n' % (self.name, ps, COQ_TY[self.sig['ret']], body)


def translate_module(path, wanted_tables, wanted_fns):
    """wanted_fns: {fname: sig}; returns Gallina text (tables then functions, in source order)"""
    src = open(path).read()
    tree = ast.parse(src)
    tables, out, seen = {}, [], set()
    for node in tree.body:
        if isinstance(node, ast.Assign) and len(node.targets) == 1 and isinstance(node.targets[0], ast.Name) \
                and node.targets[0].id in wanted_tables:
            try:
                val = ast.literal_eval(node.value)
            except Exception:
                raise Unsupported('table %s is not a literal' % node.targets[0].id)
            if not (isinstance(val, list) and all(v is None or (isinstance(v, int) and not isinstance(v, bool)) for v in val)):
                raise Unsupported('table %s has unsupported entries' % node.targets[0].id)
            name = node.targets[0].id
            tables[name] = val
            if any(v is None for v in val):
                items = '; '.join('None' if v is None else 'Some %s' % zlit(v) for v in val)
                out.append('Definition %s : list (option Z) := [%s].\n' % (name, items))
            else:
                out.append('Definition %s : list Z := [%s].\n' % (name, '; '.join(zlit(v) for v in val)))
        elif isinstance(node, ast.FunctionDef) and node.name in wanted_fns:
            if node.decorator_list:
                raise Unsupported('decorated function %s' % node.name)
            try:
                out.append(Fn(tables, node.name, node, wanted_fns[node.name]).emit())
            except Unsupported as e:
                raise Unsupported('%s:%s: %s' % (path, node.name, e))
            seen.add(node.name)
    missing = set(wanted_fns) - seen
    if missing or set(wanted_tables) - set(tables):
        raise Unsupported('%s: not found: %s' % (path, sorted(missing | (set(wanted_tables) - set(tables)))))
    return '\n'.join(out)
