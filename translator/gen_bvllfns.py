"""Translator plug-in for C09: the encode/decode METHOD BODIES of py34/bacpypes/bvll.py -> Gallina.

Output: coq/gen/BvllFns.v (module BacGen.BvllFns), regenerated on every run.  For BVLCI.update /
encode / decode, BVLPDU.encode / decode and encode / decode of the twelve message classes the
Python `ast` of the method body is translated statement by statement, expression by expression,
into the vocabulary of coq/theories/BvllRt.v (one `pyobj` record per Python object, the `res`
monad, the octet readers/writers of Base.v, the entry records of the hand model Bvll.v).
coq/theories/BvllGenFacts.v then proves, for all inputs, that the generated functions equal the
hand model — so an edit of a method changes the generated term and the proofs are re-checked
against what the code says now.

Nothing is matched against expected text.  Accepted subset (anything else raises
pyfn.Unsupported -> TRANSLATION-ABORT -> the generated file does not compile -> check fails closed):

  method      def m(self, other): no decorators, defaults, *args
  skipped     docstrings; `if _debug: ...` (test is exactly the name _debug); `pass`;
              SKIP_CALLS: PCI.update(a, b)  — copies pduUserData / pduSource / pduDestination
              (addressing and user data, not in the model)
  statements  X.put(e) X.put_short(e) X.put_long(e) X.put_data(e)          append to X.pduData
              v = e / X.attr = e / v.attr = e / X.attr += e                 let / record update
              X.attr.append(e)                                              list attribute grows at the end
              Class.method(a, b) for an already translated method           both objects threaded through
              if / elif / else, raise Exc(...), for v in X.attr: ..., while X.pduData: ...
  expressions int literals, None, [], names, X.attr, v.attr, Class.CONST (class-level int constants
              of the same file), len(e), X.get() X.get_short() X.get_long() X.get_data(e),
              Address(unpack_ip_addr(e)), FDTEntry(), + * & | << >>, == != < <= > >=,
              is None / is not None, not, and / or (operands that cannot raise)

Types are inferred from the attribute table ATTR below (which is the typed reading of the
attributes documented in BvllRt.v); a type mismatch aborts.  Subtraction is refused on naturals
(truncation would be unfaithful)."""
import ast, os
import pyfn
from pyfn import Unsupported

REPO = os.environ.get('VERIF_REPO', '/repo')
SRC = os.path.join(REPO, 'py34', 'bacpypes', 'bvll.py')

MESSAGE_CLASSES = ['Result', 'WriteBroadcastDistributionTable', 'ReadBroadcastDistributionTable',
                   'ReadBroadcastDistributionTableAck', 'ForwardedNPDU', 'RegisterForeignDevice',
                   'ReadForeignDeviceTable', 'ReadForeignDeviceTableAck', 'DeleteForeignDeviceTableEntry',
                   'DistributeBroadcastToNetwork', 'OriginalUnicastNPDU', 'OriginalBroadcastNPDU']
# (class, methods) translated, in the order they must appear in the source (callee before caller)
WANTED = [('BVLCI', ['update', 'encode', 'decode']), ('BVLPDU', ['encode', 'decode'])] + \
         [(c, ['encode', 'decode']) for c in MESSAGE_CLASSES]

# calls that are skipped: they copy addressing / user data that the model does not contain
SKIP_CALLS = {('PCI', 'update')}

EXC = {'EncodingError': 'EncodingError', 'DecodingError': 'DecodingError', 'ValueError': 'ValueErr',
       'TypeError': 'TypeErr', 'KeyError': 'KeyErr', 'IndexError': 'IndexErr', 'AttributeError': 'AttrErr',
       'RuntimeError': 'RuntimeErr'}

# attribute types: obj = a pyobj (BvllRt.v); A = an Address object (Coq bdte: address + addrMask);
# addr = a reference to an Address or None (Coq addr); F = an FDTEntry (Coq fdte)
ATTR = {
    'obj': {'bvlciType': 'N', 'bvlciFunction': 'N', 'bvlciLength': 'N', 'pduData': 'bytes',
            'bvlciResultCode': 'OZ', 'bvlciBDT': 'list A', 'bvlciAddress': 'addr',
            'bvlciTimeToLive': 'OZ', 'bvlciFDT': 'list F'},
    'F': {'fdAddress': 'addr', 'fdTTL': 'OZ', 'fdRemain': 'OZ'},
}
PROJ = {('F', 'fdAddress'): 'f_addr', ('F', 'fdTTL'): 'f_ttl', ('F', 'fdRemain'): 'f_rem'}
# attribute reads that can raise: (type, attr) -> (primitive, result type)
RAISING_ATTR = {('A', 'addrAddr'): ('py_addrAddr_bdte', 'obytes'), ('addr', 'addrAddr'): ('py_addrAddr_addr', 'obytes'),
                ('A', 'addrMask'): ('py_addrMask_bdte', 'Z')}
# assignable attributes of local record values: (type, attr) -> (setter, field type)
SETTER = {('A', 'addrMask'): ('set_addrMask', 'OZ'), ('F', 'fdAddress'): ('set_fdAddress', 'addr'),
          ('F', 'fdTTL'): ('set_fdTTL', 'OZ'), ('F', 'fdRemain'): ('set_fdRemain', 'OZ')}
COQ_TY = {'N': 'N', 'Z': 'Z', 'OZ': '(option Z)', 'bytes': '(list N)', 'obytes': '(option (list N))',
          'A': 'bdte', 'F': 'fdte', 'addr': 'addr', 'list A': '(list bdte)', 'list F': '(list fdte)', 'B': 'bool',
          'obj': 'pyobj'}
PUT = {('put', 'N'): 'py_put_N',
       ('put_short', 'N'): 'py_put_short_N', ('put_short', 'Z'): 'py_put_short_Z', ('put_short', 'OZ'): 'py_put_short_OZ',
       ('put_long', 'N'): 'py_put_long_N', ('put_long', 'Z'): 'py_put_long_Z', ('put_long', 'OZ'): 'py_put_long_OZ',
       ('put_data', 'bytes'): 'py_put_data_bytes', ('put_data', 'obytes'): 'py_put_data_obytes'}
GET = {'get': ('py_get', 0, 'N'), 'get_short': ('py_get_short', 0, 'N'), 'get_long': ('py_get_long', 0, 'N'),
       'get_data': ('py_get_data', 1, 'bytes')}


def nlit(n):
    return '%d' % n


class Method:
    def __init__(self, tr, cls, name, node):
        self.tr, self.cls, self.name, self.node = tr, cls, name, node
        self.fresh = 0
        self.state = []          # python names of the two objects, in parameter order

    def gensym(self):
        self.fresh += 1
        return 'v_%d' % self.fresh

    def where(self, node):
        return '%s.%s line %d' % (self.cls, self.name, getattr(node, 'lineno', 0))

    def bad(self, node, msg):
        raise Unsupported('%s: %s' % (self.where(node), msg))

    def st(self):
        return '(%s, %s)' % tuple('o_' + n for n in self.state)

    # ------------------------------------------------------------------ coercions
    def coerce(self, node, t, ty, want):
        if ty == want:
            return t
        if ty == 'N' and want == 'Z':
            return '(Z.of_N %s)' % t
        if ty == 'N' and want == 'OZ':
            return '(Some (Z.of_N %s))' % t
        if ty == 'Z' and want == 'OZ':
            return '(Some %s)' % t
        if ty == 'A' and want == 'addr':
            return '(b_addr %s)' % t
        if ty == 'None' and want == 'OZ':
            return 'None'
        if ty == 'None' and want == 'addr':
            return 'ANone'
        if ty == 'nil' and want in ('list A', 'list F', 'bytes'):
            return '[]'
        self.bad(node, 'value of type %s where %s is expected' % (ty, want))

    # ------------------------------------------------------------------ expressions
    # returns (binds, text, type); binds = [(pattern, monadic text)] in evaluation order
    def expr(self, e, env):
        if isinstance(e, ast.Constant):
            if e.value is None:
                return [], 'None', 'None'
            if isinstance(e.value, bool):
                return [], ('true' if e.value else 'false'), 'B'
            if isinstance(e.value, int):
                if e.value < 0:
                    return [], '(%d)%%Z' % e.value, 'Z'
                return [], nlit(e.value), 'N'
            self.bad(e, 'constant %r' % (e.value,))
        if isinstance(e, ast.List) and not e.elts:
            return [], '[]', 'nil'
        if isinstance(e, ast.Name):
            if e.id in env:
                return [], env[e.id][0], env[e.id][1]
            self.bad(e, 'unknown name %s' % e.id)
        if isinstance(e, ast.Attribute):
            # Class.CONST
            if isinstance(e.value, ast.Name) and e.value.id not in env and (e.value.id, e.attr) in self.tr.consts:
                return [], '%s_%s' % (e.value.id, e.attr), 'N'
            b, t, ty = self.expr(e.value, env)
            if ty in ATTR and e.attr in ATTR[ty]:
                proj = PROJ.get((ty, e.attr), e.attr)
                return b, '(%s %s)' % (proj, t), ATTR[ty][e.attr]
            if (ty, e.attr) in RAISING_ATTR:
                prim, rty = RAISING_ATTR[(ty, e.attr)]
                v = self.gensym()
                return b + [(v, '%s %s' % (prim, t))], v, rty
            self.bad(e, 'attribute %s of a value of type %s' % (e.attr, ty))
        if isinstance(e, ast.Call):
            return self.call_expr(e, env)
        if isinstance(e, ast.BinOp):
            ops = {ast.Add: ('N.add', 'Z.add'), ast.Mult: ('N.mul', 'Z.mul'), ast.BitAnd: ('N.land', 'Z.land'),
                   ast.BitOr: ('N.lor', 'Z.lor'), ast.LShift: ('N.shiftl', 'Z.shiftl'), ast.RShift: ('N.shiftr', 'Z.shiftr')}
            if type(e.op) not in ops:
                self.bad(e, 'operator %s' % type(e.op).__name__)
            b1, t1, y1 = self.expr(e.left, env)
            b2, t2, y2 = self.expr(e.right, env)
            if y1 == 'N' and y2 == 'N':
                sym = {ast.Add: '+', ast.Mult: '*'}.get(type(e.op))
                if sym:
                    return b1 + b2, '(%s %s %s)' % (t1, sym, t2), 'N'
                return b1 + b2, '(%s %s %s)' % (ops[type(e.op)][0], t1, t2), 'N'
            if {y1, y2} <= {'N', 'Z'}:
                return b1 + b2, '(%s %s %s)' % (ops[type(e.op)][1], self.coerce(e, t1, y1, 'Z'), self.coerce(e, t2, y2, 'Z')), 'Z'
            self.bad(e, 'arithmetic on %s and %s' % (y1, y2))
        if isinstance(e, ast.UnaryOp) and isinstance(e.op, ast.Not):
            b, t, ty = self.expr(e.operand, env)
            return b, '(negb %s)' % self.truth(e, t, ty), 'B'
        if isinstance(e, ast.BoolOp):
            parts = [self.expr(v, env) for v in e.values]
            if any(p[0] for p in parts):
                self.bad(e, 'operand of and/or that can raise or consume (short-circuit not modelled)')
            op = ' && ' if isinstance(e.op, ast.And) else ' || '
            return [], '(' + op.join(self.truth(e, p[1], p[2]) for p in parts) + ')', 'B'
        if isinstance(e, ast.Compare):
            if len(e.ops) != 1:
                self.bad(e, 'chained comparison')
            b1, t1, y1 = self.expr(e.left, env)
            b2, t2, y2 = self.expr(e.comparators[0], env)
            return self.compare(e, e.ops[0], b1 + b2, t1, y1, t2, y2)
        self.bad(e, 'expression %s' % type(e).__name__)

    def compare(self, node, op, binds, t1, y1, t2, y2):
        if isinstance(op, (ast.Is, ast.IsNot, ast.Eq, ast.NotEq)) and 'None' in (y1, y2) and y1 != y2:
            t, y = (t1, y1) if y2 == 'None' else (t2, y2)
            if y in ('OZ', 'obytes'):
                r = '(py_is_none %s)' % t
            elif y == 'addr':
                r = '(py_addr_is_none %s)' % t
            else:
                self.bad(node, 'None test on a value of type %s' % y)
            return binds, ('(negb %s)' % r if isinstance(op, (ast.IsNot, ast.NotEq)) else r), 'B'
        nops = {ast.Eq: '=?', ast.Lt: '<?', ast.LtE: '<=?'}
        if {y1, y2} <= {'N', 'Z'}:
            if y1 == 'N' and y2 == 'N':
                sc = ''
            else:
                t1, t2, sc = self.coerce(node, t1, y1, 'Z'), self.coerce(node, t2, y2, 'Z'), '%Z'
            if isinstance(op, ast.NotEq):
                return binds, '(negb (%s =? %s)%s)' % (t1, t2, sc), 'B'
            if isinstance(op, ast.Gt):
                return binds, '(%s <? %s)%s' % (t2, t1, sc), 'B'
            if isinstance(op, ast.GtE):
                return binds, '(%s <=? %s)%s' % (t2, t1, sc), 'B'
            if type(op) in nops:
                return binds, '(%s %s %s)%s' % (t1, nops[type(op)], t2, sc), 'B'
        self.bad(node, 'comparison %s between %s and %s' % (type(op).__name__, y1, y2))

    def truth(self, node, t, ty):
        if ty == 'B':
            return t
        if ty == 'N':
            return '(negb (%s =? 0))' % t
        if ty == 'Z':
            return '(negb (%s =? 0)%%Z)' % t
        if ty in ('bytes', 'list A', 'list F'):
            return '(py_nonempty %s)' % t
        if ty == 'OZ':
            return '(py_truth_OZ %s)' % t
        self.bad(node, 'truth value of %s' % ty)

    def obj_var(self, node, env):
        """node must be the name of one of the two objects; returns its python name"""
        if isinstance(node, ast.Name) and node.id in self.state:
            return node.id
        self.bad(node, 'receiver is not one of the method\'s two objects')

    def call_expr(self, e, env):
        f = e.func
        if e.keywords:
            self.bad(e, 'keyword arguments')
        # len(x)
        if isinstance(f, ast.Name) and f.id == 'len' and len(e.args) == 1:
            b, t, ty = self.expr(e.args[0], env)
            if ty not in ('bytes', 'list A', 'list F'):
                self.bad(e, 'len of %s' % ty)
            return b, '(lenN %s)' % t, 'N'
        # X.get() / get_short() / get_long() / get_data(n)
        if isinstance(f, ast.Attribute) and f.attr in GET and isinstance(f.value, ast.Name) and f.value.id in self.state:
            prim, nargs, rty = GET[f.attr]
            if len(e.args) != nargs:
                self.bad(e, '%s takes %d argument(s)' % (f.attr, nargs))
            binds, args = [], []
            for a in e.args:
                b, t, ty = self.expr(a, env)
                binds += b
                args.append(self.coerce(a, t, ty, 'N'))
            v, o = self.gensym(), 'o_' + f.value.id
            binds.append(('(%s, %s)' % (v, o), ' '.join([prim] + args + [o])))
            return binds, v, rty
        # Address(unpack_ip_addr(d))
        if (isinstance(f, ast.Name) and f.id == 'Address' and len(e.args) == 1 and isinstance(e.args[0], ast.Call)
                and isinstance(e.args[0].func, ast.Name) and e.args[0].func.id == 'unpack_ip_addr'
                and len(e.args[0].args) == 1 and not e.args[0].keywords):
            b, t, ty = self.expr(e.args[0].args[0], env)
            if ty != 'bytes':
                self.bad(e, 'unpack_ip_addr of %s' % ty)
            return b, '(py_Address_unpack %s)' % t, 'A'
        # FDTEntry()
        if isinstance(f, ast.Name) and f.id == 'FDTEntry' and not e.args:
            return [], 'py_FDTEntry_new', 'F'
        self.bad(e, 'call %s' % ast.dump(f)[:80])

    # ------------------------------------------------------------------ statements
    def wrap(self, binds, body, ind):
        for pat, m in reversed(binds):
            body = 'do %s <- %s;\n%s%s' % (pat, m, ind, body)
        return body

    def assigned_names(self, stmts):
        names = set()
        for s in stmts:
            for n in ast.walk(s):
                if isinstance(n, (ast.Assign, ast.AugAssign, ast.AnnAssign, ast.For)):
                    tg = n.targets if isinstance(n, ast.Assign) else [n.target]
                    for t in tg:
                        for x in ast.walk(t):
                            if isinstance(x, ast.Name) and isinstance(x.ctx, ast.Store):
                                names.add(x.id)
        return names

    def check_scoped(self, node, stmts, env):
        clash = self.assigned_names(stmts) & set(env)
        if clash:
            self.bad(node, 'nested block rebinds outer name(s) %s (not modelled)' % sorted(clash))

    def block(self, stmts, env, ind):
        """Gallina text of type res (pyobj * pyobj): the statements, then both objects returned"""
        if not stmts:
            return 'Ok %s' % self.st()
        s, rest = stmts[0], stmts[1:]
        nxt = lambda env2=env: self.block(rest, env2, ind)
        if isinstance(s, ast.Expr) and isinstance(s.value, ast.Constant) and isinstance(s.value.value, str):
            return nxt()
        if isinstance(s, ast.Pass):
            return nxt()
        if isinstance(s, ast.If) and isinstance(s.test, ast.Name) and s.test.id == '_debug' and not s.orelse:
            return nxt()
        if isinstance(s, ast.Raise):
            exc = s.exc.func if isinstance(s.exc, ast.Call) else s.exc
            if isinstance(exc, ast.Name) and exc.id in EXC and s.cause is None:
                return 'Err %s' % EXC[exc.id]          # statements after a raise are unreachable
            self.bad(s, 'raise of an unknown exception')
        if isinstance(s, ast.If):
            b, t, ty = self.expr(s.test, env)
            self.check_scoped(s, s.body + s.orelse, env)
            ind2 = ind + '  '
            a = self.block(s.body, dict(env), ind2)
            o = self.block(s.orelse, dict(env), ind2)
            cond = 'if %s\n%sthen %s\n%selse %s' % (self.truth(s.test, t, ty), ind2, a, ind2, o)
            if rest:
                return self.wrap(b, 'do %s <- (%s);\n%s%s' % (self.st(), cond, ind, nxt()), ind)
            return self.wrap(b, cond, ind)
        if isinstance(s, ast.For):
            return self.for_stmt(s, rest, env, ind)
        if isinstance(s, ast.While):
            return self.while_stmt(s, rest, env, ind)
        if isinstance(s, ast.Expr) and isinstance(s.value, ast.Call):
            return self.call_stmt(s.value, rest, env, ind)
        if isinstance(s, ast.Assign) and len(s.targets) == 1:
            return self.assign(s, s.targets[0], s.value, rest, env, ind)
        if isinstance(s, ast.AugAssign) and isinstance(s.op, ast.Add):
            load = ast.copy_location(ast.Attribute(value=s.target.value, attr=s.target.attr, ctx=ast.Load()), s.target) \
                if isinstance(s.target, ast.Attribute) else ast.copy_location(ast.Name(id=getattr(s.target, 'id', None), ctx=ast.Load()), s.target)
            val = ast.copy_location(ast.BinOp(left=load, op=ast.Add(), right=s.value), s)
            return self.assign(s, s.target, val, rest, env, ind)
        self.bad(s, 'statement %s' % type(s).__name__)

    def assign(self, s, tgt, value, rest, env, ind):
        b, t, ty = self.expr(value, env)
        if isinstance(tgt, ast.Attribute) and isinstance(tgt.value, ast.Name):
            base = tgt.value.id
            if base in self.state:
                if tgt.attr not in ATTR['obj']:
                    self.bad(s, 'assignment to unknown attribute %s' % tgt.attr)
                o = 'o_' + base
                v = self.coerce(s, t, ty, ATTR['obj'][tgt.attr])
                return self.wrap(b, 'let %s := set_%s %s %s in\n%s%s' % (o, tgt.attr, v, o, ind, self.block(rest, env, ind)), ind)
            if base in env and (env[base][1], tgt.attr) in SETTER:
                setter, fty = SETTER[(env[base][1], tgt.attr)]
                v = self.coerce(s, t, ty, fty)
                c = env[base][0]
                return self.wrap(b, 'let %s := %s %s %s in\n%s%s' % (c, setter, v, c, ind, self.block(rest, env, ind)), ind)
            self.bad(s, 'assignment to %s.%s' % (base, tgt.attr))
        if isinstance(tgt, ast.Name):
            if tgt.id in self.state or tgt.id == '_debug':
                self.bad(s, 'rebinding of %s' % tgt.id)
            if ty in ('None', 'nil'):
                self.bad(s, 'local variable of undetermined type')
            c = 'v_' + tgt.id
            env2 = dict(env)
            env2[tgt.id] = (c, ty)
            return self.wrap(b, 'let %s : %s := %s in\n%s%s' % (c, COQ_TY[ty], t, ind, self.block(rest, env2, ind)), ind)
        self.bad(s, 'assignment target')

    def call_stmt(self, c, rest, env, ind):
        f = c.func
        if c.keywords or not isinstance(f, ast.Attribute):
            self.bad(c, 'call statement shape')
        # Class.method(a, b)
        if isinstance(f.value, ast.Name) and f.value.id not in env and f.value.id not in self.state:
            key = (f.value.id, f.attr)
            if len(c.args) == 2 and all(isinstance(a, ast.Name) and a.id in self.state for a in c.args) \
                    and c.args[0].id != c.args[1].id:
                if key in SKIP_CALLS:
                    return self.block(rest, env, ind)
                if key in self.tr.done:
                    a, b = 'o_' + c.args[0].id, 'o_' + c.args[1].id
                    return 'do (%s, %s) <- %s_%s %s %s;\n%s%s' % (a, b, key[0], key[1], a, b, ind, self.block(rest, env, ind))
            self.bad(c, 'call of %s.%s (not translated, not on the skip list, or arguments are not the two objects)' % key)
        # X.put*(e)
        if isinstance(f.value, ast.Name) and f.value.id in self.state and f.attr in ('put', 'put_short', 'put_long', 'put_data'):
            if len(c.args) != 1:
                self.bad(c, '%s takes one argument' % f.attr)
            b, t, ty = self.expr(c.args[0], env)
            if (f.attr, ty) not in PUT:
                self.bad(c, '%s of a value of type %s' % (f.attr, ty))
            o = 'o_' + f.value.id
            return self.wrap(b, 'do %s <- %s %s %s;\n%s%s' % (o, PUT[(f.attr, ty)], t, o, ind, self.block(rest, env, ind)), ind)
        # X.attr.append(e)
        if (f.attr == 'append' and isinstance(f.value, ast.Attribute) and isinstance(f.value.value, ast.Name)
                and f.value.value.id in self.state and len(c.args) == 1):
            attr = f.value.attr
            lty = ATTR['obj'].get(attr, '')
            if not lty.startswith('list '):
                self.bad(c, 'append to attribute %s' % attr)
            b, t, ty = self.expr(c.args[0], env)
            v = self.coerce(c, t, ty, lty[5:])
            o = 'o_' + f.value.value.id
            return self.wrap(b, 'let %s := set_%s (%s %s ++ [%s]) %s in\n%s%s' % (o, attr, attr, o, v, o, ind, self.block(rest, env, ind)), ind)
        self.bad(c, 'call statement %s' % ast.dump(f)[:80])

    def for_stmt(self, s, rest, env, ind):
        if s.orelse or not isinstance(s.target, ast.Name):
            self.bad(s, 'for loop shape')
        it = s.iter
        if not (isinstance(it, ast.Attribute) and isinstance(it.value, ast.Name) and it.value.id in self.state):
            self.bad(s, 'for loop over something other than an attribute of one of the two objects')
        b, t, ty = self.expr(it, env)
        if b or not ty.startswith('list '):
            self.bad(s, 'for loop over a value of type %s' % ty)
        # the body must not rebind or grow the list it iterates over
        for n in ast.walk(ast.Module(body=s.body, type_ignores=[])):
            if isinstance(n, ast.Attribute) and n.attr == it.attr and isinstance(n.ctx, ast.Store):
                self.bad(s, 'loop body assigns the iterated attribute')
            if isinstance(n, ast.Call) and isinstance(n.func, ast.Attribute) and isinstance(n.func.value, ast.Attribute) \
                    and n.func.value.attr == it.attr:
                self.bad(s, 'loop body calls a method of the iterated attribute')
        if s.target.id in env or s.target.id in self.state:
            self.bad(s, 'loop variable rebinds %s' % s.target.id)
        self.check_scoped(s, s.body, env)
        v = 'v_' + s.target.id
        env2 = dict(env)
        env2[s.target.id] = (v, ty[5:])
        ind2 = ind + '    '
        body = self.block(s.body, env2, ind2)
        txt = 'py_for %s (fun (%s : %s) (st : pyobj * pyobj) => let \'%s := st in\n%s%s) %s' % (
            t, v, COQ_TY[ty[5:]], self.st(), ind2, body, self.st())
        if rest:
            return 'do %s <- %s;\n%s%s' % (self.st(), txt, ind, self.block(rest, env, ind))
        return txt

    def while_stmt(self, s, rest, env, ind):
        # only the consumption loop `while X.pduData:`; fuel = octets left in X at loop entry
        t = s.test
        if s.orelse or not (isinstance(t, ast.Attribute) and t.attr == 'pduData' and isinstance(t.value, ast.Name)
                            and t.value.id in self.state):
            self.bad(s, 'while loop whose test is not <object>.pduData')
        self.check_scoped(s, s.body, env)
        o = 'o_' + t.value.id
        ind2 = ind + '    '
        body = self.block(s.body, dict(env), ind2)
        txt = ('py_while (length (pduData %s))\n%s(fun (st : pyobj * pyobj) => let \'%s := st in py_nonempty (pduData %s))\n'
               '%s(fun (st : pyobj * pyobj) => let \'%s := st in\n%s%s) %s') % (
            o, ind2, self.st(), o, ind2, self.st(), ind2, body, self.st())
        if rest:
            return 'do %s <- %s;\n%s%s' % (self.st(), txt, ind, self.block(rest, env, ind))
        return txt

    def emit(self):
        n = self.node
        a = n.args
        if n.decorator_list or a.vararg or a.kwarg or a.kwonlyargs or a.defaults or a.posonlyargs or len(a.args) != 2:
            self.bad(n, 'method signature is not (self, other)')
        self.state = [x.arg for x in a.args]
        if self.state[0] != 'self' or self.state[1] == 'self':
            self.bad(n, 'method signature is not (self, other)')
        env = {p: ('o_' + p, 'obj') for p in self.state}
        body = self.block(n.body, env, '  ')
        return '(* %s.%s  (bvll.py line %d) *)\nDefinition %s_%s (o_%s o_%s : pyobj) : res (pyobj * pyobj) :=\n  %s.\n' % (
            self.cls, self.name, n.lineno, self.cls, self.name, self.state[0], self.state[1], body)


class Translator:
    def __init__(self, tree):
        self.tree = tree
        self.consts = {}      # (class, name) -> Gallina text of the value (type N)
        self.done = set()     # (class, method) translated so far
        self.classes = {n.name: n for n in tree.body if isinstance(n, ast.ClassDef)}

    def class_consts(self, cname, keep):
        """class-level `NAME = <int literal>` and `NAME = Class.CONST`; returns definitions"""
        out = []
        for s in self.classes[cname].body:
            if not (isinstance(s, ast.Assign) and len(s.targets) == 1 and isinstance(s.targets[0], ast.Name)):
                continue
            name, v = s.targets[0].id, s.value
            if keep is not None and name not in keep:
                continue
            if isinstance(v, ast.Constant) and isinstance(v.value, int) and not isinstance(v.value, bool) and v.value >= 0:
                txt = nlit(v.value)
            elif isinstance(v, ast.Attribute) and isinstance(v.value, ast.Name) and (v.value.id, v.attr) in self.consts:
                txt = '%s_%s' % (v.value.id, v.attr)
            elif keep is not None:
                raise Unsupported('%s.%s is neither a natural-number literal nor a known class constant' % (cname, name))
            else:
                continue
            if (cname, name) in self.consts:
                raise Unsupported('%s.%s assigned twice' % (cname, name))
            self.consts[(cname, name)] = txt
            out.append('Definition %s_%s : N := %s.' % (cname, name, txt))
        return out

    def run(self):
        out = ['(* GENERATED by translator/gen_bvllfns.py from py34/bacpypes/bvll.py — do not edit.',
               '   Statement-by-statement translation of the encode/decode method bodies into the vocabulary of',
               '   Bac.BvllRt; Bac.BvllGenFacts proves each definition equal to the hand model Bac.Bvll. *)',
               'From Bac Require Import Base Bvll BvllRt.', 'Open Scope N_scope.', '']
        for cname, _ in WANTED:
            if cname not in self.classes:
                raise Unsupported('class %s not found in bvll.py' % cname)
        out.append('(* class-level constants *)')
        out += self.class_consts('BVLCI', None)
        for cname in MESSAGE_CLASSES:
            defs = self.class_consts(cname, {'messageType'})
            if len(defs) != 1:
                raise Unsupported('%s.messageType not found' % cname)
            out += defs
        out.append('')
        for cname, methods in WANTED:
            found = {s.name: s for s in self.classes[cname].body if isinstance(s, ast.FunctionDef)}
            dup = [s.name for s in self.classes[cname].body if isinstance(s, ast.FunctionDef)]
            for m in methods:
                if m not in found or dup.count(m) != 1:
                    raise Unsupported('%s.%s is not defined exactly once in the class body' % (cname, m))
                out.append(Method(self, cname, m, found[m]).emit())
                self.done.add((cname, m))
        # dynamic dispatch rpdu.encode(bvlpdu) / rpdu.decode(bvlpdu) on the class of rpdu
        for m in ('encode', 'decode'):
            out.append('Definition class_%s (k : bvl_class) : pyobj -> pyobj -> res (pyobj * pyobj) :=\n  match k with\n%s\n  end.\n' % (
                m, '\n'.join('  | K_%s => %s_%s' % (c, c, m) for c in MESSAGE_CLASSES)))
        out.append('Definition class_messageType (k : bvl_class) : N :=\n  match k with\n%s\n  end.\n' % (
            '\n'.join('  | K_%s => %s_messageType' % (c, c) for c in MESSAGE_CLASSES)))
        return '\n'.join(out)


def gen_bvll_fns():
    src = open(SRC).read()
    tree = ast.parse(src)
    return Translator(tree).run()


TARGETS = {'BvllFns.v': gen_bvll_fns}
