"""Translator plug-in for C07: AST translation of the APDU fixed-header methods of py34/bacpypes/apdu.py
into Gallina (coq/gen/ApciFns.v, module BacGen.ApciFns), regenerated on every run.

Translated, statement by statement (nothing is matched against expected text):
    APCI.update, APCI.encode, APCI.decode, APDU.encode, APDU.decode, _APDU.encode, _APDU.decode
plus the `pduType` class constants of the eight PDU classes (ConfirmedRequestPDU .. AbortPDU).

Vocabulary = the hand model's (coq/theories/Apci.v: record `apci`, putz / put_field / truthy, Base.v's res monad
and octet readers) + coq/theories/ApciRt.v (setters, None-aware comparisons, accumulating writers).  An object is
(attributes : apci, pduData : list N); every method becomes
    py_<Class>_<method> (self attrs) (self data) (other attrs) (other data) : res (pyobj * pyobj)
returning both objects; an exception is `Err <class>`.

Accepted subset (everything else raises pyfn.Unsupported -> TRANSLATION-ABORT -> ApciFns.v does not compile):
  statements   docstring; `pass`; `x = e`; `x op= e`; `obj.attr = e` (attr one of the thirteen APCI attributes or pduData);
               `obj.put(e)`, `obj.put_short(e)`, `obj.put_long(e)`, `obj.put_data(e)`;
               `Class.method(a, b)` for a method translated earlier in the list above (static dispatch);
               `if / elif / else` (any nesting); `raise Exc(...)`; bare `return`
  expressions  int / True / False / None literals, locals, `obj.attr`, `Class.pduType`, TABLE[literal] on a module-level
               literal list, `+ - * << >> & | ^`, comparisons, `is None` / `is not None`, `not`, `and` / `or` of
               effect-free operands, `len(bytes)`, `obj.get()`, `obj.get_short()`, `obj.get_long()`, `obj.get_data(e)`
SKIPPED (the only statements that produce no Gallina), exactly:
  * `if _debug: <Class>._debug(...)` lines (logging),
  * docstrings,
  * calls on the allow-list SKIP_CALLS = PCI.update(a, b): copies pduSource / pduDestination / pduUserData /
    pduExpectingReply / pduNetworkPriority — addressing and user data, not part of the fixed header and not in the model.
Guards checked on the source besides the method bodies (abort when they fail): APCI.__init__ assigns exactly the
thirteen attributes of the model to None; the class chain is _APDU(APDU), APDU(APCI, PDUData), APCI(PCI, DebugContents);
each of the eight PDU classes derives from _APDU alone, defines `pduType = <int literal>` and does not override
encode / decode / update (so that X.encode is _APDU.encode)."""
import ast, os
import pyfn
from pyfn import Unsupported

REPO = os.environ.get('VERIF_REPO', '/repo')
SRC = os.path.join(REPO, 'py34', 'bacpypes', 'apdu.py')

NUM_FIELDS = {'apduType': 'aType', 'apduSeq': 'aSeq', 'apduWin': 'aWin', 'apduMaxSegs': 'aMaxSegs',
              'apduMaxResp': 'aMaxResp', 'apduService': 'aService', 'apduInvokeID': 'aInvokeID',
              'apduAbortRejectReason': 'aReason'}
FLAG_FIELDS = {'apduSeg': 'aSeg', 'apduMor': 'aMor', 'apduSA': 'aSA', 'apduSrv': 'aSrv', 'apduNak': 'aNak'}
INIT_ORDER = ['apduType', 'apduSeg', 'apduMor', 'apduSA', 'apduSrv', 'apduNak', 'apduSeq', 'apduWin', 'apduMaxSegs',
              'apduMaxResp', 'apduService', 'apduInvokeID', 'apduAbortRejectReason']
PDU_CLASSES = ['ConfirmedRequestPDU', 'UnconfirmedRequestPDU', 'SimpleAckPDU', 'ComplexAckPDU', 'SegmentAckPDU',
               'ErrorPDU', 'RejectPDU', 'AbortPDU']
METHODS = [('APCI', 'update'), ('APCI', 'encode'), ('APCI', 'decode'), ('APDU', 'encode'), ('APDU', 'decode'),
           ('_APDU', 'encode'), ('_APDU', 'decode')]
BASES = {'APCI': ['PCI', 'DebugContents'], 'APDU': ['APCI', 'PDUData'], '_APDU': ['APDU']}
SKIP_CALLS = {('PCI', 'update')}          # addressing / user data only (pdu.py PCI.update, _PCI.update)
EXC = dict(pyfn.EXC, DecodingError='DecodingError', EncodingError='EncodingError')

COQ_TY = {'Z': 'Z', 'N': 'N', 'B': 'bool', 'OZ': '(option Z)', 'OB': '(option bool)', 'BYTES': '(list N)'}


def zlit(n):
    return '(%d)%%Z' % n if n < 0 else '%d%%Z' % n


def coq_name(cls, meth):
    return 'py_%s_%s' % (cls, meth)


class Meth:
    def __init__(self, cls, node, consts, tables, done):
        self.cls, self.node = cls, node
        self.consts = consts            # class name -> pduType
        self.tables = tables            # module-level literal lists
        self.done = done                # (cls, meth) already emitted
        self.n = 0
        self.objs = {}                  # python parameter name -> [attrs var, data var]
        self.order = []                 # parameter names, self first
        self.locals = {}                # python local -> (coq var, type)

    def fresh(self, base):
        self.n += 1
        return '%s_%d' % (base, self.n)

    # ------------------------------------------------------------ expressions
    # value(e) -> (pre, text, type[, literal]) ; pre = list of 'do x <- m; ' / 'let x := t in ' fragments, in
    # evaluation order (Python evaluates operands left to right, and so does this walk)
    def value(self, e):
        if isinstance(e, ast.Constant):
            if e.value is None:
                return [], 'None', 'NONE'
            if isinstance(e.value, bool):
                return [], ('true' if e.value else 'false'), 'B'
            if isinstance(e.value, int):
                return [], e.value, 'LIT'
            raise Unsupported('constant %r' % (e.value,))
        if isinstance(e, ast.Name):
            if e.id in self.locals:
                t, ty = self.locals[e.id]
                return [], t, ty
            raise Unsupported('unknown name %s' % e.id)
        if isinstance(e, ast.Attribute):
            return self.attribute(e)
        if isinstance(e, ast.UnaryOp) and isinstance(e.op, ast.Not):
            pre, c = self.cond(e.operand)
            return pre, '(negb %s)' % c, 'B'
        if isinstance(e, ast.UnaryOp) and isinstance(e.op, ast.USub):
            pre, t, ty = self.num(e.operand)
            if ty == 'LIT':
                return pre, -t, 'LIT'
            return pre, '(- %s)' % self.as_z(t, ty), 'Z'
        if isinstance(e, ast.BinOp):
            return self.binop(e.op, e.left, e.right)
        if isinstance(e, ast.BoolOp):
            pre, c = self.cond(e)
            return pre, c, 'B'
        if isinstance(e, ast.Compare):
            return self.compare(e)
        if isinstance(e, ast.Subscript):
            v = e.value
            if isinstance(v, ast.Name) and v.id in self.tables and isinstance(e.slice, ast.Constant) \
                    and isinstance(e.slice.value, int) and not isinstance(e.slice.value, bool):
                tbl, i = self.tables[v.id], e.slice.value
                if not -len(tbl) <= i < len(tbl):
                    raise Unsupported('%s[%d]: index out of range (IndexError not modelled here)' % (v.id, i))
                x = tbl[i]
                return [], ('None' if x is None else '(Some %s)' % zlit(x)), 'OZ'
            raise Unsupported('subscript')
        if isinstance(e, ast.Call):
            return self.call_value(e)
        raise Unsupported('expression %s' % type(e).__name__)

    def attribute(self, e):
        if isinstance(e.value, ast.Name):
            o = e.value.id
            if o in self.objs:
                a, d = self.objs[o]
                if e.attr in NUM_FIELDS:
                    return [], '(%s %s)' % (NUM_FIELDS[e.attr], a), 'OZ'
                if e.attr in FLAG_FIELDS:
                    return [], '(%s %s)' % (FLAG_FIELDS[e.attr], a), 'OB'
                if e.attr == 'pduData':
                    return [], d, 'BYTES'
                raise Unsupported('attribute %s.%s is not in the model' % (o, e.attr))
            if o in self.consts and e.attr == 'pduType':
                return [], '%s_pduType' % o, 'Z'
        raise Unsupported('attribute expression %s' % ast.dump(e)[:80])

    def as_z(self, t, ty):
        if ty == 'Z':
            return t
        if ty == 'N':
            return '(Z.of_N %s)' % t
        if ty == 'LIT':
            return zlit(t)
        raise Unsupported('%s used as an integer' % ty)

    def as_n(self, t, ty):
        if ty == 'N':
            return t
        if ty == 'LIT' and t >= 0:
            return '%d%%N' % t
        raise Unsupported('%s used as an octet' % ty)

    def num(self, e):
        """an operand of arithmetic / ordering: Z, N or LIT; a numeric attribute must not be None (TypeError)"""
        pre, t, ty = self.value(e)
        if ty == 'OZ':
            v = self.fresh('v')
            return pre + ['do %s <- a_need %s; ' % (v, t)], v, 'Z'
        if ty in ('Z', 'N', 'LIT'):
            return pre, t, ty
        raise Unsupported('%s operand in arithmetic' % ty)

    def binop(self, op, left, right):
        p1, t1, y1 = self.num(left)
        p2, t2, y2 = self.num(right)
        pre = p1 + p2
        k = type(op)
        pyops = {ast.Add: lambda a, b: a + b, ast.Sub: lambda a, b: a - b, ast.Mult: lambda a, b: a * b,
                 ast.LShift: lambda a, b: a << b, ast.RShift: lambda a, b: a >> b, ast.BitAnd: lambda a, b: a & b,
                 ast.BitOr: lambda a, b: a | b, ast.BitXor: lambda a, b: a ^ b}
        if k not in pyops:
            raise Unsupported('binary operator %s' % k.__name__)
        if y1 == 'LIT' and y2 == 'LIT':
            if k in (ast.LShift, ast.RShift) and (t2 < 0 or t2 > 64):
                raise Unsupported('literal shift count %d' % t2)
            return pre, pyops[k](t1, t2), 'LIT'
        nops = {ast.Add: 'N.add', ast.Mult: 'N.mul', ast.LShift: 'N.shiftl', ast.RShift: 'N.shiftr',
                ast.BitAnd: 'N.land', ast.BitOr: 'N.lor', ast.BitXor: 'N.lxor'}
        natural = lambda t, y: y == 'N' or (y == 'LIT' and t >= 0)
        if k in nops and natural(t1, y1) and natural(t2, y2):
            return pre, '(%s %s %s)' % (nops[k], self.as_n(t1, y1), self.as_n(t2, y2)), 'N'
        z1, z2 = self.as_z(t1, y1), self.as_z(t2, y2)
        zops = {ast.Add: '(%s + %s)', ast.Sub: '(%s - %s)', ast.Mult: '(%s * %s)', ast.BitAnd: '(Z.land %s %s)',
                ast.BitOr: '(Z.lor %s %s)', ast.BitXor: '(Z.lxor %s %s)'}
        if k in zops:
            return pre, zops[k] % (z1, z2), 'Z'
        fn = 'shiftl' if k is ast.LShift else 'shiftr'
        if (y2 == 'LIT' and t2 >= 0) or y2 == 'N':
            return pre, '(Z.%s %s %s)' % (fn, z1, z2), 'Z'
        v = self.fresh('v')
        return pre + ['do %s <- a_%s %s %s; ' % (v, fn, z1, z2)], v, 'Z'

    def compare(self, e):
        if len(e.ops) != 1:
            raise Unsupported('chained comparison')
        op, l, r = e.ops[0], e.left, e.comparators[0]
        if isinstance(op, (ast.Is, ast.IsNot)):
            if not (isinstance(r, ast.Constant) and r.value is None):
                raise Unsupported('`is` against something other than None')
            pre, t, ty = self.value(l)
            if ty in ('OZ', 'OB'):
                c = '(a_is_none %s)' % t
            elif ty in ('Z', 'N', 'LIT', 'B', 'BYTES'):
                c = 'false'
            else:
                raise Unsupported('`is None` on %s' % ty)
            return pre, (c if isinstance(op, ast.Is) else '(negb %s)' % c), 'B'
        if isinstance(op, (ast.Eq, ast.NotEq)):
            p1, t1, y1 = self.value(l)
            p2, t2, y2 = self.value(r)
            ints = ('Z', 'N', 'LIT')
            if y1 == 'OZ' and y2 in ints:
                c = '(a_oz_eqb %s %s)' % (t1, self.as_z(t2, y2))
            elif y2 == 'OZ' and y1 in ints:
                c = '(a_oz_eqb %s %s)' % (t2, self.as_z(t1, y1))
            elif y1 == 'OZ' and y2 == 'OZ':
                c = '(a_oz_eq %s %s)' % (t1, t2)
            elif y1 in ints and y2 in ints:
                if y1 == 'LIT' and y2 == 'LIT':
                    c = 'true' if t1 == t2 else 'false'
                elif all(y == 'N' or (y == 'LIT' and t >= 0) for t, y in ((t1, y1), (t2, y2))):
                    c = '(%s =? %s)%%N' % (self.as_n(t1, y1), self.as_n(t2, y2))
                else:
                    c = '(%s =? %s)%%Z' % (self.as_z(t1, y1), self.as_z(t2, y2))
            elif y1 == 'B' and y2 == 'B':
                c = '(Bool.eqb %s %s)' % (t1, t2)
            else:
                raise Unsupported('== between %s and %s' % (y1, y2))
            return p1 + p2, (c if isinstance(op, ast.Eq) else '(negb %s)' % c), 'B'
        rel = {ast.Lt: ('<?', False), ast.LtE: ('<=?', False), ast.Gt: ('<?', True), ast.GtE: ('<=?', True)}
        if type(op) not in rel:
            raise Unsupported('comparison %s' % type(op).__name__)
        p1, t1, y1 = self.num(l)
        p2, t2, y2 = self.num(r)
        sym, swap = rel[type(op)]
        a, b = self.as_z(t1, y1), self.as_z(t2, y2)
        if swap:
            a, b = b, a
        return p1 + p2, '(%s %s %s)%%Z' % (a, sym, b), 'B'

    def cond(self, e):
        """truth value of an expression in a condition: (pre, bool text)"""
        if isinstance(e, ast.BoolOp):
            parts = [self.cond(v) for v in e.values]
            if any(p[0] for p in parts[1:]):
                raise Unsupported('operand that can fail or has an effect inside and/or (short circuit not modelled)')
            op = ' && ' if isinstance(e.op, ast.And) else ' || '
            return parts[0][0], '(' + op.join(p[1] for p in parts) + ')'
        if isinstance(e, ast.UnaryOp) and isinstance(e.op, ast.Not):
            pre, c = self.cond(e.operand)
            return pre, '(negb %s)' % c
        pre, t, ty = self.value(e)
        if ty == 'B':
            return pre, t
        if ty == 'OB':
            return pre, '(truthy %s)' % t
        if ty == 'OZ':
            return pre, '(a_oz_truth %s)' % t
        if ty == 'Z':
            return pre, '(negb (%s =? 0)%%Z)' % t
        if ty == 'N':
            return pre, '(negb (%s =? 0)%%N)' % t
        if ty == 'LIT':
            return pre, ('true' if t else 'false')
        if ty == 'BYTES':
            return pre, '(a_nonempty %s)' % t
        if ty == 'NONE':
            return pre, 'false'
        raise Unsupported('truth value of %s' % ty)

    def obj_call(self, e):
        """`obj.method(args)` on a modelled object -> (obj name, method, args) or None"""
        f = e.func
        if isinstance(f, ast.Attribute) and isinstance(f.value, ast.Name) and f.value.id in self.objs:
            if e.keywords:
                raise Unsupported('keyword arguments')
            return f.value.id, f.attr, e.args
        return None

    def call_value(self, e):
        if isinstance(e.func, ast.Name) and e.func.id == 'len' and len(e.args) == 1 and not e.keywords:
            pre, t, ty = self.value(e.args[0])
            if ty != 'BYTES':
                raise Unsupported('len of %s' % ty)
            return pre, '(zlen %s)' % t, 'Z'
        oc = self.obj_call(e)
        if oc:
            o, m, args = oc
            readers = {'get': 'get', 'get_short': 'get_short', 'get_long': 'get_long'}
            if m in readers and not args:
                v, d = self.fresh('v'), self.fresh('d')
                pre = ['do (%s, %s) <- %s %s; ' % (v, d, readers[m], self.objs[o][1])]
                self.objs[o][1] = d
                return pre, v, 'N'
            if m == 'get_data' and len(args) == 1:
                pre, t, ty = self.num(args[0])
                v, d = self.fresh('v'), self.fresh('d')
                pre = pre + ['do (%s, %s) <- a_get_data %s %s; ' % (v, d, self.as_z(t, ty), self.objs[o][1])]
                self.objs[o][1] = d
                return pre, v, 'BYTES'
            raise Unsupported('call %s.%s/%d used as a value' % (o, m, len(args)))
        raise Unsupported('call %s' % ast.dump(e.func)[:80])

    # ------------------------------------------------------------ statements
    def state(self):
        a = self.objs
        return '((%s, %s), (%s, %s))' % (a[self.order[0]][0], a[self.order[0]][1], a[self.order[1]][0], a[self.order[1]][1])

    def finish(self, k):
        if k is None:
            return 'Ok %s' % self.state()
        kname, kobjs, klocals = k
        args = []
        for o in self.order:
            args += self.objs[o]
        for name, ty in klocals:
            if name not in self.locals:
                raise Unsupported('local %s is not assigned on every path' % name)
            t, y = self.locals[name]
            args.append(self.coerce(t, y, ty, 'local ' + name))
        return '%s %s' % (kname, ' '.join(args))

    def coerce(self, t, y, want, what):
        if y == want:
            return t
        if want == 'Z' and y in ('N', 'LIT'):
            return self.as_z(t, y)
        if want == 'N' and y == 'LIT' and t >= 0:
            return self.as_n(t, y)
        if want == 'OZ' and y in ('Z', 'N', 'LIT'):
            return '(Some %s)' % self.as_z(t, y)
        if want == 'OB' and y == 'B':
            return '(Some %s)' % t
        if want in ('OZ', 'OB') and y == 'NONE':
            return 'None'
        raise Unsupported('%s: a %s value where %s is expected' % (what, y, want))

    def skip_debug(self, s):
        return (isinstance(s, ast.If) and isinstance(s.test, ast.Name) and s.test.id == '_debug' and not s.orelse
                and all(isinstance(b, ast.Expr) and isinstance(b.value, ast.Call) and isinstance(b.value.func, ast.Attribute)
                        and b.value.func.attr == '_debug' for b in s.body))

    def check_exc_args(self, call):
        """exception arguments are messages: string literals or "...".format(translatable expressions); not kept"""
        for a in call.args:
            if isinstance(a, ast.Constant) and isinstance(a.value, str):
                continue
            if (isinstance(a, ast.Call) and isinstance(a.func, ast.Attribute) and a.func.attr == 'format'
                    and isinstance(a.func.value, ast.Constant) and isinstance(a.func.value.value, str) and not a.keywords):
                saved = [list(v) for v in self.objs.values()]
                for x in a.args:
                    pre, _, _ = self.value(x)
                    if pre:
                        raise Unsupported('exception message argument that can fail or has an effect')
                continue
            raise Unsupported('exception argument %s' % type(a).__name__)
        if call.keywords:
            raise Unsupported('exception keyword arguments')

    def block(self, stmts, k):
        """Gallina text (type res (pyobj * pyobj)) of the statements followed by continuation k"""
        out = []
        for i, s in enumerate(stmts):
            rest = stmts[i + 1:]
            if isinstance(s, ast.Expr) and isinstance(s.value, ast.Constant) and isinstance(s.value.value, str):
                continue                                    # docstring
            if isinstance(s, ast.Pass) or self.skip_debug(s):
                continue
            if isinstance(s, ast.Raise):
                exc = s.exc
                if isinstance(exc, ast.Call):
                    self.check_exc_args(exc)
                    exc = exc.func
                if not (isinstance(exc, ast.Name) and exc.id in EXC) or s.cause is not None:
                    raise Unsupported('raise of an unknown exception')
                if rest:
                    raise Unsupported('statements after raise')
                return '(' + ''.join(out) + 'Err %s)' % EXC[exc.id]
            if isinstance(s, ast.Return):
                if s.value is not None and not (isinstance(s.value, ast.Constant) and s.value.value is None):
                    raise Unsupported('return with a value')
                if rest:
                    raise Unsupported('statements after return')
                return '(' + ''.join(out) + 'Ok %s)' % self.state()
            if isinstance(s, ast.If):
                out.append(self.if_stmt(s, rest, k))
                return '(' + ''.join(out) + ')'
            if isinstance(s, ast.Expr) and isinstance(s.value, ast.Call):
                out += self.call_stmt(s.value)
                continue
            if isinstance(s, ast.Assign) and len(s.targets) == 1:
                out += self.assign(s.targets[0], s.value)
                continue
            if isinstance(s, ast.AugAssign):
                if not isinstance(s.target, ast.Name):
                    raise Unsupported('augmented assignment to %s' % type(s.target).__name__)
                pre, t, ty = self.binop(s.op, ast.Name(id=s.target.id, ctx=ast.Load()), s.value)
                out += pre + self.bind_local(s.target.id, t, ty)
                continue
            raise Unsupported('statement %s' % type(s).__name__)
        return '(' + ''.join(out) + self.finish(k) + ')'

    def bind_local(self, name, t, ty):
        if ty == 'LIT':
            t, ty = zlit(t), 'Z'
        if ty == 'NONE':
            raise Unsupported('local %s = None' % name)
        v = self.fresh('py_' + name)
        self.locals[name] = (v, ty)
        return ['let %s := %s in ' % (v, t)]

    def assign(self, tgt, value):
        if isinstance(tgt, ast.Name):
            if tgt.id in self.objs or tgt.id in self.consts:
                raise Unsupported('assignment to %s' % tgt.id)
            pre, t, ty = self.value(value)
            return pre + self.bind_local(tgt.id, t, ty)
        if isinstance(tgt, ast.Attribute) and isinstance(tgt.value, ast.Name) and tgt.value.id in self.objs:
            o = tgt.value.id
            pre, t, ty = self.value(value)
            if tgt.attr == 'pduData':
                if ty != 'BYTES':
                    raise Unsupported('%s.pduData = a %s value' % (o, ty))
                d = self.fresh('d')
                self.objs[o][1] = d
                return pre + ['let %s := %s in ' % (d, t)]
            if tgt.attr in NUM_FIELDS:
                fld, want = NUM_FIELDS[tgt.attr], 'OZ'
            elif tgt.attr in FLAG_FIELDS:
                fld, want = FLAG_FIELDS[tgt.attr], 'OB'
            else:
                raise Unsupported('assignment to attribute %s.%s, not in the model' % (o, tgt.attr))
            a = self.fresh('a')
            txt = 'let %s := set_%s %s %s in ' % (a, fld, self.objs[o][0], self.coerce(t, ty, want, tgt.attr))
            self.objs[o][0] = a
            return pre + [txt]
        raise Unsupported('assignment target %s' % type(tgt).__name__)

    def call_stmt(self, e):
        f = e.func
        # Class.method(a, b): skip list, or a translated method (static dispatch on the named class)
        if isinstance(f, ast.Attribute) and isinstance(f.value, ast.Name) and f.value.id not in self.objs:
            key = (f.value.id, f.attr)
            names = [a.id for a in e.args if isinstance(a, ast.Name) and a.id in self.objs]
            if len(names) != 2 or len(e.args) != 2 or e.keywords or names[0] == names[1]:
                raise Unsupported('call %s.%s: argument shape' % key)
            if key in SKIP_CALLS:
                return []
            if key in self.done:
                x, y = names
                ax, dx, ay, dy = self.fresh('a'), self.fresh('d'), self.fresh('a'), self.fresh('d')
                txt = 'do ((%s, %s), (%s, %s)) <- %s %s %s %s %s; ' % (
                    ax, dx, ay, dy, coq_name(*key), self.objs[x][0], self.objs[x][1], self.objs[y][0], self.objs[y][1])
                self.objs[x] = [ax, dx]
                self.objs[y] = [ay, dy]
                return [txt]
            raise Unsupported('call of %s.%s, which is neither translated nor on the skip list' % key)
        oc = self.obj_call(e)
        if oc:
            o, m, args = oc
            if m == 'put' and len(args) == 1:
                pre, t, ty = self.value(args[0])
                d = self.fresh('d')
                if ty == 'OZ':
                    txt = 'do %s <- a_put_field %s %s; ' % (d, self.objs[o][1], t)
                elif ty in ('Z', 'N', 'LIT'):
                    txt = 'do %s <- a_put %s %s; ' % (d, self.objs[o][1], self.as_z(t, ty))
                else:
                    raise Unsupported('put of a %s value' % ty)
                self.objs[o][1] = d
                return pre + [txt]
            if m in ('put_short', 'put_long') and len(args) == 1:
                pre, t, ty = self.num(args[0])
                d = self.fresh('d')
                txt = 'let %s := %s ++ a_%s %s in ' % (d, self.objs[o][1], m, self.as_z(t, ty))
                self.objs[o][1] = d
                return pre + [txt]
            if m == 'put_data' and len(args) == 1:
                pre, t, ty = self.value(args[0])
                if ty != 'BYTES':
                    raise Unsupported('put_data of a %s value' % ty)
                d = self.fresh('d')
                txt = 'let %s := %s ++ %s in ' % (d, self.objs[o][1], t)       # after the argument was evaluated
                self.objs[o][1] = d
                return pre + [txt]
            if m in ('get', 'get_short', 'get_long', 'get_data'):
                pre, _, _ = self.call_value(e)                                   # value dropped, effect kept
                return pre
            raise Unsupported('call %s.%s/%d' % (o, m, len(args)))
        raise Unsupported('call %s' % ast.dump(f)[:80])

    def if_stmt(self, s, rest, k):
        pre, c = self.cond(s.test)
        saved_objs = {o: list(v) for o, v in self.objs.items()}
        saved_locals = dict(self.locals)
        # the continuation: a function of both objects and of every local alive before the `if`
        klocals = [(n, saved_locals[n][1]) for n in sorted(saved_locals)]
        kname = self.fresh('k')
        params = []
        self.objs = {}
        for o in self.order:
            a, d = self.fresh('a'), self.fresh('d')
            self.objs[o] = [a, d]
            params += ['(%s : apci)' % a, '(%s : list N)' % d]
        self.locals = {}
        for n, ty in klocals:
            v = self.fresh('py_' + n)
            self.locals[n] = (v, ty)
            params.append('(%s : %s)' % (v, COQ_TY[ty]))
        ktext = self.block(rest, k)
        kk = (kname, None, klocals)
        self.objs = {o: list(v) for o, v in saved_objs.items()}
        self.locals = dict(saved_locals)
        then = self.block(s.body, kk)
        self.objs = {o: list(v) for o, v in saved_objs.items()}
        self.locals = dict(saved_locals)
        other = self.block(s.orelse, kk)
        # what follows was translated inside ktext
        return ''.join(pre) + 'let %s := fun %s => %s in if %s then %s else %s' % (kname, ' '.join(params), ktext, c, then, other)

    def emit(self):
        a = self.node.args
        if a.vararg or a.kwarg or a.kwonlyargs or a.defaults or a.posonlyargs or len(a.args) != 2 or self.node.decorator_list:
            raise Unsupported('signature of %s.%s' % (self.cls, self.node.name))
        self.order = [x.arg for x in a.args]
        ps = []
        for o in self.order:
            av, dv = self.fresh('a'), self.fresh('d')
            self.objs[o] = [av, dv]
            ps += ['(%s : apci)' % av, '(%s : list N)' % dv]
        body = self.block(self.node.body, None)
        return '(* %s.%s(%s) — apdu.py:%d *)\nDefinition %s %s : res (pyobj * pyobj) :=\n  %s.\n' % (
            self.cls, self.node.name, ', '.join(self.order), self.node.lineno, coq_name(self.cls, self.node.name),
            ' '.join(ps), body)


def _class_guards(classes):
    for c, want in BASES.items():
        if c not in classes:
            raise Unsupported('class %s not found' % c)
        got = [b.id if isinstance(b, ast.Name) else ast.dump(b) for b in classes[c].bases]
        if got != want:
            raise Unsupported('class %s derives from %r, expected %r' % (c, got, want))
    # APCI.__init__: exactly the thirteen attributes of the model, all None
    init = [n for n in classes['APCI'].body if isinstance(n, ast.FunctionDef) and n.name == '__init__']
    if len(init) != 1:
        raise Unsupported('APCI.__init__ not found')
    assigned = []
    for s in init[0].body:
        if isinstance(s, ast.Assign) and len(s.targets) == 1 and isinstance(s.targets[0], ast.Attribute) \
                and isinstance(s.targets[0].value, ast.Name) and s.targets[0].value.id == 'self':
            if not (isinstance(s.value, ast.Constant) and s.value.value is None):
                raise Unsupported('APCI.__init__: %s is not initialised to None' % s.targets[0].attr)
            assigned.append(s.targets[0].attr)
    if assigned != INIT_ORDER:
        raise Unsupported('APCI.__init__ assigns %r, the model has %r' % (assigned, INIT_ORDER))
    consts = {}
    for c in PDU_CLASSES:
        if c not in classes:
            raise Unsupported('class %s not found' % c)
        node = classes[c]
        got = [b.id if isinstance(b, ast.Name) else ast.dump(b) for b in node.bases]
        if got != ['_APDU']:
            raise Unsupported('class %s derives from %r, expected _APDU' % (c, got))
        for n in node.body:
            if isinstance(n, ast.FunctionDef) and n.name in ('encode', 'decode', 'update', 'put', 'get', 'put_data', 'get_data'):
                raise Unsupported('class %s overrides %s (not translated)' % (c, n.name))
            if isinstance(n, ast.Assign) and any(isinstance(t, ast.Name) and t.id == 'pduType' for t in n.targets):
                if len(n.targets) != 1 or not (isinstance(n.value, ast.Constant) and isinstance(n.value.value, int)
                                                and not isinstance(n.value.value, bool)) or c in consts:
                    raise Unsupported('%s.pduType is not a single int literal' % c)
                consts[c] = n.value.value
        if c not in consts:
            raise Unsupported('%s.pduType not found' % c)
    return consts


def gen_apci_fns():
    tree = ast.parse(open(SRC).read())
    classes, tables = {}, {}
    for node in tree.body:
        if isinstance(node, ast.ClassDef):
            if node.name in classes:
                raise Unsupported('class %s defined twice' % node.name)
            classes[node.name] = node
        elif isinstance(node, ast.Assign) and len(node.targets) == 1 and isinstance(node.targets[0], ast.Name):
            try:
                val = ast.literal_eval(node.value)
            except Exception:
                continue
            if isinstance(val, list) and all(v is None or (isinstance(v, int) and not isinstance(v, bool)) for v in val):
                tables[node.targets[0].id] = val
    consts = _class_guards(classes)
    out = ['(* GENERATED by translator/gen_apci.py from py34/bacpypes/apdu.py — do not edit *)',
           'From Bac Require Import Base Apci ApciRt.', 'Open Scope Z_scope.', '',
           '(* pduType class constants *)']
    for c in PDU_CLASSES:
        out.append('Definition %s_pduType : Z := %s.' % (c, zlit(consts[c])))
    out.append('#[global] Hint Unfold %s : apci_consts.' % ' '.join('%s_pduType' % c for c in PDU_CLASSES))
    out.append('Definition pdu_type_constants : list Z := [%s].' % '; '.join('%s_pduType' % c for c in PDU_CLASSES))
    out.append('')
    done = set()
    for cls, meth in METHODS:
        nodes = [n for n in classes[cls].body if isinstance(n, ast.FunctionDef) and n.name == meth]
        if len(nodes) != 1:
            raise Unsupported('%s.%s: %d definitions' % (cls, meth, len(nodes)))
        try:
            out.append(Meth(cls, nodes[0], consts, tables, done).emit())
        except Unsupported as e:
            raise Unsupported('apdu.py %s.%s: %s' % (cls, meth, e))
        done.add((cls, meth))
    return '\n'.join(out)


TARGETS = {'ApciFns.v': gen_apci_fns}
