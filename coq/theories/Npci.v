(* Npci.v — model of the network-layer header codec and the twelve network-layer messages.
   Mirrors py34/bacpypes/npdu.py as it is:
     NPCI.encode  (npdu.py:76-141)   -> enc_npci        NPDU.encode (263-265) -> enc_npdu
     NPCI.decode  (npdu.py:143-204)  -> dec_npci        NPDU.decode (267-269) -> dec_npdu
     <Message>.encode/.decode (npdu.py:318-798)         -> enc_msg / dec_msg
     npdu_types / register_npdu_type (npdu.py:18-21)    -> the dispatch of dec_msg (KeyError otherwise)
   Addresses are the three shapes of pdu.py:530-600 reduced to (net, MAC octets).
   No proofs here (see NpciFacts.v, NpciMsgFacts.v). *)
From Coq Require Import String.
From Bac Require Import Base.
Open Scope N_scope.

(* ---- addresses: pdu.RemoteStation / RemoteBroadcast / GlobalBroadcast.
   addrLen is always len(addrAddr) for a RemoteStation (pdu.py:546-553), so it is not a field. *)
Inductive addr : Type :=
| RStation (net : N) (mac : list N)
| RBroadcast (net : N)
| GBroadcast.

(* ---- the header fields.  `ver` is npduVersion (1 after __init__), `er` the truth value of
   pduExpectingReply, `prio` pduNetworkPriority; None stands for Python None. *)
Record npci : Type := mkNpci {
  ver : N; er : bool; prio : N;
  dadr : option addr; sadr : option addr;
  hop : option N; nmsg : option N; vendor : option N }.

(* pdu.put(x) with x possibly None: bytes([None]) raises TypeError *)
Definition put_opt (o : option N) : res (list N) :=
  match o with None => Err TypeErr | Some n => put n end.

(* npdu.py:115-124 *)
Definition enc_dadr (a : addr) : res (list N) :=
  match a with
  | RStation net mac => do l <- put (lenN mac); Ok (put_short net ++ l ++ mac)
  | RBroadcast net => Ok (put_short net ++ [0])
  | GBroadcast => Ok [255; 255; 0]
  end.

(* npdu.py:128-130: written for a station; a broadcast object has addrLen (or addrNet) None *)
Definition enc_sadr (a : addr) : res (list N) :=
  match a with
  | RStation net mac => do l <- put (lenN mac); Ok (put_short net ++ l ++ mac)
  | RBroadcast _ => Err TypeErr          (* put(None) *)
  | GBroadcast => Err TypeErr            (* None & 0xFFFF *)
  end.

Definition is_vendor_type (t : N) : bool := (0x80 <=? t) && (t <=? 0xFF).

(* npdu.py:86-107 *)
Definition control_of (h : npci) : N :=
  let nlm := match nmsg h with Some _ => 0x80 | None => 0 end in
  let dp := match dadr h with Some _ => 0x20 | None => 0 end in
  let sp := match sadr h with Some _ => 0x08 | None => 0 end in
  let c0 := N.lor (N.lor nlm dp) sp in
  let c1 := if er h then N.lor c0 0x04 else c0 in
  N.lor c1 (N.land (prio h) 0x03).

Definition enc_npci (h : npci) : res (list N) :=
  do v <- put (ver h);
  do c <- put (control_of h);
  do d <- match dadr h with Some a => enc_dadr a | None => Ok [] end;
  do s <- match sadr h with Some a => enc_sadr a | None => Ok [] end;
  do hp <- match dadr h with Some _ => put_opt (hop h) | None => Ok [] end;
  do m <- match nmsg h with
          | Some t =>
              do tb <- put t;
              if is_vendor_type t then
                match vendor h with
                | None => Err TypeErr                  (* None & 0xFFFF *)
                | Some vd => Ok (tb ++ put_short vd)
                end
              else Ok tb
          | None => Ok []
          end;
  Ok (v ++ c ++ d ++ s ++ hp ++ m).

Definition enc_npdu (h : npci) (payload : list N) : res (list N) :=
  do hd <- enc_npci h; Ok (hd ++ payload).

(* npdu.py:143-204, cut at the comments of the source into one reader per optional field.
   Every reader returns (value, remaining octets). *)
Definition dec_opt {A} (present : bool) (f : list N -> res (A * list N)) (bs : list N)
  : res (option A * list N) :=
  if present then do (x, r) <- f bs; Ok (Some x, r) else Ok (None, bs).

(* npdu.py:168-177; RemoteStation/RemoteBroadcast constructors cannot refuse here: dnet <> 0xFFFF
   and dnet < 65536 for octet input *)
Definition dec_dadr (bs : list N) : res (addr * list N) :=
  do (dnet, q1) <- get_short bs;
  do (dlen, q2) <- get q1;
  do (mac, q3) <- get_data dlen q2;
  Ok (if dnet =? 0xFFFF then GBroadcast
      else if dlen =? 0 then RBroadcast dnet
      else RStation dnet mac, q3).

(* npdu.py:181-190 *)
Definition dec_sadr (bs : list N) : res (addr * list N) :=
  do (snet, q1) <- get_short bs;
  do (slen, q2) <- get q1;
  do (mac, q3) <- get_data slen q2;
  if snet =? 0xFFFF then Err DecodingError
  else if slen =? 0 then Err DecodingError
  else Ok (RStation snet mac, q3).

(* npdu.py:198-201: message type and, for 0x80..0xFF, the vendor id *)
Definition dec_mt (bs : list N) : res ((N * option N) * list N) :=
  do (t, q1) <- get bs;
  if is_vendor_type t then
    do (vd, q2) <- get_short q1; Ok ((t, Some vd), q2)
  else Ok ((t, None), q1).

(* Result: (raw control octet as stored in npduControl, fields, remaining octets). *)
Definition dec_npci (bs : list N) : res (N * npci * list N) :=
  if lenN bs <? 2 then Err DecodingError else
  do (v, r1) <- get bs;
  if negb (v =? 1) then Err DecodingError else
  do (c, r2) <- get r1;
  let nlm := negb (N.land c 0x80 =? 0) in
  let dp := negb (N.land c 0x20 =? 0) in
  let sp := negb (N.land c 0x08 =? 0) in
  let e := negb (N.land c 0x04 =? 0) in
  let p := N.land c 0x03 in
  do (d, r3) <- dec_opt dp dec_dadr r2;
  do (s, r4) <- dec_opt sp dec_sadr r3;
  do (hp, r5) <- dec_opt dp get r4;
  do (mv, r6) <- dec_opt nlm dec_mt r5;
  Ok (c, mkNpci v e p d s hp (option_map fst mv)
                (match mv with Some (_, vd) => vd | None => None end), r6).

(* NPDU.decode: the rest of the buffer is the payload *)
Definition dec_npdu := dec_npci.

(* ---- clause 6.2 layout, written from the standard (figure 6-1 / 6.2.2), independent of enc_npci:
   version, control (bit7 network message, bit5 DNET present, bit3 SNET present, bit2 data
   expecting reply, bits1-0 priority; bits 6 and 4 zero), DNET DLEN DADR, SNET SLEN SADR,
   hop count, message type, vendor id. *)
Definition b2n (b : bool) : N := if b then 1 else 0.
Definition is_some {A} (o : option A) : bool := match o with Some _ => true | None => false end.
Definition spec_control (h : npci) : N :=
  128 * b2n (is_some (nmsg h)) + 32 * b2n (is_some (dadr h)) + 8 * b2n (is_some (sadr h))
  + 4 * b2n (er h) + prio h.
Definition spec_addr (a : addr) : list N :=
  match a with
  | RStation net mac => [net / 256; net mod 256; lenN mac] ++ mac
  | RBroadcast net => [net / 256; net mod 256; 0]
  | GBroadcast => [255; 255; 0]
  end.
Definition opt_list {A} (o : option A) (f : A -> list N) : list N :=
  match o with Some a => f a | None => [] end.
Definition spec6_2 (h : npci) : list N :=
  [1; spec_control h]
  ++ opt_list (dadr h) spec_addr
  ++ opt_list (sadr h) spec_addr
  ++ opt_list (hop h) (fun x => [x])
  ++ opt_list (nmsg h) (fun t => [t])
  ++ opt_list (vendor h) (fun v => [v / 256; v mod 256]).

(* ---- well-formed headers: the domain of the property *)
Definition wf_station (net : N) (mac : list N) : bool :=
  (net <? 65535) && (1 <=? lenN mac) && (lenN mac <=? 255) && bytes_ok mac.
Definition wf_dadr (a : addr) : bool :=
  match a with
  | RStation net mac => wf_station net mac
  | RBroadcast net => net <? 65535
  | GBroadcast => true
  end.
Definition wf_sadr (a : addr) : bool :=
  match a with RStation net mac => wf_station net mac | _ => false end.
Definition wf_opt {A} (f : A -> bool) (o : option A) : bool :=
  match o with Some a => f a | None => true end.
Definition wf_npci (h : npci) : bool :=
  (ver h =? 1) && (prio h <? 4)
  && wf_opt wf_dadr (dadr h) && wf_opt wf_sadr (sadr h)
  && match dadr h, hop h with
     | Some _, Some x => x <? 256
     | None, None => true
     | _, _ => false
     end
  && match nmsg h, vendor h with
     | Some t, Some v => is_vendor_type t && (v <? 65536)
     | Some t, None => t <? 128
     | None, None => true
     | None, Some _ => false
     end.

(* ---- network-layer messages *)
Record rte : Type := mkRte { rt_dnet : N; rt_port : N; rt_info : list N }.

Inductive msg : Type :=
| WhoIsRouter (net : option N)
| IAmRouter (nets : list N)
| ICouldBeRouter (net perf : N)
| RejectMessage (reason dnet : N)
| RouterBusy (nets : list N)
| RouterAvailable (nets : list N)
| InitRT (tbl : list rte)
| InitRTAck (tbl : list rte)
| EstablishConn (dnet term : N)
| DisconnectConn (dnet : N)
| WhatIsNetNum
| NetNumIs (net flag : N).

Definition msg_type (m : msg) : N :=
  match m with
  | WhoIsRouter _ => 0x00 | IAmRouter _ => 0x01 | ICouldBeRouter _ _ => 0x02
  | RejectMessage _ _ => 0x03 | RouterBusy _ => 0x04 | RouterAvailable _ => 0x05
  | InitRT _ => 0x06 | InitRTAck _ => 0x07 | EstablishConn _ _ => 0x08
  | DisconnectConn _ => 0x09 | WhatIsNetNum => 0x12 | NetNumIs _ _ => 0x13
  end.

Definition registered_types : list N := [0; 1; 2; 3; 4; 5; 6; 7; 8; 9; 0x12; 0x13].

(* the class each constructor stands for (type(obj).__name__), its number of parameter fields, and
   one witness per constructor: the model's side of the registry table (NpciRegistry.v compares it
   with the table translated from npdu.npdu_types) *)
Definition msg_class_name (m : msg) : String.string :=
  match m with
  | WhoIsRouter _ => "WhoIsRouterToNetwork" | IAmRouter _ => "IAmRouterToNetwork"
  | ICouldBeRouter _ _ => "ICouldBeRouterToNetwork" | RejectMessage _ _ => "RejectMessageToNetwork"
  | RouterBusy _ => "RouterBusyToNetwork" | RouterAvailable _ => "RouterAvailableToNetwork"
  | InitRT _ => "InitializeRoutingTable" | InitRTAck _ => "InitializeRoutingTableAck"
  | EstablishConn _ _ => "EstablishConnectionToNetwork" | DisconnectConn _ => "DisconnectConnectionToNetwork"
  | WhatIsNetNum => "WhatIsNetworkNumber" | NetNumIs _ _ => "NetworkNumberIs"
  end%string.
Definition msg_arity (m : msg) : nat :=
  match m with
  | WhoIsRouter _ | IAmRouter _ | RouterBusy _ | RouterAvailable _ | InitRT _ | InitRTAck _
  | DisconnectConn _ => 1
  | ICouldBeRouter _ _ | RejectMessage _ _ | EstablishConn _ _ | NetNumIs _ _ => 2
  | WhatIsNetNum => 0
  end%nat.
Definition msg_witnesses : list msg :=
  [WhoIsRouter None; IAmRouter []; ICouldBeRouter 0 0; RejectMessage 0 0; RouterBusy [];
   RouterAvailable []; InitRT []; InitRTAck []; EstablishConn 0 0; DisconnectConn 0;
   WhatIsNetNum; NetNumIs 0 0].
Definition model_registry : list (N * String.string) :=
  map (fun m => (msg_type m, msg_class_name m)) msg_witnesses.

Definition put_nets (l : list N) : list N := flat_map put_short l.

(* the for-loop of InitializeRoutingTable(.Ack).encode, npdu.py:583-587 *)
Fixpoint enc_rtes (t : list rte) : res (list N) :=
  match t with
  | [] => Ok []
  | e :: r =>
      do p <- put (rt_port e);
      do l <- put (lenN (rt_info e));
      do rest <- enc_rtes r;
      Ok (put_short (rt_dnet e) ++ p ++ l ++ rt_info e ++ rest)
  end.

Definition enc_table (t : list rte) : res (list N) :=
  do n <- put (lenN t); do b <- enc_rtes t; Ok (n ++ b).

Definition enc_msg (m : msg) : res (list N) :=
  match m with
  | WhoIsRouter None => Ok []
  | WhoIsRouter (Some n) => Ok (put_short n)
  | IAmRouter l | RouterBusy l | RouterAvailable l => Ok (put_nets l)
  | ICouldBeRouter net perf => do p <- put perf; Ok (put_short net ++ p)
  | RejectMessage reason dnet => do r <- put reason; Ok (r ++ put_short dnet)
  | InitRT t | InitRTAck t => enc_table t
  | EstablishConn dnet term => do t <- put term; Ok (put_short dnet ++ t)
  | DisconnectConn dnet => Ok (put_short dnet)
  | WhatIsNetNum => Ok []
  | NetNumIs net flag => do f <- put flag; Ok (put_short net ++ f)
  end.

(* `while npdu.pduData: append(get_short())` — structural on the buffer, two octets a time *)
Fixpoint dec_nets (bs : list N) : res (list N) :=
  match bs with
  | [] => Ok []
  | [_] => Err DecodingError
  | a :: b :: r => do l <- dec_nets r; Ok (a * 256 + b :: l)
  end.

(* `for i in range(rtLength)` *)
Fixpoint dec_rtes (n : nat) (bs : list N) : res (list rte * list N) :=
  match n with
  | O => Ok ([], bs)
  | S n' =>
      do (dnet, q1) <- get_short bs;
      do (port, q2) <- get q1;
      do (ilen, q3) <- get q2;
      do (info, q4) <- get_data ilen q3;
      do (rest, q5) <- dec_rtes n' q4;
      Ok (mkRte dnet port info :: rest, q5)
  end.

Definition dec_table (bs : list N) : res (list rte * list N) :=
  do (n, r) <- get bs; dec_rtes (N.to_nat n) r.

(* npdu_types[t]().decode(npdu): result = (message, octets left in npdu.pduData) *)
Definition dec_msg (t : N) (bs : list N) : res (msg * list N) :=
  if t =? 0x00 then
    match bs with
    | [] => Ok (WhoIsRouter None, [])
    | _ => do (n, r) <- get_short bs; Ok (WhoIsRouter (Some n), r)
    end
  else if t =? 0x01 then do l <- dec_nets bs; Ok (IAmRouter l, [])
  else if t =? 0x02 then
    do (n, r) <- get_short bs; do (p, r') <- get r; Ok (ICouldBeRouter n p, r')
  else if t =? 0x03 then
    do (x, r) <- get bs; do (n, r') <- get_short r; Ok (RejectMessage x n, r')
  else if t =? 0x04 then do l <- dec_nets bs; Ok (RouterBusy l, [])
  else if t =? 0x05 then do l <- dec_nets bs; Ok (RouterAvailable l, [])
  else if t =? 0x06 then do (tb, r) <- dec_table bs; Ok (InitRT tb, r)
  else if t =? 0x07 then do (tb, r) <- dec_table bs; Ok (InitRTAck tb, r)
  else if t =? 0x08 then
    do (n, r) <- get_short bs; do (x, r') <- get r; Ok (EstablishConn n x, r')
  else if t =? 0x09 then do (n, r) <- get_short bs; Ok (DisconnectConn n, r)
  else if t =? 0x12 then Ok (WhatIsNetNum, bs)
  else if t =? 0x13 then
    do (n, r) <- get_short bs; do (f, r') <- get r; Ok (NetNumIs n f, r')
  else Err KeyErr.

(* whole frames: message.encode(npdu); npdu.encode(pdu)  /  NPDU.decode(pdu); npdu_types[t]().decode(npdu) *)
Definition with_msg (h : npci) (t : N) : npci :=
  mkNpci (ver h) (er h) (prio h) (dadr h) (sadr h) (hop h) (Some t) (vendor h).

Definition enc_frame (h : npci) (m : msg) : res (list N) :=
  do b <- enc_msg m;
  do hd <- enc_npci (with_msg h (msg_type m));
  Ok (hd ++ b).

Definition dec_frame (bs : list N) : res (N * npci * msg * list N) :=
  do (ch, r) <- dec_npci bs;
  match nmsg (snd ch) with
  | None => Err KeyErr       (* npdu_types[None] *)
  | Some t => do (m, r') <- dec_msg t r; Ok (fst ch, snd ch, m, r')
  end.

Definition wf_rte (e : rte) : bool :=
  (rt_dnet e <? 65536) && (rt_port e <? 256) && (lenN (rt_info e) <? 256).
Definition wf_nets (l : list N) : bool := forallb (fun n => n <? 65536) l.
Definition wf_table (t : list rte) : bool := (lenN t <? 256) && forallb wf_rte t.
Definition wf_msg (m : msg) : bool :=
  match m with
  | WhoIsRouter None => true
  | WhoIsRouter (Some n) => n <? 65536
  | IAmRouter l | RouterBusy l | RouterAvailable l => wf_nets l
  | ICouldBeRouter n p | EstablishConn n p | NetNumIs n p => (n <? 65536) && (p <? 256)
  | RejectMessage x n => (x <? 256) && (n <? 65536)
  | InitRT t | InitRTAck t => wf_table t
  | DisconnectConn n => n <? 65536
  | WhatIsNetNum => true
  end.

(* ---- decode, then encode the SAME object again: a plain re-encode, the router's forward
   (netservice.py:614-633,665: drop at hop count 0, hop count - 1, SADR filled in when absent, DADR
   removed on the last leg), and a message object decoded through the registry and encoded again.
   encode does not read the stored npduControl, so in the model the decoded control octet plays no part *)
Record fwd : Type := mkFwd { f_sadr : option addr; f_strip : bool }.
Definition apply_fwd (f : fwd) (h : npci) : res npci :=
  do hp <- match hop h with
           | None => Err TypeErr                          (* None -= 1 *)
           | Some x => Ok (Some (x - 1))                  (* x >= 1: hop count 0 is dropped before *)
           end;
  Ok (mkNpci (ver h) (er h) (prio h) (if f_strip f then None else dadr h)
             (match sadr h with Some a => Some a | None => f_sadr f end) hp (nmsg h) (vendor h)).
Definition reenc (bs : list N) : res (list N) :=
  do (ch, r) <- dec_npci bs; enc_npdu (snd ch) r.
(* None = not forwarded (hop count exhausted) *)
Definition reenc_fwd (f : fwd) (bs : list N) : res (option (list N)) :=
  do (ch, r) <- dec_npci bs;
  match hop (snd ch) with
  | Some 0 => Ok None
  | _ => do h' <- apply_fwd f (snd ch); do o <- enc_npdu h' r; Ok (Some o)
  end.
Definition reenc_frame (bs : list N) : res (list N) :=
  do x <- dec_frame bs; let '(_, h, m, _) := x in enc_frame h m.

(* ---- a process decodes many messages one after the other: in the model that is a map of the
   decoders over the inputs — there is no state for an earlier decode to leave behind *)
Inductive op : Type :=
| OpDecMsg (t : N) (body : list N)       (* npdu_types[t]().decode(NPDU(body)) *)
| OpDecNpdu (bs : list N)                (* NPDU().decode(PDU(bs)) *)
| OpEncMsg (m : msg).                    (* message.encode(NPDU()) *)
Inductive op_result : Type :=
| RDecMsg (r : res (msg * list N))
| RDecNpdu (r : res (N * npci * list N))
| REncMsg (r : res (list N)).
Definition run_op (o : op) : op_result :=
  match o with
  | OpDecMsg t b => RDecMsg (dec_msg t b)
  | OpDecNpdu bs => RDecNpdu (dec_npdu bs)
  | OpEncMsg m => REncMsg (enc_msg m)
  end.
Definition run_history (h : list op) : list op_result := map run_op h.

(* ---- canonical outputs for the correspondence check *)
Definition canon_res {A} (f : A -> list Z) (r : res A) : list Z :=
  match r with Ok a => 0%Z :: f a | Err e => [1%Z; err_code e] end.
Definition canon_opt {A} (f : A -> list Z) (o : option A) : list Z :=
  match o with None => [0%Z] | Some a => 1%Z :: f a end.
Definition canon_addr (a : addr) : list Z :=
  match a with
  | RStation net mac => [0%Z; zN net; zlen mac] ++ zs mac
  | RBroadcast net => [1%Z; zN net]
  | GBroadcast => [2%Z]
  end.
Definition canon_n (n : N) : list Z := [zN n].
Definition canon_npci (h : npci) : list Z :=
  [zN (ver h); zb (er h); zN (prio h)]
  ++ canon_opt canon_addr (dadr h) ++ canon_opt canon_addr (sadr h)
  ++ canon_opt canon_n (hop h) ++ canon_opt canon_n (nmsg h) ++ canon_opt canon_n (vendor h).
Definition canon_rest (r : list N) : list Z := zlen r :: zs r.
Definition canon_dec (x : N * npci * list N) : list Z :=
  let '(c, h, r) := x in zN c :: canon_npci h ++ canon_rest r.
Definition canon_rte (e : rte) : list Z :=
  [zN (rt_dnet e); zN (rt_port e); zlen (rt_info e)] ++ zs (rt_info e).
Definition canon_msg (m : msg) : list Z :=
  zN (msg_type m) ::
  match m with
  | WhoIsRouter o => canon_opt canon_n o
  | IAmRouter l | RouterBusy l | RouterAvailable l => zlen l :: zs l
  | ICouldBeRouter a b | RejectMessage a b | EstablishConn a b | NetNumIs a b => [zN a; zN b]
  | InitRT t | InitRTAck t => zlen t :: flat_map canon_rte t
  | DisconnectConn a => [zN a]
  | WhatIsNetNum => []
  end.
Definition canon_decmsg (x : msg * list N) : list Z := canon_msg (fst x) ++ canon_rest (snd x).
Definition canon_frame (x : N * npci * msg * list N) : list Z :=
  let '(c, h, m, r) := x in zN c :: canon_npci h ++ canon_msg m ++ canon_rest r.
Definition canon_op_result (r : op_result) : list Z :=
  match r with
  | RDecMsg x => canon_res canon_decmsg x
  | RDecNpdu x => canon_res canon_dec x
  | REncMsg x => canon_res zs x
  end.
(* each result is prefixed by its length so that the concatenation is unambiguous *)
Definition canon_history (rs : list op_result) : list Z :=
  zlen rs :: flat_map (fun r => let c := canon_op_result r in zlen c :: c) rs.
Definition canon_optbytes (o : option (list N)) : list Z :=
  match o with None => [0%Z] | Some l => 1%Z :: zs l end.
