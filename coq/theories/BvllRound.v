(* BvllRound.v — round trip of the twelve BVLL messages (model Bvll.v). *)
From Bac Require Import Base BytesFacts Bvll BvllFacts.
From Coq Require Import ZifyBool ZifyN ZifyNat.
Ltac Zify.zify_post_hook ::= Z.to_euclidean_division_equations.
Open Scope N_scope.

Lemma lookup_kind_of k : lookup_fn (fn_of_kind k) bvl_pdu_types = Some k.
Proof. destruct k; vm_compute; reflexivity. Qed.

Lemma wf_addr_inv a : wf_addr a = true -> exists l, a = ABytes l /\ lenN l = 6 /\ bytes_ok l = true.
Proof.
  destruct a as [| |l]; cbn [wf_addr]; try discriminate.
  intros H. apply andb_true_iff in H as [H1 H2]. exists l. repeat split; [lia|assumption].
Qed.

Lemma dec_addr_app l rest : lenN l = 6 -> dec_addr (l ++ rest) = Ok (ABytes l, rest).
Proof. intros H. unfold dec_addr. rewrite <- H, get_data_app. reflexivity. Qed.

Lemma wf_short_inv o : wf_short o = true -> exists z, o = Some z /\ (0 <= z < 65536)%Z.
Proof. destruct o as [z|]; cbn [wf_short]; [|discriminate]. intros H. exists z. split; [reflexivity|lia]. Qed.

Lemma put_short_o_ok z : (0 <= z < 65536)%Z -> put_short_o (Some z) = Ok (be2 (Z.to_N z)).
Proof. intros H. unfold put_short_o. rewrite Z.mod_small by lia. reflexivity. Qed.

Lemma get_short_be2_nil n : n < 65536 -> get_short (be2 n) = Ok (n, []).
Proof. intros H. rewrite <- (app_nil_r (be2 n)). now apply get_short_be2. Qed.

(* ---- tables ----------------------------------------------------------------------------- *)
Lemma wf_bdte_inv e : wf_bdte e = true ->
  exists l z, e = mkBdte (ABytes l) (Some z) /\ lenN l = 6 /\ bytes_ok l = true /\
              (0 <= z < 4294967296)%Z /\ enc_bdte e = Ok (l ++ be4 (Z.to_N z)).
Proof.
  destruct e as [a [z|]]; unfold wf_bdte; cbn [b_addr b_mask]; intros H;
    apply andb_true_iff in H as [Ha Hz]; [|discriminate].
  apply wf_addr_inv in Ha as (l & -> & Hl & Hb). exists l, z. repeat split; try assumption; try lia.
  unfold enc_bdte, put_long_z; cbn [b_addr b_mask addr_bytes bind]. rewrite Z.mod_small by lia. reflexivity.
Qed.

Lemma dec_bdt_fuel_step f l mz rest :
  lenN l = 6 -> mz < 4294967296 ->
  dec_bdt_fuel (S f) (l ++ be4 mz ++ rest) =
  do t <- dec_bdt_fuel f rest; Ok (mkBdte (ABytes l) (Some (Z.of_N mz)) :: t).
Proof.
  intros Hl Hm. destruct l as [|x l']; [unfold lenN in Hl; cbn in Hl; lia|].
  change ((x :: l') ++ be4 mz ++ rest) with (x :: (l' ++ be4 mz ++ rest)). cbn [dec_bdt_fuel].
  change (x :: l' ++ be4 mz ++ rest) with ((x :: l') ++ be4 mz ++ rest).
  rewrite dec_addr_app by assumption. cbn [bind]. rewrite get_long_be4 by assumption. reflexivity.
Qed.

Lemma enc_bdt_wf t : forallb wf_bdte t = true ->
  exists body, enc_bdt t = Ok body /\ lenN body = 10 * lenN t /\
    forall fuel, (length body <= fuel)%nat -> dec_bdt_fuel fuel body = Ok t.
Proof.
  induction t as [|e t IH]; cbn [forallb enc_bdt]; intros H.
  - exists []. repeat split. intros [|f] _; reflexivity.
  - apply andb_true_iff in H as [He Ht]. destruct (IH Ht) as (body & Hb & Hlen & Hdec).
    apply wf_bdte_inv in He as (l & z & -> & Hl & _ & Hz & He). rewrite He, Hb; cbn [bind].
    exists ((l ++ be4 (Z.to_N z)) ++ body). repeat split.
    + rewrite !lenN_app, lenN_be4, lenN_cons. lia.
    + intros fuel Hf. rewrite <- app_assoc in *. rewrite !app_length in Hf.
      assert (length l = 6%nat) by (unfold lenN in Hl; lia). cbn [be4 length] in Hf.
      destruct fuel as [|f]; [lia|].
      rewrite dec_bdt_fuel_step by (try assumption; lia).
      rewrite Hdec by lia. cbn [bind]. rewrite Z2N.id by lia. reflexivity.
Qed.

Lemma wf_fdte_inv e : wf_fdte e = true ->
  exists l t r, e = mkFdte (ABytes l) (Some t) (Some r) /\ lenN l = 6 /\ bytes_ok l = true /\
              (0 <= t < 65536)%Z /\ (0 <= r < 65536)%Z /\
              enc_fdte e = Ok (l ++ be2 (Z.to_N t) ++ be2 (Z.to_N r)).
Proof.
  destruct e as [a t r]; unfold wf_fdte; cbn [f_addr f_ttl f_rem]; intros H.
  apply andb_true_iff in H as [H Hr]. apply andb_true_iff in H as [Ha Ht].
  apply wf_addr_inv in Ha as (l & -> & Hl & Hb).
  apply wf_short_inv in Ht as (tz & -> & Ht). apply wf_short_inv in Hr as (rz & -> & Hr).
  exists l, tz, rz. repeat split; try assumption; try lia.
  unfold enc_fdte; cbn [f_addr f_ttl f_rem addr_bytes bind]. rewrite !put_short_o_ok by lia. reflexivity.
Qed.

Lemma dec_fdt_fuel_step f l t r rest :
  lenN l = 6 -> t < 65536 -> r < 65536 ->
  dec_fdt_fuel (S f) (l ++ be2 t ++ be2 r ++ rest) =
  do x <- dec_fdt_fuel f rest; Ok (mkFdte (ABytes l) (Some (Z.of_N t)) (Some (Z.of_N r)) :: x).
Proof.
  intros Hl Ht Hr. destruct l as [|x l']; [unfold lenN in Hl; cbn in Hl; lia|].
  change ((x :: l') ++ be2 t ++ be2 r ++ rest) with (x :: (l' ++ be2 t ++ be2 r ++ rest)). cbn [dec_fdt_fuel].
  change (x :: l' ++ be2 t ++ be2 r ++ rest) with ((x :: l') ++ be2 t ++ be2 r ++ rest).
  rewrite dec_addr_app by assumption. cbn [bind]. rewrite get_short_be2 by assumption. cbn [bind].
  rewrite get_short_be2 by assumption. reflexivity.
Qed.

Lemma enc_fdt_wf t : forallb wf_fdte t = true ->
  exists body, enc_fdt t = Ok body /\ lenN body = 10 * lenN t /\
    forall fuel, (length body <= fuel)%nat -> dec_fdt_fuel fuel body = Ok t.
Proof.
  induction t as [|e t IH]; cbn [forallb enc_fdt]; intros H.
  - exists []. repeat split. intros [|f] _; reflexivity.
  - apply andb_true_iff in H as [He Ht]. destruct (IH Ht) as (body & Hb & Hlen & Hdec).
    apply wf_fdte_inv in He as (l & tz & rz & -> & Hl & _ & Htz & Hrz & He). rewrite He, Hb; cbn [bind].
    exists ((l ++ be2 (Z.to_N tz) ++ be2 (Z.to_N rz)) ++ body). repeat split.
    + rewrite !lenN_app, !lenN_be2, lenN_cons. lia.
    + intros fuel Hf. rewrite <- !app_assoc in *. rewrite !app_length in Hf.
      assert (length l = 6%nat) by (unfold lenN in Hl; lia). cbn [be2 length] in Hf.
      destruct fuel as [|f]; [lia|].
      rewrite dec_fdt_fuel_step by (try assumption; lia).
      rewrite Hdec by lia. cbn [bind]. rewrite !Z2N.id by lia. reflexivity.
Qed.

(* ---- per-class encode / decode ----------------------------------------------------------- *)
Lemma body_roundtrip m : wf_msg m = true ->
  exists body, enc_body m = Ok body /\ lenN body + 4 = frame_len m /\ dec_body (kind_of m) body = Ok m.
Proof.
  destruct m as [c|t| |t|a d|c| |t|a|d|d|d]; cbn [wf_msg enc_body frame_len kind_of dec_body]; intros W.
  - apply wf_short_inv in W as (z & -> & Hz). rewrite put_short_o_ok by lia.
    eexists; repeat split. rewrite get_short_be2_nil by lia. cbn [bind]. rewrite Z2N.id by lia. reflexivity.
  - destruct (enc_bdt_wf t W) as (body & Hb & Hl & Hd). exists body. repeat split; [assumption|lia|].
    unfold dec_bdt. rewrite Hd by lia. reflexivity.
  - exists []. repeat split.
  - destruct (enc_bdt_wf t W) as (body & Hb & Hl & Hd). exists body. repeat split; [assumption|lia|].
    unfold dec_bdt. rewrite Hd by lia. reflexivity.
  - apply andb_true_iff in W as [Wa _]. apply wf_addr_inv in Wa as (l & -> & Hl & _).
    cbn [addr_bytes bind]. exists (l ++ d). repeat split; [rewrite lenN_app; lia|].
    rewrite dec_addr_app by assumption. reflexivity.
  - apply wf_short_inv in W as (z & -> & Hz). rewrite put_short_o_ok by lia.
    eexists; repeat split. rewrite get_short_be2_nil by lia. cbn [bind]. rewrite Z2N.id by lia. reflexivity.
  - exists []. repeat split.
  - destruct (enc_fdt_wf t W) as (body & Hb & Hl & Hd). exists body. repeat split; [assumption|lia|].
    unfold dec_fdt. rewrite Hd by lia. reflexivity.
  - apply wf_addr_inv in W as (l & -> & Hl & _). cbn [addr_bytes]. exists l. repeat split; [lia|].
    rewrite <- (app_nil_r l) at 1. rewrite dec_addr_app by assumption. reflexivity.
  - exists d. repeat split. lia.
  - exists d. repeat split. lia.
  - exists d. repeat split. lia.
Qed.

(* ---- whole frames ------------------------------------------------------------------------ *)
Lemma frame_roundtrip m : wf_msg m = true -> frame_len m < 65536 ->
  exists bs, enc_frame m = Ok bs /\ dec_frame bs = Ok m /\ lenN bs = frame_len m.
Proof.
  intros W L. destruct (body_roundtrip m W) as (body & Hb & Hl & Hd).
  unfold enc_frame. rewrite (enc_frame_with_ok _ _ body Hb) by (rewrite enc_len_ctor; lia).
  eexists; split; [reflexivity|]. rewrite N.mod_small by lia. split.
  - unfold dec_frame. rewrite dec_bvlci_ok by lia. cbn [bind fst]. unfold dec_msg, fn_of.
    rewrite lookup_kind_of. assumption.
  - rewrite !lenN_cons, lenN_app, lenN_be2. lia.
Qed.

(* frames bear the Annex J length for their class whatever the parameters' values *)
Lemma frame_octets m : wf_msg m = true -> forall bs, enc_frame m = Ok bs -> lenN bs = frame_len m.
Proof.
  intros W bs H. destruct (body_roundtrip m W) as (body & Hb & Hl & _).
  unfold enc_frame in H. rewrite (enc_frame_with_ok _ _ body Hb) in H by (rewrite enc_len_ctor; lia).
  injection H as <-. cbn [be2 app]. rewrite !lenN_cons. lia.
Qed.

(* a table changed after construction: the three classes that keep the constructor's length refuse *)
Lemma stale_refused stored m : wf_msg m = true ->
  enc_len stored m <> frame_len m -> enc_frame_with stored m = Err EncodingError.
Proof.
  intros W H. destruct (body_roundtrip m W) as (body & Hb & Hl & _).
  apply (enc_frame_with_stale _ _ body Hb). lia.
Qed.

(* ---- the twelve, one by one --------------------------------------------------------------- *)
Lemma roundtrip_result c : (0 <= c < 65536)%Z ->
  exists bs, enc_frame (Result (Some c)) = Ok bs /\ dec_frame bs = Ok (Result (Some c)) /\ lenN bs = 6.
Proof. intros H. apply (frame_roundtrip (Result (Some c))); cbn [wf_msg wf_short frame_len]; lia. Qed.

Lemma roundtrip_write_bdt t : forallb wf_bdte t = true -> lenN t <= 6553 ->
  exists bs, enc_frame (WriteBDT t) = Ok bs /\ dec_frame bs = Ok (WriteBDT t) /\ lenN bs = 4 + 10 * lenN t.
Proof. intros W H. apply (frame_roundtrip (WriteBDT t)); cbn [wf_msg frame_len]; [assumption|lia]. Qed.

Lemma roundtrip_read_bdt :
  exists bs, enc_frame ReadBDT = Ok bs /\ dec_frame bs = Ok ReadBDT /\ lenN bs = 4.
Proof. apply (frame_roundtrip ReadBDT); cbn [wf_msg frame_len]; [reflexivity|lia]. Qed.

Lemma roundtrip_read_bdt_ack t : forallb wf_bdte t = true -> lenN t <= 6553 ->
  exists bs, enc_frame (ReadBDTAck t) = Ok bs /\ dec_frame bs = Ok (ReadBDTAck t) /\ lenN bs = 4 + 10 * lenN t.
Proof. intros W H. apply (frame_roundtrip (ReadBDTAck t)); cbn [wf_msg frame_len]; [assumption|lia]. Qed.

Lemma roundtrip_forwarded a d :
  lenN a = 6 -> bytes_ok a = true -> bytes_ok d = true -> lenN d <= 65525 ->
  exists bs, enc_frame (Forwarded (ABytes a) d) = Ok bs /\ dec_frame bs = Ok (Forwarded (ABytes a) d)
             /\ lenN bs = 10 + lenN d.
Proof.
  intros Ha Hb Hd H. apply (frame_roundtrip (Forwarded (ABytes a) d)); cbn [wf_msg wf_addr frame_len]; [|lia].
  rewrite Hb, Hd. destruct (lenN a =? 6) eqn:E; [reflexivity|lia].
Qed.

Lemma roundtrip_register_fd ttl : (0 <= ttl < 65536)%Z ->
  exists bs, enc_frame (RegisterFD (Some ttl)) = Ok bs /\ dec_frame bs = Ok (RegisterFD (Some ttl)) /\ lenN bs = 6.
Proof. intros H. apply (frame_roundtrip (RegisterFD (Some ttl))); cbn [wf_msg wf_short frame_len]; lia. Qed.

Lemma roundtrip_read_fdt :
  exists bs, enc_frame ReadFDT = Ok bs /\ dec_frame bs = Ok ReadFDT /\ lenN bs = 4.
Proof. apply (frame_roundtrip ReadFDT); cbn [wf_msg frame_len]; [reflexivity|lia]. Qed.

Lemma roundtrip_read_fdt_ack t : forallb wf_fdte t = true -> lenN t <= 6553 ->
  exists bs, enc_frame (ReadFDTAck t) = Ok bs /\ dec_frame bs = Ok (ReadFDTAck t) /\ lenN bs = 4 + 10 * lenN t.
Proof. intros W H. apply (frame_roundtrip (ReadFDTAck t)); cbn [wf_msg frame_len]; [assumption|lia]. Qed.

Lemma roundtrip_delete_fdt a : lenN a = 6 -> bytes_ok a = true ->
  exists bs, enc_frame (DeleteFDT (ABytes a)) = Ok bs /\ dec_frame bs = Ok (DeleteFDT (ABytes a)) /\ lenN bs = 10.
Proof.
  intros Ha Hb. apply (frame_roundtrip (DeleteFDT (ABytes a))); cbn [wf_msg wf_addr frame_len]; [|lia].
  rewrite Hb. destruct (lenN a =? 6) eqn:E; [reflexivity|lia].
Qed.

Lemma roundtrip_distribute d : bytes_ok d = true -> lenN d <= 65531 ->
  exists bs, enc_frame (Distribute d) = Ok bs /\ dec_frame bs = Ok (Distribute d) /\ lenN bs = 4 + lenN d.
Proof. intros W H. apply (frame_roundtrip (Distribute d)); cbn [wf_msg frame_len]; [assumption|lia]. Qed.
Lemma roundtrip_orig_unicast d : bytes_ok d = true -> lenN d <= 65531 ->
  exists bs, enc_frame (OrigUnicast d) = Ok bs /\ dec_frame bs = Ok (OrigUnicast d) /\ lenN bs = 4 + lenN d.
Proof. intros W H. apply (frame_roundtrip (OrigUnicast d)); cbn [wf_msg frame_len]; [assumption|lia]. Qed.
Lemma roundtrip_orig_broadcast d : bytes_ok d = true -> lenN d <= 65531 ->
  exists bs, enc_frame (OrigBroadcast d) = Ok bs /\ dec_frame bs = Ok (OrigBroadcast d) /\ lenN bs = 4 + lenN d.
Proof. intros W H. apply (frame_roundtrip (OrigBroadcast d)); cbn [wf_msg frame_len]; [assumption|lia]. Qed.

(* pdu.Address((ip, port)): accepted exactly for ports 0..65535 *)
Lemma ip_port_octets a b c d port :
  a < 256 -> b < 256 -> c < 256 -> d < 256 -> (0 <= port < 65536)%Z ->
  exists l, mk_ip a b c d port = Ok (ABytes l) /\ wf_addr (ABytes l) = true /\
            firstn 4 l = [a; b; c; d] /\ Z.of_N (port_of l) = port.
Proof.
  intros Ha Hb Hc Hd Hp. unfold mk_ip, port_ok, ip_addr.
  destruct ((0 <=? port)%Z && (port <=? 65535)%Z) eqn:E; [|lia].
  eexists; split; [reflexivity|].
  rewrite Z.mod_small by lia. cbn [app be2 wf_addr firstn port_of skipn]. repeat split.
  - unfold lenN, bytes_ok, byte_ok, be2; cbn [length forallb]. lia.
  - lia.
Qed.

Lemma ip_port_refused a b c d port :
  (port < 0 \/ 65535 < port)%Z -> mk_ip a b c d port = Err ValueErr.
Proof.
  intros H. unfold mk_ip, port_ok.
  destruct ((0 <=? port)%Z && (port <=? 65535)%Z) eqn:E; [lia|reflexivity].
Qed.

(* a message none of whose Address constructions succeeded is never encoded *)
Lemma all_ok_refused rs1 a b c d port rs2 :
  (port < 0 \/ 65535 < port)%Z -> (forall r, In r rs1 -> exists x, r = Ok x) ->
  all_ok (rs1 ++ mk_ip a b c d port :: rs2) = Err ValueErr.
Proof.
  intros H. induction rs1 as [|r rs1 IH]; intros Hok; cbn [app all_ok].
  - rewrite ip_port_refused by assumption. reflexivity.
  - destruct (Hok r (or_introl eq_refl)) as (x & ->). cbn [bind]. apply IH.
    intros r' Hr. apply Hok. now right.
Qed.
