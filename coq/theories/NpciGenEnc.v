(* NpciGenEnc.v — the translated NPCI.encode is enc_npci (split from NpciGenFacts.v: slow case analysis) *)
From Bac Require Import Base BytesFacts Npci NpciRt NpciFacts NpciMsgFacts NpciGenFacts.
From BacGen Require Import NpciFns.
From Coq Require Import ZifyBool ZifyN ZifyNat.
Ltac Zify.zify_post_hook ::= Z.to_euclidean_division_equations.
Open Scope N_scope.

(* ================= NPCI / NPDU ================= *)
(* NPCI.encode: the octets appended are enc_npci of the object's fields; the control octet is stored in
   the object; expecting-reply and priority are passed down to the PDU *)
Lemma NPCI_encode_is_model o p :
  NPCI_encode o p =
  do b <- enc_npci (npci_of o);
  Ok (set_npduControl (Some (control_of (npci_of o))) o,
      set_pduNetworkPriority (pduNetworkPriority o) (set_pduExpectingReply (pduExpectingReply o) (app_data b p))).
Proof.
  destruct o as [odata oer opr over oc od os oh om ov], p.
  unfold NPCI_encode, enc_npci, npci_of, app_data, py_put, py_put_short, py_put_data, enc_dadr, enc_sadr,
    put_opt, control_of, is_vendor_type.
  destruct od as [[dn dm|dn|]|], os as [[sn sm|sn|]|], om as [t|], oer; crush.
Qed.

