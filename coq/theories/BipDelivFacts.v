(* BipDelivFacts.v — exactly-once / no-echo / true-source for configurations of ARBITRARY size,
   over the delivery-tree semantics of BipDeliv.v (node behaviour = Bip.v's step functions). *)
From Coq Require Import Permutation.
From Bac Require Import Base Bip BipFacts BipDeliv.
Open Scope N_scope.

(* ------------------------------------------------------------------ list facts *)
Lemma flat_map_nil {A B} (f : A -> list B) l : (forall x, In x l -> f x = []) -> flat_map f l = [].
Proof.
  induction l as [|x l IH]; intros H; [reflexivity|]. cbn [flat_map].
  rewrite (H x (or_introl eq_refl)), IH; [reflexivity|]. intros y I. apply H. right. exact I.
Qed.
Lemma filter_none {A} (p : A -> bool) l : (forall x, In x l -> p x = false) -> filter p l = [].
Proof.
  induction l as [|x l IH]; intros H; [reflexivity|]. cbn [filter].
  rewrite (H x (or_introl eq_refl)). apply IH. intros y I. apply H. right. exact I.
Qed.
Lemma filter_all {A} (p : A -> bool) l : (forall x, In x l -> p x = true) -> filter p l = l.
Proof.
  induction l as [|x l IH]; intros H; [reflexivity|]. cbn [filter].
  rewrite (H x (or_introl eq_refl)). f_equal. apply IH. intros y I. apply H. right. exact I.
Qed.
Lemma filter_map_comm {A B} (f : A -> B) (p : B -> bool) l :
  filter p (map f l) = map f (filter (fun x => p (f x)) l).
Proof.
  induction l as [|x l IH]; [reflexivity|]. cbn [map filter]. destruct (p (f x)); cbn [map]; rewrite IH; reflexivity.
Qed.
Lemma filter_filter {A} (p q : A -> bool) l : filter p (filter q l) = filter (fun x => q x && p x) l.
Proof.
  induction l as [|x l IH]; [reflexivity|]. cbn [filter]. destruct (q x); cbn [filter andb]; [destruct (p x)|]; rewrite IH; reflexivity.
Qed.
Lemma filter_ext_in {A} (p q : A -> bool) l : (forall x, In x l -> p x = q x) -> filter p l = filter q l.
Proof.
  induction l as [|x l IH]; intros H; [reflexivity|]. cbn [filter].
  rewrite (H x (or_introl eq_refl)), IH; [reflexivity|]. intros y I. apply H. right. exact I.
Qed.
Lemma flat_map_map {A B C} (f : A -> B) (g : B -> list C) l : flat_map g (map f l) = flat_map (fun x => g (f x)) l.
Proof. induction l as [|x l IH]; [reflexivity|]. cbn [map flat_map]. rewrite IH. reflexivity. Qed.
Lemma map_flat_map {A B C} (f : B -> C) (g : A -> list B) l : map f (flat_map g l) = flat_map (fun x => map f (g x)) l.
Proof. induction l as [|x l IH]; [reflexivity|]. cbn [flat_map]. rewrite map_app, IH. reflexivity. Qed.
Lemma flat_map_ext_in {A B} (f g : A -> list B) l : (forall x, In x l -> f x = g x) -> flat_map f l = flat_map g l.
Proof.
  induction l as [|x l IH]; intros H; [reflexivity|]. cbn [flat_map].
  rewrite (H x (or_introl eq_refl)), IH; [reflexivity|]. intros y I. apply H. right. exact I.
Qed.
Lemma flat_map_single {A B} (f : A -> B) l : flat_map (fun x => [f x]) l = map f l.
Proof. induction l as [|x l IH]; [reflexivity|]. cbn [flat_map map app]. rewrite IH. reflexivity. Qed.

Lemma nodup_map_inj {A B} (f : A -> B) l x y :
  NoDup (map f l) -> In x l -> In y l -> f x = f y -> x = y.
Proof.
  induction l as [|z l IH]; intros N Ix Iy E; [contradiction|].
  cbn [map] in N. inversion N as [|? ? Hn Hd]; subst.
  destruct Ix as [->|Ix], Iy as [->|Iy]; try reflexivity.
  - exfalso. apply Hn. rewrite E. apply in_map. exact Iy.
  - exfalso. apply Hn. rewrite <- E. apply in_map. exact Ix.
  - apply IH; assumption.
Qed.
Lemma nodup_map_of {A B} (f : A -> B) l : NoDup (map f l) -> NoDup l.
Proof.
  induction l as [|z l IH]; intros N; [constructor|]. cbn [map] in N. inversion N as [|? ? Hn Hd]; subst.
  constructor; [|apply IH; exact Hd]. intros I. apply Hn. apply in_map. exact I.
Qed.
Lemma nodup_map_on {A B} (f : A -> B) l :
  NoDup l -> (forall x y, In x l -> In y l -> f x = f y -> x = y) -> NoDup (map f l).
Proof.
  induction l as [|z l IH]; intros N H; [constructor|]. inversion N as [|? ? Hn Hd]; subst. cbn [map].
  constructor.
  - intros I. apply in_map_iff in I. destruct I as [y [E I]]. apply Hn.
    assert (y = z) as -> by (apply H; [right; exact I | left; reflexivity | exact E]). exact I.
  - apply IH; [exact Hd|]. intros x y Ix Iy. apply H; right; assumption.
Qed.
Lemma nodup_app_intro {A} (l1 l2 : list A) :
  NoDup l1 -> NoDup l2 -> (forall a, In a l1 -> In a l2 -> False) -> NoDup (l1 ++ l2).
Proof.
  induction l1 as [|x l1 IH]; intros N1 N2 D; [exact N2|]. inversion N1 as [|? ? Hn Hd]; subst.
  cbn [app]. constructor.
  - rewrite in_app_iff. intros [I|I]; [contradiction | apply (D x); [left; reflexivity | exact I]].
  - apply IH; [exact Hd | exact N2 |]. intros a I1 I2. apply (D a); [right; exact I1 | exact I2].
Qed.
Lemma nodup_app_inv {A} (l1 l2 : list A) :
  NoDup (l1 ++ l2) -> NoDup l1 /\ NoDup l2 /\ (forall a, In a l1 -> In a l2 -> False).
Proof.
  induction l1 as [|x l1 IH]; intros N; cbn [app] in N.
  - repeat split; [constructor | exact N | intros a []].
  - inversion N as [|? ? Hn Hd]; subst. destruct (IH Hd) as [N1 [N2 D]]. repeat split.
    + constructor; [|exact N1]. intros I. apply Hn. apply in_or_app. left. exact I.
    + exact N2.
    + intros a [->|I1] I2; [apply Hn; apply in_or_app; right; exact I2 | apply (D a); assumption].
Qed.
Lemma nodup_filter {A} (p : A -> bool) l : NoDup l -> NoDup (filter p l).
Proof.
  induction l as [|x l IH]; intros N; [constructor|]. inversion N as [|? ? Hn Hd]; subst. cbn [filter].
  destruct (p x); [constructor|]; try (apply IH; exact Hd).
  intros I. apply filter_In in I. apply Hn. apply I.
Qed.
Lemma nodup_flat_map {A B} (g : A -> list B) l :
  NoDup l -> (forall s, In s l -> NoDup (g s)) ->
  (forall s s' a, In s l -> In s' l -> s <> s' -> In a (g s) -> In a (g s') -> False) ->
  NoDup (flat_map g l).
Proof.
  induction l as [|x l IH]; intros N Hg D; [constructor|]. inversion N as [|? ? Hn Hd]; subst. cbn [flat_map].
  apply nodup_app_intro.
  - apply Hg. left. reflexivity.
  - apply IH; [exact Hd | intros s I; apply Hg; right; exact I |].
    intros s s' a I I'. apply D; right; assumption.
  - intros a I1 I2. apply in_flat_map in I2. destruct I2 as [s [Is Ia]].
    apply (D x s a); [left; reflexivity | right; exact Is | | exact I1 | exact Ia].
    intros ->. contradiction.
Qed.

(* ------------------------------------------------------------------ well-formed configurations *)
Definition fwd_addr (s : sub) : addr := (fwd_ip (fst (sb_bbmd s)) (sb_mask s), snd (sb_bbmd s)).
Definition twohop (s : sub) : bool := addr_eqb (fwd_addr s) (sb_bbmd s).

Record wf (c : acfg) : Prop := mkWf {
  wf_addrs : NoDup (all_addrs c);                                   (* node addresses pairwise different *)
  wf_bcasts : NoDup (map sb_bcast (a_subs c));                      (* subnets have different broadcast addresses *)
  wf_not_bcast : forall a s, In a (all_addrs c) -> In s (a_subs c) -> a <> sb_bcast s;
  wf_home : forall x, In x (a_fds c) -> exists s, In s (a_subs c) /\ snd x = sb_bbmd s;
  wf_entry : forall s, In s (a_subs c) ->                           (* /32 "two-hop" or subnet-mask "one-hop" entries *)
     fwd_addr s = sb_bbmd s \/ fwd_addr s = sb_bcast s
}.
Definition full (c : acfg) : Prop := forall b p, a_keep c b p = true.


Lemma in_all_RB (c : acfg) (W : wf c) : forall s, In s (a_subs c) -> In (RB s) (all_rcvs c).
Proof. intros s I. apply in_or_app. left. apply in_flat_map. exists s. split; [exact I | left; reflexivity]. Qed.
Lemma in_all_RS (c : acfg) (W : wf c) : forall s y, In s (a_subs c) -> In y (sb_simple s) -> In (RS s y) (all_rcvs c).
Proof.
  intros s y I Iy. apply in_or_app. left. apply in_flat_map. exists s. split; [exact I|]. right. apply in_map. exact Iy.
Qed.
Lemma in_all_RF (c : acfg) (W : wf c) : forall x, In x (a_fds c) -> In (RF x) (all_rcvs c).
Proof. intros x I. apply in_or_app. right. apply in_map. exact I. Qed.
Lemma in_all_members (c : acfg) (W : wf c) : forall s r, In s (a_subs c) -> In r (members s) -> In r (all_rcvs c).
Proof. intros s r I Ir. apply in_or_app. left. apply in_flat_map. exists s. auto. Qed.

Lemma rcv_inj (c : acfg) (W : wf c) : forall r1 r2, In r1 (all_rcvs c) -> In r2 (all_rcvs c) -> rcv_addr r1 = rcv_addr r2 -> r1 = r2.
Proof. intros r1 r2. apply nodup_map_inj. exact (wf_addrs c W). Qed.
Lemma all_rcvs_nodup (c : acfg) (W : wf c) : NoDup (all_rcvs c).
Proof. apply (nodup_map_of rcv_addr). exact (wf_addrs c W). Qed.
Lemma subs_nodup (c : acfg) (W : wf c) : NoDup (a_subs c).
Proof.
  pose proof (all_rcvs_nodup c W) as N. unfold all_rcvs in N. apply nodup_app_inv in N. destruct N as [N _].
  induction (a_subs c) as [|s l IH]; [constructor|]. cbn [flat_map] in N. apply nodup_app_inv in N.
  destruct N as [N1 [N2 D]]. constructor; [|apply IH; exact N2].
  intros I. apply (D (RB s)); [left; reflexivity|]. apply in_flat_map. exists s. split; [exact I | left; reflexivity].
Qed.
Lemma fds_nodup (c : acfg) (W : wf c) : NoDup (a_fds c).
Proof.
  pose proof (all_rcvs_nodup c W) as N. unfold all_rcvs in N. apply nodup_app_inv in N. destruct N as [_ [N _]].
  apply (nodup_map_of RF). exact N.
Qed.
Lemma simple_nodup (c : acfg) (W : wf c) : forall s, In s (a_subs c) -> NoDup (sb_simple s).
Proof.
  intros s I.
  assert (NoDup (map (RS s) (sb_simple s))) as N.
  { pose proof (all_rcvs_nodup c W) as N. unfold all_rcvs in N. apply nodup_app_inv in N. destruct N as [N _].
    revert I N. induction (a_subs c) as [|s' l IH]; intros I N; [contradiction|]. cbn [flat_map] in N.
    apply nodup_app_inv in N. destruct N as [N1 [N2 _]]. destruct I as [->|I]; [|apply IH; assumption].
    cbn [members] in N1. inversion N1; assumption. }
  apply (nodup_map_of (RS s)). exact N.
Qed.
Lemma bbmd_inj (c : acfg) (W : wf c) : forall s s', In s (a_subs c) -> In s' (a_subs c) -> sb_bbmd s = sb_bbmd s' -> s = s'.
Proof.
  intros s s' I I' E. assert (RB s = RB s') as H by (apply (rcv_inj c W); [apply (in_all_RB c W); exact I | apply (in_all_RB c W); exact I' | exact E]).
  inversion H. reflexivity.
Qed.
Lemma addr_not_bcast (c : acfg) (W : wf c) : forall r s, In r (all_rcvs c) -> In s (a_subs c) -> addr_eqb (rcv_addr r) (sb_bcast s) = false.
Proof. intros r s Ir Is. apply addr_eqb_neq. apply (wf_not_bcast c W); [apply in_map; exact Ir | exact Is]. Qed.

(* a datagram to a node's own address reaches exactly that node *)
Lemma unicast_rcv (c : acfg) (W : wf c) : forall r0 src, In r0 (all_rcvs c) -> rcv_addr r0 <> src ->
  receivers c src (rcv_addr r0) = [(r0, DStation (rcv_addr r0))].
Proof.
  intros r0 src I Ns. unfold receivers.
  rewrite flat_map_nil.
  2:{ intros s Is. rewrite (addr_not_bcast c W r0 s I Is). reflexivity. }
  cbn [app].
  assert (filter (fun r => addr_eqb (rcv_addr r) (rcv_addr r0) && negb (addr_eqb (rcv_addr r) src)) (all_rcvs c) = [r0]) as ->; [|reflexivity].
  pose proof (all_rcvs_nodup c W) as N. revert I N. generalize (rcv_inj c W). induction (all_rcvs c) as [|r l IH]; intros Inj I N; [contradiction|].
  inversion N as [|? ? Hn Hd]; subst. cbn [filter]. destruct I as [->|I].
  - rewrite addr_eqb_refl. apply addr_eqb_neq in Ns. rewrite Ns. cbn [andb negb]. f_equal.
    apply filter_none. intros y Iy. apply andb_false_iff. left. apply addr_eqb_neq. intros E.
    apply Hn. assert (y = r0) as <- by (apply Inj; [right; exact Iy | left; reflexivity | exact E]). exact Iy.
  - assert (addr_eqb (rcv_addr r) (rcv_addr r0) = false) as ->.
    { apply addr_eqb_neq. intros E. apply Hn. assert (r = r0) as -> by (apply Inj; [left; reflexivity | right; exact I | exact E]). exact I. }
    cbn [andb]. apply IH; [|exact I | exact Hd]. intros x y Ix Iy. apply Inj; right; assumption.
Qed.

(* a datagram to a subnet's broadcast address reaches every member except the sender *)
Lemma bcast_rcv (c : acfg) (W : wf c) : forall s0 src, In s0 (a_subs c) ->
  receivers c src (sb_bcast s0) =
  map (fun r => (r, DBcast)) (filter (fun r => negb (addr_eqb (rcv_addr r) src)) (members s0)).
Proof.
  intros s0 src I. unfold receivers.
  rewrite (filter_none _ (all_rcvs c)).
  2:{ intros r Ir. rewrite (addr_not_bcast c W r s0 Ir I). reflexivity. }
  cbn [map]. rewrite app_nil_r.
  pose proof (wf_bcasts c W) as N. revert I N. induction (a_subs c) as [|s l IH]; intros I N; [contradiction|].
  cbn [map] in N. inversion N as [|? ? Hn Hd]; subst. cbn [flat_map]. destruct I as [->|I].
  - rewrite addr_eqb_refl. rewrite flat_map_nil; [apply app_nil_r|].
    intros s Is. assert (addr_eqb (sb_bcast s0) (sb_bcast s) = false) as ->; [|reflexivity].
    apply addr_eqb_neq. intros E. apply Hn. rewrite E. apply in_map. exact Is.
  - assert (addr_eqb (sb_bcast s0) (sb_bcast s) = false) as ->.
    { apply addr_eqb_neq. intros E. apply Hn. rewrite <- E. apply in_map. exact I. }
    cbn [app]. apply IH; assumption.
Qed.

