(* BipDelivFacts.v — exactly-once / no-echo / true-source for configurations of ARBITRARY size,
   over the delivery-tree semantics of BipDeliv.v (node behaviour = Bip.v's step functions). *)
From Coq Require Import Permutation.
From Bac Require Import Base Bip BipFacts BipDeliv.
Open Scope N_scope.

(* ------------------------------------------------------------------ list facts *)
Lemma flat_map_nil {A B} (f : A -> list B) l : (forall x, In x l -> f x = []) -> flat_map f l = [].
Proof.
  induction l as [|x l IH]; intros H; [reflexivity|]. cbn [flat_map].
  rewrite (H x (or_introl eq_refl)), IH; [reflexivity|]. intros y I. apply H. right. exact I.
Qed.
Lemma filter_none {A} (p : A -> bool) l : (forall x, In x l -> p x = false) -> filter p l = [].
Proof.
  induction l as [|x l IH]; intros H; [reflexivity|]. cbn [filter].
  rewrite (H x (or_introl eq_refl)). apply IH. intros y I. apply H. right. exact I.
Qed.
Lemma filter_all {A} (p : A -> bool) l : (forall x, In x l -> p x = true) -> filter p l = l.
Proof.
  induction l as [|x l IH]; intros H; [reflexivity|]. cbn [filter].
  rewrite (H x (or_introl eq_refl)). f_equal. apply IH. intros y I. apply H. right. exact I.
Qed.
Lemma filter_map_comm {A B} (f : A -> B) (p : B -> bool) l :
  filter p (map f l) = map f (filter (fun x => p (f x)) l).
Proof.
  induction l as [|x l IH]; [reflexivity|]. cbn [map filter]. destruct (p (f x)); cbn [map]; rewrite IH; reflexivity.
Qed.
Lemma filter_filter {A} (p q : A -> bool) l : filter p (filter q l) = filter (fun x => q x && p x) l.
Proof.
  induction l as [|x l IH]; [reflexivity|]. cbn [filter]. destruct (q x); cbn [filter andb]; [destruct (p x)|]; rewrite IH; reflexivity.
Qed.
Lemma filter_ext_in {A} (p q : A -> bool) l : (forall x, In x l -> p x = q x) -> filter p l = filter q l.
Proof.
  induction l as [|x l IH]; intros H; [reflexivity|]. cbn [filter].
  rewrite (H x (or_introl eq_refl)), IH; [reflexivity|]. intros y I. apply H. right. exact I.
Qed.
Lemma flat_map_map {A B C} (f : A -> B) (g : B -> list C) l : flat_map g (map f l) = flat_map (fun x => g (f x)) l.
Proof. induction l as [|x l IH]; [reflexivity|]. cbn [map flat_map]. rewrite IH. reflexivity. Qed.
Lemma map_flat_map {A B C} (f : B -> C) (g : A -> list B) l : map f (flat_map g l) = flat_map (fun x => map f (g x)) l.
Proof. induction l as [|x l IH]; [reflexivity|]. cbn [flat_map]. rewrite map_app, IH. reflexivity. Qed.
Lemma flat_map_ext_in {A B} (f g : A -> list B) l : (forall x, In x l -> f x = g x) -> flat_map f l = flat_map g l.
Proof.
  induction l as [|x l IH]; intros H; [reflexivity|]. cbn [flat_map].
  rewrite (H x (or_introl eq_refl)), IH; [reflexivity|]. intros y I. apply H. right. exact I.
Qed.
Lemma flat_map_single {A B} (f : A -> B) l : flat_map (fun x => [f x]) l = map f l.
Proof. induction l as [|x l IH]; [reflexivity|]. cbn [flat_map map app]. rewrite IH. reflexivity. Qed.

Lemma nodup_map_inj {A B} (f : A -> B) l x y :
  NoDup (map f l) -> In x l -> In y l -> f x = f y -> x = y.
Proof.
  induction l as [|z l IH]; intros N Ix Iy E; [contradiction|].
  cbn [map] in N. inversion N as [|? ? Hn Hd]; subst.
  destruct Ix as [->|Ix], Iy as [->|Iy]; try reflexivity.
  - exfalso. apply Hn. rewrite E. apply in_map. exact Iy.
  - exfalso. apply Hn. rewrite <- E. apply in_map. exact Ix.
  - apply IH; assumption.
Qed.
Lemma nodup_map_of {A B} (f : A -> B) l : NoDup (map f l) -> NoDup l.
Proof.
  induction l as [|z l IH]; intros N; [constructor|]. cbn [map] in N. inversion N as [|? ? Hn Hd]; subst.
  constructor; [|apply IH; exact Hd]. intros I. apply Hn. apply in_map. exact I.
Qed.
Lemma nodup_map_on {A B} (f : A -> B) l :
  NoDup l -> (forall x y, In x l -> In y l -> f x = f y -> x = y) -> NoDup (map f l).
Proof.
  induction l as [|z l IH]; intros N H; [constructor|]. inversion N as [|? ? Hn Hd]; subst. cbn [map].
  constructor.
  - intros I. apply in_map_iff in I. destruct I as [y [E I]]. apply Hn.
    assert (y = z) as -> by (apply H; [right; exact I | left; reflexivity | exact E]). exact I.
  - apply IH; [exact Hd|]. intros x y Ix Iy. apply H; right; assumption.
Qed.
Lemma nodup_app_intro {A} (l1 l2 : list A) :
  NoDup l1 -> NoDup l2 -> (forall a, In a l1 -> In a l2 -> False) -> NoDup (l1 ++ l2).
Proof.
  induction l1 as [|x l1 IH]; intros N1 N2 D; [exact N2|]. inversion N1 as [|? ? Hn Hd]; subst.
  cbn [app]. constructor.
  - rewrite in_app_iff. intros [I|I]; [contradiction | apply (D x); [left; reflexivity | exact I]].
  - apply IH; [exact Hd | exact N2 |]. intros a I1 I2. apply (D a); [right; exact I1 | exact I2].
Qed.
Lemma nodup_app_inv {A} (l1 l2 : list A) :
  NoDup (l1 ++ l2) -> NoDup l1 /\ NoDup l2 /\ (forall a, In a l1 -> In a l2 -> False).
Proof.
  induction l1 as [|x l1 IH]; intros N; cbn [app] in N.
  - repeat split; [constructor | exact N | intros a []].
  - inversion N as [|? ? Hn Hd]; subst. destruct (IH Hd) as [N1 [N2 D]]. repeat split.
    + constructor; [|exact N1]. intros I. apply Hn. apply in_or_app. left. exact I.
    + exact N2.
    + intros a [->|I1] I2; [apply Hn; apply in_or_app; right; exact I2 | apply (D a); assumption].
Qed.
Lemma nodup_filter {A} (p : A -> bool) l : NoDup l -> NoDup (filter p l).
Proof.
  induction l as [|x l IH]; intros N; [constructor|]. inversion N as [|? ? Hn Hd]; subst. cbn [filter].
  destruct (p x); [constructor|]; try (apply IH; exact Hd).
  intros I. apply filter_In in I. apply Hn. apply I.
Qed.
Lemma nodup_flat_map {A B} (g : A -> list B) l :
  NoDup l -> (forall s, In s l -> NoDup (g s)) ->
  (forall s s' a, In s l -> In s' l -> s <> s' -> In a (g s) -> In a (g s') -> False) ->
  NoDup (flat_map g l).
Proof.
  induction l as [|x l IH]; intros N Hg D; [constructor|]. inversion N as [|? ? Hn Hd]; subst. cbn [flat_map].
  apply nodup_app_intro.
  - apply Hg. left. reflexivity.
  - apply IH; [exact Hd | intros s I; apply Hg; right; exact I |].
    intros s s' a I I'. apply D; right; assumption.
  - intros a I1 I2. apply in_flat_map in I2. destruct I2 as [s [Is Ia]].
    apply (D x s a); [left; reflexivity | right; exact Is | | exact I1 | exact Ia].
    intros ->. contradiction.
Qed.

(* ------------------------------------------------------------------ well-formed configurations *)
Definition twohop (s : sub) : bool := addr_eqb (fwd_addr s) (sb_bbmd s).

Record wf (c : acfg) : Prop := mkWf {
  wf_addrs : NoDup (all_addrs c);                                   (* node addresses pairwise different *)
  wf_bcasts : NoDup (map sb_bcast (a_subs c));                      (* subnets have different broadcast addresses *)
  wf_not_bcast : forall a s, In a (all_addrs c) -> In s (a_subs c) -> a <> sb_bcast s;
  wf_home : forall x, In x (a_fds c) -> exists s, In s (a_subs c) /\ snd x = sb_bbmd s;
  wf_entry : forall s, In s (a_subs c) ->                           (* /32 "two-hop" or subnet-mask "one-hop" entries *)
     fwd_addr s = sb_bbmd s \/ fwd_addr s = sb_bcast s
}.
Definition full (c : acfg) : Prop := forall b p, a_keep c b p = true.


Lemma in_all_RB (c : acfg) (W : wf c) : forall s, In s (a_subs c) -> In (RB s) (all_rcvs c).
Proof. intros s I. apply in_or_app. left. apply in_flat_map. exists s. split; [exact I | left; reflexivity]. Qed.
Lemma in_all_RS (c : acfg) (W : wf c) : forall s y, In s (a_subs c) -> In y (sb_simple s) -> In (RS s y) (all_rcvs c).
Proof.
  intros s y I Iy. apply in_or_app. left. apply in_flat_map. exists s. split; [exact I|]. right. apply in_map. exact Iy.
Qed.
Lemma in_all_RF (c : acfg) (W : wf c) : forall x, In x (a_fds c) -> In (RF x) (all_rcvs c).
Proof. intros x I. apply in_or_app. right. apply in_map. exact I. Qed.
Lemma in_all_members (c : acfg) (W : wf c) : forall s r, In s (a_subs c) -> In r (members s) -> In r (all_rcvs c).
Proof. intros s r I Ir. apply in_or_app. left. apply in_flat_map. exists s. auto. Qed.

Lemma rcv_inj (c : acfg) (W : wf c) : forall r1 r2, In r1 (all_rcvs c) -> In r2 (all_rcvs c) -> rcv_addr r1 = rcv_addr r2 -> r1 = r2.
Proof. intros r1 r2. apply nodup_map_inj. exact (wf_addrs c W). Qed.
Lemma all_rcvs_nodup (c : acfg) (W : wf c) : NoDup (all_rcvs c).
Proof. apply (nodup_map_of rcv_addr). exact (wf_addrs c W). Qed.
Lemma subs_nodup (c : acfg) (W : wf c) : NoDup (a_subs c).
Proof.
  pose proof (all_rcvs_nodup c W) as N. unfold all_rcvs in N. apply nodup_app_inv in N. destruct N as [N _].
  induction (a_subs c) as [|s l IH]; [constructor|]. cbn [flat_map] in N. apply nodup_app_inv in N.
  destruct N as [N1 [N2 D]]. constructor; [|apply IH; exact N2].
  intros I. apply (D (RB s)); [left; reflexivity|]. apply in_flat_map. exists s. split; [exact I | left; reflexivity].
Qed.
Lemma fds_nodup (c : acfg) (W : wf c) : NoDup (a_fds c).
Proof.
  pose proof (all_rcvs_nodup c W) as N. unfold all_rcvs in N. apply nodup_app_inv in N. destruct N as [_ [N _]].
  apply (nodup_map_of RF). exact N.
Qed.
Lemma simple_nodup (c : acfg) (W : wf c) : forall s, In s (a_subs c) -> NoDup (sb_simple s).
Proof.
  intros s I.
  assert (NoDup (map (RS s) (sb_simple s))) as N.
  { pose proof (all_rcvs_nodup c W) as N. unfold all_rcvs in N. apply nodup_app_inv in N. destruct N as [N _].
    revert I N. induction (a_subs c) as [|s' l IH]; intros I N; [contradiction|]. cbn [flat_map] in N.
    apply nodup_app_inv in N. destruct N as [N1 [N2 _]]. destruct I as [->|I]; [|apply IH; assumption].
    cbn [members] in N1. inversion N1; assumption. }
  apply (nodup_map_of (RS s)). exact N.
Qed.
Lemma bbmd_inj (c : acfg) (W : wf c) : forall s s', In s (a_subs c) -> In s' (a_subs c) -> sb_bbmd s = sb_bbmd s' -> s = s'.
Proof.
  intros s s' I I' E. assert (RB s = RB s') as H by (apply (rcv_inj c W); [apply (in_all_RB c W); exact I | apply (in_all_RB c W); exact I' | exact E]).
  inversion H. reflexivity.
Qed.
Lemma addr_not_bcast (c : acfg) (W : wf c) : forall r s, In r (all_rcvs c) -> In s (a_subs c) -> addr_eqb (rcv_addr r) (sb_bcast s) = false.
Proof. intros r s Ir Is. apply addr_eqb_neq. apply (wf_not_bcast c W); [apply in_map; exact Ir | exact Is]. Qed.

(* a datagram to a node's own address reaches exactly that node *)
Lemma unicast_rcv (c : acfg) (W : wf c) : forall r0 src, In r0 (all_rcvs c) -> rcv_addr r0 <> src ->
  receivers c src (rcv_addr r0) = [(r0, DStation (rcv_addr r0))].
Proof.
  intros r0 src I Ns. unfold receivers.
  rewrite flat_map_nil.
  2:{ intros s Is. rewrite (addr_not_bcast c W r0 s I Is). reflexivity. }
  cbn [app].
  assert (filter (fun r => addr_eqb (rcv_addr r) (rcv_addr r0) && negb (addr_eqb (rcv_addr r) src)) (all_rcvs c) = [r0]) as ->; [|reflexivity].
  pose proof (all_rcvs_nodup c W) as N. revert I N. generalize (rcv_inj c W). induction (all_rcvs c) as [|r l IH]; intros Inj I N; [contradiction|].
  inversion N as [|? ? Hn Hd]; subst. cbn [filter]. destruct I as [->|I].
  - rewrite addr_eqb_refl. apply addr_eqb_neq in Ns. rewrite Ns. cbn [andb negb]. f_equal.
    apply filter_none. intros y Iy. apply andb_false_iff. left. apply addr_eqb_neq. intros E.
    apply Hn. assert (y = r0) as <- by (apply Inj; [right; exact Iy | left; reflexivity | exact E]). exact Iy.
  - assert (addr_eqb (rcv_addr r) (rcv_addr r0) = false) as ->.
    { apply addr_eqb_neq. intros E. apply Hn. assert (r = r0) as -> by (apply Inj; [left; reflexivity | right; exact I | exact E]). exact I. }
    cbn [andb]. apply IH; [|exact I | exact Hd]. intros x y Ix Iy. apply Inj; right; assumption.
Qed.

(* a datagram to a subnet's broadcast address reaches every member except the sender *)
Lemma bcast_rcv (c : acfg) (W : wf c) : forall s0 src, In s0 (a_subs c) ->
  receivers c src (sb_bcast s0) =
  map (fun r => (r, DBcast)) (filter (fun r => negb (addr_eqb (rcv_addr r) src)) (members s0)).
Proof.
  intros s0 src I. unfold receivers.
  rewrite (filter_none _ (all_rcvs c)).
  2:{ intros r Ir. rewrite (addr_not_bcast c W r s0 Ir I). reflexivity. }
  cbn [map]. rewrite app_nil_r.
  pose proof (wf_bcasts c W) as N. revert I N. induction (a_subs c) as [|s l IH]; intros I N; [contradiction|].
  cbn [map] in N. inversion N as [|? ? Hn Hd]; subst. cbn [flat_map]. destruct I as [->|I].
  - rewrite addr_eqb_refl. rewrite flat_map_nil; [apply app_nil_r|].
    intros s Is. assert (addr_eqb (sb_bcast s0) (sb_bcast s) = false) as ->; [|reflexivity].
    apply addr_eqb_neq. intros E. apply Hn. rewrite E. apply in_map. exact Is.
  - assert (addr_eqb (sb_bcast s0) (sb_bcast s) = false) as ->.
    { apply addr_eqb_neq. intros E. apply Hn. rewrite <- E. apply in_map. exact I. }
    cbn [app]. apply IH; assumption.
Qed.


(* ------------------------------------------------------------------ unfolding spread *)
Definition lab (a : addr) (p : npdu) (r : rcv) : delivery := (r, a, DBcast, p).
Definition fdsR (c : acfg) (s : sub) : list rcv := map RF (fds_of c (sb_bbmd s)).
Definition simR (s : sub) : list rcv := map (RS s) (sb_simple s).
(* who receives a Forwarded-NPDU that another BBMD sends to subnet s through s's table entry *)
Definition blkR (c : acfg) (s : sub) : list rcv :=
  if twohop s then RB s :: (if a_keep c (sb_bbmd s) (sb_bbmd s) then simR s else []) ++ fdsR c s
  else (RB s :: fdsR c s) ++ simR s.

Lemma spread_app : forall n c r l1 l2, spread n c r (l1 ++ l2) = spread n c r l1 ++ spread n c r l2.
Proof. intros [|n] c r l1 l2; [reflexivity|]. cbn [spread]. apply flat_map_app. Qed.
Lemma spread_cons : forall n c r a l, spread n c r (a :: l) = spread n c r [a] ++ spread n c r l.
Proof. intros. change (a :: l) with ([a] ++ l). apply spread_app. Qed.
Lemma spread_nil : forall n c r, spread n c r [] = [].
Proof. intros [|n]; reflexivity. Qed.
Lemma spread_up : forall n c r s d p, spread (S n) c r [Up s d p] = [(r, s, d, p)].
Proof. reflexivity. Qed.
Lemma spread_down : forall n c r d m dst, out_addr r d = Some dst ->
  spread (S n) c r [Down d m] =
  flat_map (fun rd => spread n c (fst rd) (react c (fst rd) (rcv_addr r) (snd rd) m)) (receivers c (rcv_addr r) dst).
Proof. intros n c r d m dst H. cbn [spread flat_map]. rewrite H. apply app_nil_r. Qed.

Lemma react_RF_fwd : forall c x src d a p,
  react c (RF x) src d (Forwarded a p) = if addr_eqb src (snd x) then [Up a DBcast p] else [].
Proof.
  intros. unfold react, foreign_confirmation, foreign_of. cbn [f_status f_bbmd Z.eqb negb].
  destruct (addr_eqb src (snd x)); reflexivity.
Qed.

Lemma RF_not_RB (c : acfg) (W : wf c) : forall x s, In x (a_fds c) -> In s (a_subs c) -> fst x <> sb_bbmd s.
Proof.
  intros x s Ix Is E. assert (RF x = RB s) as H; [|discriminate].
  apply (rcv_inj c W); [apply (in_all_RF c W); exact Ix | apply (in_all_RB c W); exact Is | exact E].
Qed.

(* the table part: one copy to each listed device, which accepts it from its own BBMD *)
Lemma spread_fdt (c : acfg) (W : wf c) : forall s0 k a p L, In s0 (a_subs c) ->
  (forall x, In x L -> In x (a_fds c) /\ snd x = sb_bbmd s0) ->
  spread (S (S k)) c (RB s0) (to_fdt (map (fun x => mkFdte (fst x) 30 35) L) (Forwarded a p))
  = map (lab a p) (map RF L).
Proof.
  intros s0 k a p L I0. induction L as [|x L IH]; intros H; [reflexivity|].
  unfold to_fdt. cbn [map fd_addr]. fold (to_fdt (map (fun x => mkFdte (fst x) 30 35) L) (Forwarded a p)).
  rewrite spread_cons. destruct (H x (or_introl eq_refl)) as [Ix Hx].
  rewrite (spread_down _ _ _ _ _ (fst x)) by reflexivity.
  change (fst x) with (rcv_addr (RF x)) at 1.
  rewrite (unicast_rcv c W (RF x)); [| apply (in_all_RF c W); exact Ix | apply (RF_not_RB c W); assumption].
  cbn [flat_map fst snd]. rewrite app_nil_r, react_RF_fwd. cbn [rcv_addr]. rewrite Hx, addr_eqb_refl, spread_up.
  cbn [app]. unfold lab at 1. f_equal. apply IH. intros y Iy. apply H. right. exact Iy.
Qed.

Lemma members_not_bbmd (c : acfg) (W : wf c) : forall s0, In s0 (a_subs c) ->
  filter (fun r => negb (addr_eqb (rcv_addr r) (sb_bbmd s0))) (members s0) = simR s0.
Proof.
  intros s0 I. unfold members. cbn [filter rcv_addr]. rewrite addr_eqb_refl. cbn [negb].
  apply filter_all. intros r Ir. apply in_map_iff in Ir. destruct Ir as [y [<- Iy]].
  apply negb_true_iff. apply addr_eqb_neq. intros E.
  assert (RS s0 y = RB s0) as H; [|discriminate].
  apply (rcv_inj c W); [apply (in_all_RS c W); assumption | apply (in_all_RB c W); exact I | exact E].
Qed.

(* a BBMD's local re-broadcast reaches the ordinary nodes of its subnet *)
Lemma spread_local_fwd (c : acfg) (W : wf c) : forall s0 k a p, In s0 (a_subs c) ->
  spread (S (S k)) c (RB s0) [Down DBcast (Forwarded a p)] = map (lab a p) (simR s0).
Proof.
  intros s0 k a p I. rewrite (spread_down _ _ _ _ _ (sb_bcast s0)) by reflexivity.
  cbn [rcv_addr]. rewrite (bcast_rcv c W s0 _ I), (members_not_bbmd c W s0 I).
  unfold simR. rewrite !flat_map_map. cbn [fst snd]. rewrite map_map.
  rewrite <- flat_map_single. apply flat_map_ext_in. intros y _. reflexivity.
Qed.

Lemma in_bdt_keep (c : acfg) (W : wf c) : forall s, In s (a_subs c) ->
  in_bdt (sb_bbmd s) (bdt_of c (sb_bbmd s)) = a_keep c (sb_bbmd s) (sb_bbmd s).
Proof.
  intros s I. unfold in_bdt, bdt_of. destruct (a_keep c (sb_bbmd s) (sb_bbmd s)) eqn:K.
  - apply existsb_exists. exists (entry s). split; [|apply addr_eqb_refl].
    apply in_map. apply filter_In. auto.
  - destruct (existsb _ _) eqn:E; [|reflexivity]. apply existsb_exists in E. destruct E as [e [Ie Ee]].
    apply in_map_iff in Ie. destruct Ie as [s' [<- Is']]. apply filter_In in Is'. destruct Is' as [Is' K'].
    cbn [entry bd_addr] in Ee. apply addr_eqb_eq in Ee.
    assert (s = s') as <- by (apply (bbmd_inj c W); assumption). congruence.
Qed.

Lemma fds_of_spec : forall c b x, In x (fds_of c b) -> In x (a_fds c) /\ snd x = b.
Proof. intros c b x I. apply filter_In in I. destruct I as [I E]. apply addr_eqb_eq in E. auto. Qed.

Lemma fwd_dest_entry : forall s, fwd_dest (entry s) = DStation (fwd_addr s).
Proof. reflexivity. Qed.

(* the effect of one Forwarded-NPDU sent by BBMD s1 to a peer subnet s through s's entry *)
Lemma spread_blk (c : acfg) (W : wf c) : forall s1 s k a p, In s1 (a_subs c) -> In s (a_subs c) -> s <> s1 ->
  spread (S (S (S k))) c (RB s1) [Down (fwd_dest (entry s)) (Forwarded a p)] = map (lab a p) (blkR c s).
Proof.
  intros s1 s k a p I1 I N. rewrite fwd_dest_entry, (spread_down _ _ _ _ _ (fwd_addr s)) by reflexivity.
  cbn [rcv_addr]. unfold blkR. destruct (twohop s) eqn:T.
  - apply addr_eqb_eq in T. rewrite T. change (sb_bbmd s) with (rcv_addr (RB s)) at 1.
    rewrite (unicast_rcv c W (RB s)); [| apply (in_all_RB c W); exact I |].
    2:{ cbn [rcv_addr]. intros E. apply N. apply (bbmd_inj c W); assumption. }
    cbn [flat_map fst snd rcv_addr]. rewrite app_nil_r.
    unfold react. cbn [bbmd_confirmation snd bbmd_of b_upper b_addr b_bdt b_fdt up_if].
    rewrite (in_bdt_keep c W s I). cbn [app].
    rewrite spread_cons, spread_up, spread_app. cbn [map app]. unfold lab at 1. f_equal. rewrite map_app. f_equal.
    + destruct (a_keep c (sb_bbmd s) (sb_bbmd s)); [apply (spread_local_fwd c W); exact I | apply spread_nil].
    + unfold fdt_of, fdsR. apply (spread_fdt c W); [exact I|]. intros x Ix. apply fds_of_spec. exact Ix.
  - destruct (wf_entry c W s I) as [E|E]; [unfold twohop in T; rewrite E, addr_eqb_refl in T; discriminate|].
    rewrite E, (bcast_rcv c W s _ I).
    rewrite (filter_all _ (members s)).
    2:{ intros r Ir. apply negb_true_iff. apply addr_eqb_neq. intros Er. apply N.
        assert (r = RB s1) as -> by (apply (rcv_inj c W); [apply (in_all_members c W s); assumption | apply (in_all_RB c W); exact I1 | exact Er]).
        destruct Ir as [Ir|Ir]; [inversion Ir; reflexivity|]. apply in_map_iff in Ir. destruct Ir as [y [Hy _]]. discriminate. }
    unfold members. cbn [map flat_map fst snd]. rewrite map_app. f_equal.
    + unfold react. cbn [bbmd_confirmation snd bbmd_of b_upper b_addr b_bdt b_fdt up_if app].
      rewrite spread_cons, spread_up. cbn [map app]. unfold lab at 1. f_equal.
      unfold fdt_of, fdsR. apply (spread_fdt c W); [exact I|]. intros x Ix. apply fds_of_spec. exact Ix.
    + unfold simR. rewrite !flat_map_map. cbn [fst snd]. rewrite map_map.
      rewrite <- flat_map_single. apply flat_map_ext_in. intros y _. reflexivity.
Qed.

(* ... and to a list of peers *)
Lemma spread_blks (c : acfg) (W : wf c) : forall s1 k a p L, In s1 (a_subs c) ->
  (forall s, In s L -> In s (a_subs c) /\ s <> s1) ->
  spread (S (S (S k))) c (RB s1) (map (fun s => Down (fwd_dest (entry s)) (Forwarded a p)) L)
  = map (lab a p) (flat_map (blkR c) L).
Proof.
  intros s1 k a p L I1. induction L as [|s L IH]; intros H; [reflexivity|].
  cbn [map flat_map]. rewrite spread_cons, map_app. destruct (H s (or_introl eq_refl)) as [Is Ns].
  rewrite (spread_blk c W s1 s k a p I1 Is Ns). f_equal. apply IH. intros s' I'. apply H. right. exact I'.
Qed.

(* ------------------------------------------------------------------ who belongs to which subnet *)
Definition owned (c : acfg) (s : sub) (r : rcv) : Prop :=
  r = RB s \/ (exists y, In y (sb_simple s) /\ r = RS s y) \/
  (exists x, In x (a_fds c) /\ snd x = sb_bbmd s /\ r = RF x).

Lemma simR_owned : forall c s r, In r (simR s) -> owned c s r.
Proof. intros c s r I. apply in_map_iff in I. destruct I as [y [<- Iy]]. right. left. exists y. auto. Qed.
Lemma fdsR_owned : forall c s r, In r (fdsR c s) -> owned c s r.
Proof.
  intros c s r I. apply in_map_iff in I. destruct I as [x [<- Ix]]. apply fds_of_spec in Ix.
  right. right. exists x. tauto.
Qed.
Lemma blk_owned : forall c s r, In r (blkR c s) -> owned c s r.
Proof.
  intros c s r I. unfold blkR in I. destruct (twohop s).
  - destruct I as [<-|I]; [left; reflexivity|]. apply in_app_or in I. destruct I as [I|I]; [|apply fdsR_owned; exact I].
    destruct (a_keep c (sb_bbmd s) (sb_bbmd s)); [apply simR_owned; exact I | contradiction].
  - apply in_app_or in I. destruct I as [[<-|I]|I]; [left; reflexivity | apply fdsR_owned; exact I | apply simR_owned; exact I].
Qed.
Lemma owned_blk : forall c s r, a_keep c (sb_bbmd s) (sb_bbmd s) = true -> owned c s r -> In r (blkR c s).
Proof.
  intros c s r K [->|[[y [Iy ->]]|[x [Ix [Hx ->]]]]]; unfold blkR; rewrite K; destruct (twohop s).
  - left. reflexivity.
  - left. reflexivity.
  - right. apply in_or_app. left. apply in_map. exact Iy.
  - apply in_or_app. right. apply in_map. exact Iy.
  - right. apply in_or_app. right. apply in_map. apply filter_In. split; [exact Ix | apply addr_eqb_eq; exact Hx].
  - apply in_or_app. left. right. apply in_map. apply filter_In. split; [exact Ix | apply addr_eqb_eq; exact Hx].
Qed.
Lemma owned_in_all (c : acfg) (W : wf c) : forall s r, In s (a_subs c) -> owned c s r -> In r (all_rcvs c).
Proof.
  intros s r I [->|[[y [Iy ->]]|[x [Ix [_ ->]]]]];
    [apply (in_all_RB c W) | apply (in_all_RS c W) | apply (in_all_RF c W)]; assumption.
Qed.
Lemma all_owned (c : acfg) (W : wf c) : forall r, In r (all_rcvs c) -> exists s, In s (a_subs c) /\ owned c s r.
Proof.
  intros r I. apply in_app_or in I. destruct I as [I|I].
  - apply in_flat_map in I. destruct I as [s [Is [<-|Ir]]]; exists s; (split; [exact Is|]); [left; reflexivity|].
    apply in_map_iff in Ir. destruct Ir as [y [<- Iy]]. right. left. exists y. auto.
  - apply in_map_iff in I. destruct I as [x [<- Ix]]. destruct (wf_home c W x Ix) as [s [Is Hs]].
    exists s. split; [exact Is|]. right. right. exists x. auto.
Qed.
Lemma owned_inj (c : acfg) (W : wf c) : forall s s' r, In s (a_subs c) -> In s' (a_subs c) ->
  owned c s r -> owned c s' r -> s = s'.
Proof.
  intros s s' r I I' [->|[[y [_ ->]]|[x [_ [Hx ->]]]]] [H|[[y' [_ H]]|[x' [_ [Hx' H]]]]];
    try discriminate; try (inversion H; reflexivity).
  inversion H; subst. apply (bbmd_inj c W); [exact I | exact I' | congruence].
Qed.

Lemma nodup_simR (c : acfg) (W : wf c) : forall s, In s (a_subs c) -> NoDup (simR s).
Proof.
  intros s I. apply nodup_map_on; [apply (simple_nodup c W); exact I|]. intros x y _ _ H. inversion H. reflexivity.
Qed.
Lemma nodup_fdsR (c : acfg) (W : wf c) : forall s, NoDup (fdsR c s).
Proof.
  intros s. apply nodup_map_on; [apply nodup_filter; apply (fds_nodup c W)|]. intros x y _ _ H. inversion H. reflexivity.
Qed.
Lemma nodup_blk (c : acfg) (W : wf c) : forall s, In s (a_subs c) -> NoDup (blkR c s).
Proof.
  intros s I. unfold blkR. destruct (twohop s).
  - constructor.
    + intros H. apply in_app_or in H. destruct H as [H|H].
      * destruct (a_keep c (sb_bbmd s) (sb_bbmd s)); [|contradiction]. apply in_map_iff in H. destruct H as [y [H _]]. discriminate.
      * apply in_map_iff in H. destruct H as [x [H _]]. discriminate.
    + apply nodup_app_intro; [destruct (a_keep c _ _); [apply (nodup_simR c W); exact I | constructor] | apply (nodup_fdsR c W) |].
      intros a H1 H2. destruct (a_keep c _ _); [|contradiction].
      apply in_map_iff in H1. destruct H1 as [y [<- _]]. apply in_map_iff in H2. destruct H2 as [x [H _]]. discriminate.
  - apply nodup_app_intro; [constructor; [|apply (nodup_fdsR c W)] | apply (nodup_simR c W); exact I |].
    + intros H. apply in_map_iff in H. destruct H as [x [H _]]. discriminate.
    + intros a [<-|H1] H2; apply in_map_iff in H2; destruct H2 as [y [H2 _]]; [discriminate|].
      apply in_map_iff in H1. destruct H1 as [x [<- _]]. discriminate.
Qed.

(* blocks of different subnets never share a receiver *)
Lemma nodup_blks (c : acfg) (W : wf c) : forall (g : sub -> list rcv) L, NoDup L ->
  (forall s, In s L -> In s (a_subs c)) ->
  (forall s, In s L -> NoDup (g s)) -> (forall s r, In s L -> In r (g s) -> owned c s r) ->
  NoDup (flat_map g L).
Proof.
  intros g L N HL Hn Ho. apply nodup_flat_map; [exact N | exact Hn |].
  intros s s' a I I' D H H'. apply D. apply (owned_inj c W s s' a); auto.
Qed.

(* ------------------------------------------------------------------ the three kinds of origin *)
Definition peersR (c : acfg) (s0 : sub) : list sub :=
  filter (fun s => a_keep c (sb_bbmd s0) (sb_bbmd s) && negb (addr_eqb (sb_bbmd s) (sb_bbmd s0))) (a_subs c).

Lemma peersR_spec (c : acfg) (W : wf c) : forall s0 s, In s (peersR c s0) -> In s (a_subs c) /\ s <> s0.
Proof.
  intros s0 s I. apply filter_In in I. destruct I as [I H]. split; [exact I|]. intros ->.
  rewrite addr_eqb_refl, andb_false_r in H. discriminate.
Qed.
Lemma in_peersR (c : acfg) (W : wf c) : forall s0 s, In s (a_subs c) -> In s0 (a_subs c) -> s <> s0 ->
  a_keep c (sb_bbmd s0) (sb_bbmd s) = true -> In s (peersR c s0).
Proof.
  intros s0 s I I0 N K. apply filter_In. split; [exact I|]. rewrite K. cbn [andb]. apply negb_true_iff.
  apply addr_eqb_neq. intros E. apply N. apply (bbmd_inj c W); assumption.
Qed.
Lemma to_peers_eq : forall c s0 m,
  to_peers (bbmd_of c s0) m = map (fun s => Down (fwd_dest (entry s)) m) (peersR c s0).
Proof.
  intros. unfold to_peers, bbmd_of, bdt_of, peersR. cbn [b_bdt b_addr].
  rewrite filter_map_comm, filter_filter, map_map. reflexivity.
Qed.

(* what the origin's own subnet's members and devices are *)
Record shape (c : acfg) (o : rcv) (a : addr) (E : list rcv) : Prop := mkShape {
  sh_nodup : NoDup E;
  sh_incl : forall r, In r E -> In r (all_rcvs c);
  sh_noecho : ~ In o E;
  sh_cover : full c -> forall r, In r (all_rcvs c) -> r <> o -> In r E
}.

(* origin = ordinary node x of subnet s0 *)
Definition E_simple (c : acfg) (s0 : sub) (x : addr) : list rcv :=
  (RB s0 :: flat_map (blkR c) (peersR c s0) ++ fdsR c s0)
  ++ map (RS s0) (filter (fun y => negb (addr_eqb y x)) (sb_simple s0)).

Lemma comp_simple (c : acfg) (W : wf c) : forall s0 x n p, In s0 (a_subs c) -> In x (sb_simple s0) ->
  broadcast n c (RS s0 x) p = map (lab x p) (E_simple c s0 x).
Proof.
  intros s0 x n p I Ix. unfold broadcast, originate, simple_indication.
  change (4 + n)%nat with (S (S (S (S n)))).
  rewrite (spread_down _ _ _ _ _ (sb_bcast s0)) by reflexivity. cbn [rcv_addr].
  rewrite (bcast_rcv c W s0 _ I). unfold members. cbn [filter rcv_addr].
  assert (addr_eqb (sb_bbmd s0) x = false) as ->.
  { apply addr_eqb_neq. intros E. assert (RB s0 = RS s0 x) as H; [|discriminate].
    apply (rcv_inj c W); [apply (in_all_RB c W); exact I | apply (in_all_RS c W); assumption | exact E]. }
  cbn [negb map flat_map fst snd]. unfold E_simple. rewrite map_app. f_equal.
  - unfold react. cbn [bbmd_confirmation snd bbmd_of b_upper b_addr b_bdt b_fdt up_if app].
    fold (bbmd_of c s0). rewrite to_peers_eq.
    rewrite spread_cons, spread_up, spread_app. cbn [map app]. unfold lab at 1. f_equal. rewrite map_app. f_equal.
    + apply (spread_blks c W); [exact I | apply (peersR_spec c W)].
    + unfold fdt_of, fdsR. apply (spread_fdt c W); [exact I|]. intros y Iy. apply fds_of_spec. exact Iy.
  - rewrite filter_map_comm. cbn [rcv_addr]. rewrite !flat_map_map. cbn [fst snd]. rewrite map_map.
    rewrite <- flat_map_single. apply flat_map_ext_in. intros y _. reflexivity.
Qed.

Lemma FM_owned (c : acfg) (W : wf c) : forall s0 r, In r (flat_map (blkR c) (peersR c s0)) ->
  exists s, In s (a_subs c) /\ s <> s0 /\ owned c s r.
Proof.
  intros s0 r I. apply in_flat_map in I. destruct I as [s [Is Ir]]. destruct (peersR_spec c W s0 s Is) as [I N].
  exists s. repeat split; [exact I | exact N | apply blk_owned; exact Ir].
Qed.
Lemma two_owners (c : acfg) (W : wf c) : forall s s0 r, In s (a_subs c) -> In s0 (a_subs c) -> s <> s0 ->
  owned c s r -> owned c s0 r -> False.
Proof. intros s s0 r I I0 N O O0. apply N. apply (owned_inj c W s s0 r); assumption. Qed.
Lemma nodup_FM (c : acfg) (W : wf c) : forall s0, NoDup (flat_map (blkR c) (peersR c s0)).
Proof.
  intros s0. apply (nodup_blks c W).
  - apply nodup_filter. apply (subs_nodup c W).
  - intros s I. apply (peersR_spec c W s0 s I).
  - intros s I. apply (nodup_blk c W). apply (peersR_spec c W s0 s I).
  - intros s r _. apply blk_owned.
Qed.
Lemma sub_eq_dec (c : acfg) (W : wf c) : forall s s0, In s (a_subs c) -> In s0 (a_subs c) -> s = s0 \/ s <> s0.
Proof.
  intros s s0 I I0. destruct (addr_eqb (sb_bbmd s) (sb_bbmd s0)) eqn:E.
  - left. apply (bbmd_inj c W); [exact I | exact I0 | apply addr_eqb_eq; exact E].
  - right. intros ->. rewrite addr_eqb_refl in E. discriminate.
Qed.

Lemma shape_simple (c : acfg) (W : wf c) : forall s0 x, In s0 (a_subs c) -> In x (sb_simple s0) ->
  shape c (RS s0 x) x (E_simple c s0 x).
Proof.
  intros s0 x I Ix. unfold E_simple. split.
  - apply nodup_app_intro.
    + constructor.
      * intros H. apply in_app_or in H. destruct H as [H|H].
        -- destruct (FM_owned c W s0 _ H) as [s [Is [N O]]]. apply (two_owners c W s s0 (RB s0)); auto. left. reflexivity.
        -- apply in_map_iff in H. destruct H as [y [H _]]. discriminate.
      * apply nodup_app_intro; [apply (nodup_FM c W) | apply (nodup_fdsR c W) |].
        intros a H1 H2. destruct (FM_owned c W s0 _ H1) as [s [Is [N O]]].
        apply (two_owners c W s s0 a); auto. apply fdsR_owned. exact H2.
    + apply nodup_map_on; [apply nodup_filter; apply (simple_nodup c W); exact I|]. intros a b _ _ H. inversion H. reflexivity.
    + intros a H1 H2. apply in_map_iff in H2. destruct H2 as [y [<- Iy]]. apply filter_In in Iy. destruct Iy as [Iy _].
      destruct H1 as [H1|H1]; [discriminate|]. apply in_app_or in H1. destruct H1 as [H1|H1].
      * destruct (FM_owned c W s0 _ H1) as [s [Is [N O]]]. apply (two_owners c W s s0 (RS s0 y)); auto.
        right. left. exists y. auto.
      * apply in_map_iff in H1. destruct H1 as [z [H1 _]]. discriminate.
  - intros r H. apply in_app_or in H. destruct H as [[<-|H]|H].
    + apply (in_all_RB c W). exact I.
    + apply in_app_or in H. destruct H as [H|H].
      * destruct (FM_owned c W s0 _ H) as [s [Is [_ O]]]. apply (owned_in_all c W s); assumption.
      * apply (owned_in_all c W s0); [exact I | apply fdsR_owned; exact H].
    + apply in_map_iff in H. destruct H as [y [<- Iy]]. apply filter_In in Iy. apply (in_all_RS c W); tauto.
  - intros H. apply in_app_or in H. destruct H as [[H|H]|H]; [discriminate| |].
    + apply in_app_or in H. destruct H as [H|H].
      * destruct (FM_owned c W s0 _ H) as [s [Is [N O]]]. apply (two_owners c W s s0 (RS s0 x)); auto.
        right. left. exists x. auto.
      * apply in_map_iff in H. destruct H as [z [H _]]. discriminate.
    + apply in_map_iff in H. destruct H as [y [H Iy]]. inversion H; subst. apply filter_In in Iy.
      destruct Iy as [_ Iy]. rewrite addr_eqb_refl in Iy. discriminate.
  - intros F r Ir Nr. destruct (all_owned c W r Ir) as [s [Is O]].
    destruct (sub_eq_dec c W s s0 Is I) as [->|N].
    + destruct O as [->|[[y [Iy ->]]|[z [Iz [Hz ->]]]]].
      * apply in_or_app. left. left. reflexivity.
      * apply in_or_app. right. apply in_map. apply filter_In. split; [exact Iy|].
        apply negb_true_iff. apply addr_eqb_neq. intros ->. apply Nr. reflexivity.
      * apply in_or_app. left. right. apply in_or_app. right. apply in_map. apply filter_In.
        split; [exact Iz | apply addr_eqb_eq; exact Hz].
    + apply in_or_app. left. right. apply in_or_app. left. apply in_flat_map. exists s. split.
      * apply (in_peersR c W); auto.
      * apply owned_blk; [apply F | exact O].
Qed.

(* origin = the BBMD of subnet s0 *)
Definition E_bbmd (c : acfg) (s0 : sub) : list rcv :=
  simR s0 ++ flat_map (blkR c) (peersR c s0) ++ fdsR c s0.

Lemma comp_bbmd (c : acfg) (W : wf c) : forall s0 n p, In s0 (a_subs c) ->
  broadcast n c (RB s0) p = map (lab (sb_bbmd s0) p) (E_bbmd c s0).
Proof.
  intros s0 n p I. unfold broadcast, originate, bbmd_indication.
  change (4 + n)%nat with (S (S (S (S n)))).
  cbn [bbmd_of b_addr b_fdt]. fold (bbmd_of c s0). rewrite to_peers_eq.
  rewrite spread_cons, spread_app. unfold E_bbmd. rewrite !map_app. f_equal; [|f_equal].
  - rewrite (spread_down _ _ _ _ _ (sb_bcast s0)) by reflexivity. cbn [rcv_addr].
    rewrite (bcast_rcv c W s0 _ I), (members_not_bbmd c W s0 I).
    unfold simR. rewrite !flat_map_map. cbn [fst snd]. rewrite map_map.
    rewrite <- flat_map_single. apply flat_map_ext_in. intros y _. reflexivity.
  - apply (spread_blks c W); [exact I | apply (peersR_spec c W)].
  - unfold fdt_of, fdsR. apply (spread_fdt c W); [exact I|]. intros y Iy. apply fds_of_spec. exact Iy.
Qed.

Lemma shape_bbmd (c : acfg) (W : wf c) : forall s0, In s0 (a_subs c) ->
  shape c (RB s0) (sb_bbmd s0) (E_bbmd c s0).
Proof.
  intros s0 I. unfold E_bbmd. split.
  - apply nodup_app_intro; [apply (nodup_simR c W); exact I | |].
    + apply nodup_app_intro; [apply (nodup_FM c W) | apply (nodup_fdsR c W) |].
      intros a H1 H2. destruct (FM_owned c W s0 _ H1) as [s [Is [N O]]].
      apply (two_owners c W s s0 a); auto. apply fdsR_owned. exact H2.
    + intros a H1 H2. apply in_app_or in H2. destruct H2 as [H2|H2].
      * destruct (FM_owned c W s0 _ H2) as [s [Is [N O]]]. apply (two_owners c W s s0 a); auto. apply simR_owned. exact H1.
      * apply in_map_iff in H1. destruct H1 as [y [<- _]]. apply in_map_iff in H2. destruct H2 as [z [H2 _]]. discriminate.
  - intros r H. apply in_app_or in H. destruct H as [H|H].
    + apply (owned_in_all c W s0); [exact I | apply simR_owned; exact H].
    + apply in_app_or in H. destruct H as [H|H].
      * destruct (FM_owned c W s0 _ H) as [s [Is [_ O]]]. apply (owned_in_all c W s); assumption.
      * apply (owned_in_all c W s0); [exact I | apply fdsR_owned; exact H].
  - intros H. apply in_app_or in H. destruct H as [H|H].
    + apply in_map_iff in H. destruct H as [y [H _]]. discriminate.
    + apply in_app_or in H. destruct H as [H|H].
      * destruct (FM_owned c W s0 _ H) as [s [Is [N O]]]. apply (two_owners c W s s0 (RB s0)); auto. left. reflexivity.
      * apply in_map_iff in H. destruct H as [z [H _]]. discriminate.
  - intros F r Ir Nr. destruct (all_owned c W r Ir) as [s [Is O]].
    destruct (sub_eq_dec c W s s0 Is I) as [->|N].
    + destruct O as [->|[[y [Iy ->]]|[z [Iz [Hz ->]]]]].
      * exfalso. apply Nr. reflexivity.
      * apply in_or_app. left. apply in_map. exact Iy.
      * apply in_or_app. right. apply in_or_app. right. apply in_map. apply filter_In.
        split; [exact Iz | apply addr_eqb_eq; exact Hz].
    + apply in_or_app. right. apply in_or_app. left. apply in_flat_map. exists s. split.
      * apply (in_peersR c W); auto.
      * apply owned_blk; [apply F | exact O].
Qed.

(* origin = foreign device x0 registered with the BBMD of subnet s0 *)
Definition gF (c : acfg) (s0 s : sub) : list rcv :=
  if addr_eqb (sb_bbmd s) (sb_bbmd s0) then simR s0 else blkR c s.
Definition keptR (c : acfg) (s0 : sub) : list sub := filter (fun s => a_keep c (sb_bbmd s0) (sb_bbmd s)) (a_subs c).
Definition E_foreign (c : acfg) (s0 : sub) (x0 : addr * addr) : list rcv :=
  RB s0 :: flat_map (gF c s0) (keptR c s0)
  ++ map RF (filter (fun x => negb (addr_eqb (fst x) (fst x0))) (fds_of c (sb_bbmd s0))).

Lemma spread_dist (c : acfg) (W : wf c) : forall s0 k a p K, In s0 (a_subs c) ->
  (forall s, In s K -> In s (a_subs c)) ->
  spread (S (S (S k))) c (RB s0)
    (map (fun e => if addr_eqb (bd_addr e) (sb_bbmd s0) then Down DBcast (Forwarded a p)
                   else Down (fwd_dest e) (Forwarded a p)) (map entry K))
  = map (lab a p) (flat_map (gF c s0) K).
Proof.
  intros s0 k a p K I0. induction K as [|s K IH]; intros H; [reflexivity|].
  cbn [map flat_map entry bd_addr]. rewrite spread_cons, map_app. f_equal.
  - unfold gF. destruct (addr_eqb (sb_bbmd s) (sb_bbmd s0)) eqn:E.
    + apply (spread_local_fwd c W). exact I0.
    + apply (spread_blk c W); [exact I0 | apply H; left; reflexivity |]. intros ->. rewrite addr_eqb_refl in E. discriminate.
  - apply IH. intros s' I'. apply H. right. exact I'.
Qed.

Lemma comp_foreign (c : acfg) (W : wf c) : forall s0 x0 n p, In s0 (a_subs c) -> In x0 (a_fds c) ->
  snd x0 = sb_bbmd s0 ->
  broadcast n c (RF x0) p = map (lab (fst x0) p) (E_foreign c s0 x0).
Proof.
  intros s0 x0 n p I Ix Hx. unfold broadcast, originate, foreign_indication, foreign_of.
  cbn [f_status f_bbmd Z.eqb negb]. change (4 + n)%nat with (S (S (S (S n)))).
  rewrite (spread_down _ _ _ _ _ (snd x0)) by reflexivity. cbn [rcv_addr]. rewrite Hx.
  change (sb_bbmd s0) with (rcv_addr (RB s0)) at 1.
  rewrite (unicast_rcv c W (RB s0)); [| apply (in_all_RB c W); exact I |].
  2:{ cbn [rcv_addr]. intros E. apply (RF_not_RB c W x0 s0 Ix I). symmetry. exact E. }
  cbn [flat_map fst snd rcv_addr]. rewrite app_nil_r.
  unfold react. cbn [bbmd_confirmation snd bbmd_of b_upper b_addr b_bdt b_fdt up_if app].
  rewrite spread_cons, spread_up, spread_app. unfold E_foreign. cbn [map app]. unfold lab at 1. f_equal.
  rewrite map_app. f_equal.
  - unfold bdt_of. apply (spread_dist c W); [exact I|]. intros s Is. apply filter_In in Is. apply Is.
  - unfold fdt_of. rewrite filter_map_comm. cbn [fd_addr].
    apply (spread_fdt c W); [exact I|]. intros y Iy. apply filter_In in Iy. apply fds_of_spec. apply Iy.
Qed.

Lemma gF_owned (c : acfg) (W : wf c) : forall s0 s r, In s0 (a_subs c) -> In s (a_subs c) ->
  In r (gF c s0 s) -> owned c s r.
Proof.
  intros s0 s r I0 I H. unfold gF in H. destruct (addr_eqb (sb_bbmd s) (sb_bbmd s0)) eqn:E.
  - apply addr_eqb_eq in E. assert (s = s0) as -> by (apply (bbmd_inj c W); assumption). apply simR_owned. exact H.
  - apply blk_owned. exact H.
Qed.
Lemma gF_no_s0 (c : acfg) (W : wf c) : forall s0 s r, In s0 (a_subs c) -> In s (a_subs c) ->
  In r (gF c s0 s) -> owned c s0 r -> exists y, r = RS s0 y.
Proof.
  intros s0 s r I0 I H O. unfold gF in H. destruct (addr_eqb (sb_bbmd s) (sb_bbmd s0)) eqn:E.
  - apply in_map_iff in H. destruct H as [y [<- _]]. exists y. reflexivity.
  - exfalso. apply (two_owners c W s s0 r); auto; [|apply blk_owned; exact H].
    intros ->. rewrite addr_eqb_refl in E. discriminate.
Qed.

Lemma shape_foreign (c : acfg) (W : wf c) : forall s0 x0, In s0 (a_subs c) -> In x0 (a_fds c) ->
  snd x0 = sb_bbmd s0 -> shape c (RF x0) (fst x0) (E_foreign c s0 x0).
Proof.
  intros s0 x0 I Ix Hx. unfold E_foreign.
  assert (forall s, In s (keptR c s0) -> In s (a_subs c)) as HK by (intros s Is; apply filter_In in Is; apply Is).
  assert (owned c s0 (RF x0)) as O0 by (right; right; exists x0; auto).
  split.
  - constructor.
    + intros H. apply in_app_or in H. destruct H as [H|H].
      * apply in_flat_map in H. destruct H as [s [Is H]].
        destruct (gF_no_s0 c W s0 s (RB s0) I (HK s Is) H) as [y Hy]; [left; reflexivity | discriminate].
      * apply in_map_iff in H. destruct H as [z [H _]]. discriminate.
    + apply nodup_app_intro.
      * apply (nodup_blks c W); [apply nodup_filter; apply (subs_nodup c W) | exact HK | |].
        -- intros s Is. unfold gF. destruct (addr_eqb (sb_bbmd s) (sb_bbmd s0));
             [apply (nodup_simR c W); exact I | apply (nodup_blk c W); apply HK; exact Is].
        -- intros s r Is. apply (gF_owned c W); [exact I | apply HK; exact Is].
      * apply nodup_map_on; [apply nodup_filter; apply nodup_filter; apply (fds_nodup c W)|].
        intros a b _ _ H. inversion H. reflexivity.
      * intros a H1 H2. apply in_map_iff in H2. destruct H2 as [z [<- Iz]]. apply filter_In in Iz. destruct Iz as [Iz _].
        apply fds_of_spec in Iz. apply in_flat_map in H1. destruct H1 as [s [Is H1]].
        destruct (gF_no_s0 c W s0 s (RF z) I (HK s Is) H1) as [y Hy]; [|discriminate].
        right. right. exists z. tauto.
  - intros r [<-|H]; [apply (in_all_RB c W); exact I|]. apply in_app_or in H. destruct H as [H|H].
    + apply in_flat_map in H. destruct H as [s [Is H]]. apply (owned_in_all c W s); [apply HK; exact Is|].
      apply (gF_owned c W s0); [exact I | apply HK; exact Is | exact H].
    + apply in_map_iff in H. destruct H as [z [<- Iz]]. apply filter_In in Iz. destruct Iz as [Iz _].
      apply fds_of_spec in Iz. apply (in_all_RF c W). apply Iz.
  - intros [H|H]; [discriminate|]. apply in_app_or in H. destruct H as [H|H].
    + apply in_flat_map in H. destruct H as [s [Is H]].
      destruct (gF_no_s0 c W s0 s (RF x0) I (HK s Is) H O0) as [y Hy]. discriminate.
    + apply in_map_iff in H. destruct H as [z [H Iz]]. inversion H; subst. apply filter_In in Iz.
      destruct Iz as [_ Iz]. rewrite addr_eqb_refl in Iz. discriminate.
  - intros F r Ir Nr. destruct (all_owned c W r Ir) as [s [Is O]].
    assert (In s (keptR c s0)) as IK by (apply filter_In; split; [exact Is | apply F]).
    destruct (sub_eq_dec c W s s0 Is I) as [->|N].
    + destruct O as [->|[[y [Iy ->]]|[z [Iz [Hz ->]]]]].
      * left. reflexivity.
      * right. apply in_or_app. left. apply in_flat_map. exists s0. split; [exact IK|].
        unfold gF. rewrite addr_eqb_refl. apply in_map. exact Iy.
      * right. apply in_or_app. right. apply in_map. apply filter_In. split.
        -- apply filter_In. split; [exact Iz | apply addr_eqb_eq; exact Hz].
        -- apply negb_true_iff. apply addr_eqb_neq. intros E. apply Nr. f_equal.
           assert (RF z = RF x0) as H; [|inversion H; reflexivity].
           apply (rcv_inj c W); [apply (in_all_RF c W); exact Iz | apply (in_all_RF c W); exact Ix | exact E].
    + right. apply in_or_app. left. apply in_flat_map. exists s. split; [exact IK|].
      unfold gF. assert (addr_eqb (sb_bbmd s) (sb_bbmd s0) = false) as ->.
      { apply addr_eqb_neq. intros E. apply N. apply (bbmd_inj c W); assumption. }
      apply owned_blk; [apply F | exact O].
Qed.

(* ------------------------------------------------------------------ the theorem for all sizes *)
Lemma d_addr_lab : forall a p E, map d_addr (map (lab a p) E) = map rcv_addr E.
Proof. intros. rewrite map_map. apply map_ext. intros r. reflexivity. Qed.

Lemma shape_addr (c : acfg) (W : wf c) : forall o a E, In o (all_rcvs c) -> shape c o a E ->
  NoDup (map rcv_addr E) /\ ~ In (rcv_addr o) (map rcv_addr E) /\
  (full c -> forall a', In a' (all_addrs c) -> a' <> rcv_addr o -> In a' (map rcv_addr E)).
Proof.
  intros o a E Io [N Inc Ne Cov]. repeat split.
  - apply nodup_map_on; [exact N|]. intros x y Hx Hy. apply (rcv_inj c W); apply Inc; assumption.
  - intros H. apply in_map_iff in H. destruct H as [r [Hr Ir]]. apply Ne.
    assert (r = o) as <- by (apply (rcv_inj c W); [apply Inc; exact Ir | exact Io | exact Hr]). exact Ir.
  - intros F a' Ia Na. apply in_map_iff in Ia. destruct Ia as [r [<- Ir]]. apply in_map.
    apply Cov; [exact F | exact Ir |]. intros ->. apply Na. reflexivity.
Qed.

Theorem broadcast_once_any_size : forall c o n p, wf c -> In o (all_rcvs c) ->
  let D := broadcast n c o p in
  (* every delivery is a broadcast showing the originator and the payload *)
  (forall d, In d D -> d = (d_who d, rcv_addr o, DBcast, p)) /\
  (* no node receives two copies (any tables, full or partial) *)
  NoDup (map d_addr D) /\
  (* the originator receives none *)
  ~ In (rcv_addr o) (map d_addr D) /\
  (* full tables: every other node receives one *)
  (full c -> forall a, In a (all_addrs c) -> a <> rcv_addr o -> In a (map d_addr D)).
Proof.
  intros c o n p W Io.
  assert (exists E, broadcast n c o p = map (lab (rcv_addr o) p) E /\ shape c o (rcv_addr o) E) as [E [HD HS]].
  { pose proof Io as Io'. apply in_app_or in Io'. destruct Io' as [H|H].
    - apply in_flat_map in H. destruct H as [s [Is [<-|H]]].
      + exists (E_bbmd c s). split; [apply (comp_bbmd c W); exact Is | apply (shape_bbmd c W); exact Is].
      + apply in_map_iff in H. destruct H as [y [<- Iy]]. exists (E_simple c s y).
        split; [apply (comp_simple c W); assumption | apply (shape_simple c W); assumption].
    - apply in_map_iff in H. destruct H as [x [<- Ix]]. destruct (wf_home c W x Ix) as [s [Is Hs]].
      exists (E_foreign c s x). split; [apply (comp_foreign c W); assumption | apply (shape_foreign c W); assumption]. }
  cbv zeta. rewrite HD, d_addr_lab.
  destruct (shape_addr c W o (rcv_addr o) E Io HS) as [A [B C]].
  split; [|auto]. intros d Hd. apply in_map_iff in Hd. destruct Hd as [r [<- _]]. reflexivity.
Qed.

Definition addr_eq_dec : forall a b : addr, {a = b} + {a <> b}.
Proof. decide equality; apply N.eq_dec. Defined.

(* the same as a count: with full tables every node's address occurs exactly once among the
   receivers, the originator's not at all *)
Corollary broadcast_count_any_size : forall c o n p a, wf c -> full c -> In o (all_rcvs c) -> In a (all_addrs c) ->
  count_occ addr_eq_dec (map d_addr (broadcast n c o p)) a = if addr_eq_dec a (rcv_addr o) then 0%nat else 1%nat.
Proof.
  intros c o n p a W F Io Ia. destruct (broadcast_once_any_size c o n p W Io) as [_ [N [Ne Cov]]].
  destruct (addr_eq_dec a (rcv_addr o)) as [->|Na].
  - apply count_occ_not_In. exact Ne.
  - apply (proj1 (NoDup_count_occ' addr_eq_dec _) N). apply Cov; assumption.
Qed.

(* ------------------------------------------------------------------ deciding wf *)
Lemma nodupb_sound : forall l, nodupb l = true -> NoDup l.
Proof.
  induction l as [|x l IH]; intros H; [constructor|]. cbn [nodupb] in H. apply andb_true_iff in H. destruct H as [H1 H2].
  constructor; [|apply IH; exact H2]. intros I. apply negb_true_iff in H1.
  assert (existsb (addr_eqb x) l = true) as E; [|congruence].
  apply existsb_exists. exists x. split; [exact I | apply addr_eqb_refl].
Qed.
Theorem wf_b_sound : forall c, wf_b c = true -> wf c.
Proof.
  intros c H. unfold wf_b in H. repeat (apply andb_true_iff in H; destruct H as [H ?]).
  rename H into H1, H3 into H2, H2 into H3, H1 into H4, H0 into H5. split.
  - apply nodupb_sound. exact H1.
  - apply nodupb_sound. exact H2.
  - intros a s Ia Is E. pose proof (proj1 (forallb_forall _ _) H3 a Ia) as X.
    pose proof (proj1 (forallb_forall _ _) X s Is) as Y. apply negb_true_iff in Y. apply addr_eqb_neq in Y. contradiction.
  - intros x Ix. pose proof (proj1 (forallb_forall _ _) H4 x Ix) as X. apply existsb_exists in X.
    destruct X as [s [Is E]]. exists s. split; [exact Is | apply addr_eqb_eq; exact E].
  - intros s Is. pose proof (proj1 (forallb_forall _ _) H5 s Is) as X. apply orb_true_iff in X.
    destruct X as [X|X]; apply addr_eqb_eq in X; auto.
Qed.
