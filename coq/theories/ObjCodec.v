(* ObjCodec.v — C15: the outcome of Any.cast_out for Sequence/Choice classes computed with the C03 model
   (Codec.decode / Codec.encode over the schemas of gen/Schemas.v) instead of being taken from the implementation.
   The correspondence cases fill the fields w_one / w_many of Obj.wire with codec_one / codec_many applied to the
   concrete tags of the request.  A constructed value is identified by the digest of the tags it encodes to. *)
From Bac Require Import Base Tag Schema Codec Obj.
Open Scope Z_scope.

Definition tag_ints (t : tag) : list Z := zN (cls t) :: zN (num t) :: zN (lvt t) :: zlen (data t) :: zs (data t).
Definition taghash (ts : list tag) : Z := digest (flat_map tag_ints ts).

(* the instance cast_out built, as the model's element: what it encodes to, or the exception its encode raises *)
Definition elem_of (cid : Z) (t : ty) (v : Schema.val) : Obj.elem :=
  match encode t v with Ok ts => ECons cid (taghash ts) | Err e => EBad cid e end.

(* cast_out(klass) for a Sequence/Choice class: value = klass(); value.decode(t); len(t) != 0 -> DecodingError *)
Definition codec_one (cid : Z) (t : ty) (ts : list tag) : res Obj.elem :=
  match decode t ts with
  | Ok (v, []) => Ok (elem_of cid t v)
  | Ok (_, _ :: _) => Err DecodingError
  | Err e => Err e
  end.

(* cast_out(ArrayOf(klass, fixed)) / cast_out(ListOf(klass)): helper.decode loop, fixed-length check, leftover check *)
Definition codec_many (cid : Z) (t : ty) (is_array : bool) (fixed : option N) (ts : list tag) : res (list Obj.elem) :=
  match decode (if is_array then TArrayOf t fixed else TSeqOf t) ts with
  | Ok (VList vs, []) => Ok (map (elem_of cid t) vs)
  | Ok (_, _ :: _) => Err DecodingError
  | Ok (_, []) => Err OtherErr
  | Err e => Err e
  end.
