(* ObjCodec.v — C15: the outcome of Any.cast_out for Sequence/Choice classes computed with the C03 model
   (Codec.decode / Codec.encode over the schemas of gen/Schemas.v) instead of being taken from the implementation.
   The correspondence cases fill the fields w_one / w_many of Obj.wire with codec_one / codec_many applied to the
   concrete tags of the request.  A constructed value is identified by the digest of the tags it encodes to. *)
From Bac Require Import Base Tag Schema Codec Obj.
Open Scope Z_scope.

Definition tag_ints (t : tag) : list Z := zN (cls t) :: zN (num t) :: zN (lvt t) :: zlen (data t) :: zs (data t).
Definition taghash (ts : list tag) : Z := digest (flat_map tag_ints ts).

(* the instance cast_out built, as the model's element: what it encodes to, or the exception its encode raises.
   Codec keeps an atomic leaf as the tag it was given (the inside of a primitive is property C01's), whereas the
   implementation re-encodes leaves canonically (e.g. an Unsigned sent with leading zero octets), which the model cannot
   see.  So for an accepted value whose request spelling is not what the implementation re-encodes it to, the identity of
   the stored value (never the decision to accept or refuse) is a hint >= 0 passed by the harness; for the canonical
   spellings (hint < 0 / no hints: all values produced by an encoder) the digest is the model's own. *)

Definition elem_of (cid : Z) (t : ty) (v : Schema.val) : Obj.elem :=
  match encode t v with Ok ts => ECons cid (taghash ts) | Err e => EBad cid e end.

(* cast_out(klass) for a Sequence/Choice class: value = klass(); value.decode(t); len(t) != 0 -> DecodingError *)
Definition codec_one (cid : Z) (t : ty) (ts : list tag) (hint : Z) : res Obj.elem :=
  match decode t ts with
  | Ok (v, []) =>
      match encode t v with
      | Ok ts' => Ok (ECons cid (if hint <? 0 then taghash ts' else hint))
      | Err e => Ok (EBad cid e)
      end
  | Ok (_, _ :: _) => Err DecodingError
  | Err e => Err e
  end.

Fixpoint with_hints (cid : Z) (t : ty) (vs : list Schema.val) (hints : list Z) : res (list Obj.elem) :=
  match vs, hints with
  | [], [] => Ok []
  | v :: r, h :: hr =>
      do rest <- with_hints cid t r hr;
      Ok (match encode t v with Ok _ => ECons cid h | Err e => EBad cid e end :: rest)
  | _, _ => Err OtherErr
  end.

(* cast_out(ArrayOf(klass, fixed)) / cast_out(ListOf(klass)): helper.decode loop, fixed-length check, leftover check *)
Definition codec_many (cid : Z) (t : ty) (is_array : bool) (fixed : option N) (ts : list tag) (hints : list Z)
  : res (list Obj.elem) :=
  let lt := if is_array then TArrayOf t fixed else TSeqOf t in
  match decode lt ts with
  | Ok (VList vs, []) =>
      match hints with [] => Ok (map (elem_of cid t) vs) | _ => with_hints cid t vs hints end
  | Ok (_, _ :: _) => Err DecodingError
  | Ok (_, []) => Err OtherErr
  | Err e => Err e
  end.
