(* ObjRpm.v — ReadPropertyMultiple answers are ReadProperty answers (C15_rpm_is_map_rp) *)
From Bac Require Import Base PyRt Obj.
Open Scope Z_scope.

(* what do_ReadPropertyRequest answers for one reference, in the embedded form: the value of the ack, or the
   class/code of the ExecutionError it raises (sent as an Error PDU); None when it ends in another exception
   (Reject / Abort / Error device:operational-problem) *)
Definition rp_answer (d : device) (oid pid : Z) (idx : option Z) : option rresult :=
  match do_read d oid pid idx with
  | XOk (_, its) => Some (RVal its)
  | XErr (ExecErr c k) => Some (RErr c k)
  | XErr _ => None
  end.

Definition obj_of (d : device) (oid : Z) : option object := find_obj (d_objs d) (map_oid d oid).

(* one reference: the element ReadPropertyMultiple builds is exactly the ReadProperty answer *)
Lemma rp_element_is_rp : forall d oid pid idx r,
  rp_element (obj_of d oid) pid idx = XOk (pid, idx, r) <-> rp_answer d oid pid idx = Some r.
Proof.
  intros d oid pid idx r. unfold rp_answer, do_read, obj_of, rp_element.
  destruct (find_obj (d_objs d) (map_oid d oid)) as [o |].
  - destruct (read_any o pid idx) as [its | x]; cbn [xbind catch_prop].
    + split; intro H; inversion H; reflexivity.
    + destruct x as [c k | | e]; cbn [catch_prop].
      * split; intro H; inversion H; reflexivity.
      * split; intro H; inversion H; reflexivity.
      * split; intro H; discriminate.
  - split; intro H; inversion H; reflexivity.
Qed.

Lemma rp_element_shape : forall o pid idx e, rp_element o pid idx = XOk e -> exists r, e = (pid, idx, r).
Proof.
  intros o pid idx e H. unfold rp_element in H. destruct o as [ob |].
  - destruct (read_any ob pid idx) as [its | x].
    + inversion H. eauto.
    + destruct x as [c k | | x]; inversion H; eauto.
  - inversion H. eauto.
Qed.

(* specification of the expansion, written with rp_answer only *)
Definition answer_elems (d : device) (oid pid : Z) (idx : option Z) (keep_unknown : bool) : list relem :=
  match rp_answer d oid pid idx with
  | Some r => if negb keep_unknown && is_unknown_property (pid, idx, r) then [] else [(pid, idx, r)]
  | None => []
  end.

Definition ref_spec (d : device) (oid : Z) (ref : Z * option Z) : list relem :=
  let (pid, idx) := ref in
  if is_special pid then
    match obj_of d oid with
    | None => [(pid, idx, RErr EC_OBJECT E_UNKNOWN_OBJECT)]
    | Some ob => flat_map (fun pv : pdesc * val =>
                   if selected pid (fst pv) then answer_elems d oid (p_id (fst pv)) idx false else []) ob
    end
  else answer_elems d oid pid idx true.

Definition rpm_spec (d : device) (specs : list (Z * list (Z * option Z))) : list (Z * list relem) :=
  map (fun s : Z * list (Z * option Z) => (map_oid d (fst s), flat_map (ref_spec d (fst s)) (snd s))) specs.

Lemma rpm_expand_spec : forall d oid ob, obj_of d oid = Some ob -> forall sel idx ps out,
  rpm_expand ob sel idx ps = XOk out ->
  out = flat_map (fun pv : pdesc * val =>
          if selected sel (fst pv) then answer_elems d oid (p_id (fst pv)) idx false else []) ps.
Proof.
  intros d oid ob Hob sel idx ps. induction ps as [| [p v] r IH]; intros out H; cbn [rpm_expand flat_map fst] in *.
  - inversion H; reflexivity.
  - destruct (selected sel p).
    + destruct (rp_element (Some ob) (p_id p) idx) as [e |] eqn:Ee; cbn [xbind] in H; [| discriminate].
      destruct (rpm_expand ob sel idx r) as [rest |] eqn:Er; cbn [xbind] in H; [| discriminate].
      inversion H; subst; clear H. rewrite (IH rest eq_refl).
      destruct (rp_element_shape _ _ _ _ Ee) as [res ->].
      rewrite <- Hob in Ee. apply rp_element_is_rp in Ee. unfold answer_elems. rewrite Ee. cbn [negb andb].
      destruct (is_unknown_property (p_id p, idx, res)); reflexivity.
    + apply IH; exact H.
Qed.

Lemma rpm_ref_spec : forall d oid ref out, rpm_ref (obj_of d oid) ref = XOk out -> out = ref_spec d oid ref.
Proof.
  intros d oid [pid idx] out H. unfold rpm_ref in H. unfold ref_spec.
  destruct (is_special pid).
  - destruct (obj_of d oid) as [ob |] eqn:Eo.
    + apply (rpm_expand_spec d oid ob Eo _ _ _ _ H).
    + inversion H; reflexivity.
  - destruct (rp_element (obj_of d oid) pid idx) as [e |] eqn:Ee; cbn [xbind] in H; [| discriminate].
    inversion H; subst; clear H. destruct (rp_element_shape _ _ _ _ Ee) as [res ->].
    apply rp_element_is_rp in Ee. unfold answer_elems. rewrite Ee. reflexivity.
Qed.

Lemma rpm_refs_spec : forall d oid refs out, rpm_refs (obj_of d oid) refs = XOk out ->
  out = flat_map (ref_spec d oid) refs.
Proof.
  intros d oid refs. induction refs as [| r rs IH]; intros out H; cbn [rpm_refs flat_map] in *.
  - inversion H; reflexivity.
  - destruct (rpm_ref (obj_of d oid) r) as [a |] eqn:Ea; cbn [xbind] in H; [| discriminate].
    destruct (rpm_refs (obj_of d oid) rs) as [b |] eqn:Eb; cbn [xbind] in H; [| discriminate].
    inversion H; subst. rewrite (rpm_ref_spec _ _ _ _ Ea), (IH b eq_refl). reflexivity.
Qed.

(* the acknowledged result list is the map of the ReadProperty answers over the expanded references *)
Theorem rpm_is_map_rp : forall d specs out, do_rpm d specs = XOk out -> out = rpm_spec d specs.
Proof.
  intros d specs. induction specs as [| [oid refs] r IH]; intros out H; cbn [do_rpm rpm_spec map fst snd] in *.
  - inversion H; reflexivity.
  - fold (obj_of d oid) in H.
    destruct (rpm_refs (obj_of d oid) refs) as [a |] eqn:Ea; cbn [xbind] in H; [| discriminate].
    destruct (do_rpm d r) as [b |] eqn:Eb; cbn [xbind] in H; [| discriminate].
    inversion H; subst. rewrite (rpm_refs_spec _ _ _ _ Ea). f_equal. apply IH. reflexivity.
Qed.

(* conversely the request is acknowledged whenever every expanded reference has an embeddable answer *)
Definition ref_answerable (d : device) (oid : Z) (ref : Z * option Z) : Prop :=
  let (pid, idx) := ref in
  if is_special pid then
    match obj_of d oid with
    | None => True
    | Some ob => forall pv, In pv ob -> selected pid (fst pv) = true -> rp_answer d oid (p_id (fst pv)) idx <> None
    end
  else rp_answer d oid pid idx <> None.

Lemma rp_element_total : forall d oid pid idx, rp_answer d oid pid idx <> None ->
  exists r, rp_element (obj_of d oid) pid idx = XOk (pid, idx, r).
Proof.
  intros d oid pid idx H. destruct (rp_answer d oid pid idx) as [r |] eqn:E; [| congruence].
  exists r. apply rp_element_is_rp. exact E.
Qed.

Lemma rpm_expand_total : forall d oid ob, obj_of d oid = Some ob -> forall sel idx ps,
  (forall pv, In pv ps -> selected sel (fst pv) = true -> rp_answer d oid (p_id (fst pv)) idx <> None) ->
  exists out, rpm_expand ob sel idx ps = XOk out.
Proof.
  intros d oid ob Hob sel idx ps. induction ps as [| [p v] r IH]; intros H; cbn [rpm_expand].
  - eauto.
  - destruct IH as [rest Hrest]; [intros pv Hin; apply H; right; exact Hin |].
    destruct (selected sel p) eqn:Es.
    + destruct (rp_element_total d oid (p_id p) idx) as [res Hres]; [apply (H (p, v)); [left; reflexivity | exact Es] |].
      rewrite Hob in Hres. rewrite Hres, Hrest. cbn [xbind]. eauto.
    + eauto.
Qed.

Theorem rpm_total : forall d specs,
  (forall oid refs, In (oid, refs) specs -> forall ref, In ref refs -> ref_answerable d oid ref) ->
  exists out, do_rpm d specs = XOk out.
Proof.
  intros d specs. induction specs as [| [oid refs] r IH]; intros H; cbn [do_rpm].
  - eauto.
  - destruct IH as [b Hb]; [intros o rf Hin; apply H; right; exact Hin |].
    assert (Hrefs : exists a, rpm_refs (obj_of d oid) refs = XOk a).
    { assert (Hall : forall ref, In ref refs -> ref_answerable d oid ref) by (apply H; left; reflexivity).
      clear H Hb. induction refs as [| [pid idx] rs IHr]; cbn [rpm_refs]; [eauto |].
      destruct IHr as [bb Hbb]; [intros rf Hin; apply Hall; right; exact Hin |].
      assert (Ha : exists a, rpm_ref (obj_of d oid) (pid, idx) = XOk a).
      { specialize (Hall (pid, idx) (or_introl eq_refl)). unfold ref_answerable in Hall. unfold rpm_ref.
        destruct (is_special pid).
        - destruct (obj_of d oid) as [ob |] eqn:Eo; [| eauto].
          apply (rpm_expand_total d oid ob Eo). exact Hall.
        - destruct (rp_element_total d oid pid idx Hall) as [res Hres]. rewrite Hres. cbn [xbind]. eauto. }
      destruct Ha as [a Ha]. rewrite Ha, Hbb. cbn [xbind]. eauto. }
    destruct Hrefs as [a Ha]. fold (obj_of d oid). rewrite Ha, Hb. cbn [xbind]. eauto.
Qed.
