(* SchedFacts.v — lemmas about Sched.v: the queue invariant (sorted, fresh counters, one entry per
   task, isScheduled = queued, entry time = taskTime) and its preservation by every operation;
   generic preservation principle for the two event loops. *)
From Bac Require Import Base Deferred DeferredFacts Sched.
From Coq Require Import Permutation Sorted ZifyBool ZifyN ZifyNat.
Ltac Zify.zify_post_hook ::= Z.to_euclidean_division_equations.
Open Scope Z_scope.

(* ---------- order on entries ---------- *)
Definition elt (a b : entry) : Prop := e_lt a b = true.

Lemma e_lt_spec : forall a b, e_lt a b = true <->
  (e_when a < e_when b \/ (e_when a = e_when b /\ (e_seq a < e_seq b)%N)).
Proof. intros. unfold e_lt. lia. Qed.

Lemma e_lt_false : forall a b, e_lt a b = false <->
  (e_when b < e_when a \/ (e_when a = e_when b /\ (e_seq b <= e_seq a)%N)).
Proof. intros. unfold e_lt. lia. Qed.

Lemma elt_trans : forall a b c, elt a b -> elt b c -> elt a c.
Proof. unfold elt. intros a b c. rewrite !e_lt_spec. lia. Qed.

Lemma elt_total : forall a b, e_lt a b = false -> e_seq a <> e_seq b -> elt b a.
Proof. unfold elt. intros a b. rewrite e_lt_false, e_lt_spec. lia. Qed.

Lemma elt_irrefl : forall a, ~ elt a a.
Proof. unfold elt. intros a. rewrite e_lt_spec. lia. Qed.

Definition sorted (h : list entry) : Prop := StronglySorted elt h.

Lemma insert_perm : forall e h, Permutation (insert e h) (e :: h).
Proof.
  induction h as [|x r IH]; [reflexivity|].
  cbn [insert]. destruct (e_lt e x); [reflexivity|].
  rewrite IH. apply perm_swap.
Qed.

Lemma insert_sorted : forall e h, sorted h -> (forall x, In x h -> e_seq x <> e_seq e) -> sorted (insert e h).
Proof.
  induction h as [|x r IH]; intros Hs Hf.
  - repeat constructor.
  - cbn [insert]. inversion Hs as [|? ? Hr Hx]; subst.
    destruct (e_lt e x) eqn:E.
    + constructor; [exact Hs|]. constructor; [exact E|].
      rewrite Forall_forall in *. intros y Hy. eapply elt_trans; [exact E | apply Hx, Hy].
    + constructor.
      * apply IH; [exact Hr|]. intros y Hy. apply Hf. right. exact Hy.
      * rewrite Forall_forall in *. intros y Hy.
        apply (Permutation_in _ (insert_perm e r)) in Hy. destruct Hy as [<-|Hy].
        -- apply elt_total; [exact E|]. intros Heq. apply (Hf x); [left; reflexivity | symmetry; exact Heq].
        -- apply Hx, Hy.
Qed.

Lemma remove_perm : forall i h h', remove_tid i h = Some h' ->
  exists e, e_tid e = i /\ Permutation h (e :: h').
Proof.
  induction h as [|x r IH]; intros h' H; [discriminate|].
  cbn [remove_tid] in H. destruct (Nat.eqb (e_tid x) i) eqn:E.
  - inversion H; subst. exists x. split; [apply Nat.eqb_eq, E | reflexivity].
  - destruct (remove_tid i r) as [r'|] eqn:R; [|discriminate]. inversion H; subst.
    destruct (IH r' eq_refl) as [e [He Hp]]. exists e. split; [exact He|].
    rewrite Hp. apply perm_swap.
Qed.

Lemma remove_sorted : forall i h h', sorted h -> remove_tid i h = Some h' -> sorted h'.
Proof.
  induction h as [|x r IH]; intros h' Hs H; [discriminate|].
  cbn [remove_tid] in H. inversion Hs as [|? ? Hr Hx]; subst.
  destruct (Nat.eqb (e_tid x) i); [inversion H; subst; exact Hr|].
  destruct (remove_tid i r) as [r'|] eqn:R; [|discriminate]. inversion H; subst.
  constructor; [apply IH; [exact Hr | reflexivity]|].
  destruct (remove_perm _ _ _ R) as [e [_ Hp]].
  rewrite Forall_forall in *. intros y Hy. apply Hx.
  apply (Permutation_in _ (Permutation_sym Hp)). right. exact Hy.
Qed.

Lemma remove_none : forall i h, remove_tid i h = None -> ~ In i (map e_tid h).
Proof.
  induction h as [|x r IH]; intros H; [intros []|].
  cbn [remove_tid] in H. destruct (Nat.eqb (e_tid x) i) eqn:E; [discriminate|].
  destruct (remove_tid i r); [discriminate|].
  cbn [map]. intros [Hx|Hx]; [apply Nat.eqb_neq in E; contradiction | exact (IH eq_refl Hx)].
Qed.

(* ---------- the queue invariant ---------- *)
Record InvW (s : st) : Prop := {
  inv_sorted : sorted (heap s);
  inv_seq : forall e, In e (heap s) -> (e_seq e < ctr s)%N;
  inv_nodup : NoDup (map e_tid (heap s));
  inv_sched : forall i, sched s i = true <-> In i (map e_tid (heap s)) }.

Definition time_ok (s : st) (e : entry) : Prop := ttime s (e_tid e) = Some (e_when e).
Definition Inv (s : st) : Prop := InvW s /\ forall e, In e (heap s) -> time_ok s e.
(* everything but the time of task i's own entry (i is about to be re-installed) *)
Definition InvBut (i : nat) (s : st) : Prop :=
  InvW s /\ forall e, In e (heap s) -> e_tid e <> i -> time_ok s e.

Lemma Inv_st0 : Inv st0.
Proof.
  split; [split|]; cbn [st0 heap ctr sched map].
  - constructor.
  - intros e [].
  - constructor.
  - intros i. split; [discriminate | intros []].
  - intros e [].
Qed.

Lemma upd_same : forall A (f : nat -> A) i v, upd f i v i = v.
Proof. intros. unfold upd. rewrite Nat.eqb_refl. reflexivity. Qed.
Lemma upd_other : forall A (f : nat -> A) i v j, j <> i -> upd f i v j = f j.
Proof. intros. unfold upd. destruct (Nat.eqb j i) eqn:E; [apply Nat.eqb_eq in E; contradiction | reflexivity]. Qed.

Lemma tm_suspend_facts : forall s i, InvW s ->
  InvW (tm_suspend s i) /\ ~ In i (map e_tid (heap (tm_suspend s i)))
  /\ (forall e, In e (heap (tm_suspend s i)) -> In e (heap s) /\ e_tid e <> i)
  /\ (forall e, In e (heap s) -> e_tid e <> i -> In e (heap (tm_suspend s i)))
  /\ ttime (tm_suspend s i) = ttime s /\ ctr (tm_suspend s i) = ctr s /\ now (tm_suspend s i) = now s
  /\ dq (tm_suspend s i) = dq s.
Proof.
  intros s i [Hs Hq Hn Hc]. unfold tm_suspend.
  destruct (remove_tid i (heap s)) as [h'|] eqn:R.
  - destruct (remove_perm _ _ _ R) as [e [He Hp]]. subst i.
    assert (Hn' : NoDup (e_tid e :: map e_tid h')).
    { change (NoDup (map e_tid (e :: h'))). eapply Permutation_NoDup; [|exact Hn].
      apply Permutation_map, Hp. }
    inversion Hn' as [|? ? Hni Hnd]; subst.
    assert (Hin : forall x, In x h' -> In x (heap s) /\ e_tid x <> e_tid e).
    { intros x Hx. split; [apply (Permutation_in _ (Permutation_sym Hp)); right; exact Hx|].
      intros Heq. apply Hni. rewrite <- Heq. apply in_map, Hx. }
    split; [split|]; cbn [heap sched ttime ctr now dq].
    + eapply remove_sorted; eassumption.
    + intros x Hx. apply Hq, Hin, Hx.
    + exact Hnd.
    + intros j. destruct (Nat.eq_dec j (e_tid e)) as [->|Hne].
      * rewrite upd_same. split; [discriminate | intros Hj; contradiction].
      * rewrite upd_other by exact Hne. rewrite Hc. split; intros Hj.
        -- apply (Permutation_in _ (Permutation_map e_tid Hp)) in Hj.
           destruct Hj as [Hj|Hj]; [congruence | exact Hj].
        -- apply (Permutation_in _ (Permutation_sym (Permutation_map e_tid Hp))). right. exact Hj.
    + split; [exact Hni|]. split; [intros x Hx; apply Hin, Hx|].
      split; [|repeat split; reflexivity].
      intros x Hx Hne. apply (Permutation_in _ Hp) in Hx. destruct Hx as [<-|Hx]; [contradiction | exact Hx].
  - split; [split; assumption|]. split; [apply remove_none, R|].
    split; [|split; [intros; assumption | repeat split; reflexivity]].
    intros x Hx. split; [exact Hx|]. intros Heq. apply (remove_none _ _ R). rewrite <- Heq. apply in_map, Hx.
Qed.

(* TaskManager.install_task: one entry for the task, with its taskTime and a fresh counter *)
Lemma tm_install_facts : forall s i s', InvBut i s -> tm_install s i = Ok s' ->
  exists t s1, ttime s i = Some t /\ s1 = (if sched s i then tm_suspend s i else s)
  /\ Inv s' /\ ~ In i (map e_tid (heap s1))
  /\ Permutation (heap s') ((t, ctr s, i) :: heap s1)
  /\ ctr s' = (ctr s + 1)%N /\ now s' = now s /\ dq s' = dq s /\ ttime s' = ttime s.
Proof.
  intros s i s' [Hw Ht] H. unfold tm_install in H.
  destruct (ttime s i) as [t|] eqn:T; [|discriminate].
  set (s1 := if sched s i then tm_suspend s i else s) in *.
  exists t, s1. split; [reflexivity|]. split; [reflexivity|].
  destruct (tm_suspend_facts s i Hw) as [Hw1 [Hni1 [Hin1 [Hin1' [Ht1 [Hc1 [Hn1 Hd1]]]]]]].
  assert (HW : InvW s1 /\ ~ In i (map e_tid (heap s1)) /\ ttime s1 = ttime s /\ ctr s1 = ctr s
               /\ now s1 = now s /\ dq s1 = dq s /\ (forall e, In e (heap s1) -> In e (heap s) /\ e_tid e <> i)).
  { subst s1. destruct (sched s i) eqn:S.
    - split; [exact Hw1|]. split; [exact Hni1|]. split; [exact Ht1|]. split; [exact Hc1|].
      split; [exact Hn1|]. split; [exact Hd1|]. exact Hin1.
    - assert (Hni : ~ In i (map e_tid (heap s))).
      { intros Hi. apply (inv_sched s Hw) in Hi. congruence. }
      split; [exact Hw|]. split; [exact Hni|]. do 4 (split; [reflexivity|]).
      intros e He. split; [exact He|]. intros Heq. apply Hni. rewrite <- Heq. apply in_map, He. }
  destruct HW as [[Hs Hq Hn Hc] [Hni [Htt [Hcc [Hnn [Hdd Hsub]]]]]].
  inversion H; subst s'; clear H. cbn [heap sched ttime ctr now dq].
  rewrite Hcc, Hnn, Hdd, Htt.
  pose proof (insert_perm (t, ctr s, i) (heap s1)) as Hp.
  split; [split; [split|]|]; cbn [heap sched ttime ctr now dq].
  - apply insert_sorted; [exact Hs|]. intros x Hx. apply Hq in Hx. cbn [e_seq fst snd]. lia.
  - intros x Hx. apply (Permutation_in _ Hp) in Hx. destruct Hx as [<-|Hx]; [cbn [e_seq fst snd]; lia|].
    apply Hq in Hx. lia.
  - eapply Permutation_NoDup; [apply Permutation_sym, Permutation_map, Hp|].
    cbn [map e_tid snd]. constructor; assumption.
  - intros j. split; intros Hj.
    + apply (Permutation_in _ (Permutation_sym (Permutation_map e_tid Hp))).
      cbn [map e_tid snd]. destruct (Nat.eq_dec j i) as [->|Hne]; [left; reflexivity|].
      right. apply Hc. rewrite upd_other in Hj by exact Hne. exact Hj.
    + destruct (Nat.eq_dec j i) as [->|Hne]; [apply upd_same|].
      rewrite upd_other by exact Hne. apply Hc.
      apply (Permutation_in _ (Permutation_map e_tid Hp)) in Hj. cbn [map e_tid snd] in Hj.
      destruct Hj as [Hj|Hj]; [congruence | exact Hj].
  - intros x Hx. apply (Permutation_in _ Hp) in Hx. unfold time_ok. cbn [ttime].
    destruct Hx as [<-|Hx]; [exact T|].
    destruct (Hsub x Hx) as [Hx' Hne]. apply Ht; assumption.
  - split; [exact Hni|]. split; [exact Hp|]. repeat split; reflexivity.
Qed.

Lemma set_ttime_id : forall s, set_ttime s (ttime s) = s.
Proof. intros []. reflexivity. Qed.

Lemma Inv_InvBut : forall s i, Inv s -> InvBut i s.
Proof. intros s i [Hw Ht]. split; [exact Hw|]. intros e He _. apply Ht, He. Qed.

Lemma InvBut_set_time : forall s i v, Inv s -> InvBut i (set_ttime s (upd (ttime s) i v)).
Proof.
  intros s i v [[Hs Hq Hn Hc] Ht]. split; [split; assumption|].
  intros e He Hne. unfold time_ok. cbn [ttime set_ttime]. rewrite upd_other by exact Hne. apply Ht, He.
Qed.

Lemma Inv_set_dq : forall s q, Inv s -> Inv (set_dq s q).
Proof. intros s q [[Hs Hq Hn Hc] Ht]. split; [split; assumption | exact Ht]. Qed.
Lemma Inv_set_now : forall s t, Inv s -> Inv (set_now s t).
Proof. intros s t [[Hs Hq Hn Hc] Ht]. split; [split; assumption | exact Ht]. Qed.

Lemma tm_suspend_inv : forall s i, Inv s -> Inv (tm_suspend s i).
Proof.
  intros s i [Hw Ht]. destruct (tm_suspend_facts s i Hw) as [Hw1 [_ [Hin [_ [Htt _]]]]].
  split; [exact Hw1|]. intros e He. unfold time_ok. rewrite Htt. apply Ht, Hin, He.
Qed.

(* ---------- get_next_task / process_task ---------- *)
Lemma get_next_none : forall s s1 z, get_next_task s = (None, s1, z) -> s1 = s /\ z = false.
Proof.
  intros s s1 z H. unfold get_next_task in H. destruct (heap s) as [|e r]; [inversion H; auto|].
  destruct (e_when e <=? now s); inversion H; auto.
Qed.

Lemma get_next_some : forall s e s1 z, get_next_task s = (Some e, s1, z) ->
  exists r, heap s = e :: r /\ e_when e <= now s
  /\ s1 = mkSt (now s) (ctr s) r (upd (sched s) (e_tid e) false) (ttime s) (dq s)
  /\ z = match r with [] => false | e' :: _ => e_when e' <=? now s end.
Proof.
  intros s e s1 z H. unfold get_next_task in H. destruct (heap s) as [|e0 r]; [discriminate|].
  destruct (e_when e0 <=? now s) eqn:E; [|discriminate]. inversion H; subst.
  exists r. repeat split. lia.
Qed.

Lemma get_next_inv : forall s e s1 z, Inv s -> get_next_task s = (Some e, s1, z) ->
  Inv s1 /\ ~ In (e_tid e) (map e_tid (heap s1)).
Proof.
  intros s e s1 z [[Hs Hq Hn Hc] Ht] H.
  destruct (get_next_some _ _ _ _ H) as [r [Hh [Hd [-> _]]]].
  rewrite Hh in *. cbn [map] in Hn. inversion Hn as [|? ? Hni Hnd]; subst.
  inversion Hs as [|? ? Hr Hx]; subst.
  split; [|exact Hni].
  split; [split|]; cbn [heap sched ttime ctr now dq].
  - exact Hr.
  - intros x Hx'. apply Hq. right. exact Hx'.
  - exact Hnd.
  - intros i. destruct (Nat.eq_dec i (e_tid e)) as [->|Hne].
    + rewrite upd_same. split; [discriminate | contradiction].
    + rewrite upd_other by exact Hne. rewrite Hc. cbn [map]. split; [intros [Hj|Hj]; [congruence | exact Hj] | intros Hj; right; exact Hj].
  - intros x Hx'. apply Ht. right. exact Hx'.
Qed.

Definition fire_of (s : st) (e : entry) : event := EvFire (e_tid e) (e_when e) (e_seq e) (now s).

(* events that trace invariants look at: firings and the two ghost records *)
Definition is_fire (x : event) : bool :=
  match x with EvFire _ _ _ _ | EvPop _ _ | EvInst _ _ => true | _ => false end.
Definition noise (ev : list event) : Prop := forall x, In x ev -> is_fire x = false.

Lemma noise_app : forall a b, noise a -> noise b -> noise (a ++ b).
Proof. intros a b Ha Hb x Hx. apply in_app_or in Hx. destruct Hx; [apply Ha | apply Hb]; assumption. Qed.
Lemma noise1 : forall x, is_fire x = false -> noise [x].
Proof. intros x Hx y [<-|[]]. exact Hx. Qed.
Lemma noise_nil : noise [].
Proof. intros x []. Qed.

(* shape of one scheduling action: a suspend, or an install through tm_install after the task's
   time was (possibly) set *)
Lemma do_act_cases : forall jit c s a s' ev, do_act jit c s a = Ok (s', ev) ->
  (exists i, s' = tm_suspend s i /\ ev = []) \/
  (exists i f, (f = ttime s \/ exists t, f = upd (ttime s) i (Some t)) /\
     tm_install (set_ttime s f) i = Ok s' /\ ev = [EvInst i false]).
Proof.
  intros jit c s a s' ev H. destruct a as [i t|i d|i|i|i]; cbn [do_act] in H.
  - unfold do_install_when in H. destruct (t_kind (cfg_get c i)); [|discriminate].
    match type of H with context [tm_install ?x ?y] => destruct (tm_install x y) as [s2|] eqn:T end; [|discriminate].
    inversion H; subst. right. exists i, (upd (ttime s) i (Some t)). split; [right; eexists; reflexivity|]. split; [exact T | reflexivity].
  - unfold do_install_when in H. destruct (t_kind (cfg_get c i)); [|discriminate].
    match type of H with context [tm_install ?x ?y] => destruct (tm_install x y) as [s2|] eqn:T end; [|discriminate].
    inversion H; subst. right. exists i, (upd (ttime s) i (Some (now s + d))). split; [right; eexists; reflexivity|]. split; [exact T | reflexivity].
  - unfold do_reinstall in H. destruct (t_kind (cfg_get c i)) as [|iv off].
    + destruct (ttime s i); [|discriminate].
      destruct (tm_install s i) as [s2|] eqn:T; [|discriminate]. inversion H; subst.
      right. exists i, (ttime s). split; [left; reflexivity|]. rewrite set_ttime_id. split; [exact T | reflexivity].
    + unfold rec_install in H. destruct (iv <=? 0); [discriminate|].
      match type of H with context [tm_install ?x ?y] => destruct (tm_install x y) as [s2|] eqn:T end; [|discriminate].
      inversion H; subst. right. eexists i, _. split; [right; eexists; reflexivity|]. split; [exact T | reflexivity].
  - inversion H; subst. left. exists i. split; reflexivity.
  - destruct (tm_install s i) as [s2|] eqn:T; [|discriminate]. inversion H; subst.
    right. exists i, (ttime s). split; [left; reflexivity|]. rewrite set_ttime_id. split; [exact T | reflexivity].
Qed.

(* shape of process_task: the fire event, the callback's actions, then raise / re-install *)
Lemma process_task_cases : forall jit c s e s2 ev r, process_task jit c s e = (s2, ev, r) ->
  let k := cfg_get c (e_tid e) in
  exists sa eva failed, run_acts jit c (set_dq s (dq s ++ t_defers k)) (t_acts k) = (sa, eva, failed) /\
    ((s2 = sa /\ ev = fire_of s e :: eva) \/
     exists iv off, t_kind k = Recurring iv off /\ 0 < iv /\ r = false /\ failed = false /\ t_raises k = false /\
       tm_install (set_ttime sa (upd (ttime sa) (e_tid e) (Some (next_slot jit iv off (now sa))))) (e_tid e) = Ok s2 /\
       ev = fire_of s e :: eva ++ [EvInst (e_tid e) true]).
Proof.
  intros jit c s e s2 ev r H k. unfold process_task in H. fold k in H.
  destruct (run_acts jit c (set_dq s (dq s ++ t_defers k)) (t_acts k)) as [[sa eva] failed] eqn:RA.
  exists sa, eva, failed. split; [reflexivity|].
  destruct (failed || t_raises k) eqn:FR; [inversion H; subst; left; split; reflexivity|].
  destruct (t_kind k) as [|iv off] eqn:K; [inversion H; subst; left; split; reflexivity|].
  unfold rec_install in H. destruct (iv <=? 0) eqn:E; [inversion H; subst; left; split; reflexivity|].
  match type of H with context [tm_install ?a ?b] => destruct (tm_install a b) as [s3|] eqn:T end;
    inversion H; subst; [right | left; split; reflexivity].
  apply orb_false_elim in FR. destruct FR as [-> Hr].
  exists iv, off. repeat split; try reflexivity; try assumption. lia.
Qed.

(* ---------- generic preservation by callbacks, loops and histories ---------- *)
Section Loops.
  Context (I : st -> list event -> Prop) (guard : bool) (jit : Z) (c : cfg).
  Context (I_pop : forall s acc e s1 z, I s acc -> get_next_task s = (Some e, s1, z) ->
             I s1 (acc ++ [EvPop e (heap s1); fire_of s1 e])).
  Context (I_dq : forall s acc q, I s acc -> I (set_dq s q) acc).
  Context (I_noise : forall s acc ev, I s acc -> noise ev -> I s (acc ++ ev)).
  Context (I_suspend : forall s acc i, I s acc -> I (tm_suspend s i) acc).
  Context (I_install : forall s acc i f s' auto, I s acc ->
             (f = ttime s \/ exists t, f = upd (ttime s) i (Some t)) ->
             tm_install (set_ttime s f) i = Ok s' -> I s' (acc ++ [EvInst i auto])).
  Context (I_now : forall s acc t, I s acc -> I (set_now s t) acc).

  Lemma do_act_I : forall s acc a s' ev, I s acc -> do_act jit c s a = Ok (s', ev) -> I s' (acc ++ ev).
  Proof.
    intros s acc a s' ev Hi H. destruct (do_act_cases _ _ _ _ _ _ H) as [[i [-> ->]]|[i [f [Hf [T ->]]]]].
    - rewrite app_nil_r. apply I_suspend, Hi.
    - eapply I_install; eassumption.
  Qed.

  Lemma run_acts_I : forall l s acc s' ev x, I s acc -> run_acts jit c s l = (s', ev, x) -> I s' (acc ++ ev).
  Proof.
    induction l as [|a l IH]; intros s acc s' ev x Hi H; cbn [run_acts] in H.
    - inversion H; subst. rewrite app_nil_r. exact Hi.
    - destruct (do_act jit c s a) as [[s1 ev1]|] eqn:A.
      + destruct (run_acts jit c s1 l) as [[s2 ev2] x2] eqn:R. inversion H; subst.
        rewrite app_assoc. eapply IH; [|exact R]. eapply do_act_I; eassumption.
      + inversion H; subst. rewrite app_nil_r. exact Hi.
  Qed.

  (* pop + process_task *)
  Lemma fire_I : forall s acc e s1 z s2 ev r, I s acc -> get_next_task s = (Some e, s1, z) ->
    process_task jit c s1 e = (s2, ev, r) -> I s2 (acc ++ pop_events s e s1 ++ ev).
  Proof.
    intros s acc e s1 z s2 ev r Hi G P. pose proof (I_pop _ _ _ _ _ Hi G) as H1.
    destruct (process_task_cases _ _ _ _ _ _ _ P) as [sa [eva [failed [RA Hc]]]].
    assert (Ha : I sa ((acc ++ [EvPop e (heap s1); fire_of s1 e]) ++ eva)).
    { eapply run_acts_I; [|exact RA]. apply I_dq, H1. }
    unfold pop_events.
    destruct Hc as [[-> ->]|[iv [off [_ [_ [_ [_ [_ [T ->]]]]]]]]].
    - rewrite <- app_assoc in Ha. exact Ha.
    - replace (acc ++ [EvPop e (heap s1)] ++ fire_of s1 e :: eva ++ [EvInst (e_tid e) true])
        with (((acc ++ [EvPop e (heap s1); fire_of s1 e]) ++ eva) ++ [EvInst (e_tid e) true])
        by (rewrite <- !app_assoc; reflexivity).
      eapply I_install; [exact Ha | right; eexists; reflexivity | exact T].
  Qed.

  Lemma call_batch_s_I : forall b s acc s' ev x, I s acc ->
    call_batch_s guard jit c s b = (s', ev, x) -> I s' (acc ++ ev).
  Proof.
    induction b as [|d b IH]; intros s acc s' ev x Hi H; cbn [call_batch_s] in H.
    - inversion H; subst. rewrite app_nil_r. exact Hi.
    - destruct (run_acts jit c (set_dq s (dq s ++ d_spawns d)) (d_acts d)) as [[s2 ev2] failed] eqn:RA.
      assert (H2 : I s2 (acc ++ EvCall (d_id d) :: ev2 ++ (if failed || d_raises d then [EvRaise] else []))).
      { replace (acc ++ EvCall (d_id d) :: ev2 ++ (if failed || d_raises d then [EvRaise] else []))
          with (((acc ++ [EvCall (d_id d)]) ++ ev2) ++ (if failed || d_raises d then [EvRaise] else []))
          by (rewrite <- !app_assoc; reflexivity).
        apply I_noise.
        - eapply run_acts_I; [|exact RA]. apply I_dq. apply I_noise; [exact Hi | apply noise1; reflexivity].
        - destruct (failed || d_raises d); [apply noise1; reflexivity | apply noise_nil]. }
      destruct ((failed || d_raises d) && negb guard); [inversion H; subst; exact H2|].
      destruct (call_batch_s guard jit c s2 b) as [[s3 ev3] x3] eqn:R. inversion H; subst.
      change (I s' (acc ++ (EvCall (d_id d) :: ev2 ++ (if failed || d_raises d then [EvRaise] else [])) ++ ev3)).
      rewrite app_assoc. eapply IH; [exact H2 | exact R].
  Qed.

  Lemma sdrain_I : forall fuel s acc s' ev x, I s acc -> sdrain guard jit c fuel s = (s', ev, x) -> I s' (acc ++ ev).
  Proof.
    induction fuel as [|f IH]; intros s acc s' ev x Hi H; cbn [sdrain] in H.
    - destruct (dq s); inversion H; subst; [rewrite app_nil_r; exact Hi|].
      apply I_noise; [exact Hi | apply noise1; reflexivity].
    - destruct (dq s) as [|d0 q0] eqn:Q; [inversion H; subst; rewrite app_nil_r; exact Hi|].
      destruct (call_batch_s guard jit c (set_dq s []) (d0 :: q0)) as [[s1 ev1] x1] eqn:B.
      pose proof (call_batch_s_I _ _ _ _ _ _ (I_dq _ _ [] Hi) B) as H1.
      destruct x1; [inversion H; subst; exact H1|].
      destruct (sdrain guard jit c f s1) as [[s2 ev2] x2] eqn:R. inversion H; subst.
      rewrite app_assoc. eapply IH; [exact H1 | exact R].
  Qed.

  Lemma do_drain_I : forall s acc s' ev x, I s acc -> do_drain guard jit c s = (s', ev, x) -> I s' (acc ++ ev).
  Proof. intros s acc s' ev x Hi H. unfold do_drain in H. eapply sdrain_I; eassumption. Qed.

  Lemma pop_I : forall s acc t s1 z s2 ev r, I s acc -> get_next_task s = (t, s1, z) ->
    match t with
    | Some e => let '(s2, ev, r) := process_task jit c s1 e in (s2, pop_events s e s1 ++ ev, r)
    | None => (s1, [], false)
    end = (s2, ev, r) -> I s2 (acc ++ ev).
  Proof.
    intros s acc [e|] s1 z s2 ev r Hi G P.
    - destruct (process_task jit c s1 e) as [[s2' ev'] r'] eqn:PT. inversion P; subst.
      eapply fire_I; eassumption.
    - apply get_next_none in G. destruct G as [-> _]. inversion P; subst. rewrite app_nil_r. exact Hi.
  Qed.

  Lemma once_cont : forall f,
    (forall s acc s' ev, I s acc -> run_once_loop guard jit c f s = (s', ev) -> I s' (acc ++ ev)) ->
    forall s2 acc ev1 (r1 z : bool) s' ev, I s2 (acc ++ ev1) ->
    (if r1 then (s2, ev1 ++ [EvRaise])
     else let '(s3, ev2, r2) := do_drain guard jit c s2 in
          if r2 then (s3, ev1 ++ ev2)
          else if z then let '(s4, ev3) := run_once_loop guard jit c f s3 in (s4, ev1 ++ ev2 ++ ev3)
               else (s3, ev1 ++ ev2)) = (s', ev) -> I s' (acc ++ ev).
  Proof.
    intros f IH s2 acc ev1 r1 z s' ev H2 H. destruct r1.
    - inversion H; subst. rewrite app_assoc. apply I_noise; [exact H2 | apply noise1; reflexivity].
    - destruct (do_drain guard jit c s2) as [[s3 ev2] r2] eqn:D.
      pose proof (do_drain_I _ _ _ _ _ H2 D) as H3. rewrite <- app_assoc in H3.
      destruct r2; [inversion H; subst; exact H3|].
      destruct z; [|inversion H; subst; exact H3].
      destruct (run_once_loop guard jit c f s3) as [s4 ev3] eqn:R.
      inversion H; subst. rewrite app_assoc in H3. specialize (IH _ _ _ _ H3 R).
      rewrite <- !app_assoc in IH. exact IH.
  Qed.

  Lemma run_once_loop_I : forall fuel s acc s' ev, I s acc ->
    run_once_loop guard jit c fuel s = (s', ev) -> I s' (acc ++ ev).
  Proof.
    induction fuel as [|f IH]; intros s acc s' ev Hi H; cbn [run_once_loop] in H.
    - inversion H; subst. apply I_noise; [exact Hi | apply noise1; reflexivity].
    - destruct (get_next_task s) as [[t s1] z] eqn:G. destruct t as [e|].
      + destruct (process_task jit c s1 e) as [[s2 ev1] r1] eqn:P. cbv beta iota zeta in H.
        eapply (once_cont f IH); [|exact H]. rewrite app_assoc. rewrite <- app_assoc. eapply fire_I; eassumption.
      + cbv beta iota zeta in H. apply get_next_none in G. destruct G as [-> _].
        apply (once_cont f IH s acc [] false z); [rewrite app_nil_r; exact Hi | exact H].
  Qed.

  Lemma run_cont : forall f,
    (forall s acc s' ev, I s acc -> run_loop guard jit c f s = (s', ev) -> I s' (acc ++ ev)) ->
    forall s2 acc ev1 (r1 : bool) s' ev, I s2 (acc ++ ev1) ->
    (let '(s3, ev2) :=
       if r1 then (s2, ev1 ++ [EvRaise])
       else let '(s3, ev2, _) := do_drain guard jit c s2 in (s3, ev1 ++ ev2) in
     let '(s4, ev3) := run_loop guard jit c f s3 in (s4, ev2 ++ ev3)) = (s', ev) -> I s' (acc ++ ev).
  Proof.
    intros f IH s2 acc ev1 r1 s' ev H2 H.
    assert (H3 : forall s3 ev2,
      (if r1 then (s2, ev1 ++ [EvRaise])
       else let '(s3, ev2, _) := do_drain guard jit c s2 in (s3, ev1 ++ ev2)) = (s3, ev2) -> I s3 (acc ++ ev2)).
    { intros s3 ev2 E. destruct r1.
      - inversion E; subst. rewrite app_assoc. apply I_noise; [exact H2 | apply noise1; reflexivity].
      - destruct (do_drain guard jit c s2) as [[s3' ev2'] r2] eqn:D. inversion E; subst.
        rewrite app_assoc. eapply do_drain_I; eassumption. }
    destruct (if r1 then (s2, ev1 ++ [EvRaise])
              else let '(s3, ev2, _) := do_drain guard jit c s2 in (s3, ev1 ++ ev2)) as [s3 ev2] eqn:E.
    specialize (H3 _ _ eq_refl).
    destruct (run_loop guard jit c f s3) as [s4 ev3] eqn:R. inversion H; subst.
    specialize (IH _ _ _ _ H3 R). rewrite <- app_assoc in IH. exact IH.
  Qed.

  Lemma run_loop_I : forall fuel s acc s' ev, I s acc ->
    run_loop guard jit c fuel s = (s', ev) -> I s' (acc ++ ev).
  Proof.
    induction fuel as [|f IH]; intros s acc s' ev Hi H; cbn [run_loop] in H.
    - destruct (quiescent s); inversion H; subst; [rewrite app_nil_r; exact Hi|].
      apply I_noise; [exact Hi | apply noise1; reflexivity].
    - destruct (quiescent s); [inversion H; subst; rewrite app_nil_r; exact Hi|].
      destruct (get_next_task s) as [[t s1] z] eqn:G. destruct t as [e|].
      + destruct (process_task jit c s1 e) as [[s2 ev1] r1] eqn:P. cbv beta iota zeta in H.
        eapply (run_cont f IH); [|exact H]. eapply fire_I; eassumption.
      + cbv beta iota zeta in H. apply get_next_none in G. destruct G as [-> _].
        apply (run_cont f IH s acc [] false); [rewrite app_nil_r; exact Hi | exact H].
  Qed.

  Lemma step_I : forall s acc o s' ev, I s acc -> step guard jit c s o = (s', ev) -> I s' (acc ++ ev).
  Proof.
    assert (Hl : forall s acc a s' ev, I s acc -> lift s (do_act jit c s a) = (s', ev) -> I s' (acc ++ ev)).
    { intros s acc a s' ev Hi H. unfold lift in H. destruct (do_act jit c s a) as [[s2 ev2]|e] eqn:A.
      - inversion H; subst. eapply do_act_I; eassumption.
      - inversion H; subst. apply I_noise; [exact Hi | apply noise1; reflexivity]. }
    intros s acc o s' ev Hi H. destruct o; cbn [step] in H; try (eapply Hl; eassumption).
    - inversion H; subst. rewrite app_nil_r. apply I_now, Hi.
    - destruct (heap s); inversion H; subst; rewrite app_nil_r; [exact Hi | apply I_now, Hi].
    - destruct (get_next_task s) as [[t s1] z] eqn:G. destruct t as [e|].
      + destruct (process_task jit c s1 e) as [[s2 ev1] r] eqn:P. inversion H; subst.
        change (I s' (acc ++ pop_events s e s1 ++ ev1 ++ (if r then [EvRaise] else []))).
        replace (acc ++ pop_events s e s1 ++ ev1 ++ (if r then [EvRaise] else []))
          with ((acc ++ pop_events s e s1 ++ ev1) ++ (if r then [EvRaise] else []))
          by (rewrite <- !app_assoc; reflexivity).
        apply I_noise; [eapply fire_I; eassumption|].
        destruct r; [apply noise1; reflexivity | apply noise_nil].
      + apply get_next_none in G. destruct G as [-> _]. inversion H; subst. rewrite app_nil_r. exact Hi.
    - inversion H; subst. rewrite app_nil_r. apply I_dq, Hi.
    - eapply run_once_loop_I; eassumption.
    - eapply run_loop_I; eassumption.
  Qed.

  Lemma run_ops_I : forall ops s acc s' ev, I s acc -> run_ops guard jit c s ops = (s', ev) -> I s' (acc ++ ev).
  Proof.
    induction ops as [|o ops IH]; intros s acc s' ev Hi H; cbn [run_ops] in H.
    - inversion H; subst. rewrite app_nil_r. exact Hi.
    - destruct (step guard jit c s o) as [s1 ev1] eqn:S.
      destruct (run_ops guard jit c s1 ops) as [s2 ev2] eqn:R. inversion H; subst.
      pose proof (step_I _ _ _ _ _ Hi S) as H1. specialize (IH _ _ _ _ H1 R).
      rewrite <- app_assoc in IH. exact IH.
  Qed.
End Loops.
