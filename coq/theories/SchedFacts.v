(* SchedFacts.v — lemmas about Sched.v *)
From Bac Require Import Base Deferred Sched.
