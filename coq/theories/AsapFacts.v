From Bac Require Import Base Asap.
Open Scope N_scope.

Lemma one_reply known h d x :
  x <> XSilent -> exists r, asap_confirmed known h d x = [r].
Proof.
  intros Hx. unfold asap_confirmed, app_indication.
  destruct known; cbn [negb]; [|eauto].
  destruct d; eauto.
  destruct h; cbn [negb]; [|eauto].
  destruct x; eauto. congruence.
Qed.

Lemma malformed_rejected known h d x :
  d <> DOk -> exists r, asap_confirmed known h d x = [r] /\ (ptype r = REJECT \/ ptype r = ABORT).
Proof.
  intros Hd. unfold asap_confirmed. destruct known; cbn [negb].
  - destruct d; try congruence; eexists; split; try reflexivity; cbn; auto.
  - eexists; split; [reflexivity|cbn; auto].
Qed.

Lemma unknown_service_rejected h d x :
  asap_confirmed false h d x = [mkReply REJECT unrecognizedService 0].
Proof. reflexivity. Qed.

Lemma unsupported_service_rejected x :
  asap_confirmed true false DOk x = [mkReply REJECT unrecognizedService 0].
Proof. reflexivity. Qed.

Lemma exec_error_mapped c k :
  asap_confirmed true true DOk (XExecError c k) = [mkReply ERROR c k].
Proof. reflexivity. Qed.

Lemma exec_exception_mapped :
  asap_confirmed true true DOk XExn = [mkReply ERROR errDevice errOperationalProblem].
Proof. reflexivity. Qed.

(* at most one reply in every case *)
Lemma at_most_one known h d x : (length (asap_confirmed known h d x) <= 1)%nat.
Proof.
  unfold asap_confirmed, app_indication.
  destruct known; cbn [negb]; [|cbn; lia].
  destruct d; try (cbn; lia).
  destruct h; cbn [negb]; [|cbn; lia].
  destruct x; cbn; lia.
Qed.
