(* RouterCacheFacts.v — lemmas about the model RouterCache.v (property C19): association lists,
   the invariant Coherent, every operation of RouterInfoCache on coherent states, histories. *)
From Coq Require Import ZifyBool ZifyN ZifyNat.
From Bac Require Import Base RouterCache.
Ltac Zify.zify_post_hook ::= Z.to_euclidean_division_equations.
Open Scope Z_scope.


(* ---- association lists *)
Section AssocFacts.
  Context {K V : Type} (eqb : K -> K -> bool).
  Context (eqb_spec : forall a b, eqb a b = true <-> a = b).

  Lemma eqb_refl' : forall a, eqb a a = true.
  Proof. intros a. apply eqb_spec. reflexivity. Qed.

  Lemma aget_afilter : forall (f : K -> bool) k (l : list (K * V)),
    aget eqb k (afilter f l) = if f k then aget eqb k l else None.
  Proof.
    intros f k l. induction l as [|[k0 v0] l IH].
    - cbn. destruct (f k); reflexivity.
    - unfold afilter in *. cbn [filter fst]. destruct (f k0) eqn:Hf0.
      + cbn [aget]. destruct (eqb k k0) eqn:Hk.
        * apply eqb_spec in Hk. subst k0. rewrite Hf0. reflexivity.
        * exact IH.
      + rewrite IH. cbn [aget]. destruct (eqb k k0) eqn:Hk.
        * apply eqb_spec in Hk. subst k0. rewrite Hf0. reflexivity.
        * reflexivity.
  Qed.

  Lemma aget_adel : forall k k' (l : list (K * V)),
    aget eqb k (adel eqb k' l) = if eqb k k' then None else aget eqb k l.
  Proof.
    intros. unfold adel. rewrite aget_afilter. destruct (eqb k k'); reflexivity.
  Qed.

  Lemma aget_aset : forall k k' v (l : list (K * V)),
    aget eqb k (aset eqb k' v l) = if eqb k k' then Some v else aget eqb k l.
  Proof.
    intros. unfold aset. cbn [aget]. destruct (eqb k k') eqn:Hk; [reflexivity|].
    rewrite aget_adel, Hk. reflexivity.
  Qed.

  Lemma aget_fold_aset : forall {D} (c : D -> bool) (g : D -> K) v ds k (l : list (K * V)),
    aget eqb k (fold_left (fun l d => if c d then l else aset eqb (g d) v l) ds l)
    = if existsb (fun d => negb (c d) && eqb k (g d)) ds then Some v else aget eqb k l.
  Proof.
    intros D c g v ds k. induction ds as [|d ds IH]; intros l.
    - reflexivity.
    - cbn [fold_left existsb]. rewrite IH. destruct (c d) eqn:Hc; cbn [negb andb orb].
      + reflexivity.
      + rewrite aget_aset. destruct (eqb k (g d)); cbn [orb]; [|reflexivity].
        destruct (existsb _ ds); reflexivity.
  Qed.

  Lemma amem_spec : forall k (l : list (K * V)), amem eqb k l = true <-> exists v, aget eqb k l = Some v.
  Proof.
    intros. unfold amem. destruct (aget eqb k l); split; intros H; try discriminate; eauto.
    destruct H as [? H]; discriminate.
  Qed.

  Lemma aget_in : forall k v (l : list (K * V)), aget eqb k l = Some v -> In (k, v) l.
  Proof.
    intros k v l. induction l as [|[k0 v0] l IH]; cbn; [discriminate|].
    destruct (eqb k k0) eqn:Hk.
    - intros [= ->]. apply eqb_spec in Hk. subst. auto.
    - auto.
  Qed.
End AssocFacts.

Lemma keq_spec : forall a b, keq a b = true <-> a = b.
Proof.
  intros [a1 a2] [b1 b2]. unfold keq. cbn [fst snd]. rewrite andb_true_iff, !Z.eqb_eq.
  split; [intros [-> ->]; reflexivity | intros [= -> ->]; auto].
Qed.

Lemma keq_pair : forall a b c d, keq (a, b) (c, d) = (a =? c) && (b =? d).
Proof. reflexivity. Qed.

Lemma zmem_spec : forall x l, zmem x l = true <-> In x l.
Proof.
  intros. unfold zmem. rewrite existsb_exists. split.
  - intros [y [Hy He]]. apply Z.eqb_eq in He. subst. exact Hy.
  - intros H. exists x. split; [exact H | apply Z.eqb_refl].
Qed.

Definition zeqb_spec := Z.eqb_eq.


Definition credited (s : cache) (sn a d : Z) : Prop :=
  exists ri, rget s sn a = Some ri /\ has_dnet ri d = true.

Definition Coherent (s : cache) : Prop :=
  (forall sn d a, pget s sn d = Some a <-> credited s sn a d)
  /\ (forall sn a ri, rget s sn a = Some ri -> zmem sn (nets s) = true).

Lemma coherent_empty : Coherent empty.
Proof.
  split.
  - intros sn d a. unfold pget, credited, rget. cbn. split; [discriminate|].
    intros [ri [H _]]. discriminate.
  - intros sn a ri H. unfold rget in H. cbn in H. discriminate.
Qed.

Lemma has_dnet_path : forall s sn a ri d, Coherent s -> rget s sn a = Some ri ->
  (has_dnet ri d = true <-> pget s sn d = Some a).
Proof.
  intros s sn a ri d [Hc _] Hr. split.
  - intros Hd. apply Hc. exists ri. auto.
  - intros Hp. apply Hc in Hp. destruct Hp as [ri' [Hr' Hd]]. congruence.
Qed.

Lemma has_dnet_filter : forall f l st d,
  has_dnet (mkR (afilter f l) st) d = f d && has_dnet (mkR l st) d.
Proof.
  intros. unfold has_dnet, amem. cbn [dnets]. rewrite (aget_afilter Z.eqb Z.eqb_eq).
  destruct (f d); reflexivity.
Qed.

Lemma has_dnet_nil : forall st d, has_dnet (mkR [] st) d = false.
Proof. reflexivity. Qed.

Lemma pair_neq_keq : forall a b c d, (a, b) <> (c, d) -> keq (a, b) (c, d) = false.
Proof.
  intros. destruct (keq (a, b) (c, d)) eqn:E; [|reflexivity].
  apply keq_spec in E. contradiction.
Qed.

(* one router gives up the destinations ds *)
Lemma displace_ok : forall s sn ds a' ri, Coherent s -> rget s sn a' = Some ri ->
  exists s', displace sn ds s a' = Ok s' /\ Coherent s' /\ nets s' = nets s /\
    (forall sn0 d0, pget s' sn0 d0 =
       if (sn0 =? sn) && zmem d0 ds && match pget s sn0 d0 with Some a => a =? a' | None => false end
       then None else pget s sn0 d0) /\
    (forall sn0 a0, (sn0, a0) <> (sn, a') -> rget s' sn0 a0 = rget s sn0 a0) /\
    (forall ri', rget s' sn a' = Some ri' ->
       rstatus ri' = rstatus ri /\ forall d, has_dnet ri' d = negb (zmem d ds) && has_dnet ri d).
Proof.
  intros s sn ds a' ri Hcoh Hr.
  pose proof (has_dnet_path s sn a' ri) as Hdp.
  unfold displace. rewrite Hr.
  assert (Hchk : forallb (fun d => implb (has_dnet ri d) (amem keq (sn, d) (paths s))) ds = true).
  { apply forallb_forall. intros d _. destruct (has_dnet ri d) eqn:Hd; [|reflexivity]. cbn.
    apply (Hdp d Hcoh Hr) in Hd. unfold pget in Hd. unfold amem. rewrite Hd. reflexivity. }
  rewrite Hchk. cbn [negb].
  set (dn' := afilter (fun d => negb (zmem d ds)) (dnets ri)).
  set (p' := afilter _ (paths s)).
  set (r' := match dn' with [] => adel keq (sn, a') (routers s) | _ => _ end).
  exists (mkC (nets s) r' p').
  assert (Hp' : forall sn0 d0, aget keq (sn0, d0) p' =
       if (sn0 =? sn) && zmem d0 ds && match pget s sn0 d0 with Some a => a =? a' | None => false end
       then None else pget s sn0 d0).
  { intros sn0 d0. unfold p'. rewrite (aget_afilter keq keq_spec). cbn [fst snd].
    fold (pget s sn0 d0).
    destruct (sn0 =? sn) eqn:Esn; cbn [andb negb]; [|reflexivity].
    apply Z.eqb_eq in Esn. subst sn0.
    destruct (zmem d0 ds) eqn:Ed; cbn [andb negb]; [|reflexivity].
    destruct (has_dnet ri d0) eqn:Hd; cbn [negb].
    - apply (Hdp d0 Hcoh Hr) in Hd. rewrite Hd. rewrite Z.eqb_refl. reflexivity.
    - destruct (pget s sn d0) as [a|] eqn:Hp; [|reflexivity].
      destruct (a =? a') eqn:Ea; [|reflexivity].
      apply Z.eqb_eq in Ea. subst a. apply (Hdp d0 Hcoh Hr) in Hp. congruence. }
  assert (Hr'other : forall sn0 a0, (sn0, a0) <> (sn, a') -> aget keq (sn0, a0) r' = rget s sn0 a0).
  { intros sn0 a0 Hne. unfold r'. destruct dn'.
    - rewrite (aget_adel keq keq_spec). rewrite (pair_neq_keq _ _ _ _ Hne). reflexivity.
    - rewrite (aget_aset keq keq_spec). rewrite (pair_neq_keq _ _ _ _ Hne). reflexivity. }
  assert (Hr'same : forall ri', aget keq (sn, a') r' = Some ri' ->
       rstatus ri' = rstatus ri /\ forall d, has_dnet ri' d = negb (zmem d ds) && has_dnet ri d).
  { intros ri'. unfold r'. destruct dn' eqn:Edn.
    - rewrite (aget_adel keq keq_spec). rewrite (proj2 (keq_spec _ _) eq_refl). discriminate.
    - rewrite (aget_aset keq keq_spec). rewrite (proj2 (keq_spec _ _) eq_refl).
      intros [= <-]. split; [reflexivity|]. intros d. rewrite <- Edn. unfold dn'.
      rewrite has_dnet_filter. destruct ri; reflexivity. }
  assert (Hr'none : aget keq (sn, a') r' = None -> forall d, negb (zmem d ds) && has_dnet ri d = false).
  { unfold r'. destruct dn' eqn:Edn.
    - intros _ d. pose proof (has_dnet_filter (fun d => negb (zmem d ds)) (dnets ri) None d) as Hf.
      change (afilter (fun d => negb (zmem d ds)) (dnets ri)) with dn' in Hf. rewrite Edn in Hf.
      rewrite has_dnet_nil in Hf. symmetry. exact Hf.
    - rewrite (aget_aset keq keq_spec). rewrite (proj2 (keq_spec _ _) eq_refl). discriminate. }
  split; [reflexivity|]. split; [|split; [reflexivity|split; [exact Hp'|split; [exact Hr'other|exact Hr'same]]]].
  destruct Hcoh as [Hc Hn]. split.
  - intros sn0 d a0. unfold pget, credited, rget. cbn [paths routers].
    rewrite Hp'. destruct (Z.eq_dec sn0 sn) as [->|Hsn].
    + destruct (Z.eq_dec a0 a') as [->|Ha].
      * (* the displaced router itself *)
        rewrite Z.eqb_refl. cbn [andb]. split.
        -- intros H. destruct (zmem d ds) eqn:Ed; cbn [andb] in H.
           ++ destruct (pget s sn d) as [x|] eqn:Hp; [|discriminate].
              destruct (x =? a') eqn:Ex; [discriminate|]. injection H as ->. rewrite Z.eqb_refl in Ex. discriminate.
           ++ assert (Hd : has_dnet ri d = true) by (apply (Hdp d (conj Hc Hn) Hr); exact H).
              destruct (aget keq (sn, a') r') as [ri'|] eqn:Hg.
              ** exists ri'. split; [reflexivity|]. destruct (Hr'same ri' eq_refl) as [_ Hh]. rewrite Hh, Ed, Hd. reflexivity.
              ** specialize (Hr'none eq_refl d). rewrite Ed, Hd in Hr'none. discriminate.
        -- intros [ri' [Hg Hh]]. destruct (Hr'same ri' Hg) as [_ Hh']. rewrite Hh' in Hh.
           apply andb_true_iff in Hh. destruct Hh as [Hnd Hd]. apply negb_true_iff in Hnd. rewrite Hnd. cbn [andb].
           apply (Hdp d (conj Hc Hn) Hr). exact Hd.
      * rewrite Hr'other by congruence. rewrite Z.eqb_refl. cbn [andb]. split.
        -- intros H. apply Hc. destruct (zmem d ds); cbn [andb] in H; [|exact H].
           destruct (pget s sn d) as [x|]; [|discriminate]. destruct (x =? a'); [discriminate|exact H].
        -- intros H. apply Hc in H. rewrite H. destruct (a0 =? a') eqn:E; [apply Z.eqb_eq in E; contradiction|].
           rewrite andb_false_r. reflexivity.
    + rewrite Hr'other by congruence. destruct (sn0 =? sn) eqn:E; [apply Z.eqb_eq in E; contradiction|].
      cbn [andb]. apply Hc.
  - intros sn0 a0 ri0. unfold rget. cbn [routers nets]. intros Hg.
    destruct (Z.eq_dec sn0 sn) as [->|Hsn].
    + apply (Hn sn a' ri Hr).
    + rewrite Hr'other in Hg by congruence. apply (Hn _ _ _ Hg).
Qed.


Lemma displace_fold : forall sn ds others s, Coherent s -> NoDup others ->
  (forall a', In a' others -> exists ri, rget s sn a' = Some ri) ->
  exists s', foldM (displace sn ds) others s = Ok s' /\ Coherent s' /\ nets s' = nets s /\
    (forall sn0 d0, pget s' sn0 d0 =
       if (sn0 =? sn) && zmem d0 ds && match pget s sn0 d0 with Some a => zmem a others | None => false end
       then None else pget s sn0 d0) /\
    (forall sn0 a0, ~ (sn0 = sn /\ In a0 others) -> rget s' sn0 a0 = rget s sn0 a0).
Proof.
  intros sn ds others. induction others as [|a' r IH]; intros s Hcoh Hnd Hex.
  - exists s. cbn [foldM]. split; [reflexivity|]. split; [exact Hcoh|]. split; [reflexivity|]. split.
    + intros sn0 d0. destruct (pget s sn0 d0); cbn [zmem existsb]; rewrite andb_false_r; reflexivity.
    + reflexivity.
  - destruct (Hex a' (or_introl eq_refl)) as [ri Hr].
    destruct (displace_ok s sn ds a' ri Hcoh Hr) as [s1 [H1 [Hc1 [Hn1 [Hp1 [Hf1 _]]]]]].
    inversion Hnd as [|x l Hnotin Hnd']; subst.
    destruct (IH s1 Hc1 Hnd') as [s2 [H2 [Hc2 [Hn2 [Hp2 Hf2]]]]].
    { intros a'' Hin. destruct (Hex a'' (or_intror Hin)) as [ri'' Hr''].
      exists ri''. rewrite Hf1; [exact Hr''|]. intros [= ->]. contradiction. }
    exists s2. cbn [foldM]. rewrite H1. cbn [bind]. split; [exact H2|]. split; [exact Hc2|].
    split; [congruence|]. split.
    + intros sn0 d0. rewrite Hp2, Hp1.
      destruct (sn0 =? sn); cbn [andb]; [|reflexivity].
      destruct (zmem d0 ds); cbn [andb]; [|reflexivity].
      destruct (pget s sn0 d0) as [x|]; [|reflexivity].
      cbn [zmem existsb]. destruct (x =? a'); cbn [orb]; [reflexivity|].
      fold (zmem x r). destruct (zmem x r); reflexivity.
    + intros sn0 a0 Hno. rewrite Hf2.
      * apply Hf1. intros [= -> ->]. apply Hno. split; [reflexivity|left; reflexivity].
      * intros [-> Hin]. apply Hno. split; [reflexivity|right; exact Hin].
Qed.

(* the routers collected by others_of are known routers, and a path is removed exactly when it
   leads to one of them *)
Lemma others_of_spec : forall s sn excl ds a',
  In a' (others_of s sn excl ds) <->
  exists d, In d ds /\ pget s sn d = Some a' /\ excl <> Some a'.
Proof.
  intros s sn excl ds a'. unfold others_of. rewrite nodup_In, in_flat_map. split.
  - intros [d [Hd Hin]]. exists d. split; [exact Hd|].
    destruct (pget s sn d) as [x|]; [|contradiction].
    destruct excl as [a|].
    + destruct (x =? a) eqn:E; [contradiction|]. destruct Hin as [->|[]].
      split; [reflexivity|]. intros [= ->]. rewrite Z.eqb_refl in E. discriminate.
    + destruct Hin as [->|[]]. split; [reflexivity|discriminate].
  - intros [d [Hd [Hp Hne]]]. exists d. split; [exact Hd|]. rewrite Hp.
    destruct excl as [a|].
    + destruct (a' =? a) eqn:E; [apply Z.eqb_eq in E; subst; contradiction|]. left; reflexivity.
    + left; reflexivity.
Qed.

Lemma others_known : forall s sn excl ds a', Coherent s -> In a' (others_of s sn excl ds) ->
  exists ri, rget s sn a' = Some ri.
Proof.
  intros s sn excl ds a' [Hc _] Hin. apply others_of_spec in Hin.
  destruct Hin as [d [_ [Hp _]]]. apply Hc in Hp. destruct Hp as [ri [Hr _]]. eauto.
Qed.

Lemma others_nodup : forall s sn excl ds, NoDup (others_of s sn excl ds).
Proof. intros. unfold others_of. apply NoDup_nodup. Qed.


Lemma afilter_nil : forall {K V} (f : K -> bool) (l : list (K * V)),
  (forall k v, In (k, v) l -> f k = false) -> afilter f l = [].
Proof.
  intros K V f l. induction l as [|[k v] l IH]; intros H; [reflexivity|].
  unfold afilter in *. cbn [filter fst]. rewrite (H k v (or_introl eq_refl)).
  apply IH. intros k' v' Hin. apply (H k' v'). right. exact Hin.
Qed.

Lemma in_amem : forall k v (l : list (Z * Z)), In (k, v) l -> amem Z.eqb k l = true.
Proof.
  intros k v l. induction l as [|[k0 v0] l IH]; intros Hin; [contradiction|].
  unfold amem. cbn [aget]. destruct (k =? k0) eqn:E; [reflexivity|].
  destruct Hin as [[= -> ->]|Hin]; [rewrite Z.eqb_refl in E; discriminate|].
  apply IH in Hin. unfold amem in Hin. exact Hin.
Qed.

Lemma amem_map_fst : forall d (l : list (Z * Z)), zmem d (map fst l) = amem Z.eqb d l.
Proof.
  intros d l. induction l as [|[k v] l IH]; [reflexivity|].
  unfold amem in *. cbn [map fst zmem existsb aget]. fold (zmem d (map fst l)). rewrite IH.
  destruct (d =? k); reflexivity.
Qed.

(* when every destination of the router is in ds the router record goes *)
Lemma displace_drops : forall s sn ds a' ri s', rget s sn a' = Some ri ->
  (forall d, has_dnet ri d = true -> zmem d ds = true) ->
  displace sn ds s a' = Ok s' -> rget s' sn a' = None.
Proof.
  intros s sn ds a' ri s' Hr Hall. unfold displace. rewrite Hr.
  destruct (negb _); [discriminate|].
  assert (E : afilter (fun d => negb (zmem d ds)) (dnets ri) = []).
  { apply afilter_nil. intros k v Hin. apply in_amem in Hin. fold (has_dnet ri k) in Hin.
    rewrite (Hall k Hin). reflexivity. }
  rewrite E. intros [= <-]. unfold rget. cbn [routers].
  rewrite (aget_adel keq keq_spec). rewrite (proj2 (keq_spec _ _) eq_refl). reflexivity.
Qed.

(* ---- delete_router_info *)

(* forget a router: exactly its destinations go *)
Lemma forget_router : forall s sn a dso, Coherent s -> (dso = None \/ dso = Some []) ->
  exists s', delete_router_info s sn (Some a) dso = Ok s' /\ Coherent s' /\
    (forall sn0 d0, pget s' sn0 d0 =
       match pget s sn0 d0 with
       | Some x => if (sn0 =? sn) && (x =? a) then None else Some x
       | None => None
       end) /\
    rget s' sn a = None /\
    (forall sn0 a0, (sn0, a0) <> (sn, a) -> rget s' sn0 a0 = rget s sn0 a0).
Proof.
  intros s sn a dso Hcoh Hdso. unfold delete_router_info.
  destruct (rget s sn a) as [ri|] eqn:Hr.
  - set (ds := match dso with Some (d :: r) => d :: r | _ => map fst (dnets ri) end).
    assert (Eds : ds = map fst (dnets ri)) by (unfold ds; destruct Hdso as [->| ->]; reflexivity).
    destruct (displace_ok s sn ds a ri Hcoh Hr) as [s' [H1 [Hc1 [_ [Hp1 [Hf1 _]]]]]].
    exists s'. split; [exact H1|]. split; [exact Hc1|]. split; [|split; [|exact Hf1]].
    + intros sn0 d0. rewrite Hp1. destruct (pget s sn0 d0) as [x|] eqn:Hp.
      * destruct (sn0 =? sn) eqn:Esn; cbn [andb]; [|reflexivity].
        destruct (x =? a) eqn:Ex; [|rewrite andb_false_r; reflexivity].
        apply Z.eqb_eq in Esn, Ex. subst sn0 x.
        apply (has_dnet_path s sn a ri d0 Hcoh Hr) in Hp.
        rewrite Eds, amem_map_fst. unfold has_dnet in Hp. rewrite Hp. reflexivity.
      * rewrite andb_false_r. reflexivity.
    + apply (displace_drops s sn ds a ri s' Hr); [|exact H1].
      intros d Hd. rewrite Eds, amem_map_fst. exact Hd.
  - exists s. split; [reflexivity|]. split; [exact Hcoh|]. split; [|split; [exact Hr|reflexivity]].
    intros sn0 d0. destruct (pget s sn0 d0) as [x|] eqn:Hp; [|reflexivity].
    destruct (sn0 =? sn) eqn:Esn; cbn [andb]; [|reflexivity].
    destruct (x =? a) eqn:Ex; [|reflexivity].
    apply Z.eqb_eq in Esn, Ex. subst. destruct Hcoh as [Hc _]. apply Hc in Hp.
    destruct Hp as [ri [Hr' _]]. congruence.
Qed.

(* forget some destinations of one router: exactly those it was credited with go *)
Lemma forget_router_dnets : forall s sn a d r, Coherent s ->
  exists s', delete_router_info s sn (Some a) (Some (d :: r)) = Ok s' /\ Coherent s' /\
    (forall sn0 d0, pget s' sn0 d0 =
       if (sn0 =? sn) && zmem d0 (d :: r) && match pget s sn0 d0 with Some x => x =? a | None => false end
       then None else pget s sn0 d0) /\
    (forall sn0 a0, (sn0, a0) <> (sn, a) -> rget s' sn0 a0 = rget s sn0 a0).
Proof.
  intros s sn a d r Hcoh. unfold delete_router_info.
  destruct (rget s sn a) as [ri|] eqn:Hr.
  - destruct (displace_ok s sn (d :: r) a ri Hcoh Hr) as [s' [H1 [Hc1 [_ [Hp1 [Hf1 _]]]]]].
    exists s'. auto.
  - exists s. split; [reflexivity|]. split; [exact Hcoh|]. split; [|reflexivity].
    intros sn0 d0. destruct (pget s sn0 d0) as [x|] eqn:Hp; [|rewrite andb_false_r; reflexivity].
    destruct (sn0 =? sn) eqn:Esn; cbn [andb]; [|reflexivity].
    destruct (x =? a) eqn:Ex; [|rewrite andb_false_r; reflexivity].
    apply Z.eqb_eq in Esn, Ex. subst. destruct Hcoh as [Hc _]. apply Hc in Hp.
    destruct Hp as [ri [Hr' _]]. congruence.
Qed.

(* forget destinations whoever serves them *)
Lemma forget_dnets : forall s sn ds, Coherent s ->
  exists s', delete_router_info s sn None (Some ds) = Ok s' /\ Coherent s' /\
    (forall sn0 d0, pget s' sn0 d0 = if (sn0 =? sn) && zmem d0 ds then None else pget s sn0 d0).
Proof.
  intros s sn ds Hcoh. unfold delete_router_info.
  destruct (displace_fold sn ds (others_of s sn None ds) s Hcoh (others_nodup _ _ _ _))
    as [s' [H1 [Hc1 [_ [Hp1 _]]]]].
  { intros a' Hin. apply (others_known s sn None ds a' Hcoh Hin). }
  exists s'. split; [exact H1|]. split; [exact Hc1|].
  intros sn0 d0. rewrite Hp1.
  destruct (sn0 =? sn) eqn:Esn; cbn [andb]; [|reflexivity].
  destruct (zmem d0 ds) eqn:Ed; cbn [andb]; [|reflexivity].
  destruct (pget s sn0 d0) as [x|] eqn:Hp; [|reflexivity].
  apply Z.eqb_eq in Esn. subst sn0.
  assert (Hin : In x (others_of s sn None ds)).
  { apply others_of_spec. exists d0. split; [apply zmem_spec; exact Ed|]. split; [exact Hp|discriminate]. }
  apply zmem_spec in Hin. rewrite Hin. reflexivity.
Qed.

Lemma forget_neither : forall s sn, delete_router_info s sn None None = Err RuntimeErr.
Proof. reflexivity. Qed.


Lemma aget_set_all : forall ds st l d,
  aget Z.eqb d (set_all ds st l) = if zmem d ds then Some st else aget Z.eqb d l.
Proof.
  induction ds as [|x ds IH]; intros st l d; [reflexivity|].
  unfold set_all in *. cbn [fold_left zmem existsb]. rewrite IH.
  rewrite (aget_aset Z.eqb Z.eqb_eq). fold (zmem d ds).
  destruct (d =? x); destruct (zmem d ds); reflexivity.
Qed.

Lemma has_dnet_set_all : forall ds st l o d,
  has_dnet (mkR (set_all ds st l) o) d = zmem d ds || amem Z.eqb d l.
Proof.
  intros. unfold has_dnet, amem. cbn [dnets]. rewrite aget_set_all.
  destruct (zmem d ds); reflexivity.
Qed.

Lemma pget_add_all : forall (c : Z -> bool) sn a ds sn0 d0 (l : list ((Z * Z) * Z)),
  aget keq (sn0, d0) (fold_left (fun l d => if c d then l else aset keq (sn, d) a l) ds l)
  = if (sn0 =? sn) && existsb (fun d => negb (c d) && (d0 =? d)) ds then Some a else aget keq (sn0, d0) l.
Proof.
  intros c sn a ds sn0 d0. induction ds as [|d ds IH]; intros l.
  - cbn [fold_left existsb]. rewrite andb_false_r. reflexivity.
  - cbn [fold_left existsb]. rewrite IH. destruct (c d); cbn [negb andb orb].
    + reflexivity.
    + rewrite (aget_aset keq keq_spec), keq_pair.
      destruct (sn0 =? sn); cbn [andb]; [|reflexivity].
      destruct (d0 =? d); cbn [orb]; [|reflexivity].
      destruct (existsb _ ds); reflexivity.
Qed.

Lemma existsb_not_c : forall (c : Z -> bool) d0 ds,
  existsb (fun d => negb (c d) && (d0 =? d)) ds = zmem d0 ds && negb (c d0).
Proof.
  intros c d0 ds. induction ds as [|d ds IH]; [reflexivity|].
  cbn [existsb zmem]. fold (zmem d0 ds). rewrite IH.
  destruct (d0 =? d) eqn:E.
  - apply Z.eqb_eq in E. subst d. destruct (c d0); destruct (zmem d0 ds); reflexivity.
  - rewrite andb_false_r. reflexivity.
Qed.

(* installing / refreshing the announcing router after the others were displaced *)
Lemma install_coherent : forall s1 sn a ds st base o n' p2,
  Coherent s1 ->
  (forall d, amem Z.eqb d base = match rget s1 sn a with Some e => has_dnet e d | None => false end) ->
  (forall d x, zmem d ds = true -> pget s1 sn d = Some x -> x = a) ->
  (forall sn0 d0, aget keq (sn0, d0) p2 = if (sn0 =? sn) && zmem d0 ds then Some a else pget s1 sn0 d0) ->
  zmem sn n' = true -> (forall x, zmem x (nets s1) = true -> zmem x n' = true) ->
  Coherent (mkC n' (aset keq (sn, a) (mkR (set_all ds st base) o) (routers s1)) p2).
Proof.
  intros s1 sn a ds st base o n' p2 [Hc Hn] Hbase Hexcl Hp2 Hsn Hmono. split.
  - intros sn0 d a0. unfold pget, credited, rget. cbn [paths routers]. rewrite Hp2.
    destruct (Z.eq_dec sn0 sn) as [->|Hsn0].
    + rewrite Z.eqb_refl. cbn [andb]. destruct (Z.eq_dec a0 a) as [->|Ha0].
      * (* the announcing router *)
        rewrite (aget_aset keq keq_spec), (proj2 (keq_spec _ _) eq_refl).
        split.
        -- intros H. eexists. split; [reflexivity|]. rewrite has_dnet_set_all.
           destruct (zmem d ds); [reflexivity|]. cbn [orb]. rewrite Hbase.
           apply Hc in H. destruct H as [e [He Hd]]. unfold rget in He |- *. rewrite He. exact Hd.
        -- intros [ri [[= <-] Hd]]. rewrite has_dnet_set_all in Hd.
           destruct (zmem d ds); [reflexivity|]. cbn [orb] in Hd. rewrite Hbase in Hd.
           apply Hc. destruct (rget s1 sn a) as [e|] eqn:He; [|discriminate]. exists e. auto.
      * rewrite (aget_aset keq keq_spec), pair_neq_keq by congruence. fold (rget s1 sn a0). split.
        -- intros H. destruct (zmem d ds) eqn:Ed.
           ++ injection H as <-. contradiction.
           ++ apply Hc. exact H.
        -- intros H. apply Hc in H. destruct (zmem d ds) eqn:Ed; [|exact H].
           specialize (Hexcl d a0 Ed H). contradiction.
    + destruct (sn0 =? sn) eqn:E; [apply Z.eqb_eq in E; contradiction|]. cbn [andb].
      rewrite (aget_aset keq keq_spec), pair_neq_keq by congruence. apply Hc.
  - intros sn0 a0 ri. unfold rget. cbn [routers nets]. rewrite (aget_aset keq keq_spec).
    destruct (keq (sn0, a0) (sn, a)) eqn:E.
    + apply keq_spec in E. injection E as -> ->. intros _. exact Hsn.
    + intros H. apply Hmono. apply (Hn _ _ _ H).
Qed.

(* update_router_info: total on coherent states, keeps them coherent, newest wins, frame *)
Lemma update_ok : forall s sn a ds st, Coherent s ->
  exists s', update_router_info s sn a ds st = Ok s' /\ Coherent s' /\
    (forall sn0 d0, pget s' sn0 d0 = if (sn0 =? sn) && zmem d0 ds then Some a else pget s sn0 d0).
Proof.
  intros s sn a ds st Hcoh. unfold update_router_info.
  set (excl := match rget s sn a with Some _ => Some a | None => None end).
  destruct (displace_fold sn ds (others_of s sn excl ds) s Hcoh (others_nodup _ _ _ _))
    as [s1 [H1 [Hc1 [Hn1 [Hp1 Hf1]]]]].
  { intros a' Hin. apply (others_known s sn excl ds a' Hcoh Hin). }
  rewrite H1. cbn [bind].
  assert (Hkeep : rget s1 sn a = rget s sn a).
  { apply Hf1. intros [_ Hin]. apply others_of_spec in Hin. destruct Hin as [d [_ [Hp Hne]]].
    unfold excl in Hne. destruct (rget s sn a) as [e|] eqn:Hr; [congruence|].
    destruct Hcoh as [Hc _]. apply Hc in Hp. destruct Hp as [ri [Hr' _]]. congruence. }
  (* after the displacement no other router holds a destination of ds *)
  assert (Hexcl : forall d x, zmem d ds = true -> pget s1 sn d = Some x -> x = a).
  { intros d x Ed. rewrite Hp1, Z.eqb_refl, Ed. cbn [andb].
    destruct (pget s sn d) as [y|] eqn:Hp; [|discriminate].
    destruct (zmem y (others_of s sn excl ds)) eqn:Ey; [discriminate|].
    intros [= <-]. destruct (Z.eq_dec y a) as [|Hne]; [assumption|]. exfalso.
    assert (Hin : In y (others_of s sn excl ds)).
    { apply others_of_spec. exists d. split; [apply zmem_spec; exact Ed|]. split; [exact Hp|].
      unfold excl. destruct (rget s sn a); congruence. }
    apply zmem_spec in Hin. congruence. }
  assert (Hfinal : forall sn0 d0 (p2 : list ((Z * Z) * Z)),
     aget keq (sn0, d0) p2 = (if (sn0 =? sn) && zmem d0 ds then Some a else pget s1 sn0 d0) ->
     aget keq (sn0, d0) p2 = (if (sn0 =? sn) && zmem d0 ds then Some a else pget s sn0 d0)).
  { intros sn0 d0 p2 ->. destruct ((sn0 =? sn) && zmem d0 ds) eqn:E; [reflexivity|].
    rewrite Hp1, E. reflexivity. }
  destruct (rget s sn a) as [e|] eqn:Hr.
  - (* refresh of a known router *)
    eexists. split; [reflexivity|].
    assert (Hp2 : forall sn0 d0,
      aget keq (sn0, d0) (fold_left (fun l d => if has_dnet e d then l else aset keq (sn, d) a l) ds (paths s1))
      = if (sn0 =? sn) && zmem d0 ds then Some a else pget s1 sn0 d0).
    { intros sn0 d0. rewrite pget_add_all, existsb_not_c. fold (pget s1 sn0 d0).
      destruct (sn0 =? sn) eqn:Esn; cbn [andb]; [|reflexivity].
      destruct (zmem d0 ds) eqn:Ed; cbn [andb]; [|reflexivity].
      destruct (has_dnet e d0) eqn:Hd; cbn [negb]; [|reflexivity].
      apply Z.eqb_eq in Esn. subst sn0.
      apply (has_dnet_path s1 sn a e d0 Hc1) in Hd; [|congruence]. rewrite Hd. reflexivity. }
    split.
    + apply install_coherent; try assumption.
      * intros d. rewrite Hkeep. reflexivity.
      * destruct Hcoh as [_ Hn]. rewrite Hn1. apply (Hn _ _ _ Hr).
      * auto.
    + intros sn0 d0. unfold pget at 1. cbn [paths]. apply Hfinal. apply Hp2.
  - (* a router not known before *)
    eexists. split; [reflexivity|].
    assert (Hp2 : forall sn0 d0,
      aget keq (sn0, d0) (fold_left (fun l d => aset keq (sn, d) a l) ds (paths s1))
      = if (sn0 =? sn) && zmem d0 ds then Some a else pget s1 sn0 d0).
    { intros sn0 d0.
      pose proof (pget_add_all (fun _ => false) sn a ds sn0 d0 (paths s1)) as H.
      cbn beta iota in H. rewrite H. rewrite existsb_not_c. cbn [negb]. rewrite andb_true_r. reflexivity. }
    split.
    + apply install_coherent; try assumption.
      * intros d. rewrite Hkeep. reflexivity.
      * destruct (zmem sn (nets s1)) eqn:E; [exact E|]. cbn [zmem existsb]. rewrite Z.eqb_refl. reflexivity.
      * intros x Hx. destruct (zmem sn (nets s1)); [exact Hx|]. cbn [zmem existsb]. fold (zmem x (nets s1)).
        rewrite Hx. apply orb_true_r.
    + intros sn0 d0. unfold pget at 1. cbn [paths]. apply Hfinal. apply Hp2.
Qed.


(* update_router_status only touches the record's status *)
Lemma status_ok : forall s sn a st, Coherent s ->
  Coherent (update_router_status s sn a st) /\
  (forall sn0 d0, pget (update_router_status s sn a st) sn0 d0 = pget s sn0 d0).
Proof.
  intros s sn a st [Hc Hn]. unfold update_router_status.
  destruct (rget s sn a) as [ri|] eqn:Hr; [|split; [split; assumption|reflexivity]].
  split; [|reflexivity]. split.
  - intros sn0 d a0. unfold pget, credited, rget. cbn [paths routers].
    rewrite (aget_aset keq keq_spec). destruct (keq (sn0, a0) (sn, a)) eqn:E.
    + apply keq_spec in E. injection E as -> ->. fold (pget s sn d). rewrite Hc. split.
      * intros [ri' [Hr' Hd]]. eexists. split; [reflexivity|]. assert (ri' = ri) by congruence. subst. exact Hd.
      * intros [ri' [[= <-] Hd]]. exists ri. auto.
    + apply Hc.
  - intros sn0 a0 ri0. unfold rget. cbn [routers nets]. rewrite (aget_aset keq keq_spec).
    destruct (keq (sn0, a0) (sn, a)) eqn:E.
    + apply keq_spec in E. injection E as -> ->. intros _. apply (Hn _ _ _ Hr).
    + apply Hn.
Qed.

(* renumbering a source network under which nothing is filed changes nothing *)
Lemma renumber_unknown : forall s old new, zmem old (nets s) = false ->
  update_source_network s old new = Ok s.
Proof. intros s old new H. unfold update_source_network. rewrite H. reflexivity. Qed.

(* ---- histories *)
Definition is_renum (o : op) : bool := match o with Renum _ _ => true | _ => false end.
Definition no_renum (h : list op) : Prop := forallb (fun o => negb (is_renum o)) h = true.
Definition refused (o : op) : Prop := exists sn, o = Forget sn None None.

Lemma step_ok : forall s o, Coherent s -> is_renum o = false ->
  (exists s', step s o = Ok s' /\ Coherent s') \/ (refused o /\ step s o = Err RuntimeErr).
Proof.
  intros s o Hcoh Ho. destruct o as [sn a ds st|sn a st|sn ao dso|old new]; [| | |discriminate].
  - left. destruct (update_ok s sn a ds st Hcoh) as [s' [H [Hc _]]]. eauto.
  - left. eexists. split; [reflexivity|]. apply status_ok. exact Hcoh.
  - destruct ao as [a|]; [left|destruct dso as [ds|]; [left|right]].
    + destruct dso as [[|d r]|].
      * destruct (forget_router s sn a (Some []) Hcoh (or_intror eq_refl)) as [s' [H [Hc _]]]. eauto.
      * destruct (forget_router_dnets s sn a d r Hcoh) as [s' [H [Hc _]]]. eauto.
      * destruct (forget_router s sn a None Hcoh (or_introl eq_refl)) as [s' [H [Hc _]]]. eauto.
    + destruct (forget_dnets s sn ds Hcoh) as [s' [H [Hc _]]]. eauto.
    + split; [exists sn; reflexivity|reflexivity].
Qed.

Lemma step_total_coherent : forall s o, Coherent s -> is_renum o = false -> Coherent (step_total s o).
Proof.
  intros s o Hcoh Ho. unfold step_total.
  destruct (step_ok s o Hcoh Ho) as [[s' [H Hc]]|[_ H]]; rewrite H; assumption.
Qed.

Lemma run_coherent : forall h s, Coherent s -> no_renum h -> Coherent (run s h).
Proof.
  induction h as [|o h IH]; intros s Hcoh Hnr; [exact Hcoh|].
  unfold no_renum in Hnr. cbn [forallb] in Hnr. apply andb_true_iff in Hnr. destruct Hnr as [Ho Hh].
  apply negb_true_iff in Ho. unfold run. cbn [fold_left]. apply IH; [|exact Hh].
  apply step_total_coherent; assumption.
Qed.

Lemma run_snoc : forall s h o, run s (h ++ [o]) = step_total (run s h) o.
Proof. intros. unfold run. rewrite fold_left_app. reflexivity. Qed.

Lemma history_newest_wins : forall h sn a ds st d, no_renum h -> In d ds ->
  get_router_info (run empty (h ++ [Learn sn a ds st])) sn d = Some a.
Proof.
  intros h sn a ds st d Hnr Hin. rewrite run_snoc.
  pose proof (run_coherent h empty coherent_empty Hnr) as Hcoh.
  destruct (update_ok (run empty h) sn a ds st Hcoh) as [s' [H [_ Hp]]].
  unfold step_total. cbn [step]. rewrite H. unfold get_router_info. rewrite Hp.
  rewrite Z.eqb_refl. apply zmem_spec in Hin. rewrite Hin. reflexivity.
Qed.

Lemma history_frame : forall h sn a ds st sn0 d0, no_renum h -> (sn0 <> sn \/ ~ In d0 ds) ->
  get_router_info (run empty (h ++ [Learn sn a ds st])) sn0 d0 = get_router_info (run empty h) sn0 d0.
Proof.
  intros h sn a ds st sn0 d0 Hnr Hnot. rewrite run_snoc.
  pose proof (run_coherent h empty coherent_empty Hnr) as Hcoh.
  destruct (update_ok (run empty h) sn a ds st Hcoh) as [s' [H [_ Hp]]].
  unfold step_total. cbn [step]. rewrite H. unfold get_router_info. rewrite Hp.
  destruct Hnot as [Hsn|Hd].
  - destruct (sn0 =? sn) eqn:E; [apply Z.eqb_eq in E; contradiction|reflexivity].
  - destruct (zmem d0 ds) eqn:E; [apply zmem_spec in E; contradiction|rewrite andb_false_r; reflexivity].
Qed.

Lemma one_next_hop : forall s sn a b d, Coherent s -> credited s sn a d -> credited s sn b d -> a = b.
Proof.
  intros s sn a b d [Hc _] Ha Hb. apply Hc in Ha. apply Hc in Hb. congruence.
Qed.
