(* SsmDevInfoFacts.v — facts about the DeviceInfoCache model (SsmDevInfo.v) used by props/C12.v *)
From Coq Require Import ZifyBool ZifyN ZifyNat.
From Bac Require Import Base PyRt SsmDevInfo.
Open Scope Z_scope.

(* an Application constructed with a cache uses that very cache, whatever it holds (the empty cache included) *)
Lemma app_cache_supplied : forall {A} (c fresh : A), app_cache (Some c) fresh = c.
Proof. reflexivity. Qed.
Lemma app_cache_default : forall {A} (fresh : A), app_cache None fresh = fresh.
Proof. reflexivity. Qed.

Lemma key_eqb_refl : forall k, key_eqb k k = true.
Proof. intros [b z]. unfold key_eqb. cbn. rewrite Bool.eqb_reflx, Z.eqb_refl. reflexivity. Qed.

Lemma nth_heap_set : forall l i r x, nth_error l i = Some r -> nth_error (heap_set i x l) i = Some x.
Proof.
  induction l as [|y l IH]; intros [|i] r x H; cbn in *; try discriminate; [reflexivity | eapply IH; exact H].
Qed.

(* the first I-Am of a device, recorded into the EMPTY cache (e.g. through the caller's handle after the application was
   constructed around it): both keys lead to a record with exactly the announced limits *)
Lemma first_iam_acquire : forall inst addr ma seg,
  let c := fst (iam_device_info inst addr ma seg empty_cache) in
  snd (iam_device_info inst addr ma seg empty_cache) = None /\
  snd (acquire (false, addr) c) = Ok (Some (mkDrec inst addr ma seg (Some 1) (Some (inst, addr)))) /\
  snd (acquire (true, inst) c) = Ok (Some (mkDrec inst addr ma seg (Some 1) (Some (inst, addr)))).
Proof.
  intros. unfold c, iam_device_info, update_device_info, acquire, empty_cache.
  cbn -[Z.eqb]. unfold key_eqb. cbn -[Z.eqb]. rewrite !Z.eqb_refl. cbn. repeat split.
Qed.

(* a further I-Am of a device already recorded under that instance and that address (the periodic / changed announcement):
   the keys stay, the record takes the NEW limits, so the next acquire sizes by them *)
Lemma repeated_iam_updates : forall c inst addr ma seg i r n,
  dict_get (true, inst) (dc_dict c) = Some i -> nth_error (dc_heap c) i = Some r ->
  r_keys r = Some (inst, addr) -> r_ref r = Some n ->
  exists c', iam_device_info inst addr ma seg c = (c', None) /\ dc_dict c' = dc_dict c /\
             nth_error (dc_heap c') i = Some (mkDrec inst addr ma seg (Some n) (Some (inst, addr))).
Proof.
  intros c inst addr ma seg i r n Hd Hn Hk Hr.
  unfold iam_device_info. rewrite Hd, Hn.
  unfold update_device_info. cbn [dc_heap dc_dict].
  rewrite (nth_heap_set _ _ _ _ Hn). cbn [r_ref r_keys r_inst r_addr]. rewrite Hr, Hk.
  cbn -[Z.eqb heap_set nth_error]. rewrite !Z.eqb_refl. cbn -[heap_set nth_error].
  eexists. split; [reflexivity|]. cbn [dc_dict dc_heap]. split; [reflexivity|].
  erewrite nth_heap_set; [reflexivity|]. erewrite nth_heap_set; [reflexivity|]. erewrite nth_heap_set; [reflexivity | exact Hn].
Qed.
