(* NetArrive.v — a unicast travelling along a consistent route of ANY length arrives: it is handed up exactly
   once, at the addressed station, showing the originator (lemmas about Net.v, property C06). *)
From Coq Require Import ZifyBool ZifyN ZifyNat.
From Bac Require Import Base Net NetFacts NetTerm NetTerm2 NetReply NetOnce NetRoute.
Ltac Zify.zify_post_hook ::= Z.to_euclidean_division_equations.
Open Scope N_scope.

(* ---- delivery of a link-unicast frame when exactly one member of the LAN has the destination address *)
Lemma deliver_skip : forall pre rest ns f q tr m,
  f_dst f = LStation m -> (forall x, In x pre -> port_mac ns x <> Some m) ->
  deliver ns f (pre ++ rest) q tr = deliver ns f rest q tr.
Proof.
  induction pre as [|[who port] r IH]; intros rest ns f q tr m Hd Hno; cbn [app deliver]; [reflexivity|].
  assert (Hr : forall x, In x r -> port_mac ns x <> Some m) by (intros x Hx; apply Hno; right; assumption).
  destruct (nth_error ns who) as [w|] eqn:En; [|eapply IH; eauto].
  destruct (nth_error (w_ports w) port) as [[lan wmac]|] eqn:Ep; [|eapply IH; eauto].
  assert (Hne : wmac <> m).
  { intro E. apply (Hno (who, port)); [left; reflexivity|]. unfold port_mac. cbn. rewrite En, Ep. congruence. }
  unfold accepts. rewrite Hd.
  destruct (mac_eqb m wmac) eqn:E; [apply mac_eqb_eq in E; congruence|]. eapply IH; eauto.
Qed.

Lemma mac_eqb_refl : forall m, mac_eqb m m = true.
Proof. induction m as [|x m IH]; cbn; [reflexivity|]. rewrite N.eqb_refl. exact IH. Qed.

Lemma deliver_exact : forall members ns f q tr m who port w lan n' acts fs os,
  f_dst f = LStation m -> NoDup (map (port_mac ns) members) -> In (who, port) members ->
  nth_error ns who = Some w -> nth_error (w_ports w) port = Some (lan, m) ->
  process_npdu (w_node w) port (f_src f) (f_dst f) (f_npdu f) = (n', acts) ->
  emit (mkW n' (w_ports w)) who acts = (fs, os) ->
  deliver ns f members q tr = (set_nth ns who (mkW n' (w_ports w)), q ++ fs, rev_append os tr).
Proof.
  intros members ns f q tr m who port w lan n' acts fs os Hd Hnd Hin Hw Hp Hpr He.
  apply in_split in Hin. destruct Hin as [pre [post Hm]]. subst members.
  rewrite map_app in Hnd. cbn [map] in Hnd.
  assert (Hhead : port_mac ns (who, port) = Some m) by (unfold port_mac; cbn; rewrite Hw, Hp; reflexivity).
  assert (Hpre : forall x, In x pre -> port_mac ns x <> Some m).
  { intros x Hx E. apply NoDup_remove_2 in Hnd. apply Hnd. apply in_or_app. left.
    rewrite Hhead, <- E. apply in_map. assumption. }
  assert (Hpost : forall x, In x post -> port_mac ns x <> Some m).
  { intros x Hx E. apply NoDup_remove_2 in Hnd. apply Hnd. apply in_or_app. right.
    rewrite Hhead, <- E. apply in_map. assumption. }
  rewrite (deliver_skip pre _ ns f q tr m Hd Hpre). cbn [deliver].
  assert (Hacc : accepts m f = true) by (unfold accepts; rewrite Hd; apply mac_eqb_refl).
  rewrite Hw, Hp, Hacc, Hpr, He.
  apply (deliver_nobody post _ f _ _ m Hd).
  intros x Hx. rewrite (port_mac_set_nth _ _ _ _ _ Hw). apply Hpost. assumption.
Qed.

(* exactly one member of the frame's LAN has the destination link address: port `port` of node `who` *)
Definition acceptor (lns : list (N * list (nat * nat))) (ns : list wnode) (f : frame)
           (who port : nat) (w : wnode) (m : mac) : Prop :=
  f_dst f = LStation m /\ NoDup (map (port_mac ns) (lan_members lns (f_lan f))) /\
  In (who, port) (lan_members lns (f_lan f)) /\
  nth_error ns who = Some w /\ exists lan, nth_error (w_ports w) port = Some (lan, m).

(* `arrives lns ns f tgt s d x`: from node states ns, frame f alone in flight follows a consistent route to the
   application of node tgt, which is handed payload x with source s and destination d *)
Inductive arrives (lns : list (N * list (nat * nat))) : list wnode -> frame -> nat -> addr -> addr -> list N -> Prop :=
| arr_station : forall ns f who w m a sn sm,
    acceptor lns ns f who 0 w m ->
    adapters (w_node w) = [a] -> has_app (w_node w) = true ->
    n_msg (f_npdu f) = None -> n_dadr (f_npdu f) = None -> apdu_ok (n_data (f_npdu f)) = true ->
    n_sadr (f_npdu f) = Some (sn, sm) -> optN_eqb (a_net a) (Some sn) = false ->
    arrives lns ns f who (ARS sn sm) (ALS m) (n_data (f_npdu f))
| arr_last_router : forall ns f who i w m ai inet d dm j la lan' mj tgt s dd x,
    acceptor lns ns f who i w m ->
    nth_adapter (w_node w) i = Some ai -> nth_adapter (w_node w) (local_idx (w_node w)) = Some la ->
    modelled_config (w_node w) = true -> is_router (w_node w) = true -> a_net ai = Some inet ->
    n_msg (f_npdu f) = None -> n_dadr (f_npdu f) = Some (DStation d dm) -> n_hop (f_npdu f) <> 0 ->
    (forall snet sm, n_sadr (f_npdu f) = Some (snet, sm) -> find_net (w_node w) (Some snet) = None) ->
    find_net (w_node w) (Some d) = Some j -> j <> i ->
    optN_eqb (Some d) (a_net ai) = false -> not_for_me la d dm = true ->
    nth_error (w_ports w) j = Some (lan', mj) ->
    arrives lns (set_nth ns who (mkW (learned (w_node w) ai (f_src f) (f_npdu f)) (w_ports w)))
            (mkFrame lan' mj (LStation dm)
               (mkNpdu None (Some (fwd_sadr inet (f_src f) (f_npdu f))) (n_hop (f_npdu f) - 1) None (n_data (f_npdu f))))
            tgt s dd x ->
    arrives lns ns f tgt s dd x
| arr_router : forall ns f who i w m ai inet d dm j m' lan' mj tgt s dd x,
    acceptor lns ns f who i w m ->
    nth_adapter (w_node w) i = Some ai ->
    modelled_config (w_node w) = true -> is_router (w_node w) = true -> a_net ai = Some inet ->
    n_msg (f_npdu f) = None -> n_dadr (f_npdu f) = Some (DStation d dm) -> n_hop (f_npdu f) <> 0 ->
    (forall snet sm, n_sadr (f_npdu f) = Some (snet, sm) -> find_net (w_node w) (Some snet) = None /\ snet <> d) ->
    find_net (w_node w) (Some d) = None -> find_path (w_node w) d = Some (j, m') ->
    nth_error (w_ports w) j = Some (lan', mj) ->
    arrives lns (set_nth ns who (mkW (learned (w_node w) ai (f_src f) (f_npdu f)) (w_ports w)))
            (mkFrame lan' mj (LStation m')
               (mkNpdu (n_dadr (f_npdu f)) (Some (fwd_sadr inet (f_src f) (f_npdu f))) (n_hop (f_npdu f) - 1) None
                       (n_data (f_npdu f))))
            tgt s dd x ->
    arrives lns ns f tgt s dd x.

Lemma step_exact : forall w f who port wn m n' acts fs os,
  queue w = [f] -> acceptor (lans w) (nodes w) f who port wn m ->
  process_npdu (w_node wn) port (f_src f) (f_dst f) (f_npdu f) = (n', acts) ->
  emit (mkW n' (w_ports wn)) who acts = (fs, os) ->
  step w = Some (mkWorld (set_nth (nodes w) who (mkW n' (w_ports wn))) (lans w) fs
                         (rev_append os [OFrame f] ++ trace w)).
Proof.
  intros w f who port wn m n' acts fs os Hq (Hd & Hnd & Hin & Hw & lan & Hp) Hpr He.
  unfold step, step_core. rewrite Hq.
  rewrite (deliver_exact _ _ f [] [OFrame f] m who port wn lan n' acts fs os Hd Hnd Hin Hw Hp Hpr He).
  reflexivity.
Qed.

Definition oups (os : list obs) : list obs := filter is_oup os.

Ltac feed H := repeat match type of H with ?A -> _ => specialize (H ltac:(assumption)) end.

Theorem route_arrives : forall lns ns f tgt s dd x,
  arrives lns ns f tgt s dd x ->
  forall w, lans w = lns -> nodes w = ns -> queue w = [f] ->
  exists k osn, queue (run k w) = [] /\ trace (run k w) = osn ++ trace w /\ oups osn = [OUp tgt s dd x].
Proof.
  intros lns ns f tgt s dd x H. induction H; intros w0 Hl Hn Hq; subst lns ns.
  - (* the addressed station *)
    pose proof (station_hands_up (w_node w) a (f_src f) (f_dst f) (f_npdu f) sn sm) as Hpr. feed Hpr.
    assert (He : emit (mkW (learned (w_node w) a (f_src f) (f_npdu f)) (w_ports w)) who
                      [Up (ARS sn sm) (ldest_to_addr (f_dst f)) (n_data (f_npdu f))]
                 = ([], [OUp who (ARS sn sm) (ldest_to_addr (f_dst f)) (n_data (f_npdu f))])) by reflexivity.
    pose proof (step_exact w0 f who 0 w m _ _ _ _ Hq H Hpr He) as Hs.
    exists 1%nat. eexists. cbn [run]. rewrite Hs. cbn [queue trace]. split; [reflexivity|]. split; [reflexivity|].
    destruct H as (Hd & _). rewrite Hd. reflexivity.
  - (* the last router *)
    pose proof (last_router_delivers (w_node w) i ai inet (f_src f) (f_dst f) (f_npdu f) d dm j la) as Hpr. feed Hpr.
    match type of Hpr with _ = (?nn, [Fwd _ ?dst ?q]) =>
      assert (He : emit (mkW nn (w_ports w)) who [Fwd j dst q] = ([mkFrame lan' mj dst q], []))
        by (cbn [emit w_ports]; match goal with Hx : nth_error (w_ports w) j = Some _ |- _ => rewrite Hx end; reflexivity)
    end.
    pose proof (step_exact w0 f who i w m _ _ _ _ Hq H Hpr He) as Hs.
    match type of Hs with step _ = Some ?w1 => destruct (IHarrives w1 eq_refl eq_refl eq_refl) as (k & osn & A1 & A2 & A3) end.
    exists (S k). exists (osn ++ [OFrame f]). cbn [run]. rewrite Hs. split; [exact A1|]. split.
    + rewrite A2. cbn [trace rev_append app]. rewrite <- app_assoc. reflexivity.
    + unfold oups in *. rewrite filter_app, A3. reflexivity.
  - (* an intermediate router *)
    pose proof (router_forwards_unicast (w_node w) i ai inet (f_src f) (f_dst f) (f_npdu f) d dm j m') as Hpr. feed Hpr.
    match type of Hpr with _ = (?nn, [Fwd _ ?dst ?q]) =>
      assert (He : emit (mkW nn (w_ports w)) who [Fwd j dst q] = ([mkFrame lan' mj dst q], []))
        by (cbn [emit w_ports]; match goal with Hx : nth_error (w_ports w) j = Some _ |- _ => rewrite Hx end; reflexivity)
    end.
    pose proof (step_exact w0 f who i w m _ _ _ _ Hq H Hpr He) as Hs.
    match type of Hs with step _ = Some ?w1 => destruct (IHarrives w1 eq_refl eq_refl eq_refl) as (k & osn & A1 & A2 & A3) end.
    exists (S k). exists (osn ++ [OFrame f]). cbn [run]. rewrite Hs. split; [exact A1|]. split.
    + rewrite A2. cbn [trace rev_append app]. rewrite <- app_assoc. reflexivity.
    + unfold oups in *. rewrite filter_app, A3. reflexivity.
Qed.

Lemma run_stuck : forall k w, step w = None -> run k w = w.
Proof. intros [|k] w H; cbn [run]; [reflexivity|rewrite H; reflexivity]. Qed.

Lemma run_add : forall a b w, run (a + b) w = run b (run a w).
Proof.
  induction a as [|a IH]; intros b w; cbn [run Nat.add]; [reflexivity|].
  destruct (step w) as [w'|] eqn:E; [apply IH|]. symmetry. apply run_stuck. assumption.
Qed.

(* exactly once: after the delivery the internetwork is quiet for ever, so the trace never grows again *)
Corollary route_arrives_exactly_once : forall w f tgt s dd x,
  queue w = [f] -> arrives (lans w) (nodes w) f tgt s dd x ->
  exists k osn, queue (run k w) = [] /\ (forall k', (k <= k')%nat -> run k' w = run k w) /\
                trace (run k w) = osn ++ trace w /\ oups osn = [OUp tgt s dd x].
Proof.
  intros w f tgt s dd x Hq H.
  destruct (route_arrives _ _ _ _ _ _ _ H w eq_refl eq_refl Hq) as (k & osn & A1 & A2 & A3).
  exists k, osn. repeat split; auto.
  intros k' Hk. replace k' with (k + (k' - k))%nat by lia. rewrite run_add. apply run_quiet. assumption.
Qed.
