(* RouterCacheSweep.v — a boolean coherence test that implies [Coherent], and a complete sweep
   of renumbering after every history of length <= 2 over a 54-operation alphabet
   (2 source nets + a fresh number, 3 routers, 4 destinations). *)
From Bac Require Import Base RouterCache RouterCacheFacts.
Open Scope Z_scope.

Definition coh_b (s : cache) : bool :=
  forallb (fun e => match rget s (fst (fst e)) (snd e) with
                    | Some ri => has_dnet ri (snd (fst e))
                    | None => false
                    end) (paths s)
  && forallb (fun e => zmem (fst (fst e)) (nets s)
                       && forallb (fun dv => match pget s (fst (fst e)) (fst dv) with
                                             | Some x => x =? snd (fst e)
                                             | None => false
                                             end) (dnets (snd e))) (routers s).

Lemma coh_b_sound : forall s, coh_b s = true -> Coherent s.
Proof.
  intros s H. unfold coh_b in H. apply andb_true_iff in H. destruct H as [Hp Hr].
  rewrite forallb_forall in Hp, Hr. split.
  - intros sn d a. split.
    + intros Hg. unfold pget in Hg. apply (aget_in keq keq_spec) in Hg.
      specialize (Hp _ Hg). cbn [fst snd] in Hp.
      destruct (rget s sn a) as [ri|] eqn:E; [|discriminate]. exists ri. auto.
    + intros [ri [Hg Hd]]. unfold rget in Hg. apply (aget_in keq keq_spec) in Hg.
      specialize (Hr _ Hg). cbn [fst snd] in Hr. apply andb_true_iff in Hr. destruct Hr as [_ Hr].
      rewrite forallb_forall in Hr. unfold has_dnet in Hd. apply (amem_spec Z.eqb) in Hd.
      destruct Hd as [v Hv]. apply (aget_in Z.eqb Z.eqb_eq) in Hv. specialize (Hr _ Hv). cbn [fst] in Hr.
      destruct (pget s sn d) as [x|]; [|discriminate]. apply Z.eqb_eq in Hr. congruence.
  - intros sn a ri Hg. unfold rget in Hg. apply (aget_in keq keq_spec) in Hg.
    specialize (Hr _ Hg). cbn [fst snd] in Hr. apply andb_true_iff in Hr. tauto.
Qed.

Definition sweep_alphabet : list op :=
  flat_map (fun sn => flat_map (fun a =>
      map (fun d => Learn sn a [d] 0) [10; 11; 12; 13]
      ++ [Learn sn a [10; 11] 0; Learn sn a [12; 13] 0; Forget sn (Some a) None]) [1; 2; 3]
    ++ map (fun d => Forget sn None (Some [d])) [10; 11; 12; 13]) [1; 2]
  ++ [Renum 1 2; Renum 2 1; Renum 1 3; Renum 3 1].
Definition sweep_renums : list op := [Renum 1 2; Renum 2 1; Renum 1 3; Renum 3 1; Renum 1 1; Renum 2 3].
Definition sweep_histories : list (list op) :=
  [] :: map (fun a => [a]) sweep_alphabet
  ++ flat_map (fun a => map (fun b => [a; b]) sweep_alphabet) sweep_alphabet.

Definition renum_ok (h : list op) (r : op) : bool :=
  match step (run empty h) r with Ok s' => coh_b s' | Err _ => false end.

Lemma sweep_renumber_computed :
  forallb (fun h => forallb (renum_ok h) sweep_renums) sweep_histories = true.
Proof. vm_compute. reflexivity. Qed.

Lemma sweep_renumber : forall h r, In h sweep_histories -> In r sweep_renums ->
  exists s', step (run empty h) r = Ok s' /\ Coherent s'.
Proof.
  intros h r Hh Hr. pose proof sweep_renumber_computed as H.
  rewrite forallb_forall in H. specialize (H h Hh). rewrite forallb_forall in H. specialize (H r Hr).
  unfold renum_ok in H. destruct (step (run empty h) r) as [s'|e]; [|discriminate].
  exists s'. split; [reflexivity|]. apply coh_b_sound. exact H.
Qed.
