(* RouterCacheSweep.v — a boolean coherence test that implies [Coherent] (the bounded sweep of
   renumbering that used it is superseded by RouterCacheRenum.renumber_ok). *)
From Bac Require Import Base RouterCache RouterCacheFacts.
Open Scope Z_scope.

Definition coh_b (s : cache) : bool :=
  forallb (fun e => match rget s (fst (fst e)) (snd e) with
                    | Some ri => has_dnet ri (snd (fst e))
                    | None => false
                    end) (paths s)
  && forallb (fun e => zmem (fst (fst e)) (nets s)
                       && forallb (fun dv => match pget s (fst (fst e)) (fst dv) with
                                             | Some x => x =? snd (fst e)
                                             | None => false
                                             end) (dnets (snd e))) (routers s).

Lemma coh_b_sound : forall s, coh_b s = true -> Coherent s.
Proof.
  intros s H. unfold coh_b in H. apply andb_true_iff in H. destruct H as [Hp Hr].
  rewrite forallb_forall in Hp, Hr. split.
  - intros sn d a. split.
    + intros Hg. unfold pget in Hg. apply (aget_in keq keq_spec) in Hg.
      specialize (Hp _ Hg). cbn [fst snd] in Hp.
      destruct (rget s sn a) as [ri|] eqn:E; [|discriminate]. exists ri. auto.
    + intros [ri [Hg Hd]]. unfold rget in Hg. apply (aget_in keq keq_spec) in Hg.
      specialize (Hr _ Hg). cbn [fst snd] in Hr. apply andb_true_iff in Hr. destruct Hr as [_ Hr].
      rewrite forallb_forall in Hr. unfold has_dnet in Hd. apply (amem_spec Z.eqb) in Hd.
      destruct Hd as [v Hv]. apply (aget_in Z.eqb Z.eqb_eq) in Hv. specialize (Hr _ Hv). cbn [fst] in Hr.
      destruct (pget s sn d) as [x|]; [|discriminate]. apply Z.eqb_eq in Hr. congruence.
  - intros sn a ri Hg. unfold rget in Hg. apply (aget_in keq keq_spec) in Hg.
    specialize (Hr _ Hg). cbn [fst snd] in Hr. apply andb_true_iff in Hr. tauto.
Qed.

