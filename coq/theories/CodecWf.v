(* CodecWf.v — the tags emitted by the generic encoder are well-formed tags (so that C02's tag-list
   round trip applies) whenever the leaves and Any contents are and the context numbers are <= 254. *)
From Bac Require Import Base.
From Bac Require Import BytesFacts.
From Bac Require Import Tag.
From Bac Require Import TagFacts.
From Bac Require Import Schema.
From Bac Require Import Codec.
From Bac Require Import CodecFacts.
From Coq Require Import ZifyBool ZifyN ZifyNat.
Ltac Zify.zify_post_hook ::= Z.to_euclidean_division_equations.
Open Scope N_scope.

(* every tag inside a value is a well-formed tag *)
Fixpoint val_wf (v : val) : Prop :=
  match v with
  | VAtom x => wf_tag x = true
  | VTags ts => forallb wf_tag ts = true
  | VSeq fs =>
      (fix go (l : list (option val)) : Prop :=
         match l with
         | [] => True
         | None :: r => go r
         | Some w :: r => val_wf w /\ go r
         end) fs
  | VChoice _ w => val_wf w
  | VList vs =>
      (fix go (l : list val) : Prop :=
         match l with [] => True | w :: r => val_wf w /\ go r end) vs
  end.
Definition oval_wf (f : option val) : Prop := match f with None => True | Some w => val_wf w end.
Fixpoint fields_wf (l : list (option val)) : Prop :=
  match l with [] => True | f :: r => oval_wf f /\ fields_wf r end.
Fixpoint vals_wf (l : list val) : Prop :=
  match l with [] => True | w :: r => val_wf w /\ vals_wf r end.
Lemma val_wf_seq fs : val_wf (VSeq fs) <-> fields_wf fs.
Proof.
  cbn [val_wf]. induction fs as [|[w|] r IH]; cbn [fields_wf oval_wf]; [tauto| |]; rewrite <- IH; tauto.
Qed.
Lemma val_wf_list vs : val_wf (VList vs) <-> vals_wf vs.
Proof. cbn [val_wf]. induction vs as [|w r IH]; cbn [vals_wf]; [tauto|]. rewrite <- IH. tauto. Qed.

Definition TW (t : ty) : Prop := wf_ty t = true -> forall v ts,
  has_ty t v -> val_wf v -> encode t v = Ok ts -> forallb wf_tag ts = true.
Definition TWe (e : elem) : Prop := wf_el e = true -> forall f ts,
  has_el e f -> oval_wf f -> enc_el encode e f = Ok ts -> forallb wf_tag ts = true.

Lemma wf_open c : c <= 254 -> wf_tag (open_tag c) = true.
Proof. intros H. unfold wf_tag, open_tag, bytes_ok, lenN; cbn. lia. Qed.
Lemma wf_close c : c <= 254 -> wf_tag (close_tag c) = true.
Proof. intros H. unfold wf_tag, close_tag, bytes_ok, lenN; cbn. lia. Qed.

Lemma wrap_wf c b : ctx_ok c = true -> forallb wf_tag b = true -> forallb wf_tag (wrap c b) = true.
Proof.
  destruct c as [c|]; cbn [wrap ctx_ok]; intros Hc Hb; [|exact Hb].
  cbn [forallb]. rewrite forallb_app. cbn [forallb]. rewrite Hb, wf_open, wf_close by lia. reflexivity.
Qed.

Lemma leaf_ctx_wf k c x x' : c <= 254 -> leaf_ok k x -> wf_tag x = true ->
  app_to_context c x = Ok x' -> wf_tag x' = true.
Proof.
  intros Hc (Hcl & Hn & _ & Hk) Hw. unfold app_to_context. rewrite Hcl. cbn [N.eqb negb].
  unfold wf_tag in Hw. rewrite Hcl, Hn in Hw.
  change ((0 =? 2) || (0 =? 3)) with false in Hw. change (0 =? 0) with true in Hw. cbn [andb] in Hw.
  destruct (k =? 1) eqn:E.
  - assert (k = 1) as -> by lia. destruct Hk as [Hd Hl]. rewrite Hn. cbn [N.eqb Pos.eqb].
    destruct (lvt x <? 256) eqn:E2; [|lia]. intros H; injection H as <-.
    unfold wf_tag. cbn [cls num lvt data]. unfold bytes_ok, byte_ok, lenN.
    cbn [forallb length N.of_nat Pos.of_succ_nat N.eqb Pos.eqb orb andb]. rewrite E2.
    clear Hw E. destruct (c <=? 255) eqn:E5; [reflexivity|lia].
  - destruct (num x =? 1) eqn:E1; [lia|]. intros H; injection H as <-.
    split_andb.
    unfold wf_tag; cbn [cls num lvt data N.eqb Pos.eqb orb andb]. rewrite N.eqb_refl.
    repeat (apply andb_true_iff; split); try assumption; try reflexivity; lia.
Qed.

Lemma enc_leaf_wf k c x ts : ctx_ok c = true -> leaf_ok k x -> wf_tag x = true ->
  enc_leaf c x = Ok ts -> forallb wf_tag ts = true.
Proof.
  intros Hc Hl Hw. destruct c as [c|]; cbn [enc_leaf ctx_ok] in *.
  - intros H. apply bind_ok in H as [x' [Hx H]]. injection H as <-.
    cbn [forallb]. rewrite (leaf_ctx_wf k c x x' ltac:(lia) Hl Hw Hx). reflexivity.
  - intros H. injection H as <-. cbn [forallb]. rewrite Hw. reflexivity.
Qed.

Lemma el_tw t c o : TW t -> TWe (El t c o).
Proof.
  intros Ht Hwf f ts Hf Hv He. cbn [wf_el] in Hwf. split_andb.
  destruct f as [v|]; [|cbn [enc_el] in He; destruct o; [injection He as <-; reflexivity|discriminate]].
  cbn [has_el] in Hf. cbn [oval_wf] in Hv.
  assert (Hwr : enc_wrapped encode t c v = Ok ts -> forallb wf_tag ts = true).
  { unfold enc_wrapped. intros H'. apply bind_ok in H' as [b [Hb H']]. injection H' as <-.
    apply wrap_wf; [assumption|]. eapply Ht; eauto. }
  destruct t; cbn [enc_el] in He; try (apply Hwr; exact He).
  - cbn [has_ty] in Hf. destruct v as [x| | | |]; try contradiction. cbn [enc_atomv] in He.
    eapply enc_leaf_wf; eauto.
  - cbn [has_ty] in Hf. destruct v as [x| | | |]; try contradiction. destruct Hf as [_ Hl].
    cbn [enc_atomv] in He. eapply enc_leaf_wf; eauto.
  - destruct v; try discriminate. apply Hwr; exact He.
Qed.

Lemma els_tw els : Forall TWe els -> wf_els els = true -> forall fs ts,
  has_fields els fs -> fields_wf fs -> enc_els encode els fs = Ok ts -> forallb wf_tag ts = true.
Proof.
  induction 1 as [|e r He _ IH]; intros Hw fs ts Hf Hv Henc.
  - cbn in Henc. injection Henc as <-. reflexivity.
  - cbn [wf_els] in Hw. split_andb. destruct fs as [|f fs]; [contradiction|].
    destruct Hf as [Hf1 Hf2]. destruct Hv as [Hv1 Hv2].
    apply enc_els_cons in Henc as (a & b & Ha & Hb & ->).
    rewrite forallb_app, (He ltac:(assumption) f a Hf1 Hv1 Ha), (IH ltac:(assumption) fs b Hf2 Hv2 Hb).
    reflexivity.
Qed.

Lemma alt_tw els : Forall TWe els -> forallb wf_el els = true -> forall i w ts,
  has_alt els i w -> val_wf w -> enc_nth encode els i w = Ok ts -> forallb wf_tag ts = true.
Proof.
  induction 1 as [|e r He _ IH]; intros Hw i w ts Ha Hv Henc; [destruct i; contradiction|].
  cbn [forallb] in Hw. split_andb. destruct i as [|j]; cbn [has_alt enc_nth] in *; destruct Ha as [_ Ha].
  - (* enc_alt e w = enc_el e (Some w) for every element kind *)
    destruct e as [t c o]. apply (He ltac:(assumption) (Some w) ts Ha Hv).
    destruct t; cbn [enc_alt enc_el] in *; try exact Henc.
    cbn [has_el has_ty] in Ha. destruct w; try contradiction. exact Henc.
  - eapply IH; eauto.
Qed.

Lemma list_tw s : TW s -> wf_ty s = true -> forall vs ts,
  Forall (has_ty s) vs -> vals_wf vs -> enc_list (encode s) vs = Ok ts -> forallb wf_tag ts = true.
Proof.
  intros Hs Hw. induction vs as [|v vs IH]; intros ts Hall Hv He.
  - cbn in He. injection He as <-. reflexivity.
  - inversion Hall as [|? ? Hv1 Hvs]; subst. destruct Hv as [Hw1 Hw2].
    apply enc_list_cons in He as (a & b & Ha & Hb & ->).
    rewrite forallb_app, (Hs Hw v a Hv1 Hw1 Ha), (IH b Hvs Hw2 Hb). reflexivity.
Qed.

Theorem encode_tags_wf : forall t, TW t.
Proof.
  apply (ty_ind2 TW TWe).
  - intros k _ v ts Hv Hw He. cbn [has_ty] in Hv. destruct v as [x| | | |]; try contradiction.
    cbn [encode] in He. injection He as <-. cbn [forallb val_wf] in *. rewrite Hw. reflexivity.
  - intros _ v ts Hv Hw He. cbn [has_ty] in Hv. destruct v as [x| | | |]; try contradiction.
    cbn [encode] in He. injection He as <-. cbn [forallb val_wf] in *. rewrite Hw. reflexivity.
  - intros _ v ts Hv Hw He. cbn [has_ty] in Hv. destruct v as [|g| | |]; try contradiction.
    cbn [encode] in He. injection He as <-. exact Hw.
  - intros _ v ts Hv Hw He. cbn [has_ty] in Hv. destruct v as [|g| | |]; try contradiction.
    cbn [encode] in He. injection He as <-. exact Hw.
  - intros els Hall Hwf v ts Hv Hw He. destruct v as [| |fs| |]; try contradiction.
    rewrite has_ty_seq in Hv. rewrite wf_ty_seq in Hwf. apply val_wf_seq in Hw. cbn [encode] in He.
    eapply els_tw; eauto.
  - intros els Hall Hwf v ts Hv Hw He. destruct v as [| | |i w|]; try contradiction.
    rewrite has_ty_choice in Hv. cbn [wf_ty] in Hwf. split_andb. cbn [val_wf] in Hw. cbn [encode] in He.
    eapply alt_tw; eauto.
  - intros s Hs Hwf v ts Hv Hw He. destruct v as [| | | |vs]; try contradiction.
    cbn [has_ty] in Hv. cbn [wf_ty] in Hwf. split_andb. apply val_wf_list in Hw. cbn [encode] in He.
    eapply list_tw; eauto.
  - intros s f Hs Hwf v ts Hv Hw He. destruct v as [| | | |vs]; try contradiction.
    cbn [has_ty] in Hv. destruct Hv as [Hv _]. cbn [wf_ty] in Hwf. split_andb. apply val_wf_list in Hw. cbn [encode] in He.
    destruct f as [n|]; [destruct (lenN vs =? n); [|discriminate]|]; eapply list_tw; eauto.
  - intros _ v ts Hv Hw He. destruct (has_ty_namevalue v Hv) as (n & Hn & Hcases).
    destruct Hcases as [->|[(x & H12 & Hx & ->)|(d & t & Hd & Ht & ->)]];
      cbn [encode enc_namevalue] in He; apply bind_ok in He as [n' [Ha He]]; injection He as <-;
      cbn in Hw; cbn [forallb];
      rewrite (leaf_ctx_wf 7 0 n n' ltac:(lia) Hn ltac:(tauto) Ha); cbn [andb].
    + reflexivity.
    + destruct Hw as [_ [Hw _]]. rewrite Hw. reflexivity.
    + destruct Hw as [_ [[Hw1 [Hw2 _]] _]]. rewrite Hw1, Hw2. reflexivity.
  - exact el_tw.
Qed.

(* the PDU round trip with the well-formedness of the emitted tags derived, not assumed *)
Theorem pdu_roundtrip_wf els : supported (TSeq els) = true -> wf_ty (TSeq els) = true ->
  forall v, has_ty (TSeq els) v -> val_wf v -> (exists ts, encode (TSeq els) v = Ok ts) ->
  exists bs, encode_pdu (TSeq els) v = Ok bs /\ decode_pdu (TSeq els) bs = Ok v /\
             forall v', decode_pdu (TSeq els) bs = Ok v' -> encode_pdu (TSeq els) v' = Ok bs.
Proof.
  intros Hs Hw v Hv Hvw [ts He].
  exact (pdu_roundtrip els Hs Hw v ts Hv He (encode_tags_wf (TSeq els) Hw v ts Hv Hvw He)).
Qed.
