(* ScheduleFacts.v — lemmas about the interpreter model (ScheduleEval.v) against ScheduleSpec.v *)
From Coq Require Import ZifyBool ZifyN ZifyNat.
From Bac Require Import Base PyRt Calendar CalendarFacts ScheduleEval ScheduleSpec.
From BacGen Require Import ScheduleFns.
Open Scope Z_scope.
Ltac Zify.zify_post_hook ::= Z.to_euclidean_division_equations.

(* ---- the order on times *)
Ltac t4 :=
  intros;
  repeat match goal with x : T4 |- _ => destruct x as [[[? ?] ?] ?] end;
  unfold t4_min, t4_le, t4_lt, next_day, valid_time in *;
  repeat match goal with
         | |- context [if ?c then _ else _] => destruct c eqn:?
         | H : context [if ?c then _ else _] |- _ => destruct c eqn:?
         end;
  lia.

Lemma t4_le_refl : forall a : T4, t4_le a a = true. Proof. t4. Qed.
Lemma t4_le_trans : forall a b c : T4, t4_le a b = true -> t4_le b c = true -> t4_le a c = true.
Proof. t4. Qed.
Lemma t4_lt_le_trans : forall a b c : T4, t4_lt a b = true -> t4_le b c = true -> t4_lt a c = true.
Proof. t4. Qed.
Lemma t4_le_lt_trans : forall a b c : T4, t4_le a b = true -> t4_lt b c = true -> t4_lt a c = true.
Proof. t4. Qed.
Lemma t4_le_false_lt : forall a b : T4, t4_le a b = false -> t4_lt b a = true.
Proof. t4. Qed.
Lemma t4_lt_not_le : forall a b : T4, t4_lt a b = true -> t4_le b a = false.
Proof. t4. Qed.
Lemma t4_lt_min : forall t a b : T4, t4_lt t (t4_min a b) = true <-> t4_lt t a = true /\ t4_lt t b = true.
Proof. t4. Qed.
Lemma t4_min_le_l : forall a b : T4, t4_le (t4_min a b) a = true. Proof. t4. Qed.
Lemma t4_lt_next_day : forall t : T4, valid_time t -> t4_lt t next_day = true. Proof. t4. Qed.
Lemma t4_lt_le : forall a b : T4, t4_lt a b = true -> t4_le a b = true. Proof. t4. Qed.

(* ---- slot lists *)
Lemma upd_length : forall i f s, length (upd i f s) = length s.
Proof. intros i f s. revert i. induction s as [|x r IH]; intros [|k]; cbn; auto. Qed.
Lemma upd_ext : forall i f g s, (forall x, f x = g x) -> upd i f s = upd i g s.
Proof. intros i f g s H. revert i. induction s as [|x r IH]; intros [|k]; cbn; auto; now (rewrite H || rewrite IH). Qed.
Lemma upd_upd : forall i f g s, upd i f (upd i g s) = upd i (fun x => f (g x)) s.
Proof. intros i f g s. revert i. induction s as [|x r IH]; intros [|k]; cbn; auto. now rewrite IH. Qed.
Lemma upd_id : forall i s, upd i (fun x => x) s = s.
Proof. intros i s. revert i. induction s as [|x r IH]; intros [|k]; cbn; auto. now rewrite IH. Qed.
Lemma nth_error_upd_same : forall i f s x, nth_error s i = Some x -> nth_error (upd i f s) i = Some (f x).
Proof. intros i f s. revert i. induction s as [|y r IH]; intros [|k] x H; cbn in *; try discriminate; auto. now inversion H. Qed.
Lemma nth_error_upd_other : forall i j f s, i <> j -> nth_error (upd i f s) j = nth_error s j.
Proof. intros i j f s. revert i j. induction s as [|y r IH]; intros [|k] [|j] H; cbn in *; auto; try congruence. Qed.

(* the effect of one special event on its own slot *)
Fixpoint tv_slot (tvs : list TV) (t : T4) (x : slot) : slot :=
  match tvs with
  | [] => x
  | (tv, v) :: r =>
      if t4_le tv t then tv_slot r t (match v with None => (None, None) | Some y => (Some y, Some next_day) end)
      else (fst x, Some tv)
  end.

Lemma tv_loop_upd : forall tvs t i s, tv_loop tvs t i s = upd i (tv_slot tvs t) s.
Proof.
  induction tvs as [|[tv v] r IH]; intros t i s; cbn [tv_loop tv_slot].
  - now rewrite upd_id.
  - destruct (t4_le tv t).
    + rewrite IH, upd_upd. reflexivity.
    + reflexivity.
Qed.

(* value component = the spec's current value, for ascending lists *)
Lemma cur_from_later : forall tvs t acc, (forall x, In x tvs -> t4_le (fst x) t = false) -> cur_from acc tvs t = acc.
Proof.
  induction tvs as [|[tv v] r IH]; intros t acc H; cbn; auto.
  pose proof (H (tv, v) (or_introl eq_refl)) as H0. cbn [fst] in H0. rewrite H0. apply IH. intros x Hx. apply H. now right.
Qed.

Lemma tv_slot_value : forall tvs t x, sorted_tvs tvs -> fst (tv_slot tvs t x) = cur_from (fst x) tvs t.
Proof.
  induction tvs as [|[tv v] r IH]; intros t x Hs; cbn [tv_slot cur_from]; auto.
  destruct Hs as [Hle Hs]. destruct (t4_le tv t) eqn:E.
  - rewrite IH by assumption. destruct v; reflexivity.
  - cbn [fst]. symmetry. apply cur_from_later. intros y Hy.
    specialize (Hle y Hy). apply t4_le_false_lt in E.
    apply t4_lt_not_le. eapply t4_lt_le_trans; eauto.
Qed.

Lemma tv_slot_cur : forall tvs t, sorted_tvs tvs -> fst (tv_slot tvs t (None, None)) = cur_val tvs t.
Proof. intros tvs t Hs. now rewrite (tv_slot_value tvs t (None, None) Hs). Qed.

(* the value of a slot cannot change before the slot's own next-transition time *)
Lemma tv_slot_stable : forall tvs t t' x, t4_le t t' = true ->
  (forall q, snd (tv_slot tvs t x) = Some q -> t4_lt t' q = true) ->
  fst (tv_slot tvs t' x) = fst (tv_slot tvs t x).
Proof.
  induction tvs as [|[tv v] r IH]; intros t t' x Hle H; cbn [tv_slot] in *; auto.
  destruct (t4_le tv t) eqn:E.
  - rewrite (t4_le_trans _ _ _ E Hle). apply IH; assumption.
  - cbn [snd fst] in *. specialize (H tv eq_refl). now rewrite (t4_lt_not_le _ _ H).
Qed.

(* every next-transition time a slot reports lies ahead *)
Lemma tv_slot_ahead : forall tvs t x q, valid_time t -> snd (tv_slot tvs t x) = Some q ->
  t4_lt t q = true \/ (snd x = Some q).
Proof.
  induction tvs as [|[tv v] r IH]; intros t x q Hv H; cbn [tv_slot] in *; auto.
  destruct (t4_le tv t) eqn:E.
  - apply IH in H; auto. destruct H as [H | H]; auto. left.
    destruct v; cbn in H; try discriminate. inversion H. now apply t4_lt_next_day.
  - cbn in H. inversion H; subst. left. now apply t4_le_false_lt.
Qed.

(* ---- periods: the model's matching is what the periods denote *)
Lemma date_in_centry_denotes : forall d c, valid_date d -> wf_centry c ->
  exists b, date_in_centry d c = Ok b /\ (b = true <-> centry_denotes c d).
Proof.
  intros d c Hd Hwf. destruct c as [p | r | w |]; cbn in *; try contradiction.
  - destruct (match_date_total d p Hd) as [b Hb]. exists b. split; auto.
    rewrite <- (match_date_denotes d p Hd), Hb. split; congruence.
  - destruct (match_date_range_total d r) as [b Hb]. exists b. split; auto.
    rewrite <- (match_date_range_denotes d r Hd Hwf), Hb. split; congruence.
  - destruct (match_weeknday_total d w Hd) as [b Hb]. exists b. split; auto.
    rewrite <- (match_weeknday_denotes d w Hd Hwf), Hb. split; congruence.
Qed.

Lemma match_any_denotes : forall d l, valid_date d -> (forall c, In c l -> wf_centry c) ->
  exists b, match_any d l = Ok b /\ (b = true <-> exists c, In c l /\ centry_denotes c d).
Proof.
  intros d l Hd. induction l as [|c r IH]; intros Hwf; cbn [match_any].
  - exists false. split; auto. split; [discriminate | intros (c & [] & _)].
  - destruct (date_in_centry_denotes d c Hd (Hwf c (or_introl eq_refl))) as (b & Hb & Hbd).
    rewrite Hb. cbn [bind]. destruct b.
    + exists true. split; auto. split; auto. intros _. exists c. split; [now left | now apply Hbd].
    + destruct IH as (b' & Hb' & Hbd'); [intros; apply Hwf; now right|].
      exists b'. split; auto. rewrite Hbd'. split.
      * intros (c' & Hin & Hc'). exists c'. split; [now right | auto].
      * intros (c' & [Heq | Hin] & Hc'); [subst c'; apply Hbd in Hc'; discriminate | exists c'; auto].
Qed.

Lemma match_period_denotes : forall d p, valid_date d -> wf_period p ->
  exists b, match_period d p = Ok b /\ (b = true <-> period_denotes p d).
Proof.
  intros d p Hd Hwf. destruct p as [| c | [l|]]; cbn in *; try contradiction.
  - now apply date_in_centry_denotes.
  - now apply match_any_denotes.
Qed.

(* ---- the exception loop as a fold over the events in force *)
Definition idx (e : sevent) : nat := Z.to_nat (prio_of e - 1).
Definition matches (d : D4) (e : sevent) : bool :=
  match match_period d (se_period e) with Ok true => true | _ => false end.
Definition active (d : D4) (evs : list sevent) : list sevent := filter (matches d) evs.
Definition app_ev (t : T4) (s : slots) (e : sevent) : slots := upd (idx e) (tv_slot (se_tvs e) t) s.

Lemma matches_in_force : forall d e, valid_date d -> wf_event e -> (matches d e = true <-> in_force d e).
Proof.
  intros d e Hd (Hp & _ & _). unfold matches, in_force.
  destruct (match_period_denotes d _ Hd Hp) as (b & Hb & Hbd). rewrite Hb, <- Hbd.
  destruct b; split; congruence.
Qed.

Lemma slot_index_ok : forall p, 1 <= p <= 16 -> slot_index p = Ok (Z.to_nat (p - 1)).
Proof.
  intros p H. unfold slot_index.
  replace (p - 1 <? 0) with false by lia.
  replace ((p - 1 <? 0) || (16 <=? p - 1)) with false by lia. reflexivity.
Qed.

Lemma ev_loop_fold : forall d t evs s, valid_date d -> Forall wf_event evs ->
  ev_loop d t evs s = Ok (fold_left (app_ev t) (active d evs) s).
Proof.
  intros d t evs s Hd H. revert s. induction H as [|e r He Hr IH]; intros s; cbn [ev_loop active filter fold_left]; auto.
  pose proof He as (Hp & (p & Hpe & Hpr) & Hs).
  unfold matches at 1.
  destruct (match_period_denotes d _ Hd Hp) as (b & Hb & _). rewrite Hb. cbn [bind].
  destruct b; cbn [negb].
  - rewrite Hpe. cbn [bind fold_left].
    assert (Hidx : idx e = Z.to_nat (p - 1)) by (unfold idx, prio_of; now rewrite Hpe).
    unfold app_ev at 2. rewrite Hidx.
    destruct (se_tvs e) as [|tv0 tvr] eqn:Etv.
    + cbn [bind]. rewrite (upd_ext _ _ (fun x => x)) by reflexivity. rewrite upd_id. apply IH.
    + rewrite (slot_index_ok p Hpr). cbn [bind]. rewrite tv_loop_upd. apply IH.
  - apply IH.
Qed.

Definition find_idx (j : nat) (evs : list sevent) : option sevent := find (fun e => Nat.eqb (idx e) j) evs.

Lemma fold_char : forall t evs s,
  (forall e, In e evs -> nth_error s (idx e) = Some (None, None)) -> NoDup (map idx evs) ->
  forall j, nth_error (fold_left (app_ev t) evs s) j =
            match find_idx j evs with
            | Some e => Some (tv_slot (se_tvs e) t (None, None))
            | None => nth_error s j
            end.
Proof.
  intros t evs. induction evs as [|e r IH]; intros s Hs Hnd j; cbn [fold_left find_idx find]; auto.
  inversion Hnd as [|? ? Hnotin Hnd']; subst.
  rewrite IH; auto.
  - fold (find_idx j r). destruct (Nat.eqb (idx e) j) eqn:E.
    + apply Nat.eqb_eq in E. subst j.
      destruct (find_idx (idx e) r) as [e'|] eqn:F.
      * exfalso. apply find_some in F. destruct F as [Hin Heq]. apply Nat.eqb_eq in Heq.
        apply Hnotin. rewrite <- Heq. now apply in_map.
      * unfold app_ev. apply nth_error_upd_same. apply Hs. now left.
    + destruct (find_idx j r); auto. unfold app_ev. apply nth_error_upd_other.
      now apply Nat.eqb_neq.
  - intros e' Hin. unfold app_ev. rewrite nth_error_upd_other.
    + apply Hs. now right.
    + intro Heq. apply Hnotin. rewrite Heq. now apply in_map.
Qed.

Lemma nth_error_empty_slots : forall j, (j < 16)%nat -> nth_error empty_slots j = Some (None, None).
Proof.
  intros j H. do 16 (destruct j as [|j]; [reflexivity|]). lia.
Qed.

Lemma idx_lt : forall e, wf_event e -> (idx e < 16)%nat.
Proof. intros e (_ & (p & Hp & Hr) & _). unfold idx, prio_of. rewrite Hp. lia. Qed.

Lemma idx_inj : forall e e', wf_event e -> wf_event e' -> idx e = idx e' -> prio_of e = prio_of e'.
Proof.
  intros e e' (_ & (p & Hp & Hr) & _) (_ & (p' & Hp' & Hr') & _). unfold idx, prio_of. rewrite Hp, Hp'. lia.
Qed.

Lemma idx_le : forall e e', wf_event e -> wf_event e' -> (idx e <= idx e')%nat -> prio_of e <= prio_of e'.
Proof.
  intros e e' (_ & (p & Hp & Hr) & _) (_ & (p' & Hp' & Hr') & _). unfold idx, prio_of. rewrite Hp, Hp'. lia.
Qed.

Lemma active_in : forall d evs e, In e (active d evs) <-> In e evs /\ matches d e = true.
Proof. intros. unfold active. apply filter_In. Qed.

Lemma active_nodup : forall d evs, valid_date d -> Forall wf_event evs -> distinct_priorities d evs ->
  NoDup (map idx (active d evs)).
Proof.
  intros d evs Hd H. induction H as [|e r He Hr IH]; intros Hdp; cbn [active filter map].
  - constructor.
  - destruct Hdp as [Hhead Hdp]. destruct (matches d e) eqn:M; [|now apply IH].
    cbn [map]. constructor; [|now apply IH].
    intro Hin. apply in_map_iff in Hin. destruct Hin as (e' & Heq & Hin').
    apply active_in in Hin'. destruct Hin' as [Hin' M'].
    assert (He' : wf_event e') by (rewrite Forall_forall in Hr; now apply Hr).
    apply (Hhead (proj1 (matches_in_force d e Hd He) M) e' Hin' (proj1 (matches_in_force d e' Hd He') M')).
    now apply idx_inj.
Qed.

Lemma nodup_map_inj : forall (A B : Type) (f : A -> B) l a b,
  NoDup (map f l) -> In a l -> In b l -> f a = f b -> a = b.
Proof.
  intros A B f l a b. induction l as [|x r IH]; intros Hnd Ha Hb Heq; [contradiction|].
  inversion Hnd as [|? ? Hnotin Hnd']; subst.
  destruct Ha as [Ha | Ha], Hb as [Hb | Hb]; subst; auto.
  - exfalso. apply Hnotin. rewrite Heq. now apply in_map.
  - exfalso. apply Hnotin. rewrite <- Heq. now apply in_map.
Qed.

(* the slot of an event in force, in the final arrays *)
Lemma final_slot : forall d t evs e, valid_date d -> Forall wf_event evs -> distinct_priorities d evs ->
  In e evs -> in_force d e ->
  nth_error (fold_left (app_ev t) (active d evs) empty_slots) (idx e) = Some (tv_slot (se_tvs e) t (None, None)).
Proof.
  intros d t evs e Hd Hwf Hdp Hin Hf.
  pose proof (active_nodup d evs Hd Hwf Hdp) as Hnd.
  assert (Hall : forall x, In x evs -> wf_event x) by now apply Forall_forall.
  assert (Hact : In e (active d evs)) by (apply active_in; split; auto; now apply matches_in_force; auto).
  rewrite (fold_char t (active d evs) empty_slots); auto.
  - destruct (find_idx (idx e) (active d evs)) as [e'|] eqn:F.
    + apply find_some in F. destruct F as [Hin' Heq]. apply Nat.eqb_eq in Heq.
      now rewrite (nodup_map_inj _ _ idx _ e' e Hnd Hin' Hact Heq).
    + exfalso. unfold find_idx in F. apply (find_none _ _ F) in Hact. now rewrite Nat.eqb_refl in Hact.
  - intros x Hx. apply nth_error_empty_slots. apply idx_lt. apply Hall. now apply active_in in Hx.
Qed.

(* a slot holding a value belongs to an event in force *)
Lemma final_slot_inv : forall d t evs j v q, valid_date d -> Forall wf_event evs -> distinct_priorities d evs ->
  nth_error (fold_left (app_ev t) (active d evs) empty_slots) j = Some (Some v, q) ->
  exists e, In e evs /\ in_force d e /\ idx e = j.
Proof.
  intros d t evs j v q Hd Hwf Hdp H.
  pose proof (active_nodup d evs Hd Hwf Hdp) as Hnd.
  assert (Hall : forall x, In x evs -> wf_event x) by now apply Forall_forall.
  rewrite (fold_char t (active d evs) empty_slots) in H; auto.
  - destruct (find_idx j (active d evs)) as [e|] eqn:F.
    + apply find_some in F. destruct F as [Hin Heq]. apply Nat.eqb_eq in Heq.
      apply active_in in Hin. destruct Hin as [Hin M]. exists e. repeat split; auto.
      apply matches_in_force; auto.
    + exfalso. destruct (Nat.lt_ge_cases j 16) as [Hlt | Hge].
      * rewrite nth_error_empty_slots in H by assumption. discriminate.
      * assert (Hn : (length empty_slots <= j)%nat) by (cbn; lia). apply nth_error_None in Hn.
        pose proof (eq_trans (eq_sym Hn) H) as Hc. discriminate Hc.
  - intros x Hx. apply nth_error_empty_slots. apply idx_lt. apply Hall. now apply active_in in Hx.
Qed.

(* ---- the priority scan *)
Lemma scan_some : forall s e0 v n, scan s e0 = (Some v, n) ->
  exists i q, nth_error s i = Some (Some v, q) /\
              forall j, (j < i)%nat -> exists y, nth_error s j = Some (None, y).
Proof.
  induction s as [|[v0 n0] r IH]; intros e0 v n H; cbn [scan] in H; [discriminate|].
  destruct v0 as [x|].
  - inversion H; subst. exists 0%nat, n0. split; auto. intros j Hj; lia.
  - apply IH in H. destruct H as (i & q & Hi & Hlt). exists (S i), q. split; auto.
    intros [|j] Hj; [exists n0; reflexivity | apply Hlt; lia].
Qed.

Lemma scan_none : forall s e0 n, scan s e0 = (None, n) -> forall j sl, nth_error s j = Some sl -> fst sl = None.
Proof.
  induction s as [|[v0 n0] r IH]; intros e0 n H j sl Hj; cbn [scan] in H.
  - destruct j; discriminate.
  - destruct v0 as [x|]; [discriminate|]. destruct j as [|j]; cbn in Hj.
    + now inversion Hj.
    + eapply IH; eauto.
Qed.

Lemma scan_snd_lt : forall s e0 t', t4_lt t' (snd (scan s e0)) = true -> t4_lt t' e0 = true.
Proof.
  induction s as [|[v0 n0] r IH]; intros e0 t' H; cbn [scan] in H; auto.
  assert (Hm : t4_lt t' (match n0 with Some x => t4_min e0 x | None => e0 end) = true)
    by (destruct v0; [exact H | now apply IH in H]).
  destruct n0; auto. now apply t4_lt_min in Hm.
Qed.

Definition slot_rel (t' : T4) (a b : slot) : Prop :=
  (forall q, snd a = Some q -> t4_lt t' q = true) -> fst b = fst a.

Lemma scan_stable : forall t' s s' e0 e0' ov n, Forall2 (slot_rel t') s s' ->
  scan s e0 = (ov, n) -> t4_lt t' n = true -> fst (scan s' e0') = ov.
Proof.
  intros t' s s' e0 e0' ov n H. revert e0 e0' ov n.
  induction H as [|[v0 n0] [v0' n0'] r r' Hrel Hr IH]; intros e0 e0' ov n Hs Hlt; cbn [scan] in *.
  - now inversion Hs.
  - set (e1 := match n0 with Some x => t4_min e0 x | None => e0 end) in *.
    assert (He1 : t4_lt t' e1 = true).
    { destruct v0; [inversion Hs; subst; exact Hlt |].
      apply (scan_snd_lt r e1). now rewrite Hs. }
    assert (Hv : v0' = v0).
    { apply Hrel. cbn [snd]. intros q Hq. subst n0. subst e1. now apply t4_lt_min in He1. }
    subst v0'. destruct v0.
    + inversion Hs; subst. reflexivity.
    + eapply IH; eauto.
Qed.

Lemma scan_ahead : forall t s e0, (forall sl q, In sl s -> snd sl = Some q -> t4_lt t q = true) ->
  t4_lt t e0 = true -> t4_lt t (snd (scan s e0)) = true.
Proof.
  intros t s. induction s as [|[v0 n0] r IH]; intros e0 Hs H0; cbn [scan]; auto.
  assert (He1 : t4_lt t (match n0 with Some x => t4_min e0 x | None => e0 end) = true).
  { destruct n0 as [x|]; auto. apply t4_lt_min. split; auto. apply (Hs (v0, Some x)); [now left | reflexivity]. }
  destruct v0; auto. apply IH; auto. intros sl q Hin. apply Hs. now right.
Qed.

Lemma scan_le : forall s e0, t4_le (snd (scan s e0)) e0 = true.
Proof.
  induction s as [|[v0 n0] r IH]; intros e0; cbn [scan].
  - apply t4_le_refl.
  - assert (He1 : t4_le (match n0 with Some x => t4_min e0 x | None => e0 end) e0 = true)
      by (destruct n0; [apply t4_min_le_l | apply t4_le_refl]).
    destruct v0; auto. eapply t4_le_trans; eauto.
Qed.

(* ---- the weekday list *)
Definition oval (df : Z) (o : option Z) : Z := match o with Some x => x | None => df end.

Lemma day_loop_value : forall tvs t acc df e, sorted_tvs tvs ->
  fst (day_loop tvs t (oval df acc) df e) = oval df (cur_from acc tvs t).
Proof.
  induction tvs as [|[tv v] r IH]; intros t acc df e Hs; cbn [day_loop cur_from]; auto.
  destruct Hs as [Hle Hs]. destruct (t4_le tv t) eqn:E.
  - change (match v with Some x => x | None => df end) with (oval df v). now apply IH.
  - cbn [fst]. f_equal. symmetry. apply cur_from_later. intros y Hy.
    specialize (Hle y Hy). apply t4_le_false_lt in E.
    apply t4_lt_not_le. eapply t4_lt_le_trans; eauto.
Qed.

Lemma day_loop_stable : forall tvs t t' dv df e e' v n, t4_le t t' = true ->
  day_loop tvs t dv df e = (v, n) -> t4_lt t' n = true -> fst (day_loop tvs t' dv df e') = v.
Proof.
  induction tvs as [|[tv x] r IH]; intros t t' dv df e e' v n Hle H Hlt; cbn [day_loop] in *.
  - now inversion H.
  - destruct (t4_le tv t) eqn:E.
    + rewrite (t4_le_trans _ _ _ E Hle). eapply IH; eauto.
    + inversion H; subst. apply t4_lt_min in Hlt. destruct Hlt as [_ Hlt].
      now rewrite (t4_lt_not_le _ _ Hlt).
Qed.

Lemma day_loop_ahead : forall tvs t dv df e, t4_lt t e = true -> t4_lt t (snd (day_loop tvs t dv df e)) = true.
Proof.
  induction tvs as [|[tv x] r IH]; intros t dv df e H; cbn [day_loop]; auto.
  destruct (t4_le tv t) eqn:E; auto. cbn [snd]. apply t4_lt_min. split; auto. now apply t4_le_false_lt.
Qed.

Lemma day_loop_le : forall tvs t dv df e, t4_le (snd (day_loop tvs t dv df e)) e = true.
Proof.
  induction tvs as [|[tv x] r IH]; intros t dv df e; cbn [day_loop].
  - apply t4_le_refl.
  - destruct (t4_le tv t); auto. apply t4_min_le_l.
Qed.

(* ---- eval *)
Lemma in_effect_match : forall c d, valid_date d -> wf_range (eff c) ->
  exists b, match_date_range d (eff c) = Ok b /\ (b = true <-> in_effect c d).
Proof.
  intros c d Hd Hwf. destruct (match_date_range_total d (eff c)) as [b Hb]. exists b. split; auto.
  unfold in_effect. rewrite <- (match_date_range_denotes d _ Hd Hwf), Hb. split; congruence.
Qed.

Lemma weekly_get_ok : forall w dow, length w = 7%nat -> 1 <= dow <= 7 ->
  weekly_get w dow = Ok (nth (Z.to_nat (dow - 1)) w []).
Proof.
  intros w dow Hl Hd. unfold weekly_get, zlen. rewrite Hl.
  replace ((dow <? 0) || (Z.of_nat 7 <? dow)) with false by lia.
  replace (dow =? 0) with false by lia.
  destruct (nth_error w (Z.to_nat (dow - 1))) eqn:E.
  - now rewrite (nth_error_nth _ _ _ E).
  - apply nth_error_None in E. lia.
Qed.

(* the shape of eval inside the effective period *)
Definition final_slots (c : sched) (d : D4) (t : T4) : slots :=
  fold_left (app_ev t) (active d (excs c)) empty_slots.

Lemma eval_shape : forall c d t, valid_date d -> wf_sched c d ->
  eval c d t =
  if (match match_date_range d (eff c) with Ok true => true | _ => false end) then
    match scan (final_slots c d t) next_day with
    | (Some v, e) => Ok (Some (v, e))
    | (None, e) => Ok (Some (day_loop (weekly_day c d) t (dflt c) (dflt c) e))
    end
  else Ok None.
Proof.
  intros c d t Hd (Hr & Hev & Hdp & Hw). unfold eval.
  destruct (match_date_range_total d (eff c)) as [b Hb]. rewrite Hb. cbn [bind].
  destruct b; cbn [negb]; auto.
  rewrite (ev_loop_fold d t (excs c) empty_slots Hd Hev). cbn [bind]. fold (final_slots c d t).
  destruct (scan (final_slots c d t) next_day) as [[v|] e]; auto.
  unfold weekly_day. destruct (weekly c) as [w|]; [|reflexivity].
  destruct Hw as [Hl Hsorted]. destruct d as [[[y m] dd] dow]. destruct Hd as (_ & _ & _ & Hdow).
  destruct w as [|w0 wr]; [discriminate Hl|].
  rewrite (weekly_get_ok (w0 :: wr) dow Hl Hdow). reflexivity.
Qed.

Lemma weekly_day_sorted : forall c d, wf_weekly (weekly c) -> sorted_tvs (weekly_day c d).
Proof.
  intros c [[[y m] dd] dow] Hw. unfold weekly_day. destruct (weekly c) as [w|]; [|exact I].
  destruct Hw as [_ Hs]. destruct (nth_in_or_default (Z.to_nat (dow - 1)) w []) as [Hin | Hdef].
  - now apply Hs.
  - rewrite Hdef. exact I.
Qed.

Theorem eval_spec : forall c d t v n, valid_date d -> wf_sched c d ->
  eval c d t = Ok (Some (v, n)) -> in_effect c d /\ spec_value c d t v.
Proof.
  intros c d t v n Hd Hwf H. rewrite (eval_shape c d t Hd Hwf) in H.
  pose proof Hwf as (Hr & Hev & Hdp & Hw).
  destruct (in_effect_match c d Hd Hr) as (b & Hb & Hbd). rewrite Hb in H.
  destruct b; [|discriminate]. split; [now apply Hbd|].
  assert (Hall : forall x, In x (excs c) -> wf_event x) by now apply Forall_forall.
  destruct (scan (final_slots c d t) next_day) as [[v0|] e0] eqn:Hscan.
  - inversion H; subst v0 e0. clear H. left.
    apply scan_some in Hscan. destruct Hscan as (i & q & Hi & Hbefore).
    destruct (final_slot_inv d t (excs c) i v q Hd Hev Hdp Hi) as (e & Hin & Hf & Hidx).
    pose proof (final_slot d t (excs c) e Hd Hev Hdp Hin Hf) as Hslot. rewrite Hidx in Hslot.
    unfold final_slots in Hi. rewrite Hi in Hslot. inversion Hslot as [Hs].
    exists e. repeat split; auto.
    + pose proof (Hall e Hin) as (_ & _ & Hsorted).
      rewrite <- (tv_slot_cur (se_tvs e) t Hsorted), <- Hs. reflexivity.
    + intros e' Hin' Hf' Hcur. apply idx_le; auto.
      destruct (Nat.le_gt_cases (idx e) (idx e')) as [Hle | Hgt]; auto. exfalso.
      rewrite Hidx in Hgt. destruct (Hbefore _ Hgt) as [y Hy].
      pose proof (final_slot d t (excs c) e' Hd Hev Hdp Hin' Hf') as Hslot'.
      unfold final_slots in Hy. rewrite Hy in Hslot'. inversion Hslot' as [Hs'].
      apply Hcur. pose proof (Hall e' Hin') as (_ & _ & Hsorted').
      rewrite <- (tv_slot_cur (se_tvs e') t Hsorted'), <- Hs'. reflexivity.
  - right. split.
    + intros e Hin Hf.
      pose proof (final_slot d t (excs c) e Hd Hev Hdp Hin Hf) as Hslot.
      pose proof (scan_none _ _ _ Hscan _ _ Hslot) as Hnone.
      pose proof (Hall e Hin) as (_ & _ & Hsorted).
      now rewrite <- (tv_slot_cur (se_tvs e) t Hsorted).
    + inversion H as [Hdl].
      pose proof (day_loop_value (weekly_day c d) t None (dflt c) e0 (weekly_day_sorted c d Hw)) as Hv.
      cbn [oval] in Hv. rewrite Hdl in Hv. cbn [fst] in Hv. exact Hv.
Qed.

(* inside the effective period of a well-formed schedule eval always produces a value *)
Lemma eval_total : forall c d t, valid_date d -> wf_sched c d ->
  (in_effect c d -> exists v n, eval c d t = Ok (Some (v, n))) /\
  (~ in_effect c d -> eval c d t = Ok None).
Proof.
  intros c d t Hd Hwf. rewrite (eval_shape c d t Hd Hwf).
  pose proof Hwf as (Hr & _).
  destruct (in_effect_match c d Hd Hr) as (b & Hb & Hbd). rewrite Hb.
  destruct b; split; intro Hin.
  - destruct (scan (final_slots c d t) next_day) as [[v0|] e0]; [now eauto|].
    destruct (day_loop (weekly_day c d) t (dflt c) (dflt c) e0) as [v n]. eauto.
  - exfalso. apply Hin. now apply Hbd.
  - apply Hbd in Hin. discriminate.
  - reflexivity.
Qed.

(* ---- stability until the reported transition *)
Lemma fold_app_length : forall t evs s, length (fold_left (app_ev t) evs s) = length s.
Proof.
  intros t evs. induction evs as [|e r IH]; intros s; cbn [fold_left]; auto.
  rewrite IH. apply upd_length.
Qed.

Lemma Forall2_nth_error : forall (A : Type) (R : A -> A -> Prop) (s s' : list A), length s = length s' ->
  (forall j a b, nth_error s j = Some a -> nth_error s' j = Some b -> R a b) -> Forall2 R s s'.
Proof.
  intros A R s. induction s as [|x r IH]; intros [|y r'] Hl H; try discriminate; constructor.
  - apply (H 0%nat); reflexivity.
  - apply IH; [now inversion Hl|]. intros j a b Ha Hb. apply (H (S j)); assumption.
Qed.

Lemma final_slots_rel : forall c d t t', valid_date d -> wf_sched c d -> t4_le t t' = true ->
  Forall2 (slot_rel t') (final_slots c d t) (final_slots c d t').
Proof.
  intros c d t t' Hd (Hr & Hev & Hdp & Hw) Hle.
  pose proof (active_nodup d (excs c) Hd Hev Hdp) as Hnd.
  assert (Hall : forall x, In x (excs c) -> wf_event x) by now apply Forall_forall.
  assert (Hinit : forall x, In x (active d (excs c)) -> nth_error empty_slots (idx x) = Some (None, None)).
  { intros x Hx. apply nth_error_empty_slots. apply idx_lt. apply Hall. now apply active_in in Hx. }
  apply Forall2_nth_error.
  - unfold final_slots. now rewrite !fold_app_length.
  - intros j a b Ha Hb. unfold final_slots in Ha, Hb.
    rewrite (fold_char t _ empty_slots Hinit Hnd) in Ha.
    rewrite (fold_char t' _ empty_slots Hinit Hnd) in Hb.
    destruct (find_idx j (active d (excs c))) as [e|].
    + inversion Ha; inversion Hb; subst. intro Hq. now apply tv_slot_stable.
    + assert (a = b) by congruence. subst b. intro. reflexivity.
Qed.

Theorem eval_stable : forall c d t t' v n, valid_date d -> wf_sched c d ->
  eval c d t = Ok (Some (v, n)) -> t4_le t t' = true -> t4_lt t' n = true ->
  exists n', eval c d t' = Ok (Some (v, n')).
Proof.
  intros c d t t' v n Hd Hwf H Hle Hlt.
  pose proof (final_slots_rel c d t t' Hd Hwf Hle) as Hrel.
  rewrite (eval_shape c d t Hd Hwf) in H. rewrite (eval_shape c d t' Hd Hwf).
  destruct (match match_date_range d (eff c) with Ok true => true | _ => false end); [|discriminate].
  destruct (scan (final_slots c d t) next_day) as [[v0|] e0] eqn:Hscan.
  - inversion H; subst v0 e0.
    pose proof (scan_stable t' _ _ next_day next_day _ _ Hrel Hscan Hlt) as Hs'.
    destruct (scan (final_slots c d t') next_day) as [ov' e'] eqn:Hscan'. cbn [fst] in Hs'. subst ov'. eauto.
  - inversion H as [Hdl].
    assert (Hlt0 : t4_lt t' e0 = true).
    { eapply t4_lt_le_trans; [exact Hlt|].
      pose proof (day_loop_le (weekly_day c d) t (dflt c) (dflt c) e0) as Hle0. now rewrite Hdl in Hle0. }
    pose proof (scan_stable t' _ _ next_day next_day _ _ Hrel Hscan Hlt0) as Hs'.
    destruct (scan (final_slots c d t') next_day) as [ov' e'] eqn:Hscan'. cbn [fst] in Hs'. subst ov'.
    pose proof (day_loop_stable _ t t' (dflt c) (dflt c) e0 e' v n Hle Hdl Hlt) as Hv.
    destruct (day_loop (weekly_day c d) t' (dflt c) (dflt c) e') as [v' n'] eqn:Hdl'. cbn [fst] in Hv. subst v'. eauto.
Qed.

(* ---- the reported transition lies strictly ahead and not after midnight *)
Lemma final_slots_ahead : forall c d t sl q, valid_date d -> wf_sched c d -> valid_time t ->
  In sl (final_slots c d t) -> snd sl = Some q -> t4_lt t q = true.
Proof.
  intros c d t sl q Hd (Hr & Hev & Hdp & Hw) Ht Hin Hq.
  pose proof (active_nodup d (excs c) Hd Hev Hdp) as Hnd.
  assert (Hall : forall x, In x (excs c) -> wf_event x) by now apply Forall_forall.
  assert (Hinit : forall x, In x (active d (excs c)) -> nth_error empty_slots (idx x) = Some (None, None)).
  { intros x Hx. apply nth_error_empty_slots. apply idx_lt. apply Hall. now apply active_in in Hx. }
  apply In_nth_error in Hin. destruct Hin as [j Hj]. unfold final_slots in Hj.
  rewrite (fold_char t _ empty_slots Hinit Hnd) in Hj.
  destruct (find_idx j (active d (excs c))) as [e|].
  - inversion Hj; subst sl. destruct (tv_slot_ahead _ _ _ _ Ht Hq) as [H | H]; auto. discriminate.
  - destruct (Nat.lt_ge_cases j 16) as [Hlt | Hge].
    + rewrite nth_error_empty_slots in Hj by assumption. inversion Hj; subst sl. discriminate.
    + assert (Hn : (length empty_slots <= j)%nat) by (cbn; lia). apply nth_error_None in Hn.
      pose proof (eq_trans (eq_sym Hn) Hj) as Hc. discriminate Hc.
Qed.

Theorem eval_next_ahead : forall c d t v n, valid_date d -> wf_sched c d -> valid_time t ->
  eval c d t = Ok (Some (v, n)) -> t4_lt t n = true /\ t4_le n next_day = true.
Proof.
  intros c d t v n Hd Hwf Ht H. rewrite (eval_shape c d t Hd Hwf) in H.
  destruct (match match_date_range d (eff c) with Ok true => true | _ => false end); [|discriminate].
  pose proof (scan_ahead t (final_slots c d t) next_day
                (fun sl q Hin Hq => final_slots_ahead c d t sl q Hd Hwf Ht Hin Hq) (t4_lt_next_day t Ht)) as Hsa.
  pose proof (scan_le (final_slots c d t) next_day) as Hsl.
  destruct (scan (final_slots c d t) next_day) as [[v0|] e0]; cbn [snd] in *.
  - inversion H; subst. auto.
  - inversion H as [Hdl]. split.
    + pose proof (day_loop_ahead (weekly_day c d) t (dflt c) (dflt c) e0 Hsa) as Ha. now rewrite Hdl in Ha.
    + pose proof (day_loop_le (weekly_day c d) t (dflt c) (dflt c) e0) as Hl. rewrite Hdl in Hl.
      eapply t4_le_trans; eauto.
Qed.

(* ---- the timer: every firing re-arms, strictly ahead, at the latest at the next midnight *)
Definition arm_ok (n : T4) : Prop := n = next_day \/ (valid_time n /\ let '(_, _, _, h) := n in h = 0).
Definition good_tvs (l : list TV) : Prop := Forall (fun tv => valid_time (fst tv) /\ whole_tv tv) l.

Lemma arm_ok_min : forall a b, arm_ok a -> arm_ok b -> arm_ok (t4_min a b).
Proof. intros a b Ha Hb. unfold t4_min. destruct (t4_lt b a); assumption. Qed.

Lemma tv_slot_arm : forall tvs t x q, good_tvs tvs -> snd (tv_slot tvs t x) = Some q -> arm_ok q \/ snd x = Some q.
Proof.
  induction tvs as [|[tv v] r IH]; intros t x q Hg H; cbn [tv_slot] in *; auto.
  inversion Hg as [|? ? [Hv Hw] Hg']; subst. destruct (t4_le tv t).
  - apply IH in H; auto. destruct H as [H | H]; auto. left.
    destruct v; cbn in H; try discriminate. inversion H. now left.
  - cbn in H. inversion H; subst. left. right. split; auto.
Qed.

Lemma scan_arm : forall s e0, arm_ok e0 -> (forall sl q, In sl s -> snd sl = Some q -> arm_ok q) -> arm_ok (snd (scan s e0)).
Proof.
  induction s as [|[v0 n0] r IH]; intros e0 H0 Hs; cbn [scan]; auto.
  assert (He1 : arm_ok (match n0 with Some x => t4_min e0 x | None => e0 end)).
  { destruct n0 as [x|]; auto. apply arm_ok_min; auto. apply (Hs (v0, Some x)); [now left | reflexivity]. }
  destruct v0; auto. apply IH; auto. intros sl q Hin. apply Hs. now right.
Qed.

Lemma day_loop_arm : forall tvs t dv df e, good_tvs tvs -> arm_ok e -> arm_ok (snd (day_loop tvs t dv df e)).
Proof.
  induction tvs as [|[tv x] r IH]; intros t dv df e Hg He; cbn [day_loop]; auto.
  inversion Hg as [|? ? [Hv Hw] Hg']; subst. destruct (t4_le tv t); auto.
  cbn [snd]. apply arm_ok_min; auto. right. split; auto.
Qed.

Definition good_sched (c : sched) : Prop :=
  (forall e, In e (excs c) -> good_tvs (se_tvs e)) /\
  (forall w, weekly c = Some w -> forall day, In day w -> good_tvs day).

Lemma weekly_day_good : forall c d, good_sched c -> good_tvs (weekly_day c d).
Proof.
  intros c [[[y m] dd] dow] [_ Hg]. unfold weekly_day. destruct (weekly c) as [w|] eqn:E; [|constructor].
  destruct (nth_in_or_default (Z.to_nat (dow - 1)) w []) as [Hin | Hdef].
  - now apply (Hg w eq_refl).
  - rewrite Hdef. constructor.
Qed.

Lemma eval_arm : forall c d t v n, valid_date d -> wf_sched c d -> good_sched c ->
  eval c d t = Ok (Some (v, n)) -> arm_ok n.
Proof.
  intros c d t v n Hd Hwf Hg H. rewrite (eval_shape c d t Hd Hwf) in H.
  destruct (match match_date_range d (eff c) with Ok true => true | _ => false end); [|discriminate].
  pose proof Hwf as (Hr & Hev & Hdp & Hw).
  pose proof (active_nodup d (excs c) Hd Hev Hdp) as Hnd.
  assert (Hall : forall x, In x (excs c) -> wf_event x) by now apply Forall_forall.
  assert (Hinit : forall x, In x (active d (excs c)) -> nth_error empty_slots (idx x) = Some (None, None)).
  { intros x Hx. apply nth_error_empty_slots. apply idx_lt. apply Hall. now apply active_in in Hx. }
  assert (Hslots : forall sl q, In sl (final_slots c d t) -> snd sl = Some q -> arm_ok q).
  { intros sl q Hin Hq. apply In_nth_error in Hin. destruct Hin as [j Hj]. unfold final_slots in Hj.
    rewrite (fold_char t _ empty_slots Hinit Hnd) in Hj.
    destruct (find_idx j (active d (excs c))) as [e|] eqn:F.
    - inversion Hj; subst sl. apply find_some in F. destruct F as [Hin _]. apply active_in in Hin.
      destruct (tv_slot_arm _ _ _ _ (proj1 Hg e (proj1 Hin)) Hq) as [H1 | H1]; auto. discriminate.
    - destruct (Nat.lt_ge_cases j 16) as [Hlt | Hge].
      + rewrite nth_error_empty_slots in Hj by assumption. inversion Hj; subst sl. discriminate.
      + assert (Hn : (length empty_slots <= j)%nat) by (cbn; lia). apply nth_error_None in Hn.
        pose proof (eq_trans (eq_sym Hn) Hj) as Hc. discriminate Hc. }
  pose proof (scan_arm (final_slots c d t) next_day (or_introl eq_refl) Hslots) as Hsa.
  destruct (scan (final_slots c d t) next_day) as [[v0|] e0]; cbn [snd] in *.
  - inversion H; subst. auto.
  - inversion H as [Hdl].
    pose proof (day_loop_arm (weekly_day c d) t (dflt c) (dflt c) e0 (weekly_day_good c d Hg) Hsa) as Ha.
    now rewrite Hdl in Ha.
Qed.

Lemma normalise_arm : forall d n, arm_ok n ->
  has255 n = false /\ ((n = next_day /\ normalise d n = (next_date d, (0, 0, 0, 0))) \/ (n <> next_day /\ normalise d n = (d, n))).
Proof.
  intros d n [H | [Hv Hw]].
  - subst n. split; [reflexivity|]. left. split; reflexivity.
  - destruct n as [[[h m] s] x]. subst x. unfold valid_time in Hv.
    split; [unfold has255; lia|]. right. split; [unfold next_day; intro E; inversion E; lia|].
    unfold normalise.
    replace ((h * 3600 + m * 60 + s) / 86400) with 0 by lia.
    replace ((h * 3600 + m * 60 + s) mod 86400) with (h * 3600 + m * 60 + s) by lia.
    cbn [Z.to_nat nth_date]. repeat f_equal; lia.
Qed.

Lemma classic_in_effect : forall c d, valid_date d -> wf_sched c d -> in_effect c d \/ ~ in_effect c d.
Proof.
  intros c d Hd (Hr & _). destruct (in_effect_match c d Hd Hr) as (b & _ & Hbd).
  destruct b; [left; now apply Hbd | right; intro H; apply Hbd in H; discriminate].
Qed.

Theorem step_rearms : forall c d t pv, valid_date d -> valid_time t -> wf_sched c d -> good_sched c ->
  exists pv' d' t', step c d t pv = Ok (pv', (d', t')) /\
    ((d' = d /\ t4_lt t t' = true /\ valid_time t') \/ (d' = next_date d /\ t' = (0, 0, 0, 0))) /\
    (in_effect c d -> spec_value c d t pv') /\ (~ in_effect c d -> pv' = pv).
Proof.
  intros c d t pv Hd Ht Hwf Hg. unfold step.
  destruct (eval_total c d t Hd Hwf) as [Hin Hout].
  destruct (eval c d t) as [[[v n]|]|err] eqn:E.
  - cbn [bind].
    pose proof (eval_arm c d t v n Hd Hwf Hg E) as Harm.
    destruct (eval_next_ahead c d t v n Hd Hwf Ht E) as [Hahead _].
    destruct (eval_spec c d t v n Hd Hwf E) as [Heff Hspec].
    destruct (normalise_arm d n Harm) as [H255 [[Hn Hnorm] | [Hn Hnorm]]]; rewrite H255, Hnorm.
    + exists v, (next_date d), (0, 0, 0, 0). repeat split; auto. intro Hc. contradiction.
    + exists v, d, n. repeat split; auto.
      * left. repeat split; auto. destruct Harm as [Hc | [Hv _]]; [contradiction | exact Hv].
      * intro Hc. contradiction.
  - cbn [bind]. exists pv, (next_date d), (0, 0, 0, 0). repeat split; auto.
    intro Hc. destruct (Hin Hc) as (v & n & Hc'). discriminate.
  - exfalso. destruct (classic_in_effect c d Hd Hwf) as [Hc | Hc].
    + destruct (Hin Hc) as (v & n & Hc'). discriminate.
    + specialize (Hout Hc). discriminate.
Qed.

Theorem run_across_days : forall fuel c d t pv,
  (forall k, (k <= fuel)%nat -> valid_date (nth_date k d) /\ wf_sched c (nth_date k d)) ->
  valid_time t -> good_sched c ->
  length (run fuel c d t pv) = fuel /\ Forall (fun r => exists x, r = Ok x) (run fuel c d t pv).
Proof.
  induction fuel as [|k IH]; intros c d t pv H Ht Hg; cbn [run]; [split; [reflexivity | constructor]|].
  destruct (H 0%nat (Nat.le_0_l _)) as [Hd Hwf]. cbn [nth_date] in Hd, Hwf.
  destruct (step_rearms c d t pv Hd Ht Hwf Hg) as (pv' & d' & t' & Hstep & Hcase & _). rewrite Hstep.
  assert (Hnext : forall j, (j <= k)%nat -> valid_date (nth_date j d') /\ wf_sched c (nth_date j d')).
  { intros j Hj. destruct Hcase as [(-> & _) | (-> & _)].
    - apply H. lia.
    - apply (H (S j)). lia. }
  assert (Ht' : valid_time t').
  { destruct Hcase as [(_ & _ & Hv) | (_ & ->)]; [exact Hv | unfold valid_time; lia]. }
  destruct (IH c d' t' pv' Hnext Ht' Hg) as [Hlen Hall].
  split; [cbn [length]; now rewrite Hlen | constructor; eauto].
Qed.

(* ---- equal priorities: the faithful model changes value before the transition it reported *)
Definition eq_prio_sched : sched :=
  Build_sched ((255, 255, 255, 255), (255, 255, 255, 255)) None
    [Build_sevent (PEntry (CDate (255, 255, 255, 255))) (Some 5) [((9, 0, 0, 0), Some 4)];
     Build_sevent (PEntry (CDate (255, 255, 255, 255))) (Some 5) [((10, 0, 0, 0), Some 1)]] 0.

Lemma stable_refuted : exists c d t t' v n,
  valid_date d /\ eval c d t = Ok (Some (v, n)) /\ t4_le t t' = true /\ t4_lt t' n = true /\
  forall n', eval c d t' <> Ok (Some (v, n')).
Proof.
  exists eq_prio_sched, (120, 1, 1, 3), (8, 30, 0, 0), (9, 0, 0, 0), 0, (10, 0, 0, 0).
  split; [apply valid_dateb_spec; vm_compute; reflexivity|].
  split; [vm_compute; reflexivity|]. split; [reflexivity|]. split; [reflexivity|].
  intros n' H. vm_compute in H. discriminate H.
Qed.

(* ---- a concrete well-formed schedule (non-vacuity of the hypotheses) *)
Definition ex_sched : sched :=
  Build_sched ((120, 1, 1, 255), (255, 255, 255, 255))
    (Some [[((8, 0, 0, 0), Some 3); ((17, 0, 0, 0), None)]; []; []; []; []; []; []])
    [Build_sevent (PEntry (CWnd (255, 6, 1))) (Some 2) [((7, 0, 0, 0), Some 7); ((12, 0, 0, 0), None)];
     Build_sevent (PRef (Some [CDate (255, 13, 32, 255); CRange ((120, 1, 1, 255), (120, 1, 31, 255))])) (Some 9)
                  [((0, 0, 0, 0), Some 5)]] 1.

Lemma ex_sched_wf : forall d, wf_sched ex_sched d.
Proof.
  intro d. unfold wf_sched, ex_sched. cbn [eff excs weekly].
  split; [|split; [|split]].
  - split; cbn; [right | left]; lia.
  - constructor; [|constructor; [|constructor]]; unfold wf_event; cbn [se_period se_prio se_tvs]; (split; [|split]).
    + cbn. lia.
    + exists 2. split; [reflexivity | lia].
    + cbn. split; [intros x [<- | []]; reflexivity | split; [intros x [] | exact I]].
    + intros c [<- | [<- | []]]; cbn; auto. split; cbn; right; lia.
    + exists 9. split; [reflexivity | lia].
    + cbn. split; [intros x [] | exact I].
  - cbn. repeat split; auto. intros _ e' [<- | []] _. cbn. lia.
  - split; [reflexivity|]. intros day [<- | Hin].
    + cbn. repeat split; auto. intros ? [<- | []]. reflexivity.
    + repeat (destruct Hin as [<- | Hin]; [exact I|]). destruct Hin.
Qed.

Lemma ex_sched_good : good_sched ex_sched.
Proof.
  split.
  - intros e [<- | [<- | []]]; repeat constructor; cbn; lia.
  - intros w Hw. inversion Hw; subst. intros day [<- | Hin].
    + repeat constructor; cbn; lia.
    + repeat (destruct Hin as [<- | Hin]; [constructor|]). destruct Hin.
Qed.
