(* PrimObj.v — object life cycles of the primitive classes of primitivedata.py: ONE object that is
   encoded, decoded into again (obj.decode(tag)), given a new value by the public setters
   (ObjectIdentifier.set_tuple / set_long, BitString.__setitem__, attribute assignment), copied with
   the copy constructor K(obj), and encoded again.
   The state of an object is its value (Prim.prim; for a CharacterString that is strEncoding +
   strValue): the code keeps no other field between calls, so there is no cache component here — the
   correspondence check verifies that the implementation agrees with this after arbitrary histories
   (a memoised packed word, or an encode() that rewrites strValue, disagrees).
   No proofs here (PrimObjFacts.v). *)
From Bac Require Export Prim.
Open Scope N_scope.

Inductive op : Set :=
| OEncApp                              (* obj.encode(tag); tag.encode(pdu) *)
| OEncCtx (c : N)                      (* obj.encode(tag); tag.app_to_context(c).encode(pdu) *)
| ODecode (t : tag)                    (* obj.decode(tag) on the same object *)
| OAssign (v : prim)                   (* obj.value = ... (strEncoding/strValue for a CharacterString) *)
| OCopy                                (* obj = K(obj) *)
| OSetTuple (t : eval) (i : Z)         (* ObjectIdentifier.set_tuple *)
| OSetLong (w : Z)                     (* ObjectIdentifier.set_long *)
| OGetLong                             (* ObjectIdentifier.get_long (also behind <, sort) *)
| OSetBit (i : Z) (b : bool).          (* BitString.__setitem__(i, b), integer index *)

(* obj.decode(tag): the checks come before any assignment, except in CharacterString.decode, which
   stores strEncoding/strValue and only then runs the codec that may raise UnicodeDecodeError *)
Definition dec_into (tb : table) (k : N) (s : prim) (t : tag) : option err * prim :=
  match dec_app tb k t with
  | Ok v => (None, v)
  | Err UnicodeErr => (Some UnicodeErr, match data t with e :: l => PChars e l | [] => s end)
  | Err e => (Some e, s)
  end.

(* set_long: objType = (value >> 22) & 0x3FF, objInstance = value & 0x3FFFFF, for any Python int *)
Definition objid_set_long (tb : table) (w : Z) : prim :=
  PObjId (eval_of_num tb (Z.to_N ((w / 4194304) mod 1024))) (w mod 4194304)%Z.

Fixpoint set_nth (l : list bool) (i : nat) (b : bool) : list bool :=
  match l, i with
  | [], _ => []
  | _ :: r, O => b :: r
  | x :: r, S j => x :: set_nth r j b
  end.

(* K(obj): the copy constructors copy the value; Unsigned re-checks is_valid (base class: >= 0) *)
Definition copy_obj (s : prim) : res prim :=
  match s with
  | PUnsigned z => unsigned_ctor 0 None z
  | _ => Ok s
  end.

Definition ores {A} (f : A -> list Z) (r : res A) : list Z :=
  match r with Ok a => 0%Z :: f a | Err e => [1%Z; err_code e] end.
Definition oerr (e : option err) : list Z :=
  match e with None => [0%Z] | Some x => [1%Z; err_code x] end.

(* one call: what the caller observes (result or exception class), and the object afterwards *)
Definition step (tb otb : table) (maxi : Z) (k : N) (s : prim) (o : op) : list Z * prim :=
  match o with
  | OEncApp => (ores zs (enc_octets_app tb s), s)
  | OEncCtx c => (ores zs (enc_octets_ctx tb c s), s)
  | ODecode t => let (e, s') := dec_into tb k s t in (oerr e, s')
  | OAssign v => ([0%Z], v)
  | OCopy => match copy_obj s with Ok s' => ([0%Z], s') | Err e => ([1%Z; err_code e], s) end
  | OSetTuple t i =>
      match s with
      | PObjId _ _ => match objid_ctor otb maxi t i with
                      | Ok s' => ([0%Z], s') | Err e => ([1%Z; err_code e], s) end
      | _ => ([1%Z; err_code AttrErr], s)
      end
  | OSetLong w =>
      match s with
      | PObjId _ _ => ([0%Z], objid_set_long otb w)
      | _ => ([1%Z; err_code AttrErr], s)
      end
  | OGetLong =>
      match s with
      | PObjId t i => (ores (fun z => [z]) (objid_word otb t i), s)
      | _ => ([1%Z; err_code AttrErr], s)
      end
  | OSetBit i b =>
      match s with
      | PBits l =>
          if (i <? 0)%Z || (Z.of_nat (length l) <=? i)%Z then ([1%Z; err_code IndexErr], s)
          else ([0%Z], PBits (set_nth l (Z.to_nat i) b))
      | _ => ([1%Z; err_code AttrErr], s)
      end
  end.

Definition op_code (o : op) : Z :=
  match o with
  | OEncApp => 1 | OEncCtx _ => 2 | ODecode _ => 3 | OAssign _ => 4 | OCopy => 5
  | OSetTuple _ _ => 6 | OSetLong _ => 7 | OGetLong => 8 | OSetBit _ _ => 9
  end%Z.

(* a history: after every call, the call's observation followed by the object's state *)
Fixpoint run (tb otb : table) (maxi : Z) (k : N) (s : prim) (h : list op) : list Z :=
  match h with
  | [] => []
  | o :: r =>
      let (obs, s') := step tb otb maxi k s o in
      ((op_code o :: obs) ++ canon_prim s' ++ run tb otb maxi k s' r)%list
  end.

Fixpoint final (tb otb : table) (maxi : Z) (k : N) (s : prim) (h : list op) : prim :=
  match h with
  | [] => s
  | o :: r => final tb otb maxi k (snd (step tb otb maxi k s o)) r
  end.

(* CharacterString.value for charset 0: the text, written back as UTF-8, is the content octets themselves whenever these
   are valid UTF-8 — nothing is stripped (no byte-order-mark handling) and nothing is normalised.  The harness only asks
   this for octets it obtained from str.encode('utf-8'); the codec itself is CPython's. *)
Definition text_utf8_of (v : prim) : res (list N) :=
  match v with
  | PChars 0 l => Ok l
  | _ => Err OtherErr
  end.

(* BitString.__init__(list): a list of 0/1 (the empty list included — allInts is tested first) IS the value, whatever the
   class's bitLen; a non-empty list of known bit names sets those bits in [0]*bitLen.  b = (bitLen, bitNames) of the class. *)
Definition bits_ctor_ints (b : N * table) (l : list bool) : res prim := Ok (PBits l).
Fixpoint bits_set_names (tb : table) (names : list string) (v : list bool) : res (list bool) :=
  match names with
  | [] => Ok v
  | s :: r =>
      match tbl_num tb s with
      | None => Err TypeErr
      | Some i => if lenN v <? i then Err IndexErr                       (* (bit < 0) or (bit > len(self.value)) *)
                  else if lenN v =? i then Err IndexErr                  (* self.value[bit] = 1 on a list that short *)
                  else bits_set_names tb r (set_nth v (N.to_nat i) true)
      end
  end.
Definition bits_ctor_names (b : N * table) (names : list string) : res prim :=
  match names with
  | [] => Ok (PBits [])
  | _ => do v <- bits_set_names (snd b) names (repeat false (N.to_nat (fst b))); Ok (PBits v)
  end.
