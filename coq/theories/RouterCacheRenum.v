(* RouterCacheRenum.v — the representation invariant WF (no key occurs twice, as in a Python dict), its
   preservation by every operation, the general theorem for update_source_network, and the lifting
   of the history theorems to arbitrary histories (property C19). *)
From Bac Require Import Base RouterCache RouterCacheFacts.
Open Scope Z_scope.


(* ---- no key occurs twice (a Python dict) *)
Definition keys {K V} (l : list (K * V)) : list K := map fst l.

Lemma in_afilter : forall {K V} (f : K -> bool) (l : list (K * V)) e,
  In e (afilter f l) <-> In e l /\ f (fst e) = true.
Proof. intros. unfold afilter. apply filter_In. Qed.

Lemma in_keys_afilter : forall {K V} (f : K -> bool) (l : list (K * V)) k,
  In k (keys (afilter f l)) -> In k (keys l) /\ f k = true.
Proof.
  intros K V f l k H. unfold keys in *. apply in_map_iff in H. destruct H as [e [<- He]].
  apply in_afilter in He. destruct He as [He Hf]. split; [apply in_map; exact He|exact Hf].
Qed.

Lemma nodup_keys_afilter : forall {K V} (f : K -> bool) (l : list (K * V)),
  NoDup (keys l) -> NoDup (keys (afilter f l)).
Proof.
  intros K V f l. unfold keys, afilter. induction l as [|[k v] l IH]; intros H; [constructor|].
  cbn [filter fst map] in *. inversion H as [|x xs Hnotin Hnd]; subst.
  destruct (f k).
  - cbn [map fst]. constructor; [|apply IH; exact Hnd].
    intros Hin. apply Hnotin. apply in_map_iff in Hin. destruct Hin as [e [<- He]].
    apply filter_In in He. apply in_map. tauto.
  - apply IH; exact Hnd.
Qed.

Section KeyFacts.
  Context {K V : Type} (eqb : K -> K -> bool).
  Context (eqb_spec : forall a b, eqb a b = true <-> a = b).

  Lemma nodup_keys_aset : forall k v (l : list (K * V)),
    NoDup (keys l) -> NoDup (keys (aset eqb k v l)).
  Proof.
    intros k v l H. unfold aset. unfold keys. cbn [map fst]. constructor.
    - intros Hin. apply (in_keys_afilter (fun k' => negb (eqb k' k))) in Hin.
      destruct Hin as [_ Hf]. rewrite (proj2 (eqb_spec k k) eq_refl) in Hf. discriminate.
    - apply nodup_keys_afilter. exact H.
  Qed.

  Lemma in_aset : forall k v (l : list (K * V)) e,
    In e (aset eqb k v l) -> e = (k, v) \/ In e l.
  Proof.
    intros k v l e [H|H]; [left; symmetry; exact H|right].
    apply in_afilter in H. tauto.
  Qed.

  Lemma in_aget : forall k v (l : list (K * V)), NoDup (keys l) -> In (k, v) l -> aget eqb k l = Some v.
  Proof.
    intros k v l. induction l as [|[k0 v0] l IH]; intros Hnd Hin; [contradiction|].
    unfold keys in *. cbn [map fst] in Hnd. inversion Hnd as [|x xs Hnotin Hnd']; subst.
    cbn [aget]. destruct Hin as [[= -> ->]|Hin].
    - rewrite (proj2 (eqb_spec k k) eq_refl). reflexivity.
    - destruct (eqb k k0) eqn:E.
      + apply eqb_spec in E. subst k0. exfalso. apply Hnotin. apply (in_map fst) in Hin. exact Hin.
      + apply IH; assumption.
  Qed.

  Lemma in_some_aget : forall k v (l : list (K * V)), In (k, v) l -> exists v', aget eqb k l = Some v'.
  Proof.
    intros k v l. induction l as [|[k0 v0] l IH]; intros Hin; [contradiction|].
    cbn [aget]. destruct (eqb k k0) eqn:E; [eauto|].
    destruct Hin as [[= -> ->]|Hin]; [rewrite (proj2 (eqb_spec k k) eq_refl) in E; discriminate|].
    apply IH; exact Hin.
  Qed.

  Lemma aget_app : forall k (l1 l2 : list (K * V)),
    aget eqb k (l1 ++ l2) = match aget eqb k l1 with Some v => Some v | None => aget eqb k l2 end.
  Proof.
    intros k l1 l2. induction l1 as [|[k0 v0] l1 IH]; [reflexivity|].
    cbn [app aget]. destruct (eqb k k0); [reflexivity|exact IH].
  Qed.

  (* lookup through a re-keying map *)
  Lemma aget_map_key : forall (rk : K -> K) k (l : list (K * V)),
    (forall e, In e l -> rk (fst e) = rk k -> fst e = k) ->
    aget eqb (rk k) (map (fun e => (rk (fst e), snd e)) l) = aget eqb k l.
  Proof.
    intros rk k l. induction l as [|[k0 v0] l IH]; intros H; [reflexivity|].
    cbn [map aget fst snd]. destruct (eqb k k0) eqn:E.
    - apply eqb_spec in E. subst k0. rewrite (proj2 (eqb_spec _ _) eq_refl). reflexivity.
    - destruct (eqb (rk k) (rk k0)) eqn:E2.
      + apply eqb_spec in E2. symmetry in E2. apply (H (k0, v0) (or_introl eq_refl)) in E2. cbn in E2. subst k0.
        rewrite (proj2 (eqb_spec _ _) eq_refl) in E. discriminate.
      + apply IH. intros e He. apply H. right. exact He.
  Qed.

  Lemma aget_map_none : forall (rk : K -> K) k' (l : list (K * V)),
    (forall e, In e l -> rk (fst e) <> k') ->
    aget eqb k' (map (fun e => (rk (fst e), snd e)) l) = None.
  Proof.
    intros rk k' l. induction l as [|[k0 v0] l IH]; intros H; [reflexivity|].
    cbn [map aget fst snd]. destruct (eqb k' (rk k0)) eqn:E.
    - apply eqb_spec in E. exfalso. apply (H (k0, v0) (or_introl eq_refl)). cbn. congruence.
    - apply IH. intros e He. apply H. right. exact He.
  Qed.
End KeyFacts.

Lemma NoDup_app_intro : forall {A} (a b : list A),
  NoDup a -> NoDup b -> (forall x, In x a -> ~ In x b) -> NoDup (a ++ b).
Proof.
  intros A a b Ha Hb Hd. induction a as [|x a IH]; [exact Hb|].
  inversion Ha as [|y ys Hnotin Ha']; subst. cbn [app]. constructor.
  - intros Hin. apply in_app_or in Hin. destruct Hin as [Hin|Hin]; [contradiction|].
    apply (Hd x (or_introl eq_refl) Hin).
  - apply IH; [exact Ha'|]. intros y Hy. apply Hd. right. exact Hy.
Qed.

(* ---- the representation invariant of the model: keys of routers and of every dnets list are unique *)
Definition WF (s : cache) : Prop :=
  NoDup (keys (routers s)) /\ (forall k ri, In (k, ri) (routers s) -> NoDup (keys (dnets ri))).

Definition Inv (s : cache) : Prop := Coherent s /\ WF s.

Lemma wf_empty : WF empty.
Proof. split; [constructor|]. intros k ri []. Qed.

Lemma wf_in_rget : forall s sn a ri, WF s -> In ((sn, a), ri) (routers s) -> rget s sn a = Some ri.
Proof. intros s sn a ri [H _] Hin. unfold rget. apply (in_aget keq keq_spec); assumption. Qed.

Lemma rget_wf_dnets : forall s sn a ri, WF s -> rget s sn a = Some ri -> NoDup (keys (dnets ri)).
Proof.
  intros s sn a ri [_ H] Hr. unfold rget in Hr. apply (aget_in keq keq_spec) in Hr. apply (H _ _ Hr).
Qed.

Lemma wf_set_router : forall s sn a ri n p, WF s -> NoDup (keys (dnets ri)) ->
  WF (mkC n (aset keq (sn, a) ri (routers s)) p).
Proof.
  intros s sn a ri n p [H1 H2] Hri. split; cbn [routers].
  - apply (nodup_keys_aset keq keq_spec). exact H1.
  - intros k r Hin. apply (in_aset keq) in Hin. destruct Hin as [[= _ ->]|Hin]; [exact Hri|apply (H2 _ _ Hin)].
Qed.

Lemma wf_filter_routers : forall s f n p, WF s -> WF (mkC n (afilter f (routers s)) p).
Proof.
  intros s f n p [H1 H2]. split; cbn [routers].
  - apply nodup_keys_afilter. exact H1.
  - intros k r Hin. apply in_afilter in Hin. apply (H2 _ _ (proj1 Hin)).
Qed.

Lemma nodup_set_all : forall ds st l, NoDup (keys l) -> NoDup (keys (set_all ds st l)).
Proof.
  induction ds as [|d ds IH]; intros st l H; [exact H|].
  unfold set_all in *. cbn [fold_left]. apply IH. apply (nodup_keys_aset Z.eqb Z.eqb_eq). exact H.
Qed.

Lemma displace_wf : forall sn ds s a' s', WF s -> displace sn ds s a' = Ok s' -> WF s'.
Proof.
  intros sn ds s a' s' Hwf. unfold displace.
  destruct (rget s sn a') as [ri|] eqn:Hr; [|discriminate].
  destruct (negb _); [discriminate|].
  pose proof (rget_wf_dnets s sn a' ri Hwf Hr) as Hri.
  destruct (afilter (fun d => negb (zmem d ds)) (dnets ri)) as [|x xs] eqn:E; intros [= <-].
  - unfold adel. apply wf_filter_routers. exact Hwf.
  - apply wf_set_router; [exact Hwf|]. cbn [dnets]. rewrite <- E. apply nodup_keys_afilter. exact Hri.
Qed.

Lemma foldM_displace_wf : forall sn ds l s s', WF s -> foldM (displace sn ds) l s = Ok s' -> WF s'.
Proof.
  intros sn ds l. induction l as [|a l IH]; intros s s' Hwf H.
  - cbn in H. injection H as <-. exact Hwf.
  - cbn [foldM] in H. destruct (displace sn ds s a) as [s1|e] eqn:E; [|discriminate].
    cbn [bind] in H. apply (IH s1 s'); [|exact H]. apply (displace_wf sn ds s a s1 Hwf E).
Qed.

Lemma foldM_displace_rget : forall sn ds l s s' a, foldM (displace sn ds) l s = Ok s' -> ~ In a l ->
  rget s' sn a = rget s sn a.
Proof.
  intros sn ds l. induction l as [|x l IH]; intros s s' a H Hnot.
  - cbn in H. injection H as <-. reflexivity.
  - cbn [foldM] in H. destruct (displace sn ds s x) as [s1|e] eqn:E; [|discriminate].
    cbn [bind] in H. rewrite (IH s1 s' a H); [|intros Hin; apply Hnot; right; exact Hin].
    unfold displace in E. destruct (rget s sn x) as [ri|]; [|discriminate].
    destruct (negb _); [discriminate|].
    assert (Hne : keq (sn, a) (sn, x) = false).
    { apply pair_neq_keq. intros [= ->]. apply Hnot. left. reflexivity. }
    destruct (afilter _ (dnets ri)); injection E as <-; unfold rget; cbn [routers].
    + rewrite (aget_adel keq keq_spec), Hne. reflexivity.
    + rewrite (aget_aset keq keq_spec), Hne. reflexivity.
Qed.

Lemma update_wf : forall s sn a ds st s', WF s -> update_router_info s sn a ds st = Ok s' -> WF s'.
Proof.
  intros s sn a ds st s' Hwf. unfold update_router_info.
  destruct (foldM _ _ s) as [s1|e] eqn:E; [|discriminate]. cbn [bind].
  pose proof (foldM_displace_wf _ _ _ _ _ Hwf E) as Hwf1.
  destruct (rget s sn a) as [e|] eqn:Hr; intros [= <-].
  - apply wf_set_router; [exact Hwf1|]. cbn [dnets]. apply nodup_set_all.
    apply (rget_wf_dnets s sn a e Hwf Hr).
  - apply wf_set_router; [exact Hwf1|]. cbn [dnets]. apply nodup_set_all. constructor.
Qed.

Lemma status_wf : forall s sn a st, WF s -> WF (update_router_status s sn a st).
Proof.
  intros s sn a st Hwf. unfold update_router_status.
  destruct (rget s sn a) as [ri|] eqn:Hr; [|exact Hwf].
  apply wf_set_router; [exact Hwf|]. cbn [dnets]. apply (rget_wf_dnets s sn a ri Hwf Hr).
Qed.

Lemma delete_wf : forall s sn ao dso s', WF s -> delete_router_info s sn ao dso = Ok s' -> WF s'.
Proof.
  intros s sn ao dso s' Hwf. unfold delete_router_info. destruct ao as [a|].
  - destruct (rget s sn a) as [ri|]; [|intros [= <-]; exact Hwf].
    apply displace_wf. exact Hwf.
  - destruct dso as [ds|]; [|discriminate]. apply foldM_displace_wf. exact Hwf.
Qed.


Lemma kmem_spec : forall k l, kmem k l = true <-> In k l.
Proof.
  intros. unfold kmem. rewrite existsb_exists. split.
  - intros [y [Hy He]]. apply keq_spec in He. subst. exact Hy.
  - intros H. exists k. split; [exact H | apply keq_spec; reflexivity].
Qed.

Lemma list_eqb_refl : forall l, list_eqb Z.eqb l l = true.
Proof. induction l as [|x l IH]; [reflexivity|]. cbn. rewrite Z.eqb_refl. exact IH. Qed.

Lemma nodup_flat_map : forall {A B} (g : A -> list B) (l : list A), NoDup l ->
  (forall e, In e l -> NoDup (g e)) ->
  (forall e1 e2 x, In e1 l -> In e2 l -> In x (g e1) -> In x (g e2) -> e1 = e2) ->
  NoDup (flat_map g l).
Proof.
  intros A B g l. induction l as [|e l IH]; intros Hnd Hg Hx; [constructor|].
  inversion Hnd as [|y ys Hnotin Hnd']; subst. cbn [flat_map]. apply NoDup_app_intro.
  - apply Hg. left. reflexivity.
  - apply IH; [exact Hnd'| |].
    + intros e' He'. apply Hg. right. exact He'.
    + intros e1 e2 x H1 H2. apply Hx; right; assumption.
  - intros x Hx1 Hx2. apply in_flat_map in Hx2. destruct Hx2 as [e2 [He2 Hx2]].
    assert (e = e2) by (apply (Hx e e2 x); [left; reflexivity|right; exact He2|exact Hx1|exact Hx2]).
    subst e2. contradiction.
Qed.

Lemma nodup_map_on : forall {A B} (f : A -> B) (l : list A),
  (forall x y, In x l -> In y l -> f x = f y -> x = y) -> NoDup l -> NoDup (map f l).
Proof.
  intros A B f l. induction l as [|a l IH]; intros Hinj Hnd; [constructor|].
  inversion Hnd as [|y ys Hnotin Hnd']; subst. cbn [map]. constructor.
  - intros Hin. apply in_map_iff in Hin. destruct Hin as [b [Hfb Hb]].
    assert (b = a) by (apply Hinj; [right; exact Hb|left; reflexivity|exact Hfb]). subst b. contradiction.
  - apply IH; [|exact Hnd']. intros x y Hx Hy. apply Hinj; right; assumption.
Qed.

(* the pieces of update_source_network *)
Definition usn_moved (s : cache) (old : Z) := afilter (fun k : Z * Z => fst k =? old) (routers s).
Definition usn_rest (s : cache) (old : Z) := afilter (fun k : Z * Z => negb (fst k =? old)) (routers s).
Definition usn_pkeys (s : cache) (old new : Z) : list (Z * Z) :=
  flat_map (fun e : (Z * Z) * rinfo => map (fun dv : Z * Z => (new, fst dv)) (dnets (snd e)))
           (afilter (fun k : Z * Z => fst k =? new) (usn_rest s old)).
Definition usn_mds (s : cache) (old : Z) : list Z :=
  flat_map (fun e : (Z * Z) * rinfo => map fst (dnets (snd e))) (usn_moved s old).

Lemma pkeys_in : forall s old new k, In k (usn_pkeys s old new) <->
  exists a ri d v, k = (new, d) /\ In ((new, a), ri) (routers s) /\ (new =? old) = false /\ In (d, v) (dnets ri).
Proof.
  intros s old new k. unfold usn_pkeys, usn_rest. rewrite in_flat_map. split.
  - intros [[[sn a] ri] [He Hk]]. apply in_afilter in He. destruct He as [He Hnew].
    apply in_afilter in He. destruct He as [He Hold]. cbn [fst snd] in *.
    apply Z.eqb_eq in Hnew. subst sn. apply negb_true_iff in Hold.
    apply in_map_iff in Hk. destruct Hk as [[d v] [<- Hdv]]. exists a, ri, d, v. auto.
  - intros [a [ri [d [v [-> [He [Hno Hdv]]]]]]]. exists ((new, a), ri). split.
    + apply in_afilter. split; [|cbn; apply Z.eqb_refl]. apply in_afilter. split; [exact He|].
      cbn. rewrite Hno. reflexivity.
    + cbn [snd]. apply in_map_iff. exists (d, v). auto.
Qed.

Lemma mds_in : forall s old d, In d (usn_mds s old) <->
  exists a ri v, In ((old, a), ri) (routers s) /\ In (d, v) (dnets ri).
Proof.
  intros s old d. unfold usn_mds, usn_moved. rewrite in_flat_map. split.
  - intros [[[sn a] ri] [He Hd]]. apply in_afilter in He. destruct He as [He Hold]. cbn [fst snd] in *.
    apply Z.eqb_eq in Hold. subst sn. apply in_map_iff in Hd. destruct Hd as [[d' v] [<- Hdv]]. eauto.
  - intros [a [ri [v [He Hdv]]]]. exists ((old, a), ri). split.
    + apply in_afilter. split; [exact He|cbn; apply Z.eqb_refl].
    + cbn [snd]. apply in_map_iff. exists (d, v). auto.
Qed.

Lemma credited_in : forall s sn a d, Inv s ->
  (pget s sn d = Some a <-> exists ri v, In ((sn, a), ri) (routers s) /\ In (d, v) (dnets ri)).
Proof.
  intros s sn a d [[Hc _] Hwf]. split.
  - intros Hp. apply Hc in Hp. destruct Hp as [ri [Hr Hd]]. unfold has_dnet in Hd.
    apply (amem_spec Z.eqb) in Hd. destruct Hd as [v Hv]. exists ri, v. split.
    + unfold rget in Hr. apply (aget_in keq keq_spec). exact Hr.
    + apply (aget_in Z.eqb Z.eqb_eq). exact Hv.
  - intros [ri [v [He Hdv]]]. apply Hc. exists ri. split; [apply wf_in_rget; assumption|].
    apply (in_amem d v). exact Hdv.
Qed.

Lemma mds_spec : forall s old d, Inv s -> (In d (usn_mds s old) <-> exists a, pget s old d = Some a).
Proof.
  intros s old d Hinv. rewrite mds_in. split.
  - intros [a [ri [v H]]]. exists a. apply (credited_in s old a d Hinv). eauto.
  - intros [a Hp]. apply (credited_in s old a d Hinv) in Hp. destruct Hp as [ri [v H]]. eauto.
Qed.

Lemma pkeys_spec : forall s old new d, Inv s -> (new =? old) = false ->
  (In (new, d) (usn_pkeys s old new) <-> exists a, pget s new d = Some a).
Proof.
  intros s old new d Hinv Hno. rewrite pkeys_in. split.
  - intros [a [ri [d' [v [[= <-] [He [_ Hdv]]]]]]]. exists a. apply (credited_in s new a d Hinv). eauto.
  - intros [a Hp]. apply (credited_in s new a d Hinv) in Hp. destruct Hp as [ri [v [He Hdv]]].
    exists a, ri, d, v. auto.
Qed.

Lemma mds_nodup : forall s old, Inv s -> NoDup (usn_mds s old).
Proof.
  intros s old Hinv. pose proof Hinv as [Hcoh [Hk Hd]]. unfold usn_mds. apply nodup_flat_map.
  - apply (NoDup_map_inv fst). fold (keys (usn_moved s old)). unfold usn_moved. apply nodup_keys_afilter. exact Hk.
  - intros [k ri] He. unfold usn_moved in He. apply in_afilter in He. cbn [snd]. apply (Hd k ri). tauto.
  - intros [[sn1 a1] ri1] [[sn2 a2] ri2] d H1 H2 Hd1 Hd2. unfold usn_moved in H1, H2.
    apply in_afilter in H1, H2. cbn [fst snd] in *. destruct H1 as [H1 E1], H2 as [H2 E2].
    apply Z.eqb_eq in E1, E2. subst sn1 sn2.
    apply in_map_iff in Hd1, Hd2. destruct Hd1 as [[d1 v1] [<- Hd1]], Hd2 as [[d2 v2] [E Hd2]]. cbn [fst] in E. subst d2.
    assert (P1 : pget s old d1 = Some a1) by (apply (credited_in s old a1 d1 Hinv); eauto).
    assert (P2 : pget s old d1 = Some a2) by (apply (credited_in s old a2 d1 Hinv); eauto).
    assert (a1 = a2) by congruence. subst a2.
    pose proof (wf_in_rget s old a1 ri1 (conj Hk Hd) H1). pose proof (wf_in_rget s old a1 ri2 (conj Hk Hd) H2).
    congruence.
Qed.

(* update_source_network: total on the invariant, keeps it, and moves exactly the lookups of old to new *)
Lemma renumber_ok : forall s old new, Inv s -> zmem old (nets s) = true ->
  exists s', update_source_network s old new = Ok s' /\ Inv s' /\
    (forall sn0 d0, pget s' sn0 d0 =
       if sn0 =? new then pget s old d0 else if sn0 =? old then None else pget s sn0 d0) /\
    (forall sn0 a0, rget s' sn0 a0 =
       if sn0 =? new then rget s old a0 else if sn0 =? old then None else rget s sn0 a0).
Proof.
  intros s old new Hinv Hold. pose proof Hinv as [[Hc Hn] [Hk Hd]].
  unfold update_source_network. rewrite Hold. cbn [negb]. cbv zeta.
  fold (usn_moved s old) (usn_rest s old). fold (usn_pkeys s old new) (usn_mds s old).
  (* elements of pkeys *)
  assert (Hpk : forall k, In k (usn_pkeys s old new) -> (new =? old) = false /\ exists d a, k = (new, d) /\ pget s new d = Some a).
  { intros k Hin. pose proof Hin as Hin'. apply pkeys_in in Hin. destruct Hin as [a [ri [d [v [-> [He [Hno Hdv]]]]]]].
    split; [exact Hno|]. apply (pkeys_spec s old new d Hinv Hno) in Hin'. destruct Hin' as [a' Ha']. eauto. }
  assert (Hchk1 : forallb (fun k => amem keq k (paths s)) (usn_pkeys s old new) = true).
  { apply forallb_forall. intros k Hin. destruct (Hpk k Hin) as [_ [d [a [-> Hp]]]].
    unfold amem. unfold pget in Hp. rewrite Hp. reflexivity. }
  rewrite Hchk1. cbn [negb].
  set (p1 := afilter (fun k => negb (kmem k (usn_pkeys s old new))) (paths s)).
  assert (P1 : forall sn0 d0, (sn0 <> new \/ new = old) -> aget keq (sn0, d0) p1 = pget s sn0 d0).
  { intros sn0 d0 Hor. unfold p1. rewrite (aget_afilter keq keq_spec).
    destruct (kmem (sn0, d0) (usn_pkeys s old new)) eqn:E; [|reflexivity].
    apply kmem_spec in E. destruct (Hpk _ E) as [Hno [d [a [[= -> ->] _]]]].
    destruct Hor as [Hne|He]; [contradiction|]. subst old. rewrite Z.eqb_refl in Hno. discriminate. }
  assert (P2 : (new =? old) = false -> forall d0, aget keq (new, d0) p1 = None).
  { intros Hno d0. unfold p1. rewrite (aget_afilter keq keq_spec).
    destruct (kmem (new, d0) (usn_pkeys s old new)) eqn:E; [reflexivity|]. cbn [negb].
    destruct (aget keq (new, d0) (paths s)) as [a|] eqn:Hp; [|reflexivity].
    assert (Hin : In (new, d0) (usn_pkeys s old new)) by (apply (pkeys_spec s old new d0 Hinv Hno); exists a; exact Hp).
    apply kmem_spec in Hin. congruence. }
  assert (Hchk2 : forallb (fun d => amem keq (old, d) p1) (usn_mds s old) = true).
  { apply forallb_forall. intros d Hin. apply (mds_spec s old d Hinv) in Hin. destruct Hin as [a Hp].
    unfold amem. rewrite P1.
    - rewrite Hp. reflexivity.
    - destruct (Z.eq_dec old new); [right; congruence|left; assumption]. }
  rewrite Hchk2. cbn [negb].
  rewrite (nodup_fixed_point Z.eq_dec (mds_nodup s old Hinv)), list_eqb_refl. cbn [negb].
  eexists. split; [reflexivity|].
  set (mds := usn_mds s old).
  (* lookups in the new path table *)
  assert (HP : forall sn0 d0,
    aget keq (sn0, d0)
      (if old =? new then p1
       else map (fun e => if (fst (fst e) =? old) && zmem (snd (fst e)) mds then (new, snd (fst e), snd e) else e)
                (afilter (fun k => negb ((fst k =? new) && zmem (snd k) mds)) p1))
    = if sn0 =? new then pget s old d0 else if sn0 =? old then None else pget s sn0 d0).
  { intros sn0 d0. destruct (old =? new) eqn:Eon.
    - apply Z.eqb_eq in Eon. subst new. rewrite P1 by (right; reflexivity).
      destruct (sn0 =? old) eqn:E; [apply Z.eqb_eq in E; subst; reflexivity|reflexivity].
    - assert (Hno : (new =? old) = false) by (rewrite Z.eqb_sym; exact Eon).
      assert (Hne : new <> old) by (intros ->; rewrite Z.eqb_refl in Hno; discriminate).
      set (rk := fun k : Z * Z => if (fst k =? old) && zmem (snd k) mds then (new, snd k) else k).
      set (L := afilter (fun k => negb ((fst k =? new) && zmem (snd k) mds)) p1).
      assert (Hmap : map (fun e : Z * Z * Z => if (fst (fst e) =? old) && zmem (snd (fst e)) mds then (new, snd (fst e), snd e) else e) L
                     = map (fun e => (rk (fst e), snd e)) L).
      { apply map_ext. intros [[a b] v]. unfold rk. cbn [fst snd]. destruct ((a =? old) && zmem b mds); reflexivity. }
      rewrite Hmap.
      assert (HL : forall sn d, aget keq (sn, d) L = if (sn =? new) && zmem d mds then None else aget keq (sn, d) p1).
      { intros sn d. unfold L. rewrite (aget_afilter keq keq_spec). cbn [fst snd].
        destruct ((sn =? new) && zmem d mds); reflexivity. }
      assert (HLin : forall sn d v, In ((sn, d), v) L -> (sn =? new) && zmem d mds = false).
      { intros sn d v Hin. unfold L in Hin. apply in_afilter in Hin. destruct Hin as [_ Hf]. cbn [fst snd] in Hf.
        apply negb_true_iff in Hf. exact Hf. }
      assert (Hmd : forall d, zmem d mds = false -> pget s old d = None).
      { intros d Hz. destruct (pget s old d) as [a|] eqn:Hp; [|reflexivity].
        assert (In d mds) by (apply (mds_spec s old d Hinv); eauto). apply zmem_spec in H. congruence. }
      destruct (sn0 =? new) eqn:E1.
      + apply Z.eqb_eq in E1. subst sn0. destruct (zmem d0 mds) eqn:Ez.
        * (* moved in from (old, d0) *)
          assert (Hrk : rk (old, d0) = (new, d0)) by (unfold rk; cbn [fst snd]; rewrite Z.eqb_refl, Ez; reflexivity).
          rewrite <- Hrk. rewrite (aget_map_key keq keq_spec).
          -- rewrite HL. rewrite Eon. cbn [andb]. apply P1. left. congruence.
          -- intros [[sn d] v] Hin. cbn [fst]. rewrite Hrk. unfold rk. cbn [fst snd].
             destruct ((sn =? old) && zmem d mds) eqn:Ec.
             ++ intros [= <-]. apply andb_true_iff in Ec. destruct Ec as [Ec _]. apply Z.eqb_eq in Ec. subst. reflexivity.
             ++ intros [= -> ->]. apply HLin in Hin. rewrite Z.eqb_refl, Ez in Hin. discriminate.
        * assert (Hrk : rk (new, d0) = (new, d0)) by (unfold rk; cbn [fst snd]; rewrite Hno; reflexivity).
          rewrite <- Hrk. rewrite (aget_map_key keq keq_spec).
          -- rewrite HL, Ez, andb_false_r. rewrite (P2 Hno). symmetry. apply Hmd. exact Ez.
          -- intros [[sn d] v] Hin. cbn [fst]. rewrite Hrk. unfold rk. cbn [fst snd].
             destruct ((sn =? old) && zmem d mds) eqn:Ec.
             ++ intros [= <-]. apply andb_true_iff in Ec. destruct Ec as [_ Ec]. congruence.
             ++ intros [= -> ->]. reflexivity.
      + destruct (sn0 =? old) eqn:E2.
        * apply Z.eqb_eq in E2. subst sn0. destruct (zmem d0 mds) eqn:Ez.
          -- apply (aget_map_none keq keq_spec). intros [[sn d] v] Hin. cbn [fst]. unfold rk. cbn [fst snd].
             destruct ((sn =? old) && zmem d mds) eqn:Ec.
             ++ intros [= E _]. contradiction.
             ++ intros [= -> ->]. rewrite Z.eqb_refl, Ez in Ec. discriminate.
          -- assert (Hrk : rk (old, d0) = (old, d0)) by (unfold rk; cbn [fst snd]; rewrite Ez, andb_false_r; reflexivity).
             rewrite <- Hrk. rewrite (aget_map_key keq keq_spec).
             ++ rewrite HL, Eon. cbn [andb]. rewrite P1 by (left; congruence). apply Hmd. exact Ez.
             ++ intros [[sn d] v] Hin. cbn [fst]. rewrite Hrk. unfold rk. cbn [fst snd].
                destruct ((sn =? old) && zmem d mds) eqn:Ec.
                ** intros [= E _]. contradiction.
                ** intros [= -> ->]. reflexivity.
        * assert (Hrk : rk (sn0, d0) = (sn0, d0)) by (unfold rk; cbn [fst snd]; rewrite E2; reflexivity).
          rewrite <- Hrk. rewrite (aget_map_key keq keq_spec).
          -- rewrite HL, E1. cbn [andb]. apply P1. left. intros ->. rewrite Z.eqb_refl in E1. discriminate.
          -- intros [[sn d] v] Hin. cbn [fst]. rewrite Hrk. unfold rk. cbn [fst snd].
             destruct ((sn =? old) && zmem d mds) eqn:Ec.
             ++ intros [= <- _]. rewrite Z.eqb_refl in E1. discriminate.
             ++ intros [= -> ->]. reflexivity. }
  (* lookups in the new router table *)
  assert (HR : forall sn0 a0,
    aget keq (sn0, a0)
      (map (fun e : Z * Z * rinfo => (new, snd (fst e), snd e)) (usn_moved s old)
       ++ afilter (fun k => negb (fst k =? new)) (usn_rest s old))
    = if sn0 =? new then rget s old a0 else if sn0 =? old then None else rget s sn0 a0).
  { intros sn0 a0. rewrite (aget_app keq).
    assert (Hrest : aget keq (sn0, a0) (afilter (fun k => negb (fst k =? new)) (usn_rest s old))
                    = if sn0 =? new then None else if sn0 =? old then None else rget s sn0 a0).
    { unfold usn_rest. rewrite !(aget_afilter keq keq_spec). cbn [fst].
      destruct (sn0 =? new); cbn [negb]; [reflexivity|]. destruct (sn0 =? old); reflexivity. }
    rewrite Hrest.
    destruct (sn0 =? new) eqn:E1.
    - apply Z.eqb_eq in E1. subst sn0.
      pose proof (aget_map_key keq keq_spec (fun k : Z * Z => (new, snd k)) (old, a0) (usn_moved s old)) as H.
      cbn [snd] in H. rewrite H.
      + unfold usn_moved. rewrite (aget_afilter keq keq_spec). cbn [fst]. rewrite Z.eqb_refl.
        fold (rget s old a0). destruct (rget s old a0); reflexivity.
      + intros [[sn a] ri] Hin. unfold usn_moved in Hin. apply in_afilter in Hin. destruct Hin as [_ Hf].
        cbn [fst snd] in *. apply Z.eqb_eq in Hf. subst sn. intros [= ->]. reflexivity.
    - pose proof (aget_map_none keq keq_spec (fun k : Z * Z => (new, snd k)) (sn0, a0) (usn_moved s old)) as H.
      rewrite H; [reflexivity|].
      intros e _ [= E _]. subst sn0. rewrite Z.eqb_refl in E1. discriminate. }
  split; [|split; [intros sn0 d0; unfold pget at 1; cbn [paths]; apply HP|intros sn0 a0; unfold rget at 1; cbn [routers]; apply HR]].
  split; [split|split].
  - (* coherent *)
    intros sn0 d a. unfold pget at 1. unfold credited. unfold rget. cbn [paths routers]. rewrite HP, HR.
    destruct (sn0 =? new); [apply Hc|]. destruct (sn0 =? old); [|apply Hc].
    split; [discriminate|]. intros [ri [H _]]. discriminate.
  - intros sn0 a0 ri. unfold rget. cbn [routers nets]. rewrite HR. cbn [zmem existsb].
    destruct (sn0 =? new) eqn:E1; [intros _; reflexivity|]. cbn [orb].
    destruct (sn0 =? old) eqn:E2; [discriminate|]. intros H. apply Hn in H.
    apply zmem_spec. apply filter_In. split; [apply zmem_spec; exact H|]. rewrite E1, E2. reflexivity.
  - (* keys of the new router table *)
    cbn [routers]. unfold keys. rewrite map_app. apply NoDup_app_intro.
    + rewrite map_map. cbn [fst].
      assert (E : map (fun x : Z * Z * rinfo => (new, snd (fst x))) (usn_moved s old)
                  = map (fun k : Z * Z => (new, snd k)) (keys (usn_moved s old))).
      { unfold keys. rewrite map_map. reflexivity. }
      rewrite E. apply nodup_map_on.
      * intros [sn1 a1] [sn2 a2] H1 H2. apply in_keys_afilter in H1, H2. cbn [fst snd] in *.
        destruct H1 as [_ H1], H2 as [_ H2]. apply Z.eqb_eq in H1, H2. subst. intros [= ->]. reflexivity.
      * unfold usn_moved. apply nodup_keys_afilter. exact Hk.
    + fold (keys (afilter (fun k : Z * Z => negb (fst k =? new)) (usn_rest s old))).
      apply nodup_keys_afilter. unfold usn_rest. apply nodup_keys_afilter. exact Hk.
    + intros x Hx1 Hx2. rewrite map_map in Hx1. cbn [fst] in Hx1. apply in_map_iff in Hx1.
      destruct Hx1 as [e [<- _]].
      fold (keys (afilter (fun k : Z * Z => negb (fst k =? new)) (usn_rest s old))) in Hx2.
      apply in_keys_afilter in Hx2. destruct Hx2 as [_ Hf]. cbn [fst] in Hf. rewrite Z.eqb_refl in Hf. discriminate.
  - cbn [routers]. intros k ri Hin. apply in_app_or in Hin. destruct Hin as [Hin|Hin].
    + apply in_map_iff in Hin. destruct Hin as [[k0 r0] [[= _ <-] Hin]]. unfold usn_moved in Hin.
      apply in_afilter in Hin. apply (Hd k0 r0). tauto.
    + apply in_afilter in Hin. destruct Hin as [Hin _]. unfold usn_rest in Hin. apply in_afilter in Hin.
      apply (Hd k ri). tauto.
Qed.


Lemma inv_empty : Inv empty.
Proof. split; [exact coherent_empty|exact wf_empty]. Qed.

Lemma step_wf : forall s o s', WF s -> is_renum o = false -> step s o = Ok s' -> WF s'.
Proof.
  intros s o s' Hwf Ho. destruct o as [sn a ds st|sn a st|sn ao dso|old new]; cbn [step]; [| | |discriminate].
  - apply update_wf. exact Hwf.
  - intros [= <-]. apply status_wf. exact Hwf.
  - apply delete_wf. exact Hwf.
Qed.

(* every operation on a cache satisfying the invariant succeeds (or is the refused
   delete_router_info(snet)) and re-establishes the invariant *)
Lemma step_inv : forall s o, Inv s ->
  (exists s', step s o = Ok s' /\ Inv s') \/ (refused o /\ step s o = Err RuntimeErr).
Proof.
  intros s o [Hcoh Hwf]. destruct (is_renum o) eqn:Ho.
  - destruct o as [| | |old new]; try discriminate. left. cbn [step].
    destruct (zmem old (nets s)) eqn:Hold.
    + destruct (renumber_ok s old new (conj Hcoh Hwf) Hold) as [s' [H [Hi _]]]. eauto.
    + exists s. split; [apply renumber_unknown; exact Hold|split; assumption].
  - destruct (step_ok s o Hcoh Ho) as [[s' [H Hc]]|Hr]; [left|right; exact Hr].
    exists s'. split; [exact H|]. split; [exact Hc|]. apply (step_wf s o s' Hwf Ho H).
Qed.

Lemma step_total_inv : forall s o, Inv s -> Inv (step_total s o).
Proof.
  intros s o Hinv. unfold step_total.
  destruct (step_inv s o Hinv) as [[s' [H Hi]]|[_ H]]; rewrite H; assumption.
Qed.

Lemma run_inv : forall h s, Inv s -> Inv (run s h).
Proof.
  induction h as [|o h IH]; intros s Hinv; [exact Hinv|].
  unfold run. cbn [fold_left]. apply IH. apply step_total_inv. exact Hinv.
Qed.

Lemma history_inv : forall h, Inv (run empty h).
Proof. intros h. apply run_inv. exact inv_empty. Qed.

Lemma history_newest_wins_all : forall h sn a ds st d, In d ds ->
  get_router_info (run empty (h ++ [Learn sn a ds st])) sn d = Some a.
Proof.
  intros h sn a ds st d Hin. rewrite run_snoc.
  destruct (history_inv h) as [Hcoh _].
  destruct (update_ok (run empty h) sn a ds st Hcoh) as [s' [H [_ Hp]]].
  unfold step_total. cbn [step]. rewrite H. unfold get_router_info. rewrite Hp.
  rewrite Z.eqb_refl. apply zmem_spec in Hin. rewrite Hin. reflexivity.
Qed.

Lemma history_frame_all : forall h sn a ds st sn0 d0, (sn0 <> sn \/ ~ In d0 ds) ->
  get_router_info (run empty (h ++ [Learn sn a ds st])) sn0 d0 = get_router_info (run empty h) sn0 d0.
Proof.
  intros h sn a ds st sn0 d0 Hnot. rewrite run_snoc.
  destruct (history_inv h) as [Hcoh _].
  destruct (update_ok (run empty h) sn a ds st Hcoh) as [s' [H [_ Hp]]].
  unfold step_total. cbn [step]. rewrite H. unfold get_router_info. rewrite Hp.
  destruct Hnot as [Hsn|Hd].
  - destruct (sn0 =? sn) eqn:E; [apply Z.eqb_eq in E; contradiction|reflexivity].
  - destruct (zmem d0 ds) eqn:E; [apply zmem_spec in E; contradiction|rewrite andb_false_r; reflexivity].
Qed.

(* after any history, a renumbering moves exactly the old network's lookups *)
Lemma history_renumber : forall h old new sn0 d0,
  get_router_info (run empty (h ++ [Renum old new])) sn0 d0 =
    if zmem old (nets (run empty h))
    then (if sn0 =? new then get_router_info (run empty h) old d0
          else if sn0 =? old then None else get_router_info (run empty h) sn0 d0)
    else get_router_info (run empty h) sn0 d0.
Proof.
  intros h old new sn0 d0. rewrite run_snoc. unfold step_total. cbn [step].
  destruct (zmem old (nets (run empty h))) eqn:Hold.
  - destruct (renumber_ok (run empty h) old new (history_inv h) Hold) as [s' [H [_ [Hp _]]]].
    rewrite H. unfold get_router_info. apply Hp.
  - rewrite (renumber_unknown _ old new Hold). reflexivity.
Qed.

(* what the node observes updates its knowledge whatever happens to the relayed copies *)
Lemma on_iam_learns : forall up s sn a ds, fst (on_iam up s sn a ds) = update_router_info s sn a ds 0.
Proof. reflexivity. Qed.

Lemma on_iam_after_history : forall h up sn a ds,
  exists s', fst (on_iam up (run empty h) sn a ds) = Ok s' /\ Inv s' /\
    (forall sn0 d0, get_router_info s' sn0 d0 =
       if (sn0 =? sn) && zmem d0 ds then Some a else get_router_info (run empty h) sn0 d0).
Proof.
  intros h up sn a ds. destruct (history_inv h) as [Hcoh Hwf].
  destruct (update_ok (run empty h) sn a ds 0 Hcoh) as [s' [H [Hc Hp]]].
  exists s'. cbn [on_iam fst]. split; [exact H|]. split; [|exact Hp].
  split; [exact Hc|]. apply (update_wf _ _ _ _ _ _ Hwf H).
Qed.
