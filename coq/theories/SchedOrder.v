(* SchedOrder.v — one pass of the event loops: firing order, nothing lost, progress despite
   raising tasks, termination within the supplied fuel. *)
From Bac Require Import Base Deferred DeferredFacts Sched SchedFacts SchedThms.
From Coq Require Import Permutation Sorted ZifyBool ZifyN ZifyNat.
Ltac Zify.zify_post_hook ::= Z.to_euclidean_division_equations.
Open Scope Z_scope.

Lemma sorted_snoc : forall l e, sorted l -> (forall k, In k l -> elt k e) -> sorted (l ++ [e]).
Proof.
  induction l as [|x l IH]; intros e Hs Hk; cbn [app].
  - repeat constructor.
  - inversion Hs as [|? ? Hl Hx]; subst. constructor.
    + apply IH; [exact Hl|]. intros k Hi. apply Hk. right. exact Hi.
    + apply Forall_app. split; [exact Hx|]. constructor; [|constructor]. apply Hk. left. reflexivity.
Qed.

(* under the invariant the fresh entry of a recurring task is added to exactly the rest *)
Lemma fire_heap_inv : forall jit c s e s1 z s2 ev r, Inv s -> get_next_task s = (Some e, s1, z) ->
  process_task jit c s1 e = (s2, ev, r) ->
  exists rest, heap s = e :: rest /\ e_when e <= now s /\ ev = [fire_of s e] /\ now s2 = now s /\ Inv s2 /\
    (heap s2 = rest \/
     exists iv off, t_kind (cfg_get c (e_tid e)) = Recurring iv off /\ 0 < iv /\ r = false /\
       Permutation (heap s2) ((next_slot jit iv off (now s), ctr s, e_tid e) :: rest)).
Proof.
  intros jit c s e s1 z s2 ev r Hi G P.
  destruct (fire_heap _ _ _ _ _ _ _ _ _ G P) as [rest [Hh [Hd [Hev [Hn Hc]]]]].
  exists rest. repeat (split; [assumption|]). split; [eapply fire_inv; eassumption|].
  destruct Hc as [[Hr _]|[iv [off [h1 [K [Hiv [Hr [Hh1 [Hp _]]]]]]]]]; [left; exact Hr|].
  right. exists iv, off. repeat (split; [assumption|]).
  destruct Hh1 as [->|[e' [He' Hp']]]; [exact Hp|].
  exfalso. destruct (get_next_inv _ _ _ _ Hi G) as [_ Hni].
  destruct (get_next_some _ _ _ _ G) as [rest' [Hh' [_ [-> _]]]]. cbn [heap] in Hni.
  rewrite Hh in Hh'. inversion Hh'; subst rest'. apply Hni. rewrite <- He'.
  apply (Permutation_in _ (Permutation_sym (Permutation_map e_tid Hp'))). left. reflexivity.
Qed.

(* ---------- T5: within one pass tasks fire in strictly increasing (due time, counter) order ---------- *)
Definition Ord (T : Z) (s : st) (acc : list event) : Prop :=
  Inv s /\ now s = T /\ sorted (fired acc) /\
  forall k, In k (fired acc) -> e_when k <= T /\ forall x, In x (heap s) -> elt k x.

Lemma Ord_fire : forall T jit c, 0 <= jit -> forall s acc e s1 z s2 ev r, Ord T s acc ->
  get_next_task s = (Some e, s1, z) -> process_task jit c s1 e = (s2, ev, r) -> Ord T s2 (acc ++ ev).
Proof.
  intros T jit c Hj s acc e s1 z s2 ev r [Hi [HT [Hs Hk]]] G P.
  destruct (fire_heap_inv _ _ _ _ _ _ _ _ _ Hi G P) as [rest [Hh [Hd [-> [Hn [Hi2 Hc]]]]]].
  unfold Ord. rewrite fired_app, fired_fire.
  assert (Hrest : Forall (elt e) rest).
  { destruct Hi as [[Hso _ _ _] _]. rewrite Hh in Hso. inversion Hso; assumption. }
  rewrite Forall_forall in Hrest.
  split; [exact Hi2|]. split; [congruence|]. split.
  - apply sorted_snoc; [exact Hs|]. intros k Hin. apply (Hk k Hin). rewrite Hh. left. reflexivity.
  - intros k Hin. apply in_app_or in Hin.
    assert (Hkw : e_when k <= T).
    { destruct Hin as [Hin|[<-|[]]]; [apply (Hk k Hin) | lia]. }
    split; [exact Hkw|]. intros x Hx.
    assert (Hxr : In x rest -> elt k x).
    { intros Hr. destruct Hin as [Hin|[<-|[]]]; [apply (Hk k Hin); rewrite Hh; right; exact Hr | apply Hrest, Hr]. }
    destruct Hc as [Hr|[iv [off [_ [Hiv [_ Hp]]]]]]; [rewrite Hr in Hx; apply Hxr, Hx|].
    apply (Permutation_in _ Hp) in Hx. destruct Hx as [<-|Hx]; [|apply Hxr, Hx].
    unfold elt. apply e_lt_spec. left. cbn [e_when fst].
    pose proof (next_slot_after jit iv off (now s) Hiv Hj). lia.
Qed.

Lemma Ord_dq : forall T s acc q, Ord T s acc -> Ord T (set_dq s q) acc.
Proof. intros T s acc q [Hi [HT [Hs Hk]]]. split; [apply Inv_set_dq, Hi|]. split; [exact HT|]. split; assumption. Qed.

Lemma Ord_noise : forall T s acc ev, Ord T s acc -> noise ev -> Ord T s (acc ++ ev).
Proof. intros T s acc ev Ho Hn. unfold Ord. rewrite fired_app, (fired_noise _ Hn), app_nil_r. exact Ho. Qed.

Lemma Ord_init : forall s, Inv s -> Ord (now s) s [].
Proof. intros s Hi. split; [exact Hi|]. split; [reflexivity|]. split; [constructor | intros k []]. Qed.

Lemma run_once_ordered : forall guard jit c s s' ev, 0 <= jit -> Inv s ->
  run_once guard jit c s = (s', ev) ->
  sorted (fired ev) /\ forall k, In k (fired ev) -> e_when k <= now s.
Proof.
  intros guard jit c s s' ev Hj Hi H.
  pose proof (run_once_loop_I (Ord (now s)) guard jit c (Ord_fire _ jit c Hj) (Ord_dq _) (Ord_noise _)
                _ s [] s' ev (Ord_init s Hi) H) as [_ [_ [Hs Hk]]].
  split; [exact Hs | intros k Hin; apply (Hk k Hin)].
Qed.

Lemma run_ordered : forall guard jit c s s' ev, 0 <= jit -> Inv s ->
  run guard jit c s = (s', ev) ->
  sorted (fired ev) /\ forall k, In k (fired ev) -> e_when k <= now s.
Proof.
  intros guard jit c s s' ev Hj Hi H.
  pose proof (run_loop_I (Ord (now s)) guard jit c (Ord_fire _ jit c Hj) (Ord_dq _) (Ord_noise _)
                _ s [] s' ev (Ord_init s Hi) H) as [_ [_ [Hs Hk]]].
  split; [exact Hs | intros k Hin; apply (Hk k Hin)].
Qed.

(* whichever task fires is the least of the queue: nothing earlier, or equally early but installed before, waits *)
Lemma fire_is_min : forall s e s1 z, Inv s -> get_next_task s = (Some e, s1, z) ->
  e_when e <= now s /\ forall x, In x (heap s1) -> elt e x.
Proof.
  intros s e s1 z [[Hso _ _ _] _] G. destruct (get_next_some _ _ _ _ G) as [rest [Hh [Hd [-> _]]]].
  split; [exact Hd|]. cbn [heap]. rewrite Hh in Hso. inversion Hso as [|? ? _ Hf]; subst.
  rewrite Forall_forall in Hf. exact Hf.
Qed.

(* ---------- T8a: nothing is lost in a pass, whatever raises ---------- *)
Definition Keep (H0 : list entry) (s : st) (acc : list event) : Prop :=
  Inv s /\ forall x, In x H0 -> In x (heap s) \/ In x (fired acc).

Lemma run_once_conserves : forall guard jit c s s' ev, Inv s -> run_once guard jit c s = (s', ev) ->
  forall x, In x (heap s) -> In x (heap s') \/ In x (fired ev).
Proof.
  intros guard jit c s s' ev Hi H.
  refine (proj2 (run_once_loop_I (Keep (heap s)) guard jit c _ _ _ _ s [] s' ev _ H)).
  - intros s0 acc e s1 z s2 ev0 r [Hi0 Hk] G P.
    destruct (fire_heap_inv _ _ _ _ _ _ _ _ _ Hi0 G P) as [rest [Hh [_ [-> [_ [Hi2 Hc]]]]]].
    split; [exact Hi2|]. intros x Hx. rewrite fired_app, fired_fire.
    destruct (Hk x Hx) as [Hin|Hin]; [|right; apply in_or_app; left; exact Hin].
    rewrite Hh in Hin. destruct Hin as [<-|Hin]; [right; apply in_or_app; right; left; reflexivity|].
    left. destruct Hc as [->|[iv [off [_ [_ [_ Hp]]]]]]; [exact Hin|].
    apply (Permutation_in _ (Permutation_sym Hp)). right. exact Hin.
  - intros s0 acc q [Hi0 Hk]. split; [apply Inv_set_dq, Hi0 | exact Hk].
  - intros s0 acc ev0 [Hi0 Hk] Hn. split; [exact Hi0|]. rewrite fired_app, (fired_noise _ Hn), app_nil_r. exact Hk.
  - split; [exact Hi|]. intros x Hx. left. exact Hx.
Qed.

(* a raising callback: only that task has left the queue, what it deferred is queued *)
Lemma process_task_raising : forall jit c s e, t_raises (cfg_get c (e_tid e)) = true ->
  process_task jit c s e = (set_dq s (dq s ++ t_defers (cfg_get c (e_tid e))), [fire_of s e], true).
Proof. intros jit c s e H. unfold process_task. rewrite H. reflexivity. Qed.

(* ---------- T6/T8b: progress and termination of run_once (guarded code) ---------- *)
Definition dcount (T : Z) (h : list entry) : nat := length (filter (fun e => e_when e <=? T) h).

Lemma due_count_eq : forall s, due_count s = dcount (now s) (heap s).
Proof. reflexivity. Qed.

Lemma dcount_perm : forall T h h', Permutation h h' -> dcount T h = dcount T h'.
Proof.
  intros T h h' P. unfold dcount. induction P; cbn [filter].
  - reflexivity.
  - destruct (e_when x <=? T); cbn [length]; congruence.
  - destruct (e_when x <=? T), (e_when y <=? T); reflexivity.
  - congruence.
Qed.

Lemma filter_none : forall A (f : A -> bool) l, (forall x, In x l -> f x = false) -> filter f l = [].
Proof.
  induction l as [|y l IH]; intros H; [reflexivity|]. cbn [filter].
  rewrite (H y (or_introl eq_refl)). apply IH. intros x Hx. apply H. right. exact Hx.
Qed.

Lemma dcount_sorted_zero : forall T e r, sorted (e :: r) -> T < e_when e -> dcount T (e :: r) = 0%nat.
Proof.
  intros T e r Hs Hd. inversion Hs as [|? ? _ Hf]; subst. rewrite Forall_forall in Hf.
  unfold dcount. rewrite filter_none; [reflexivity|].
  intros x [<-|Hx]; [lia|]. apply Hf in Hx. unfold elt in Hx. rewrite e_lt_spec in Hx. lia.
Qed.

Lemma dcount_in : forall T h x, In x h -> e_when x <= T -> (1 <= dcount T h)%nat.
Proof.
  intros T h x Hx Hd. unfold dcount.
  assert (Hi : In x (filter (fun e => e_when e <=? T) h)) by (apply filter_In; split; [exact Hx | lia]).
  destruct (filter (fun e => e_when e <=? T) h); [destruct Hi | cbn [length]; lia].
Qed.

Lemma do_drain_guarded : forall s, exists L, do_drain true s = (set_dq s [], calls L, false).
Proof.
  intros s. unfold do_drain. destruct (drain_all_guarded (dq s)) as [L [-> _]].
  exists L. rewrite app_nil_r. reflexivity.
Qed.

Lemma not_in_calls : forall L, ~ In (EvErr OutOfFuel) (calls L).
Proof.
  intros L Hi. unfold calls in Hi. apply in_flat_map in Hi. destruct Hi as [d [_ [Hi|Hi]]]; [discriminate|].
  destruct (d_raises d); [destruct Hi as [Hi|[]]; discriminate | destruct Hi].
Qed.

Lemma get_next_none_due : forall s s1 z, Inv s -> get_next_task s = (None, s1, z) -> due_count s = 0%nat.
Proof.
  intros s s1 z [[Hso _ _ _] _] G. unfold get_next_task in G. rewrite due_count_eq.
  destruct (heap s) as [|e r]; [reflexivity|].
  destruct (e_when e <=? now s) eqn:E; [discriminate|]. apply dcount_sorted_zero; [exact Hso | lia].
Qed.

Lemma run_once_loop_progress : forall jit c, 0 <= jit -> forall fuel s s' ev, Inv s ->
  (due_count s < fuel)%nat -> run_once_loop true jit c fuel s = (s', ev) ->
  ~ In (EvErr OutOfFuel) ev /\ now s' = now s /\ Inv s' /\
  (due_count s' = 0%nat \/ (In EvRaise ev /\ (due_count s' < due_count s)%nat)).
Proof.
  intros jit c Hj. induction fuel as [|f IH]; intros s s' ev Hi Hf H; [lia|].
  cbn [run_once_loop] in H.
  destruct (get_next_task s) as [[t s1] z] eqn:G. destruct t as [e|].
  - destruct (process_task jit c s1 e) as [[s2 ev1] r1] eqn:P.
    destruct (fire_heap_inv _ _ _ _ _ _ _ _ _ Hi G P) as [rest [Hh [Hd [-> [Hn [Hi2 Hc]]]]]].
    assert (Hs : due_count s = S (dcount (now s) rest)).
    { rewrite due_count_eq, Hh. unfold dcount. cbn [filter].
      destruct (e_when e <=? now s) eqn:E; [reflexivity | lia]. }
    assert (H2 : due_count s2 = dcount (now s) rest).
    { rewrite due_count_eq, Hn. destruct Hc as [->|[iv [off [_ [Hiv [_ Hp]]]]]]; [reflexivity|].
      rewrite (dcount_perm _ _ _ Hp). unfold dcount. cbn [filter e_when fst].
      pose proof (next_slot_after jit iv off (now s) Hiv Hj).
      destruct (next_slot jit iv off (now s) <=? now s) eqn:E; [lia | reflexivity]. }
    destruct r1.
    + inversion H; subst. split; [|split; [exact Hn | split; [exact Hi2|]]].
      * intros Hin. destruct Hin as [Hin|[Hin|[]]]; discriminate.
      * right. split; [right; left; reflexivity | lia].
    + destruct (do_drain_guarded s2) as [L HD]. rewrite HD in H.
      assert (Hi3 : Inv (set_dq s2 [])) by (apply Inv_set_dq, Hi2).
      assert (H3 : due_count (set_dq s2 []) = dcount (now s) rest) by exact H2.
      destruct (get_next_some _ _ _ _ G) as [rest' [Hh' [_ [_ Hz]]]].
      rewrite Hh in Hh'. inversion Hh'; subst rest'.
      destruct z.
      * destruct (run_once_loop true jit c f (set_dq s2 [])) as [s4 ev3] eqn:R. inversion H; subst.
        destruct (IH _ _ _ Hi3 ltac:(lia) R) as [Hnf [Hn4 [Hi4 Hp4]]].
        split; [|split; [cbn [now set_dq] in Hn4; congruence | split; [exact Hi4|]]].
        -- intros Hin. cbn [app] in Hin. destruct Hin as [Hin|Hin]; [discriminate|].
           apply in_app_or in Hin. destruct Hin as [Hin|Hin]; [exact (not_in_calls _ Hin) | exact (Hnf Hin)].
        -- destruct Hp4 as [Hz4|[Hr4 Hl4]]; [left; exact Hz4|].
           right. split; [right; apply in_or_app; right; exact Hr4 | lia].
      * inversion H; subst. split; [|split; [exact Hn | split; [exact Hi3|]]].
        -- intros Hin. cbn [app] in Hin. destruct Hin as [Hin|Hin]; [discriminate | exact (not_in_calls _ Hin)].
        -- left. rewrite H3. destruct rest as [|e' r']; [reflexivity|].
           destruct Hi as [[Hso _ _ _] _]. rewrite Hh in Hso. inversion Hso; subst.
           apply dcount_sorted_zero; [assumption | lia].
  - pose proof (get_next_none_due _ _ _ Hi G) as Hz0.
    apply get_next_none in G. destruct G as [-> ->].
    destruct (do_drain_guarded s) as [L HD]. rewrite HD in H. inversion H; subst.
    split; [exact (not_in_calls L)|]. split; [reflexivity|]. split; [apply Inv_set_dq, Hi|]. left. exact Hz0.
Qed.

Lemma run_once_progress : forall jit c s s' ev, 0 <= jit -> Inv s -> run_once true jit c s = (s', ev) ->
  ~ In (EvErr OutOfFuel) ev /\ now s' = now s /\ Inv s' /\
  (due_count s' = 0%nat \/ (In EvRaise ev /\ (due_count s' < due_count s)%nat)).
Proof.
  intros jit c s s' ev Hj Hi H. eapply run_once_loop_progress; [exact Hj | exact Hi | | exact H]. lia.
Qed.

(* enough passes run everything that was due, whatever raised on the way *)
Lemma passes_fire_all : forall jit c, 0 <= jit -> forall n s s' ev, Inv s -> (due_count s <= n)%nat ->
  run_ops true jit c s (repeat RunOnce (S n)) = (s', ev) ->
  Inv s' /\ now s' = now s /\ due_count s' = 0%nat /\
  (forall x, In x (heap s) -> In x (heap s') \/ In x (fired ev)) /\ ~ In (EvErr OutOfFuel) ev.
Proof.
  intros jit c Hj. induction n as [|n IH]; intros s s' ev Hi Hn H.
  - cbn [repeat run_ops step] in H. destruct (run_once true jit c s) as [s1 ev1] eqn:R.
    inversion H; subst. rewrite app_nil_r.
    destruct (run_once_progress _ _ _ _ _ Hj Hi R) as [Hnf [Hn1 [Hi1 Hp]]].
    split; [exact Hi1|]. split; [exact Hn1|]. split; [destruct Hp as [Hp|[_ Hp]]; [exact Hp | lia]|].
    split; [exact (run_once_conserves _ _ _ _ _ _ Hi R) | exact Hnf].
  - change (repeat RunOnce (S (S n))) with (RunOnce :: repeat RunOnce (S n)) in H.
    cbn [run_ops step] in H. destruct (run_once true jit c s) as [s1 ev1] eqn:R.
    destruct (run_ops true jit c s1 (repeat RunOnce (S n))) as [s2 ev2] eqn:R2. inversion H; subst.
    destruct (run_once_progress _ _ _ _ _ Hj Hi R) as [Hnf [Hn1 [Hi1 Hp]]].
    assert (Hle : (due_count s1 <= n)%nat) by (destruct Hp as [Hp|[_ Hp]]; lia).
    destruct (IH _ _ _ Hi1 Hle R2) as [Hi2 [Hn2 [Hz [Hk Hnf2]]]].
    split; [exact Hi2|]. split; [congruence|]. split; [exact Hz|]. split.
    + intros x Hx. rewrite fired_app.
      destruct (run_once_conserves _ _ _ _ _ _ Hi R x Hx) as [Hx1|Hx1]; [|right; apply in_or_app; left; exact Hx1].
      destruct (Hk x Hx1) as [Hx2|Hx2]; [left; exact Hx2 | right; apply in_or_app; right; exact Hx2].
    + intros Hin. apply in_app_or in Hin. destruct Hin; [apply Hnf | apply Hnf2]; assumption.
Qed.

Lemma due_tasks_fire_despite_raises : forall jit c s s' ev, 0 <= jit -> Inv s ->
  run_ops true jit c s (repeat RunOnce (S (due_count s))) = (s', ev) ->
  forall x, In x (heap s) -> e_when x <= now s -> In x (fired ev).
Proof.
  intros jit c s s' ev Hj Hi H x Hx Hd.
  destruct (passes_fire_all jit c Hj _ _ _ _ Hi (le_n _) H) as [_ [Hn [Hz [Hk _]]]].
  destruct (Hk x Hx) as [Hin|Hin]; [|exact Hin].
  exfalso. rewrite due_count_eq in Hz. pose proof (dcount_in (now s') _ _ Hin ltac:(lia)). lia.
Qed.

(* firing a recurring task that does not raise queues its next slot *)
Lemma recurring_requeued : forall jit c s e s1 z s2 ev r iv off, Inv s ->
  get_next_task s = (Some e, s1, z) -> process_task jit c s1 e = (s2, ev, r) ->
  t_kind (cfg_get c (e_tid e)) = Recurring iv off -> t_raises (cfg_get c (e_tid e)) = false -> 0 < iv ->
  r = false /\ In (next_slot jit iv off (now s), ctr s, e_tid e) (heap s2).
Proof.
  intros jit c s e s1 z s2 ev r iv off Hi G P K Hr Hiv.
  destruct (get_next_some _ _ _ _ G) as [rest [Hh [Hd [Hs1 _]]]]. subst s1.
  unfold process_task in P. rewrite Hr, K in P. unfold rec_install in P.
  destruct (iv <=? 0) eqn:E; [lia|].
  match type of P with context [tm_install ?a ?b] => destruct (tm_install a b) as [s3|err] eqn:T end.
  - inversion P; subst s2 ev r. split; [reflexivity|].
    destruct (tm_install_heap _ _ _ T) as [t [h1 [Ht [_ [Hp _]]]]].
    cbn [ttime set_ttime set_dq ctr now] in Ht, Hp. rewrite upd_same in Ht. inversion Ht; subst t.
    apply (Permutation_in _ (Permutation_sym Hp)). left. reflexivity.
  - exfalso. unfold tm_install in T. cbn [ttime set_ttime] in T. rewrite upd_same in T. discriminate.
Qed.
