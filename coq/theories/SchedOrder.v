(* SchedOrder.v — one pass of the event loops: firing order, nothing lost, progress despite
   raising tasks, termination within the supplied fuel. *)
From Bac Require Import Base Deferred DeferredFacts Sched SchedFacts SchedThms SchedPassive.
From Coq Require Import Permutation Sorted ZifyBool ZifyN ZifyNat.
Ltac Zify.zify_post_hook ::= Z.to_euclidean_division_equations.
Open Scope Z_scope.

Lemma sorted_snoc : forall l e, sorted l -> (forall k, In k l -> elt k e) -> sorted (l ++ [e]).
Proof.
  induction l as [|x l IH]; intros e Hs Hk; cbn [app].
  - repeat constructor.
  - inversion Hs as [|? ? Hl Hx]; subst. constructor.
    + apply IH; [exact Hl|]. intros k Hi. apply Hk. right. exact Hi.
    + apply Forall_app. split; [exact Hx|]. constructor; [|constructor]. apply Hk. left. reflexivity.
Qed.

(* ---------- T5: within one pass tasks fire in strictly increasing (due time, counter) order ---------- *)
Definition Ord (T : Z) (s : st) (acc : list event) : Prop :=
  Inv s /\ now s = T /\ sorted (fired acc) /\
  forall k, In k (fired acc) -> e_when k <= T /\ forall x, In x (heap s) -> elt k x.

Lemma Ord_fire : forall T jit c, passive_cfg c -> 0 <= jit -> forall s acc e s1 z s2 ev r, Ord T s acc -> passive_dq s ->
  get_next_task s = (Some e, s1, z) -> process_task jit c s1 e = (s2, ev, r) ->
  Ord T s2 (acc ++ pop_events s e s1 ++ ev) /\ passive_dq s2.
Proof.
  intros T jit c Hc Hj s acc e s1 z s2 ev r [Hi [HT [Hs Hk]]] Hp G P.
  destruct (fire_heap_inv _ _ _ _ _ _ _ _ _ Hc Hi Hp G P) as [rest [Hh [Hd [Hn [Hi2 [Hp2 [Hfd Hcs]]]]]]].
  split; [|exact Hp2].
  unfold Ord. rewrite fired_app, Hfd.
  assert (Hrest : Forall (elt e) rest).
  { destruct Hi as [[Hso _ _ _] _]. rewrite Hh in Hso. inversion Hso; assumption. }
  rewrite Forall_forall in Hrest.
  split; [exact Hi2|]. split; [congruence|]. split.
  - apply sorted_snoc; [exact Hs|]. intros k Hin. apply (Hk k Hin). rewrite Hh. left. reflexivity.
  - intros k Hin. apply in_app_or in Hin.
    assert (Hkw : e_when k <= T).
    { destruct Hin as [Hin|[<-|[]]]; [apply (Hk k Hin) | lia]. }
    split; [exact Hkw|]. intros x Hxin.
    assert (Hxr : In x rest -> elt k x).
    { intros Hr. destruct Hin as [Hin|[<-|[]]]; [apply (Hk k Hin); rewrite Hh; right; exact Hr | apply Hrest, Hr]. }
    destruct Hcs as [[Hr _]|[iv [off [_ [Hiv [_ [_ Hperm]]]]]]]; [rewrite Hr in Hxin; apply Hxr, Hxin|].
    apply (Permutation_in _ Hperm) in Hxin. destruct Hxin as [<-|Hxin]; [|apply Hxr, Hxin].
    unfold elt. apply e_lt_spec. left. cbn [e_when fst].
    pose proof (next_slot_after jit iv off (now s) Hiv Hj). lia.
Qed.

Lemma Ord_dq : forall T s acc q, Ord T s acc -> Ord T (set_dq s q) acc.
Proof. intros T s acc q [Hi [HT [Hs Hk]]]. split; [apply Inv_set_dq, Hi|]. split; [exact HT|]. split; assumption. Qed.

Lemma Ord_noise : forall T s acc ev, Ord T s acc -> noise ev -> Ord T s (acc ++ ev).
Proof. intros T s acc ev Ho Hn. unfold Ord. rewrite fired_app, (fired_noise _ Hn), app_nil_r. exact Ho. Qed.

Lemma Ord_init : forall s, Inv s -> Ord (now s) s [].
Proof. intros s Hi. split; [exact Hi|]. split; [reflexivity|]. split; [constructor | intros k []]. Qed.

Lemma run_once_ordered : forall guard jit c s s' ev, passive_cfg c -> passive_dq s -> 0 <= jit -> Inv s ->
  run_once guard jit c s = (s', ev) ->
  sorted (fired ev) /\ forall k, In k (fired ev) -> e_when k <= now s.
Proof.
  intros guard jit c s s' ev Hc Hp Hj Hi H.
  destruct (run_once_loop_P (Ord (now s)) jit c (Ord_fire _ jit c Hc Hj) (Ord_dq _) (Ord_noise _)
              guard _ s [] s' ev (Ord_init s Hi) Hp H) as [[_ [_ [Hs Hk]]] _].
  split; [exact Hs | intros k Hin; apply (Hk k Hin)].
Qed.

Lemma run_ordered : forall guard jit c s s' ev, passive_cfg c -> passive_dq s -> 0 <= jit -> Inv s ->
  run guard jit c s = (s', ev) ->
  sorted (fired ev) /\ forall k, In k (fired ev) -> e_when k <= now s.
Proof.
  intros guard jit c s s' ev Hc Hp Hj Hi H.
  destruct (run_loop_P (Ord (now s)) jit c (Ord_fire _ jit c Hc Hj) (Ord_dq _) (Ord_noise _)
              guard _ s [] s' ev (Ord_init s Hi) Hp H) as [[_ [_ [Hs Hk]]] _].
  split; [exact Hs | intros k Hin; apply (Hk k Hin)].
Qed.

(* whichever task fires is the least of the queue: nothing earlier, or equally early but installed before, waits *)
Lemma fire_is_min : forall s e s1 z, Inv s -> get_next_task s = (Some e, s1, z) ->
  e_when e <= now s /\ forall x, In x (heap s1) -> elt e x.
Proof.
  intros s e s1 z [[Hso _ _ _] _] G. destruct (get_next_some _ _ _ _ G) as [rest [Hh [Hd [-> _]]]].
  split; [exact Hd|]. cbn [heap]. rewrite Hh in Hso. inversion Hso as [|? ? _ Hf]; subst.
  rewrite Forall_forall in Hf. exact Hf.
Qed.

(* ---------- T8a: nothing is lost in a pass, whatever raises ---------- *)
Definition Keep (H0 : list entry) (s : st) (acc : list event) : Prop :=
  Inv s /\ forall x, In x H0 -> In x (heap s) \/ In x (fired acc).

Lemma Keep_fire : forall H0 jit c, passive_cfg c -> forall s acc e s1 z s2 ev r, Keep H0 s acc -> passive_dq s ->
  get_next_task s = (Some e, s1, z) -> process_task jit c s1 e = (s2, ev, r) ->
  Keep H0 s2 (acc ++ pop_events s e s1 ++ ev) /\ passive_dq s2.
Proof.
  intros H0 jit c Hc s acc e s1 z s2 ev r [Hi0 Hk] Hp G P.
  destruct (fire_heap_inv _ _ _ _ _ _ _ _ _ Hc Hi0 Hp G P) as [rest [Hh [_ [_ [Hi2 [Hp2 [Hfd Hx]]]]]]].
  split; [|exact Hp2]. split; [exact Hi2|]. intros x Hx0. rewrite fired_app, Hfd.
  destruct (Hk x Hx0) as [Hin|Hin]; [|right; apply in_or_app; left; exact Hin].
  rewrite Hh in Hin. destruct Hin as [<-|Hin]; [right; apply in_or_app; right; left; reflexivity|].
  left. destruct Hx as [[-> _]|[iv [off [_ [_ [_ [_ Hperm]]]]]]]; [exact Hin|].
  apply (Permutation_in _ (Permutation_sym Hperm)). right. exact Hin.
Qed.

Lemma Keep_dq : forall H0 s acc q, Keep H0 s acc -> Keep H0 (set_dq s q) acc.
Proof. intros H0 s acc q [Hi0 Hk]. split; [apply Inv_set_dq, Hi0 | exact Hk]. Qed.
Lemma Keep_noise : forall H0 s acc ev, Keep H0 s acc -> noise ev -> Keep H0 s (acc ++ ev).
Proof. intros H0 s acc ev [Hi0 Hk] Hn. split; [exact Hi0|]. rewrite fired_app, (fired_noise _ Hn), app_nil_r. exact Hk. Qed.
Lemma Keep_init : forall s, Inv s -> Keep (heap s) s [].
Proof. intros s Hi. split; [exact Hi|]. intros x Hx. left. exact Hx. Qed.

Lemma run_once_conserves : forall guard jit c s s' ev, passive_cfg c -> passive_dq s -> Inv s ->
  run_once guard jit c s = (s', ev) -> forall x, In x (heap s) -> In x (heap s') \/ In x (fired ev).
Proof.
  intros guard jit c s s' ev Hc Hp Hi H.
  exact (proj2 (proj1 (run_once_loop_P (Keep (heap s)) jit c (Keep_fire _ jit c Hc) (Keep_dq _) (Keep_noise _)
                         guard _ s [] s' ev (Keep_init s Hi) Hp H))).
Qed.

Lemma run_conserves : forall guard jit c s s' ev, passive_cfg c -> passive_dq s -> Inv s ->
  run guard jit c s = (s', ev) -> forall x, In x (heap s) -> In x (heap s') \/ In x (fired ev).
Proof.
  intros guard jit c s s' ev Hc Hp Hi H.
  exact (proj2 (proj1 (run_loop_P (Keep (heap s)) jit c (Keep_fire _ jit c Hc) (Keep_dq _) (Keep_noise _)
                         guard _ s [] s' ev (Keep_init s Hi) Hp H))).
Qed.

(* a raising callback: only that task has left the queue, what it deferred is queued *)
Lemma process_task_raising : forall jit c s e, passive_cfg c -> t_raises (cfg_get c (e_tid e)) = true ->
  process_task jit c s e = (set_dq s (dq s ++ t_defers (cfg_get c (e_tid e))), [fire_of s e], true).
Proof.
  intros jit c s e Hc H. unfold process_task. rewrite (proj1 (Hc (e_tid e))). cbn [run_acts]. rewrite H.
  reflexivity.
Qed.

(* ---------- T6/T8b: progress and termination of run_once (guarded code) ---------- *)
Definition dcount (T : Z) (h : list entry) : nat := length (filter (fun e => e_when e <=? T) h).

Lemma due_count_eq : forall s, due_count s = dcount (now s) (heap s).
Proof. reflexivity. Qed.

Lemma dcount_perm : forall T h h', Permutation h h' -> dcount T h = dcount T h'.
Proof.
  intros T h h' P. unfold dcount. induction P; cbn [filter].
  - reflexivity.
  - destruct (e_when x <=? T); cbn [length]; congruence.
  - destruct (e_when x <=? T), (e_when y <=? T); reflexivity.
  - congruence.
Qed.

Lemma filter_none : forall A (f : A -> bool) l, (forall x, In x l -> f x = false) -> filter f l = [].
Proof.
  induction l as [|y l IH]; intros H; [reflexivity|]. cbn [filter].
  rewrite (H y (or_introl eq_refl)). apply IH. intros x Hx. apply H. right. exact Hx.
Qed.

Lemma dcount_sorted_zero : forall T e r, sorted (e :: r) -> T < e_when e -> dcount T (e :: r) = 0%nat.
Proof.
  intros T e r Hs Hd. inversion Hs as [|? ? _ Hf]; subst. rewrite Forall_forall in Hf.
  unfold dcount. rewrite filter_none; [reflexivity|].
  intros x [<-|Hx]; [lia|]. apply Hf in Hx. unfold elt in Hx. rewrite e_lt_spec in Hx. lia.
Qed.

Lemma dcount_in : forall T h x, In x h -> e_when x <= T -> (1 <= dcount T h)%nat.
Proof.
  intros T h x Hx Hd. unfold dcount.
  assert (Hi : In x (filter (fun e => e_when e <=? T) h)) by (apply filter_In; split; [exact Hx | lia]).
  destruct (filter (fun e => e_when e <=? T) h); [destruct Hi | cbn [length]; lia].
Qed.

Lemma get_next_none_due : forall s s1 z, Inv s -> get_next_task s = (None, s1, z) -> due_count s = 0%nat.
Proof.
  intros s s1 z [[Hso _ _ _] _] G. unfold get_next_task in G. rewrite due_count_eq.
  destruct (heap s) as [|e r]; [reflexivity|].
  destruct (e_when e <=? now s) eqn:E; [discriminate|]. apply dcount_sorted_zero; [exact Hso | lia].
Qed.

Lemma fire_events_nofuel : forall s1 e ev, (ev = [fire_of s1 e] \/ exists i, ev = [fire_of s1 e; EvInst i true]) ->
  ~ In (EvErr OutOfFuel) ev.
Proof. intros s1 e ev [->|[i ->]] Hin; cbn in Hin; repeat (destruct Hin as [Hin|Hin]; [discriminate|]); destruct Hin. Qed.

Lemma run_once_loop_progress : forall jit c, passive_cfg c -> 0 <= jit -> forall fuel s s' ev, Inv s -> passive_dq s ->
  (due_count s < fuel)%nat -> run_once_loop true jit c fuel s = (s', ev) ->
  ~ In (EvErr OutOfFuel) ev /\ now s' = now s /\ Inv s' /\ passive_dq s' /\
  (due_count s' = 0%nat \/ (In EvRaise ev /\ (due_count s' < due_count s)%nat)).
Proof.
  intros jit c Hc Hj. induction fuel as [|f IH]; intros s s' ev Hi Hp Hf H; [lia|].
  cbn [run_once_loop] in H.
  destruct (get_next_task s) as [[t s1] z] eqn:G. destruct t as [e|].
  - destruct (process_task jit c s1 e) as [[s2 ev1] r1] eqn:P. cbv beta iota zeta in H.
    destruct (fire_heap_inv _ _ _ _ _ _ _ _ _ Hc Hi Hp G P) as [rest [Hh [Hd [Hn [Hi2 [Hp2 [_ Hx]]]]]]].
    assert (Hev : ev1 = [fire_of s1 e] \/ exists i, ev1 = [fire_of s1 e; EvInst i true]).
    { destruct Hx as [[_ ->]|[iv [off [_ [_ [_ [-> _]]]]]]]; [left; reflexivity | right; eexists; reflexivity]. }
    assert (Hs : due_count s = S (dcount (now s) rest)).
    { rewrite due_count_eq, Hh. unfold dcount. cbn [filter].
      destruct (e_when e <=? now s) eqn:E; [reflexivity | lia]. }
    assert (H2 : due_count s2 = dcount (now s) rest).
    { rewrite due_count_eq, Hn. destruct Hx as [[-> _]|[iv [off [_ [Hiv [_ [_ Hperm]]]]]]]; [reflexivity|].
      rewrite (dcount_perm _ _ _ Hperm). unfold dcount. cbn [filter e_when fst].
      pose proof (next_slot_after jit iv off (now s) Hiv Hj).
      destruct (next_slot jit iv off (now s) <=? now s) eqn:E; [lia | reflexivity]. }
    destruct r1.
    + inversion H; subst. split; [|split; [exact Hn | split; [exact Hi2 | split; [exact Hp2|]]]].
      * intros Hin. destruct Hin as [Hin|Hin]; [discriminate|]. apply in_app_or in Hin.
        destruct Hin as [Hin|[Hin|[]]]; [exact (fire_events_nofuel _ _ _ Hev Hin) | discriminate].
      * right. split; [right; apply in_or_app; right; left; reflexivity | lia].
    + destruct (do_drain true jit c s2) as [[s3 ev2] r2] eqn:D.
      destruct (do_drain_passive _ _ _ _ _ _ _ Hp2 D) as [q [-> [_ [_ Hg]]]].
      destruct (Hg eq_refl) as [-> [-> Hnf2]].
      assert (Hi3 : Inv (set_dq s2 [])) by (apply Inv_set_dq, Hi2).
      assert (Hp3 : passive_dq (set_dq s2 [])) by reflexivity.
      assert (H3 : due_count (set_dq s2 []) = dcount (now s) rest) by exact H2.
      destruct (get_next_some _ _ _ _ G) as [rest' [Hh' [_ [Hs1 Hz]]]].
      rewrite Hh in Hh'. inversion Hh'; subst rest'.
      destruct z.
      * destruct (run_once_loop true jit c f (set_dq s2 [])) as [s4 ev3] eqn:R. inversion H; subst s' ev.
        destruct (IH _ _ _ Hi3 Hp3 ltac:(lia) R) as [Hnf [Hn4 [Hi4 [Hp4 Hpr]]]].
        split; [|split; [cbn [now set_dq] in Hn4; congruence | split; [exact Hi4 | split; [exact Hp4|]]]].
        -- intros Hin. destruct Hin as [Hin|Hin]; [discriminate|]. apply in_app_or in Hin.
           destruct Hin as [Hin|Hin]; [exact (fire_events_nofuel _ _ _ Hev Hin)|].
           apply in_app_or in Hin. destruct Hin as [Hin|Hin]; [exact (Hnf2 Hin) | exact (Hnf Hin)].
        -- destruct Hpr as [Hz4|[Hr4 Hl4]]; [left; exact Hz4|].
           right. split; [right; apply in_or_app; right; apply in_or_app; right; exact Hr4 | lia].
      * inversion H; subst s' ev. split; [|split; [exact Hn | split; [exact Hi3 | split; [exact Hp3|]]]].
        -- intros Hin. destruct Hin as [Hin|Hin]; [discriminate|]. apply in_app_or in Hin.
           destruct Hin as [Hin|Hin]; [exact (fire_events_nofuel _ _ _ Hev Hin) | exact (Hnf2 Hin)].
        -- left. rewrite H3. destruct rest as [|e' r']; [reflexivity|].
           destruct Hi as [[Hso _ _ _] _]. rewrite Hh in Hso. inversion Hso; subst.
           apply dcount_sorted_zero; [assumption | lia].
  - cbv beta iota zeta in H. pose proof (get_next_none_due _ _ _ Hi G) as Hz0.
    apply get_next_none in G. destruct G as [-> ->].
    destruct (do_drain true jit c s) as [[s3 ev2] r2] eqn:D.
    destruct (do_drain_passive _ _ _ _ _ _ _ Hp D) as [q [-> [_ [_ Hg]]]].
    destruct (Hg eq_refl) as [-> [-> Hnf2]]. inversion H; subst.
    split; [exact Hnf2|]. split; [reflexivity|]. split; [apply Inv_set_dq, Hi|]. split; [reflexivity|]. left. exact Hz0.
Qed.

Lemma run_once_progress : forall jit c s s' ev, passive_cfg c -> passive_dq s -> 0 <= jit -> Inv s ->
  run_once true jit c s = (s', ev) ->
  ~ In (EvErr OutOfFuel) ev /\ now s' = now s /\ Inv s' /\ passive_dq s' /\
  (due_count s' = 0%nat \/ (In EvRaise ev /\ (due_count s' < due_count s)%nat)).
Proof.
  intros jit c s s' ev Hc Hp Hj Hi H. eapply (run_once_loop_progress jit c Hc Hj); [exact Hi | exact Hp | | exact H]. lia.
Qed.

(* enough passes run everything that was due, whatever raised on the way *)
Lemma passes_fire_all : forall jit c, passive_cfg c -> 0 <= jit -> forall n s s' ev, Inv s -> passive_dq s ->
  (due_count s <= n)%nat -> run_ops true jit c s (repeat RunOnce (S n)) = (s', ev) ->
  Inv s' /\ now s' = now s /\ due_count s' = 0%nat /\
  (forall x, In x (heap s) -> In x (heap s') \/ In x (fired ev)) /\ ~ In (EvErr OutOfFuel) ev.
Proof.
  intros jit c Hc Hj. induction n as [|n IH]; intros s s' ev Hi Hp Hn H.
  - cbn [repeat run_ops step] in H. destruct (run_once true jit c s) as [s1 ev1] eqn:R.
    inversion H; subst. rewrite app_nil_r.
    destruct (run_once_progress _ _ _ _ _ Hc Hp Hj Hi R) as [Hnf [Hn1 [Hi1 [_ Hpr]]]].
    split; [exact Hi1|]. split; [exact Hn1|]. split; [destruct Hpr as [Hpr|[_ Hpr]]; [exact Hpr | lia]|].
    split; [exact (run_once_conserves _ _ _ _ _ _ Hc Hp Hi R) | exact Hnf].
  - change (repeat RunOnce (S (S n))) with (RunOnce :: repeat RunOnce (S n)) in H.
    cbn [run_ops step] in H. destruct (run_once true jit c s) as [s1 ev1] eqn:R.
    destruct (run_ops true jit c s1 (repeat RunOnce (S n))) as [s2 ev2] eqn:R2. inversion H; subst.
    destruct (run_once_progress _ _ _ _ _ Hc Hp Hj Hi R) as [Hnf [Hn1 [Hi1 [Hp1 Hpr]]]].
    assert (Hle : (due_count s1 <= n)%nat) by (destruct Hpr as [Hpr|[_ Hpr]]; lia).
    destruct (IH _ _ _ Hi1 Hp1 Hle R2) as [Hi2 [Hn2 [Hz [Hk Hnf2]]]].
    split; [exact Hi2|]. split; [congruence|]. split; [exact Hz|]. split.
    + intros x Hx. rewrite fired_app.
      destruct (run_once_conserves _ _ _ _ _ _ Hc Hp Hi R x Hx) as [Hx1|Hx1]; [|right; apply in_or_app; left; exact Hx1].
      destruct (Hk x Hx1) as [Hx2|Hx2]; [left; exact Hx2 | right; apply in_or_app; right; exact Hx2].
    + intros Hin. apply in_app_or in Hin. destruct Hin; [apply Hnf | apply Hnf2]; assumption.
Qed.

Lemma due_tasks_fire_despite_raises : forall jit c s s' ev, passive_cfg c -> passive_dq s -> 0 <= jit -> Inv s ->
  run_ops true jit c s (repeat RunOnce (S (due_count s))) = (s', ev) ->
  forall x, In x (heap s) -> e_when x <= now s -> In x (fired ev).
Proof.
  intros jit c s s' ev Hc Hp Hj Hi H x Hx Hd.
  destruct (passes_fire_all jit c Hc Hj _ _ _ _ Hi Hp (le_n _) H) as [_ [Hn [Hz [Hk _]]]].
  destruct (Hk x Hx) as [Hin|Hin]; [|exact Hin].
  exfalso. rewrite due_count_eq in Hz. pose proof (dcount_in (now s') _ _ Hin ltac:(lia)). lia.
Qed.

(* firing a recurring task that neither raises nor fails queues its next slot (any program) *)
Lemma recurring_requeued : forall jit c s e s1 z s2 ev r iv off, passive_cfg c -> Inv s -> passive_dq s ->
  get_next_task s = (Some e, s1, z) -> process_task jit c s1 e = (s2, ev, r) ->
  t_kind (cfg_get c (e_tid e)) = Recurring iv off -> t_raises (cfg_get c (e_tid e)) = false -> 0 < iv ->
  r = false /\ In (next_slot jit iv off (now s), ctr s, e_tid e) (heap s2).
Proof.
  intros jit c s e s1 z s2 ev r iv off Hc Hi Hp G P K Hr Hiv.
  destruct (fire_heap_inv _ _ _ _ _ _ _ _ _ Hc Hi Hp G P) as [rest [Hh [_ [_ [_ [_ [_ Hx]]]]]]].
  destruct Hx as [[Hrest Hev]|[iv' [off' [K' [_ [-> [_ Hperm]]]]]]].
  - exfalso. unfold process_task in P. rewrite (proj1 (Hc (e_tid e))) in P. cbn [run_acts] in P.
    rewrite Hr, K in P. cbn [orb] in P. unfold rec_install in P. destruct (iv <=? 0) eqn:E; [lia|].
    match type of P with context [tm_install ?a ?b] => destruct (tm_install a b) as [s3|err] eqn:T end.
    + inversion P; subst. discriminate.
    + unfold tm_install in T. cbn [ttime set_ttime] in T. rewrite upd_same in T. discriminate.
  - rewrite K in K'. inversion K'; subst iv' off'. split; [reflexivity|].
    apply (Permutation_in _ (Permutation_sym Hperm)). left. reflexivity.
Qed.
